/-
Frame ("sibling isolation") lemmas for the system model: what the building blocks of `step`
(`insertAsc`, `erase`, `putStream`, `putTopic`, `putPart`, `Topic.send`, `Topic.resolve`, …) leave
alone.  The property theorems are in `Iggy/Props/Frame.lean`.
-/
import Iggy.Sys.CatalogLemmas
import Iggy.Sys.GroupLemmas
import Iggy.Sys.AuthLemmas
namespace Iggy.Sys
open Iggy.Log Iggy.Perm
set_option linter.unusedSimpArgs false
set_option linter.unusedVariables false

deriving instance DecidableEq for Topic
deriving instance DecidableEq for Stream

/-! ## what an operation names -/

/-- the stream an operation names (`none`: the operation names no stream) -/
def Op.stream? : Op → Option Ident
  | .updateStream s _ | .deleteStream s | .purgeStream s | .createTopic s .. | .updateTopic s ..
  | .deleteTopic s _ | .purgeTopic s _ | .createParts s .. | .deleteParts s .. | .createGroup s ..
  | .deleteGroup s .. | .join _ s .. | .leave _ s .. | .groupInfo s .. | .groups s _ | .send s ..
  | .poll _ s .. | .flush s .. | .storeOffset _ s .. | .getOffset _ s .. | .deleteOffset _ s ..
  | .evict s .. | .topicInfo s _ | .topics s | .streamInfo s => some s
  | .clock _ | .createStream .. | .me .. | .close _ | .save | .maintain | .restart _ | .streams
  | .stats => none

/-- the topic an operation names -/
def Op.topic? : Op → Option Ident
  | .updateTopic _ t .. | .deleteTopic _ t | .purgeTopic _ t | .createParts _ t _ | .deleteParts _ t _
  | .createGroup _ t .. | .deleteGroup _ t _ | .join _ _ t _ | .leave _ _ t _ | .groupInfo _ t ..
  | .groups _ t | .send _ t .. | .poll _ _ t .. | .flush _ t _ | .storeOffset _ _ t ..
  | .getOffset _ _ t .. | .deleteOffset _ _ t .. | .evict _ t .. | .topicInfo _ t => some t
  | _ => none

/-- the partition an operation names explicitly -/
def Op.part? : Op → Option Nat
  | .send _ _ (.pid k) _ | .poll _ _ _ (some k) .. | .storeOffset _ _ _ (some k) ..
  | .getOffset _ _ _ (some k) _ | .deleteOffset _ _ _ (some k) _ | .flush _ _ k | .evict _ _ k _ => some k
  | _ => none

/-! ## association lists: agreement off one key -/

section
variable {α : Type}

/-- `l'` has the same entry as `l` under every key other than `k` -/
def AgreeOff (k : Nat) (l l' : List (Nat × α)) : Prop := ∀ k', k' ≠ k → find? l' k' = find? l k'

theorem AgreeOff.refl (k : Nat) (l : List (Nat × α)) : AgreeOff k l l := fun _ _ => rfl

theorem AgreeOff.of_eq {k : Nat} {l l' : List (Nat × α)} (h : l' = l) : AgreeOff k l l' := by
  subst h; exact .refl _ _

theorem AgreeOff.trans {k : Nat} {l₁ l₂ l₃ : List (Nat × α)} (h₁ : AgreeOff k l₁ l₂) (h₂ : AgreeOff k l₂ l₃) :
    AgreeOff k l₁ l₃ := fun k' hk => (h₂ k' hk).trans (h₁ k' hk)

theorem AgreeOff.insert {k : Nat} {l l' : List (Nat × α)} (h : AgreeOff k l l') (v : α) :
    AgreeOff k l (insertAsc l' k v) := fun k' hk => (find?_insertAsc_ne l' v hk).trans (h k' hk)

theorem AgreeOff.erase {k : Nat} {l l' : List (Nat × α)} (h : AgreeOff k l l') :
    AgreeOff k l (erase l' k) := fun k' hk => (find?_erase_ne l' hk).trans (h k' hk)

end

/-! ## projections of the state transformers -/

@[simp] theorem Sys.journalAdd_streams (y : Sys) (e : Entry) : (y.journalAdd e).streams = y.streams := rfl
@[simp] theorem Sys.dropMemberships_streams (y : Sys) (f : Nat × Nat × Nat → Bool) :
    (y.dropMemberships f).streams = y.streams := rfl
@[simp] theorem Sys.putStream_streams (y : Sys) (s : Stream) :
    (y.putStream s).streams = insertAsc y.streams s.id s := rfl
@[simp] theorem Sys.putTopic_streams (y : Sys) (s : Stream) (t : Topic) :
    (y.putTopic s t).streams = insertAsc y.streams s.id (s.putTopic t) := rfl
@[simp] theorem Stream.putTopic_id (s : Stream) (t : Topic) : (s.putTopic t).id = s.id := rfl
@[simp] theorem Stream.putTopic_name (s : Stream) (t : Topic) : (s.putTopic t).name = s.name := rfl
@[simp] theorem Stream.putTopic_topics (s : Stream) (t : Topic) :
    (s.putTopic t).topics = insertAsc s.topics t.id t := rfl


/-! ## reading the catalogue by key -/

/-- the topic stored under (stream id, topic id) -/
def topicOf (l : List (Nat × Stream)) (sid tid : Nat) : Option Topic :=
  (find? l sid).bind (fun s => find? s.topics tid)

/-- the partition stored under a partition key -/
def partOf (l : List (Nat × Stream)) (k : PKey) : Option Part :=
  (topicOf l k.1 k.2.1).bind (fun t => find? t.parts k.2.2)

/-- the stream entry under a numeric id -/
def Sys.stream? (y : Sys) (sid : Nat) : Option Stream := find? y.streams sid
/-- the topic entry under numeric ids -/
def Sys.topic? (y : Sys) (sid tid : Nat) : Option Topic := topicOf y.streams sid tid
/-- the partition under a partition key -/
def Sys.part? (y : Sys) (k : PKey) : Option Part := partOf y.streams k

/-- the partition an effect is about -/
def Effect.key : Effect → PKey
  | .created k _ | .deleted k | .appended k _ _ | .purged k | .dropped k _ | .restarted k | .setExpiry k _
  | .offStored k _ _ _ | .offDeleted k _ _ => k

/-! ## the opaque sub-steps -/

theorem Topic.resolve_cases (t : Topic) (cons : Consumer) (client : Nat) (pid : Option Nat) (rot : Bool) :
    (∃ e, t.resolve cons client pid rot = .error e) ∨
    (∃ r gs, t.resolve cons client pid rot = .ok (r, { t with groups := gs }) ∧ (∀ k, pid = some k → r = some k)) := by
  unfold Topic.resolve
  split
  · exact .inr ⟨_, t.groups, rfl, fun k hk => by simp [hk]⟩
  · split
    · exact .inl ⟨_, rfl⟩
    · split
      · exact .inr ⟨_, t.groups, rfl, fun k hk => by simp_all⟩
      · split
        · exact .inl ⟨_, rfl⟩
        · split
          · exact .inr ⟨_, _, rfl, fun k hk => by simp at hk⟩
          · exact .inr ⟨_, t.groups, rfl, fun k hk => by simp at hk⟩

theorem Topic.send_cases (t : Topic) (cfg : Cfg) (sc : SCfg) (sid now : Nat) (part : Partitioning) (msgs : List InMsg) :
    (∃ cur out, t.send cfg sc sid now part msgs = ({ t with cursor := cur }, out, [])) ∨
    (∃ cur pid p p', find? t.parts pid = some p ∧ p.append cfg now msgs = .ok p' ∧ (∀ k, part = .pid k → pid = k) ∧
      t.send cfg sc sid now part msgs =
        ({ t with cursor := cur, parts := insertAsc t.parts pid p' }, .ok, [.appended (sid, t.id, pid) now msgs])) := by
  unfold Topic.send
  split
  · exact .inl ⟨t.cursor, _, rfl⟩
  · split
    · exact .inl ⟨t.cursor, _, rfl⟩
    · split
      · exact .inl ⟨t.cursor, _, rfl⟩
      · cases part with
        | balanced =>
          simp only [Topic.nextPartition]
          split
          · exact .inl ⟨_, _, rfl⟩
          · split
            · exact .inl ⟨_, _, rfl⟩
            · next p hp _ p' hp' =>
              exact .inr ⟨_, _, p, p', hp, hp', fun k hk => (by cases hk), rfl⟩
        | pid n =>
          simp only
          split
          · exact .inl ⟨t.cursor, _, rfl⟩
          · split
            · exact .inl ⟨t.cursor, _, rfl⟩
            · next p hp _ p' hp' =>
              exact .inr ⟨t.cursor, _, p, p', hp, hp', fun k hk => (by cases hk; rfl), rfl⟩
        | key h =>
          simp only
          split
          · exact .inl ⟨t.cursor, _, rfl⟩
          · split
            · exact .inl ⟨t.cursor, _, rfl⟩
            · next p hp _ p' hp' =>
              exact .inr ⟨t.cursor, _, p, p', hp, hp', fun k hk => (by cases hk), rfl⟩


/-! ## target 1: streams -/

/-- an operation that names a stream which resolves to `s` leaves the entry of every other stream id
alone — for every state, without any well-formedness assumption -/
theorem step_streams_agreeOff (y : Sys) (op : Op) (si : Ident) (s : Stream) (hop : op.stream? = some si)
    (hs : y.findStream si = .ok s) : AgreeOff s.id y.streams (step y op).1.streams := by
  cases op <;> simp only [Op.stream?, Option.some.injEq, reduceCtorEq] at hop <;> cases hop
  all_goals simp only [step, Sys.withTopic, Sys.withPart, hs]
  all_goals repeat' split
  all_goals try simp only [Sys.journalAdd_streams, Sys.dropMemberships_streams, Sys.putStream_streams,
    Sys.putTopic_streams, Stream.putTopic_id]
  all_goals repeat (first | exact AgreeOff.refl _ _ | apply AgreeOff.insert | apply AgreeOff.erase)


theorem step_unresolved_stream (y : Sys) (op : Op) (si : Ident) (e : String) (hop : op.stream? = some si)
    (hs : y.findStream si = .error e) : (step y op).1 = y := by
  cases op <;> simp only [Op.stream?, Option.some.injEq, reduceCtorEq] at hop <;> cases hop
  all_goals simp only [step, Sys.withTopic, Sys.withPart, hs]
  all_goals try split
  all_goals rfl

theorem step_unresolved_topic (y : Sys) (op : Op) (si ti : Ident) (s : Stream) (e : String) (hop : op.stream? = some si)
    (hop' : op.topic? = some ti)
    (hs : y.findStream si = .ok s) (ht : s.findTopic ti = .error e) : (step y op).1 = y := by
  cases op <;> simp only [Op.stream?, Op.topic?, Option.some.injEq, reduceCtorEq] at hop hop' <;> cases hop <;> cases hop'
  all_goals simp only [step, Sys.withTopic, Sys.withPart, hs, ht]
  all_goals try split
  all_goals rfl

/-- operations that name no stream and are not global -/
theorem step_local_streams (y : Sys) (op : Op) (hop : op.stream? = none)
    (h1 : ∀ i n, op ≠ .createStream i n) (h2 : ∀ c, op ≠ .close c) (h3 : op ≠ .save) (h4 : op ≠ .maintain)
    (h5 : ∀ cl, op ≠ .restart cl) : (step y op).1.streams = y.streams := by
  cases op <;> simp only [Op.stream?, reduceCtorEq] at hop
  case createStream i n => exact absurd rfl (h1 i n)
  case close c => exact absurd rfl (h2 c)
  case save => exact absurd rfl h3
  case maintain => exact absurd rfl h4
  case restart cl => exact absurd rfl (h5 cl)
  all_goals rfl

theorem step_createStream_keeps (y : Sys) (id : Option Nat) (name : String) (sid : Nat) (s : Stream)
    (h : find? y.streams sid = some s) : find? (step y (.createStream id name)).1.streams sid = some s := by
  cases id <;> simp only [step]
  all_goals
    split
    · exact h
    · split
      · exact h
      · next hnew =>
        simp only [Sys.journalAdd_streams]
        rw [find?_insertAsc_ne _ _ _, h]
        rintro rfl
        simp [h] at hnew

/-! ## target 2: topics -/

/-- an operation that names topic `t` of stream `s` leaves every other topic entry of `s` alone -/
theorem step_topics_agreeOff (y : Sys) (op : Op) (si ti : Ident) (s : Stream) (t : Topic) (hop : op.stream? = some si)
    (hop' : op.topic? = some ti)
    (hs : y.findStream si = .ok s) (ht : s.findTopic ti = .ok t) (hk : find? y.streams s.id = some s)
    (tid' : Nat) (hne : tid' ≠ t.id) : topicOf (step y op).1.streams s.id tid' = find? s.topics tid' := by
  cases op <;> simp only [Op.stream?, Op.topic?, Option.some.injEq, reduceCtorEq] at hop hop' <;> cases hop <;> cases hop'
  case send p msgs =>
    simp only [step, Sys.withTopic, hs, ht]
    rcases t.send_cases y.cfg y.scfg s.id y.now p msgs with ⟨cur, out, he⟩ | ⟨cur, pid, p, p', _, _, _, he⟩ <;>
      simp [he, topicOf, find?_insertAsc_self, find?_insertAsc_ne, hne]
  case poll c pid cons k count auto =>
    simp only [step, Sys.withTopic, hs, ht]
    rcases t.resolve_cases cons (y.clientOf c) pid true with ⟨e, he⟩ | ⟨_ | r, gs, he, _⟩ <;> simp only [he]
    all_goals repeat' split
    all_goals simp [topicOf, find?_insertAsc_self, find?_insertAsc_ne, hne, hk, Topic.putPart]
  case storeOffset c pid cons off =>
    simp only [step, Sys.withTopic, hs, ht]
    rcases t.resolve_cases cons (y.clientOf c) pid false with ⟨e, he⟩ | ⟨_ | r, gs, he, _⟩ <;> simp only [he]
    all_goals repeat' split
    all_goals simp [topicOf, find?_insertAsc_self, find?_insertAsc_ne, hne, hk, Topic.putPart]
  case getOffset c pid cons =>
    simp only [step, Sys.withTopic, hs, ht]
    rcases t.resolve_cases cons (y.clientOf c) pid false with ⟨e, he⟩ | ⟨_ | r, gs, he, _⟩ <;> simp only [he]
    all_goals repeat' split
    all_goals simp [topicOf, find?_insertAsc_self, find?_insertAsc_ne, hne, hk, Topic.putPart]
  case deleteOffset c pid cons =>
    simp only [step, Sys.withTopic, hs, ht]
    rcases t.resolve_cases cons (y.clientOf c) pid false with ⟨e, he⟩ | ⟨_ | r, gs, he, _⟩ <;> simp only [he]
    all_goals repeat' split
    all_goals simp [topicOf, find?_insertAsc_self, find?_insertAsc_ne, hne, hk, Topic.putPart]
  all_goals simp only [step, Sys.withTopic, Sys.withPart, hs, ht]
  all_goals repeat' split
  all_goals try simp [topicOf, find?_insertAsc_self, find?_insertAsc_ne, find?_erase_ne, hne, hk, Topic.putPart, Topic.putGroup, Topic.reassignGroups, mapParts]


/-- operations that name a stream but no topic, other than purge / delete stream -/
theorem step_stream_op_keeps_topics (y : Sys) (op : Op) (si : Ident) (s : Stream) (hop : op.stream? = some si)
    (hop' : op.topic? = none) (h1 : op ≠ .purgeStream si) (h2 : op ≠ .deleteStream si)
    (hs : y.findStream si = .ok s) (hk : find? y.streams s.id = some s) (tid : Nat) (t : Topic)
    (ht : find? s.topics tid = some t) : topicOf (step y op).1.streams s.id tid = some t := by
  cases op <;> simp only [Op.stream?, Op.topic?, Option.some.injEq, reduceCtorEq] at hop hop' <;> cases hop
  case purgeStream => exact absurd rfl h1
  case deleteStream => exact absurd rfl h2
  case createTopic id name n e m r =>
    cases id <;> simp only [step, hs]
    all_goals repeat' split
    all_goals try simp [topicOf, hk, ht, find?_insertAsc_self]
    all_goals
      next hnew =>
      rw [find?_insertAsc_ne _ _ _, ht]
      rintro rfl
      simp [ht] at hnew
  all_goals simp only [step, hs]
  all_goals repeat' split
  all_goals simp [topicOf, hk, ht, find?_insertAsc_self]

theorem step_purgeStream_topics (y : Sys) (si : Ident) (s : Stream)
    (hs : y.findStream si = .ok s) (tid : Nat) :
    topicOf (step y (.purgeStream si)).1.streams s.id tid =
      (find? s.topics tid).map (fun t => mapParts t (fun p => p.purge y.cfg y.now)) := by
  simp only [step, hs]
  simp [topicOf, find?_insertAsc_self]
  exact find?_mapE (fun _ t => mapParts t (fun p => p.purge y.cfg y.now)) s.topics tid

theorem step_deleteStream_gone (y : Sys) (si : Ident) (s : Stream)
    (hs : y.findStream si = .ok s) : find? (step y (.deleteStream si)).1.streams s.id = none := by
  simp only [step, hs]
  exact find?_erase_self _ _

/-! ## target 3: partitions -/

/-- an operation that names partition `k` of topic `t` leaves every other partition of `t` alone -/
theorem step_parts_agreeOff (y : Sys) (op : Op) (si ti : Ident) (s : Stream) (t : Topic) (k : Nat) (hop : op.stream? = some si)
    (hop' : op.topic? = some ti) (hp : op.part? = some k)
    (hs : y.findStream si = .ok s) (ht : s.findTopic ti = .ok t) (hk : find? y.streams s.id = some s)
    (hkt : find? s.topics t.id = some t)
    (k' : Nat) (hne : k' ≠ k) : partOf (step y op).1.streams (s.id, t.id, k') = find? t.parts k' := by
  cases op <;> simp only [Op.stream?, Op.topic?, Option.some.injEq, reduceCtorEq] at hop hop' <;> cases hop <;> cases hop'
  case send p msgs =>
    cases p <;> simp only [Op.part?, Option.some.injEq, reduceCtorEq] at hp
    cases hp
    simp only [step, Sys.withTopic, hs, ht]
    rcases t.send_cases y.cfg y.scfg s.id y.now (.pid k) msgs with ⟨cur, out, he⟩ | ⟨cur, pid, p, p', _, _, hpid, he⟩
    · simp [he, partOf, topicOf, find?_insertAsc_self, find?_insertAsc_ne, hne]
    · cases hpid k rfl
      simp [he, partOf, topicOf, find?_insertAsc_self, find?_insertAsc_ne, hne]
  case poll c pid cons kd count auto =>
    cases pid <;> simp only [Op.part?, Option.some.injEq, reduceCtorEq] at hp
    cases hp
    simp only [step, Sys.withTopic, hs, ht]
    rcases t.resolve_cases cons (y.clientOf c) (some k) true with ⟨e, he⟩ | ⟨r, gs, he, hr⟩
    · simp only [he]
      repeat' split
      all_goals simp [partOf, topicOf, find?_insertAsc_self, find?_insertAsc_ne, hne, hk, hkt, Topic.putPart]
    · cases hr k rfl
      simp only [he]
      repeat' split
      all_goals simp [partOf, topicOf, find?_insertAsc_self, find?_insertAsc_ne, hne, hk, hkt, Topic.putPart]
  case storeOffset c pid cons off =>
    cases pid <;> simp only [Op.part?, Option.some.injEq, reduceCtorEq] at hp
    cases hp
    simp only [step, Sys.withTopic, hs, ht]
    rcases t.resolve_cases cons (y.clientOf c) (some k) false with ⟨e, he⟩ | ⟨r, gs, he, hr⟩
    · simp only [he]
      repeat' split
      all_goals simp [partOf, topicOf, find?_insertAsc_self, find?_insertAsc_ne, hne, hk, hkt, Topic.putPart]
    · cases hr k rfl
      simp only [he]
      repeat' split
      all_goals simp [partOf, topicOf, find?_insertAsc_self, find?_insertAsc_ne, hne, hk, hkt, Topic.putPart]
  case getOffset c pid cons =>
    cases pid <;> simp only [Op.part?, Option.some.injEq, reduceCtorEq] at hp
    cases hp
    simp only [step, Sys.withTopic, hs, ht]
    rcases t.resolve_cases cons (y.clientOf c) (some k) false with ⟨e, he⟩ | ⟨r, gs, he, hr⟩
    · simp only [he]
      repeat' split
      all_goals simp [partOf, topicOf, find?_insertAsc_self, find?_insertAsc_ne, hne, hk, hkt, Topic.putPart]
    · cases hr k rfl
      simp only [he]
      repeat' split
      all_goals simp [partOf, topicOf, find?_insertAsc_self, find?_insertAsc_ne, hne, hk, hkt, Topic.putPart]
  case deleteOffset c pid cons =>
    cases pid <;> simp only [Op.part?, Option.some.injEq, reduceCtorEq] at hp
    cases hp
    simp only [step, Sys.withTopic, hs, ht]
    rcases t.resolve_cases cons (y.clientOf c) (some k) false with ⟨e, he⟩ | ⟨r, gs, he, hr⟩
    · simp only [he]
      repeat' split
      all_goals simp [partOf, topicOf, find?_insertAsc_self, find?_insertAsc_ne, hne, hk, hkt, Topic.putPart]
    · cases hr k rfl
      simp only [he]
      repeat' split
      all_goals simp [partOf, topicOf, find?_insertAsc_self, find?_insertAsc_ne, hne, hk, hkt, Topic.putPart]
  case flush pid =>
    simp only [Op.part?, Option.some.injEq] at hp
    cases hp
    simp only [step, Sys.withTopic, Sys.withPart, hs, ht]
    repeat' split
    all_goals simp [partOf, topicOf, find?_insertAsc_self, find?_insertAsc_ne, hne, hk, hkt, Topic.putPart]
  case evict pid keep =>
    simp only [Op.part?, Option.some.injEq] at hp
    cases hp
    simp only [step, Sys.withTopic, Sys.withPart, hs, ht]
    repeat' split
    all_goals simp [partOf, topicOf, find?_insertAsc_self, find?_insertAsc_ne, hne, hk, hkt, Topic.putPart]
  all_goals simp [Op.part?] at hp


/-! ## `close`: only member lists change -/

/-- a group without its member list -/
def Group.noMembers (g : Group) : Group := { g with members := [] }
/-- a topic with every group's member list blanked: partitions (data, offsets), settings, cursors,
group ids / names / partition counts remain -/
def Topic.noMembers (t : Topic) : Topic := { t with groups := mapE (fun _ g => g.noMembers) t.groups }
def Stream.noMembers (s : Stream) : Stream := { s with topics := mapE (fun _ t => t.noMembers) s.topics }
/-- the whole catalogue and data plane except the member lists of consumer groups -/
def noMembers (l : List (Nat × Stream)) : List (Nat × Stream) := mapE (fun _ s => s.noMembers) l

theorem Group.noMembers_deleteMember (g : Group) (c : Nat) : (g.deleteMember c).noMembers = g.noMembers := by
  unfold Group.deleteMember; split <;> rfl

theorem Group.deleteMember_id (g : Group) (c : Nat) : (g.deleteMember c).id = g.id := by
  unfold Group.deleteMember; split <;> rfl

theorem closeOne_noMembers {acc : Sys} (h : acc.CatWF) (client : Nat) (k : Nat × Nat × Nat) :
    noMembers (closeOne client acc k).streams = noMembers acc.streams := by
  unfold closeOne
  split
  · rfl
  · next s hs =>
    have hs' := h.mem_of_find hs
    have hS := h.stream hs'
    split
    · rfl
    · next t ht =>
      have ht' := hS.mem_of_find ht
      have hT := hS.topic ht'
      split
      · rfl
      · next g hg =>
        have hg' := hT.mem_of_find hg
        simp only [Sys.putTopic_streams, noMembers]
        apply mapE_insertAsc_same _ h.scope.asc (find?_of_mem h.scope.asc hs')
        simp only [Stream.noMembers, Stream.putTopic_topics, Stream.putTopic_id, Stream.putTopic_name]
        congr 1
        apply mapE_insertAsc_same _ hS.scope.asc (find?_of_mem hS.scope.asc ht')
        simp only [Topic.noMembers, Topic.putGroup]
        congr 1
        apply mapE_insertAsc_same _ hT.scope.asc
        · rw [Group.deleteMember_id]; exact find?_of_mem hT.scope.asc hg'
        · exact Group.noMembers_deleteMember _ _

theorem close_noMembers {y : Sys} (h : y.CatWF) (c : Nat) :
    noMembers (step y (.close c)).1.streams = noMembers y.streams := by
  simp only [step]
  show noMembers (List.foldl (closeOne (y.clientOf c)) y ((find? y.memberships (y.clientOf c)).getD [])).streams = _
  generalize (find? y.memberships (y.clientOf c)).getD [] = keys
  suffices ∀ acc : Sys, acc.CatWF → noMembers acc.streams = noMembers y.streams →
      noMembers (keys.foldl (closeOne (y.clientOf c)) acc).streams = noMembers y.streams from this y h rfl
  induction keys with
  | nil => intro acc _ he; exact he
  | cons k ks ih =>
    intro acc hacc he
    exact ih _ (hacc.of_view (closeOne_same hacc _ k).1) ((closeOne_noMembers hacc _ k).trans he)

theorem partOf_noMembers (l : List (Nat × Stream)) (k : PKey) : partOf (noMembers l) k = partOf l k := by
  simp only [partOf, topicOf, noMembers, find?_mapE]
  cases find? l k.1 with
  | none => rfl
  | some s =>
    simp only [Option.map_some, Option.bind_some, Stream.noMembers, find?_mapE]
    cases find? s.topics k.2.1 with
    | none => rfl
    | some t => rfl

/-- the consumer group stored under (stream id, topic id, group id) -/
def groupOf (l : List (Nat × Stream)) (k : Nat × Nat × Nat) : Option Group :=
  (topicOf l k.1 k.2.1).bind (fun t => find? t.groups k.2.2)

theorem Group.deleteMember_idem (g : Group) (c : Nat) : (g.deleteMember c).deleteMember c = g.deleteMember c := by
  have hids := Group.deleteMember_ids g c
  generalize g.deleteMember c = g' at hids ⊢
  unfold Group.deleteMember
  rw [if_neg]
  intro hany
  obtain ⟨m, hm, hid⟩ := List.any_eq_true.1 hany
  have : c ∈ g'.members.map (·.id) := List.mem_map.2 ⟨m, hm, by simpa using hid⟩
  rw [hids] at this
  simp at this

theorem closeOne_groupOf {acc : Sys} (h : acc.CatWF) (client : Nat) (k a : Nat × Nat × Nat) :
    groupOf (closeOne client acc k).streams a =
      (groupOf acc.streams a).map (fun g => if a = k then g.deleteMember client else g) := by
  obtain ⟨k1, k2, k3⟩ := k
  obtain ⟨a1, a2, a3⟩ := a
  unfold closeOne
  simp only
  split
  · next hs =>
    by_cases ha : (a1, a2, a3) = (k1, k2, k3)
    · cases ha; simp [groupOf, topicOf, hs]
    · simp [ha]
  · next s hs =>
    have hs' := h.mem_of_find hs
    have hS := h.stream hs'
    have hsid : s.id = k1 := h.scope.key_of_find hs
    split
    · next ht =>
      by_cases ha : (a1, a2, a3) = (k1, k2, k3)
      · cases ha; simp [groupOf, topicOf, hs, ht]
      · simp [ha]
    · next t ht =>
      have ht' := hS.mem_of_find ht
      have hT := hS.topic ht'
      have htid : t.id = k2 := hS.scope.key_of_find ht
      split
      · next hg =>
        by_cases ha : (a1, a2, a3) = (k1, k2, k3)
        · cases ha; simp [groupOf, topicOf, hs, ht, hg]
        · simp [ha]
      · next g hg =>
        have hgid : g.id = k3 := hT.scope.key_of_find hg
        subst hsid htid hgid
        have hpid : (t.putGroup (g.deleteMember client)).id = t.id := rfl
        have hpg : (t.putGroup (g.deleteMember client)).groups = insertAsc t.groups g.id (g.deleteMember client) := by
          simp only [Topic.putGroup, Group.deleteMember_id]
        by_cases h1 : a1 = s.id
        · subst h1
          by_cases h2 : a2 = t.id
          · subst h2
            by_cases h3 : a3 = g.id
            · subst h3
              simp [groupOf, topicOf, find?_insertAsc_self, hs, ht, hg, hpid, hpg]
            · simp [groupOf, topicOf, find?_insertAsc_self, hs, ht, hg, hpid, hpg, find?_insertAsc_ne _ _ h3, h3]
          · simp [groupOf, topicOf, find?_insertAsc_self, hs, ht, hg, hpid, hpg, find?_insertAsc_ne _ _ h2, h2]
        · simp [groupOf, topicOf, find?_insertAsc_self, hs, ht, hg, hpid, hpg, find?_insertAsc_ne _ _ h1, h1]

theorem close_groupOf {y : Sys} (h : y.CatWF) (c : Nat) (a : Nat × Nat × Nat) :
    groupOf (step y (.close c)).1.streams a =
      (groupOf y.streams a).map (fun g =>
        if a ∈ (find? y.memberships (y.clientOf c)).getD [] then g.deleteMember (y.clientOf c) else g) := by
  simp only [step]
  show groupOf (List.foldl (closeOne (y.clientOf c)) y ((find? y.memberships (y.clientOf c)).getD [])).streams a = _
  generalize (find? y.memberships (y.clientOf c)).getD [] = keys
  generalize y.clientOf c = client
  induction keys generalizing y with
  | nil => simp
  | cons k ks ih =>
    simp only [List.foldl_cons]
    rw [ih (h.of_view (closeOne_same h _ k).1), closeOne_groupOf h]
    cases groupOf y.streams a with
    | none => rfl
    | some g =>
      simp only [Option.map_some, List.mem_cons]
      by_cases h1 : a = k <;> by_cases h2 : a ∈ ks <;> simp [h1, h2, Group.deleteMember_idem]

/-! ## target 4: effects name what changed -/

section
variable {α : Type}
theorem find?_map_val (f : Nat × α → α) (l : List (Nat × α)) (c : Nat) (h : ∀ e ∈ l, e.1 = c → f e = e.2) :
    find? (l.map (fun e => (e.1, f e))) c = find? l c := by
  induction l with
  | nil => rfl
  | cons e l ih =>
    obtain ⟨k, v⟩ := e
    simp only [List.map_cons, find?_cons]
    split
    · next hk => rw [h (k, v) List.mem_cons_self hk]
    · exact ih (fun e he => h e (List.mem_cons_of_mem _ he))

theorem find?_append (l₁ l₂ : List (Nat × α)) (c : Nat) :
    find? (l₁ ++ l₂) c = (find? l₁ c).or (find? l₂ c) := by
  induction l₁ with
  | nil => simp
  | cons e l ih =>
    obtain ⟨k, v⟩ := e
    simp only [List.cons_append, find?_cons]
    split
    · rfl
    · exact ih

theorem find?_append_of_not_mem (l₁ l₂ : List (Nat × α)) (c : Nat) (h : ∀ e ∈ l₂, e.1 ≠ c) :
    find? (l₁ ++ l₂) c = find? l₁ c := by
  rw [find?_append, find?_eq_none.2 h]; simp

theorem find?_take_of_not_mem (l : List (Nat × α)) (m c : Nat) (h : ∀ e ∈ l.drop m, e.1 ≠ c) :
    find? (l.take m) c = find? l c := by
  conv => rhs; rw [← List.take_append_drop m l]
  exact (find?_append_of_not_mem _ _ c h).symm
end

/-- operations whose changes to a partition are invisible to clients (where a message is held: cache,
buffer, disk) and are not reported as effects -/
def Op.quiet : Op → Bool
  | .flush .. | .evict .. | .save | .maintain => true
  | _ => false

theorem key_ne_of {effs : List Effect} {a b c k : Nat} (hc : ∀ e ∈ effs, e.key ≠ (a, b, c)) {e : Effect}
    (he : e ∈ effs) (hk : e.key = (a, b, k)) : k ≠ c := by
  rintro rfl; exact hc e he hk

theorem eraseK_of_lookup_none {l : List (Nat × Nat)} {k : Nat} (h : lookup l k = none) : eraseK l k = l := by
  unfold eraseK
  rw [List.filter_eq_self]
  intro e he
  simp only [lookup, Option.map_eq_none_iff, List.find?_eq_none] at h
  simpa using h e he

/-- "every partition of `t` that the effects do not name is as it was" -/
def EffOK (s : Stream) (t : Topic) (c : Nat) (r : Sys × Out × List Effect) : Prop :=
  (∀ e ∈ r.2.2, e.key ≠ (s.id, t.id, c)) → partOf r.1.streams (s.id, t.id, c) = find? t.parts c

theorem effOK_same {y : Sys} {s : Stream} {t : Topic} {c : Nat} (hk : find? y.streams s.id = some s)
    (hkt : find? s.topics t.id = some t) (out : Out) (effs : List Effect) : EffOK s t c (y, out, effs) := by
  intro _; simp [partOf, topicOf, hk, hkt]

theorem effOK_put {y : Sys} {s : Stream} {t t' : Topic} {c : Nat} {out : Out} {effs : List Effect} {y' : Sys}
    (hy : y'.streams = insertAsc y.streams s.id (s.putTopic t')) (hid : t'.id = t.id)
    (h : (∀ e ∈ effs, e.key ≠ (s.id, t.id, c)) → find? t'.parts c = find? t.parts c) :
    EffOK s t c (y', out, effs) := by
  intro hc
  simp only [partOf, topicOf, hy, find?_insertAsc_self, Option.bind_some, Stream.putTopic_topics, hid]
  exact h hc

theorem step_topic_effects (y : Sys) (op : Op) (si ti : Ident) (s : Stream) (t : Topic) (hop : op.stream? = some si)
    (hop' : op.topic? = some ti) (hq : op.quiet = false)
    (hs : y.findStream si = .ok s) (ht : s.findTopic ti = .ok t) (hk : find? y.streams s.id = some s)
    (hkt : find? s.topics t.id = some t) (hkeys : t.parts.map (·.1) = List.range' 1 t.parts.length)
    (c : Nat) : EffOK s t c (step y op) := by
  cases op <;> simp only [Op.stream?, Op.topic?, Option.some.injEq, reduceCtorEq] at hop hop' <;> cases hop <;> cases hop'
  case flush => simp [Op.quiet] at hq
  case evict => simp [Op.quiet] at hq
  case send p msgs =>
    simp only [step, Sys.withTopic, hs, ht]
    rcases t.send_cases y.cfg y.scfg s.id y.now p msgs with ⟨cur, out, he⟩ | ⟨cur, pid, p, p', _, _, _, he⟩
    · rw [he]; exact effOK_put rfl rfl (fun _ => rfl)
    · rw [he]; refine effOK_put rfl rfl (fun hc => ?_)
      simp [Effect.key] at hc
      exact find?_insertAsc_ne _ _ (Ne.symm hc)
  case poll cc pid cons kd count auto =>
    simp only [step, Sys.withTopic, hs, ht]
    rcases t.resolve_cases cons (y.clientOf cc) pid true with ⟨e, he⟩ | ⟨_ | r, gs, he, _⟩ <;> simp only [he]
    all_goals repeat' split
    all_goals intro hc
    all_goals simp [partOf, topicOf, find?_insertAsc_self, hk, hkt, Topic.putPart, Effect.key] at hc ⊢
    all_goals exact find?_insertAsc_ne _ _ (Ne.symm hc)
  case storeOffset cc pid cons off =>
    simp only [step, Sys.withTopic, hs, ht]
    rcases t.resolve_cases cons (y.clientOf cc) pid false with ⟨e, he⟩ | ⟨_ | r, gs, he, _⟩ <;> simp only [he]
    all_goals repeat' split
    all_goals intro hc
    all_goals simp [partOf, topicOf, find?_insertAsc_self, hk, hkt, Topic.putPart, Effect.key] at hc ⊢
    all_goals exact find?_insertAsc_ne _ _ (Ne.symm hc)
  case deleteOffset cc pid cons =>
    simp only [step, Sys.withTopic, hs, ht]
    rcases t.resolve_cases cons (y.clientOf cc) pid false with ⟨e, he⟩ | ⟨_ | r, gs, he, _⟩ <;> simp only [he]
    all_goals repeat' split
    all_goals intro hc
    all_goals simp [partOf, topicOf, find?_insertAsc_self, hk, hkt, Topic.putPart, Effect.key] at hc ⊢
    all_goals exact find?_insertAsc_ne _ _ (Ne.symm hc)
  case getOffset cc pid cons =>
    simp only [step, Sys.withTopic, hs, ht]
    rcases t.resolve_cases cons (y.clientOf cc) pid false with ⟨e, he⟩ | ⟨_ | r, gs, he, _⟩ <;> simp only [he]
    all_goals repeat' split
    all_goals intro hc
    all_goals simp [partOf, topicOf, find?_insertAsc_self, hk, hkt, Topic.putPart, Effect.key] at hc ⊢
  case createGroup id name =>
    cases id <;> simp only [step, Sys.withTopic, hs, ht]
    all_goals repeat' split
    all_goals intro hc
    all_goals simp [partOf, topicOf, find?_insertAsc_self, hk, hkt, Topic.putGroup, Effect.key] at hc ⊢
  case join cc gi =>
    simp only [step, Sys.withTopic, hs, ht]
    repeat' split
    all_goals intro hc
    all_goals simp [partOf, topicOf, find?_insertAsc_self, hk, hkt, Topic.putGroup, Effect.key] at hc ⊢
  case leave cc gi =>
    simp only [step, Sys.withTopic, hs, ht]
    repeat' split
    all_goals intro hc
    all_goals simp [partOf, topicOf, find?_insertAsc_self, hk, hkt, Topic.putGroup, Effect.key] at hc ⊢
  case groupInfo gi o =>
    simp only [step, Sys.withTopic, hs, ht]
    repeat' split
    all_goals intro hc
    all_goals simp [partOf, topicOf, find?_insertAsc_self, hk, hkt, Topic.putGroup, Effect.key] at hc ⊢
  case groups =>
    simp only [step, Sys.withTopic, hs, ht]
    exact effOK_same hk hkt _ _
  case topicInfo =>
    simp only [step, Sys.withTopic, hs, ht]
    exact effOK_same hk hkt _ _
  case updateTopic name e m r =>
    simp only [step, Sys.withTopic, hs, ht]
    repeat' split
    all_goals intro hc
    all_goals simp [partOf, topicOf, find?_insertAsc_self, hk, hkt]
    exact find?_map_val (fun pe => { pe.2 with expiry := resolveExpiry y.scfg e }) t.parts c
      (fun pe hpe hpc => absurd hpc (key_ne_of hc (List.mem_map.2 ⟨pe, hpe, rfl⟩) rfl))
  case purgeTopic =>
    simp only [step, Sys.withTopic, hs, ht]
    intro hc
    simp [partOf, topicOf, find?_insertAsc_self, hk, hkt, mapParts]
    exact find?_map_val (fun pe => pe.2.purge y.cfg y.now) t.parts c
      (fun pe hpe hpc => absurd hpc (key_ne_of hc (List.mem_map.2 ⟨pe, hpe, rfl⟩) rfl))
  case deleteTopic =>
    simp only [step, Sys.withTopic, hs, ht]
    intro hc
    simp [partOf, topicOf, find?_insertAsc_self, find?_erase_self, hk, hkt]
    exact (find?_eq_none.2 (fun pe hpe => key_ne_of hc (List.mem_map.2 ⟨pe, hpe, rfl⟩) rfl)).symm
  case deleteGroup gi =>
    simp only [step, Sys.withTopic, hs, ht]
    repeat' split
    all_goals intro hc
    all_goals simp [partOf, topicOf, find?_insertAsc_self, hk, hkt]
    all_goals
      next g _ _ =>
      refine find?_map_val (fun pe => { pe.2 with grpOffs := eraseK pe.2.grpOffs g.id }) t.parts c
        (fun pe hpe hpc => ?_)
      cases hl : lookup pe.2.grpOffs g.id with
      | none => rw [eraseK_of_lookup_none hl]
      | some o =>
        refine absurd hpc (key_ne_of hc (e := Effect.offDeleted (s.id, t.id, pe.1) true g.id) ?_ rfl)
        exact List.mem_filterMap.2 ⟨pe, hpe, by simp [hl]⟩
  case createParts n =>
    simp only [step, Sys.withTopic, hs, ht]
    intro hc
    simp [partOf, topicOf, find?_insertAsc_self, hk, hkt, Topic.reassignGroups]
    apply find?_append_of_not_mem
    intro pe hpe
    simp only [mkParts, List.mem_map, List.mem_range] at hpe
    obtain ⟨i, hi, rfl⟩ := hpe
    exact key_ne_of hc (e := Effect.created (s.id, t.id, t.parts.length + 1 + i) t.expiry)
      (List.mem_map.2 ⟨i, List.mem_range.2 hi, rfl⟩) rfl
  case deleteParts n =>
    simp only [step, Sys.withTopic, hs, ht]
    intro hc
    simp [partOf, topicOf, find?_insertAsc_self, hk, hkt, Topic.reassignGroups]
    apply find?_take_of_not_mem
    intro pe hpe
    have h1 : pe.1 ∈ (t.parts.map (·.1)).drop (t.parts.length - min n t.parts.length) := by
      rw [← List.map_drop]; exact List.mem_map.2 ⟨pe, hpe, rfl⟩
    rw [hkeys, List.drop_range'] at h1
    simp only [List.mem_range'_1] at h1
    refine key_ne_of hc (e := Effect.deleted (s.id, t.id, t.parts.length - min n t.parts.length + 1 +
      (pe.1 - (t.parts.length - min n t.parts.length + 1)))) (List.mem_map.2 ⟨_, List.mem_range.2 ?_, rfl⟩) ?_
    · omega
    · simp only [Effect.key]; congr 2; omega


theorem partOf_congr_stream {l l' : List (Nat × Stream)} {a : Nat} (h : find? l' a = find? l a) (b c : Nat) :
    partOf l' (a, b, c) = partOf l (a, b, c) := by
  simp only [partOf, topicOf, h]

theorem partOf_congr_topic {l l' : List (Nat × Stream)} {a b : Nat} (h : topicOf l' a b = topicOf l a b) (c : Nat) :
    partOf l' (a, b, c) = partOf l (a, b, c) := by
  simp only [partOf, h]

theorem mem_allKeys_of_partOf {y : Sys} {k : PKey} {p : Part} (h : partOf y.streams k = some p) : k ∈ y.allKeys := by
  obtain ⟨a, b, c⟩ := k
  simp only [partOf, topicOf, Option.bind_eq_some_iff] at h
  obtain ⟨t, ⟨s, hs, ht⟩, hp⟩ := h
  simp only [Sys.allKeys, List.mem_flatten, List.mem_map]
  refine ⟨_, ⟨(a, s), mem_of_find? hs, rfl⟩, ?_⟩
  simp only [List.mem_flatten, List.mem_map]
  exact ⟨_, ⟨(b, t), mem_of_find? ht, rfl⟩, List.mem_map.2 ⟨(c, p), mem_of_find? hp, rfl⟩⟩

theorem partOf_none_of_not_mem {y : Sys} {k : PKey} (h : k ∉ y.allKeys) : partOf y.streams k = none := by
  cases hp : partOf y.streams k with
  | none => rfl
  | some p => exact absurd (mem_allKeys_of_partOf hp) h

/-- restart: every partition key of the old or of the new state is named by an effect -/
theorem step_restart_effects (y : Sys) (cl : List (PKey × Nat)) (k : PKey)
    (hc : ∀ e ∈ (step y (.restart cl)).2.2, e.key ≠ k) :
    partOf (step y (.restart cl)).1.streams k = partOf y.streams k := by
  by_cases hp : (replay y.journal).panicked = true
  · simp only [step, hp, if_true]
  · have hp' : (replay y.journal).panicked = false := by simpa using hp
    simp only [step, hp', Bool.false_eq_true, if_false] at hc ⊢
    generalize loadCatalog y (replay y.journal) cl = y' at hc ⊢
    by_cases h1 : k ∈ y'.allKeys
    · by_cases h2 : k ∈ y.allKeys
      · exact absurd rfl (hc (.restarted k) (by simp [h1, h2]))
      · exact absurd rfl (hc (.created k none) (by simp [h1, h2]))
    · by_cases h2 : k ∈ y.allKeys
      · exact absurd rfl (hc (.deleted k) (by simp [h1, h2]))
      · rw [partOf_none_of_not_mem h1, partOf_none_of_not_mem h2]

theorem partOf_insert_empty (l : List (Nat × Stream)) (sid : Nat) (nm : String) (cur : Nat)
    (hnew : ¬ (find? l sid).isSome = true) (k : PKey) :
    partOf (insertAsc l sid { id := sid, name := nm, topics := [], topicCursor := cur }) k = partOf l k := by
  obtain ⟨a, b, c⟩ := k
  by_cases ha : a = sid
  · subst ha
    simp only [Option.isSome_iff_ne_none, ne_eq, Decidable.not_not] at hnew
    simp [partOf, topicOf, find?_insertAsc_self, hnew]
  · exact partOf_congr_stream (find?_insertAsc_ne _ _ ha) b c

/-- operations that name no stream, other than the global ones (`save`, `maintain`) -/
theorem step_nostream_effects {y : Sys} (h : y.CatWF) (op : Op) (hop : op.stream? = none) (hq : op.quiet = false)
    (k : PKey) (hc : ∀ e ∈ (step y op).2.2, e.key ≠ k) : partOf (step y op).1.streams k = partOf y.streams k := by
  cases op <;> simp only [Op.stream?, reduceCtorEq] at hop
  case save => simp [Op.quiet] at hq
  case maintain => simp [Op.quiet] at hq
  case restart cl => exact step_restart_effects y cl k hc
  case close c => rw [← partOf_noMembers, close_noMembers h, partOf_noMembers]
  case createStream id name =>
    cases id <;> simp only [step]
    all_goals
      split
      · rfl
      · split
        · rfl
        · next hnew => exact partOf_insert_empty _ _ _ _ hnew _
  all_goals rfl

/-- "the partition under key `k`, if no effect names it, is as it was" -/
def EffOKs (y : Sys) (k : PKey) (r : Sys × Out × List Effect) : Prop :=
  (∀ e ∈ r.2.2, e.key ≠ k) → partOf r.1.streams k = partOf y.streams k

theorem effOKs_same (y : Sys) (k : PKey) (y' : Sys) (h : y'.streams = y.streams) (out : Out) (effs : List Effect) :
    EffOKs y k (y', out, effs) := by
  intro _; simp only [h]

theorem mem_flatten_map_map {α β γ : Type} {l : List α} {g : α → List β} {f : α → β → γ} {a : α} {b : β}
    (ha : a ∈ l) (hb : b ∈ g a) : f a b ∈ (l.map (fun a => (g a).map (f a))).flatten :=
  List.mem_flatten.2 ⟨_, List.mem_map.2 ⟨a, ha, rfl⟩, List.mem_map.2 ⟨b, hb, rfl⟩⟩

theorem insert_new_topic_parts (topics : List (Nat × Topic)) (tid : Nat) (t : Topic)
    (hnew : ¬ (find? topics tid).isSome = true) (b c : Nat) (hc : b = tid → find? t.parts c = none) :
    ((find? (insertAsc topics tid t) b).bind fun t => find? t.parts c) =
      (find? topics b).bind fun t => find? t.parts c := by
  by_cases hb : b = tid
  · subst hb
    simp only [Option.isSome_iff_ne_none, ne_eq, Decidable.not_not] at hnew
    simp [find?_insertAsc_self, hnew, hc rfl]
  · rw [find?_insertAsc_ne _ _ hb]

/-- operations that name a stream but no topic -/
theorem step_stream_op_effects (y : Sys) (op : Op) (si : Ident) (s : Stream) (hop : op.stream? = some si)
    (hop' : op.topic? = none) (hs : y.findStream si = .ok s) (hk : find? y.streams s.id = some s) (b c : Nat) :
    EffOKs y (s.id, b, c) (step y op) := by
  cases op <;> simp only [Op.stream?, Op.topic?, Option.some.injEq, reduceCtorEq] at hop hop' <;> cases hop
  case updateStream name =>
    simp only [step, hs]
    split
    · exact effOKs_same _ _ _ rfl _ _
    · intro _; simp [partOf, topicOf, find?_insertAsc_self, hk]
  case topics => simp only [step, hs]; exact effOKs_same _ _ _ rfl _ _
  case streamInfo => simp only [step, hs]; exact effOKs_same _ _ _ rfl _ _
  case deleteStream =>
    simp only [step, hs]
    intro hc
    simp only [Sys.journalAdd_streams, Sys.dropMemberships_streams, partOf, topicOf, find?_erase_self, hk,
      Option.bind_none, Option.bind_some]
    cases ht : find? s.topics b with
    | none => rfl
    | some t =>
      simp only [Option.bind_some]
      refine (find?_eq_none.2 (fun pe hpe hpc => ?_)).symm
      exact hc (Effect.deleted (s.id, b, pe.1))
        (mem_flatten_map_map (f := fun (te : Nat × Topic) (pe : Nat × Part) => Effect.deleted (s.id, te.1, pe.1)) (mem_of_find? ht) hpe)
        (by rw [← hpc]; rfl)
  case purgeStream =>
    simp only [step, hs]
    intro hc
    simp only [Sys.journalAdd_streams, Sys.putStream_streams, partOf, topicOf, find?_insertAsc_self, hk,
      Option.bind_some]
    rw [show find? (s.topics.map (fun te => (te.1, mapParts te.2 (fun p => p.purge y.cfg y.now)))) b =
      (find? s.topics b).map (fun t => mapParts t (fun p => p.purge y.cfg y.now)) from
        find?_mapE (fun _ t => mapParts t (fun p => p.purge y.cfg y.now)) s.topics b]
    cases ht : find? s.topics b with
    | none => rfl
    | some t =>
      simp only [Option.map_some, Option.bind_some, mapParts]
      refine find?_map_val (fun pe => pe.2.purge y.cfg y.now) t.parts c (fun pe hpe hpc => False.elim ?_)
      exact hc (Effect.purged (s.id, b, pe.1))
        (mem_flatten_map_map (f := fun (te : Nat × Topic) (pe : Nat × Part) => Effect.purged (s.id, te.1, pe.1)) (mem_of_find? ht) hpe)
        (by rw [← hpc]; rfl)
  case createTopic id name n e m r =>
    cases id <;> simp only [step, hs]
    all_goals repeat' split
    all_goals try exact effOKs_same _ _ _ rfl _ _
    all_goals intro hc
    all_goals simp only [Sys.journalAdd_streams, Sys.putStream_streams, Sys.putTopic_streams, partOf, topicOf,
      find?_insertAsc_self, hk, Option.bind_some, Stream.putTopic_topics]
    all_goals
      next hnew =>
      refine insert_new_topic_parts _ _ _ hnew b c (fun hb => find?_eq_none.2 (fun pe hpe hpc => ?_))
      simp only [mkParts, List.mem_map, List.mem_range] at hpe
      obtain ⟨i, hi, rfl⟩ := hpe
      exact hc (Effect.created (s.id, b, 1 + i) (resolveExpiry y.scfg e))
        (List.mem_map.2 ⟨i, List.mem_range.2 hi, by rw [hb]⟩) (by rw [← hpc]; rfl)

theorem Sys.CatWF.find_stream {y : Sys} (h : y.CatWF) {si : Ident} {s : Stream} (hs : y.findStream si = .ok s) :
    find? y.streams s.id = some s := find?_of_mem h.scope.asc (h.findStream.1 hs).1

theorem Sys.CatWF.find_topic {y : Sys} (h : y.CatWF) {si ti : Ident} {s : Stream} {t : Topic}
    (hs : y.findStream si = .ok s) (ht : s.findTopic ti = .ok t) : find? s.topics t.id = some t := by
  have hS := h.stream (h.findStream.1 hs).1
  exact find?_of_mem hS.scope.asc (hS.findTopic.1 ht).1

theorem Sys.CatWF.part_keys {y : Sys} (h : y.CatWF) {si ti : Ident} {s : Stream} {t : Topic}
    (hs : y.findStream si = .ok s) (ht : s.findTopic ti = .ok t) :
    t.parts.map (·.1) = List.range' 1 t.parts.length := by
  have hS := h.stream (h.findStream.1 hs).1
  exact (hS.topic (hS.findTopic.1 ht).1).part_keys

/-- every operation whose partition changes are reported at all (`quiet = false`): a partition key
that no effect names holds the same `Part` (or the same absence) before and after -/
theorem step_effects_name_changes {y : Sys} (h : y.CatWF) (op : Op) (hq : op.quiet = false) (k : PKey)
    (hc : ∀ e ∈ (step y op).2.2, e.key ≠ k) : partOf (step y op).1.streams k = partOf y.streams k := by
  cases hst : op.stream? with
  | none => exact step_nostream_effects h op hst hq k hc
  | some si =>
    cases hs : y.findStream si with
    | error e => rw [step_unresolved_stream y op si e hst hs]
    | ok s =>
      have hk := h.find_stream hs
      obtain ⟨a, b, c⟩ := k
      by_cases ha : a = s.id
      · subst ha
        cases htp : op.topic? with
        | none => exact step_stream_op_effects y op si s hst htp hs hk b c hc
        | some ti =>
          cases ht : s.findTopic ti with
          | error e => rw [step_unresolved_topic y op si ti s e hst htp hs ht]
          | ok t =>
            have hkt := h.find_topic hs ht
            by_cases hb : b = t.id
            · subst hb
              rw [step_topic_effects y op si ti s t hst htp hq hs ht hk hkt (h.part_keys hs ht) c hc]
              simp [partOf, topicOf, hk, hkt]
            · apply partOf_congr_topic
              rw [step_topics_agreeOff y op si ti s t hst htp hs ht hk b hb]
              simp [topicOf, hk]
      · exact partOf_congr_stream (step_streams_agreeOff y op si s hst hs a ha) b c


/-! ## the quiet operations, exactly -/

theorem find?_map_snd {α β : Type} (f : Nat × α → β) (l : List (Nat × α)) (k : Nat) :
    find? (l.map (fun e => (e.1, f e))) k = (find? l k).map (fun v => f (k, v)) := by
  induction l with
  | nil => rfl
  | cons e l ih =>
    obtain ⟨k', v'⟩ := e
    simp only [List.map_cons, find?_cons, ih]
    split
    · next h => subst h; rfl
    · rfl

/-- `flush` rewrites the named partition by `Part.flush` (buffer → disk) and nothing else -/
theorem step_flush_part (y : Sys) (si ti : Ident) (k : Nat) (s : Stream) (t : Topic)
    (hs : y.findStream si = .ok s) (ht : s.findTopic ti = .ok t) (hk : find? y.streams s.id = some s)
    (hkt : find? s.topics t.id = some t) :
    partOf (step y (.flush si ti k)).1.streams (s.id, t.id, k) = (find? t.parts k).map (fun p => p.flush y.cfg) := by
  simp only [step, Sys.withTopic, Sys.withPart, hs, ht]
  split
  · next h => simp [partOf, topicOf, hk, hkt, h]
  · next p h => simp [partOf, topicOf, find?_insertAsc_self, Topic.putPart, h]

/-- `evict` rewrites the named partition by `Part.evict` (which changes the `cache` field only) -/
theorem step_evict_part (y : Sys) (si ti : Ident) (k keep : Nat) (s : Stream) (t : Topic)
    (hs : y.findStream si = .ok s) (ht : s.findTopic ti = .ok t) (hk : find? y.streams s.id = some s)
    (hkt : find? s.topics t.id = some t) :
    partOf (step y (.evict si ti k keep)).1.streams (s.id, t.id, k) = (find? t.parts k).map (fun p => p.evict keep) := by
  simp only [step, Sys.withTopic, Sys.withPart, hs, ht]
  split
  · next h => simp [partOf, topicOf, hk, hkt, h]
  · next p h => simp [partOf, topicOf, find?_insertAsc_self, Topic.putPart, h]

theorem Part.evict_only_cache (p : Part) (keep : Nat) : p.evict keep = { p with cache := (p.evict keep).cache } := rfl

/-- `save` rewrites every partition by `Part.save` -/
theorem step_save_part (y : Sys) (k : PKey) :
    partOf (step y .save).1.streams k = (partOf y.streams k).map (fun p => p.save y.cfg) := by
  obtain ⟨a, b, c⟩ := k
  simp only [step, Sys.mapAllParts, Sys.mapStreams, Stream.mapTopics, Topic.mapPartsK, partOf, topicOf]
  rw [find?_map_snd (fun se : Nat × Stream => _) y.streams a]
  cases find? y.streams a with
  | none => rfl
  | some s =>
    simp only [Option.map_some, Option.bind_some]
    rw [find?_map_snd (fun te : Nat × Topic => _) s.topics b]
    cases find? s.topics b with
    | none => rfl
    | some t =>
      simp only [Option.map_some, Option.bind_some]
      rw [find?_map_snd (fun pe : Nat × Part => _) t.parts c]

/-- `maintain` handles every topic on its own: what it leaves under (stream id, topic id) is
`Topic.maintain` of what was there — a function of that topic (and the configuration and clock) only -/
theorem step_maintain_topic (y : Sys) (sid tid : Nat) :
    topicOf (step y .maintain).1.streams sid tid =
      (topicOf y.streams sid tid).map (fun t => (t.maintain y.cfg y.scfg sid y.now).1) := by
  simp only [step, topicOf, List.map_map, Function.comp_def]
  rw [find?_map_snd (fun se : Nat × Stream => _) y.streams sid]
  cases find? y.streams sid with
  | none => rfl
  | some s =>
    simp only [Option.map_some, Option.bind_some, List.map_map, Function.comp_def]
    rw [find?_map_snd (fun te : Nat × Topic => _) s.topics tid]

/-- the outcome of a `send` (result, effects, and the topic entry left behind) is a function of the
named topic alone: the gate (`topic_full`), the partition choice and the append see no other topic -/
theorem step_send_local (y : Sys) (si ti : Ident) (p : Partitioning) (msgs : List InMsg) (s : Stream) (t : Topic)
    (hs : y.findStream si = .ok s) (ht : s.findTopic ti = .ok t) :
    (step y (.send si ti p msgs)).2 = (t.send y.cfg y.scfg s.id y.now p msgs).2 ∧
    topicOf (step y (.send si ti p msgs)).1.streams s.id t.id = some (t.send y.cfg y.scfg s.id y.now p msgs).1 := by
  simp only [step, Sys.withTopic, hs, ht]
  refine ⟨trivial, ?_⟩
  rcases t.send_cases y.cfg y.scfg s.id y.now p msgs with ⟨cur, out, he⟩ | ⟨cur, pid, p, p', _, _, _, he⟩ <;>
    simp [he, topicOf, find?_insertAsc_self]

/-- a `send` (any partitioning: `balanced`, `pid`, `key`) changes no partition and reports nothing, or
appends to exactly one partition of the named topic — the one its single effect names — and leaves
every other partition of the topic alone -/
theorem step_send_one_partition (y : Sys) (si ti : Ident) (pt : Partitioning) (msgs : List InMsg) (s : Stream)
    (t : Topic) (hs : y.findStream si = .ok s) (ht : s.findTopic ti = .ok t) :
    ((step y (.send si ti pt msgs)).2.2 = [] ∧
      ∀ c, partOf (step y (.send si ti pt msgs)).1.streams (s.id, t.id, c) = find? t.parts c) ∨
    (∃ pid pOld pNew, (step y (.send si ti pt msgs)).2.2 = [.appended (s.id, t.id, pid) y.now msgs] ∧
      (∀ k, pt = .pid k → pid = k) ∧
      find? t.parts pid = some pOld ∧ pOld.append y.cfg y.now msgs = .ok pNew ∧
      partOf (step y (.send si ti pt msgs)).1.streams (s.id, t.id, pid) = some pNew ∧
      ∀ c, c ≠ pid → partOf (step y (.send si ti pt msgs)).1.streams (s.id, t.id, c) = find? t.parts c) := by
  simp only [step, Sys.withTopic, hs, ht]
  rcases t.send_cases y.cfg y.scfg s.id y.now pt msgs with ⟨cur, out, he⟩ | ⟨cur, pid, p, p', hp, hp', hpid, he⟩
  · left
    simp [he, partOf, topicOf, find?_insertAsc_self]
  · right
    refine ⟨pid, p, p', by simp [he], hpid, hp, hp', by simp [he, partOf, topicOf, find?_insertAsc_self], ?_⟩
    intro c hc
    simp [he, partOf, topicOf, find?_insertAsc_self, find?_insertAsc_ne _ _ hc]

/-- the data-plane operations report at most one effect (hence, by `effects_name_what_changed`, change
at most one partition) -/
theorem step_data_effects_le_one (y : Sys) (op : Op)
    (hop : (∃ si ti p m, op = .send si ti p m) ∨ (∃ c si ti pid cons k n a, op = .poll c si ti pid cons k n a) ∨
      (∃ c si ti pid cons o, op = .storeOffset c si ti pid cons o) ∨
      (∃ c si ti pid cons, op = .deleteOffset c si ti pid cons) ∨ (∃ c si ti pid cons, op = .getOffset c si ti pid cons)) :
    (step y op).2.2.length ≤ 1 := by
  rcases hop with ⟨si, ti, p, m, rfl⟩ | ⟨c, si, ti, pid, cons, k, n, a, rfl⟩ | ⟨c, si, ti, pid, cons, o, rfl⟩ |
    ⟨c, si, ti, pid, cons, rfl⟩ | ⟨c, si, ti, pid, cons, rfl⟩
  · simp only [step, Sys.withTopic]
    split
    · simp
    · next s _ =>
      split
      · simp
      · next t _ =>
        rcases t.send_cases y.cfg y.scfg s.id y.now p m with ⟨cur, out, he⟩ | ⟨cur, pid, p, p', _, _, _, he⟩ <;>
          simp [he]
  all_goals simp only [step, Sys.withTopic]
  all_goals repeat' split
  all_goals simp


/-! ## offsets of other consumers -/

theorem find?_filter_of_imp {α : Type} {p q : α → Bool} (h : ∀ x, p x = true → q x = true) (l : List α) :
    (l.filter q).find? p = l.find? p := by
  induction l with
  | nil => rfl
  | cons e l ih =>
    cases hq : q e with
    | true => simp only [List.filter_cons, hq, if_true, List.find?_cons, ih]
    | false =>
      have hp : p e = false := by
        cases hp : p e with
        | false => rfl
        | true => rw [h e hp] at hq; cases hq
      simp only [List.filter_cons, hq, Bool.false_eq_true, if_false, List.find?_cons, hp, ih]

theorem lookup_eraseK_ne (l : List (Nat × Nat)) {k k' : Nat} (h : k' ≠ k) :
    lookup (eraseK l k) k' = lookup l k' := by
  simp only [lookup, eraseK]
  rw [find?_filter_of_imp]
  intro x hx
  simp only [decide_eq_true_eq] at hx
  simp only [ne_eq, decide_not, Bool.not_eq_eq_eq_not, Bool.not_true, decide_eq_false_iff_not]
  omega

theorem lookup_insertKV_ne (l : List (Nat × Nat)) {k k' : Nat} (v : Nat) (h : k' ≠ k) :
    lookup (insertKV l k v) k' = lookup l k' := by
  have := lookup_eraseK_ne l h
  simp only [lookup, eraseK] at this
  simp only [lookup, insertKV, List.find?_cons]
  have hd : decide (k = k') = false := by simpa using Ne.symm h
  simp only [hd]
  exact this

/-- `p'` is `p` with (at most) the stored offset of consumer `(grp, cid)` changed: the messages, cache,
counters and every other consumer's / group's offset are as in `p` -/
def OffsetOnly (grp : Bool) (cid : Nat) (p p' : Part) : Prop :=
  { p' with consOffs := p.consOffs, grpOffs := p.grpOffs } = p ∧
  ∀ grp' cid', (grp', cid') ≠ (grp, cid) → p'.getOffset grp' cid' = p.getOffset grp' cid'

theorem OffsetOnly.refl (grp : Bool) (cid : Nat) (p : Part) : OffsetOnly grp cid p p := ⟨rfl, fun _ _ _ => rfl⟩

theorem Part.storeOffset_offsetOnly {p p' : Part} {grp : Bool} {cid off : Nat}
    (h : p.storeOffset grp cid off = .ok p') : OffsetOnly grp cid p p' := by
  unfold Part.storeOffset at h
  split at h
  · cases h
  · split at h
    · next hg =>
      cases h
      refine ⟨rfl, fun grp' cid' hne => ?_⟩
      simp only [Part.getOffset]
      cases grp' with
      | false => rfl
      | true =>
        simp only [if_true]
        apply lookup_insertKV_ne
        rintro rfl; exact hne (by rw [hg])
    · next hg =>
      cases h
      refine ⟨rfl, fun grp' cid' hne => ?_⟩
      simp only [Part.getOffset]
      cases grp' with
      | true => rfl
      | false =>
        simp only [Bool.false_eq_true, if_false]
        apply lookup_insertKV_ne
        rintro rfl; apply hne; simp at hg; rw [hg]

theorem Part.deleteOffset_offsetOnly {p p' : Part} {grp : Bool} {cid : Nat}
    (h : p.deleteOffset grp cid = .ok p') : OffsetOnly grp cid p p' := by
  unfold Part.deleteOffset at h
  split at h
  · cases h
  · split at h
    · next hg =>
      cases h
      refine ⟨rfl, fun grp' cid' hne => ?_⟩
      simp only [Part.getOffset]
      cases grp' with
      | false => rfl
      | true =>
        simp only [if_true]
        apply lookup_eraseK_ne
        rintro rfl; exact hne (by rw [hg])
    · next hg =>
      cases h
      refine ⟨rfl, fun grp' cid' hne => ?_⟩
      simp only [Part.getOffset]
      cases grp' with
      | true => rfl
      | false =>
        simp only [Bool.false_eq_true, if_false]
        apply lookup_eraseK_ne
        rintro rfl; apply hne; simp at hg; rw [hg]

/-- `OffsetOnly` on optional partitions (absent stays absent) -/
def OffsetOnlyOpt (grp : Bool) (cid : Nat) : Option Part → Option Part → Prop
  | some p, some p' => OffsetOnly grp cid p p'
  | none, none => True
  | _, _ => False

theorem OffsetOnlyOpt.refl (grp : Bool) (cid : Nat) (o : Option Part) : OffsetOnlyOpt grp cid o o := by
  cases o with
  | none => trivial
  | some p => exact OffsetOnly.refl grp cid p

theorem offsetOnlyOpt_putPart {grp : Bool} {cid : Nat} {parts : List (Nat × Part)} {pid : Nat} {p p' : Part}
    (hp : find? parts pid = some p) (h : OffsetOnly grp cid p p') (c : Nat) :
    OffsetOnlyOpt grp cid (find? parts c) (find? (insertAsc parts pid p') c) := by
  by_cases hc : c = pid
  · subst hc; rw [hp, find?_insertAsc_self]; exact h
  · rw [find?_insertAsc_ne _ _ hc]; exact OffsetOnlyOpt.refl _ _ _

/-- `storeOffset`, `deleteOffset` and (auto-committing) `poll` for consumer `cons` change, in every
partition of the named topic, at most the stored offset of `cons` -/
theorem step_offset_only (y : Sys) (op : Op) (cons : Consumer) (si ti : Ident) (s : Stream) (t : Topic)
    (hop : (∃ c pid k n a, op = .poll c si ti pid cons k n a) ∨ (∃ c pid o, op = .storeOffset c si ti pid cons o) ∨
      (∃ c pid, op = .deleteOffset c si ti pid cons))
    (hs : y.findStream si = .ok s) (ht : s.findTopic ti = .ok t) (hk : find? y.streams s.id = some s)
    (hkt : find? s.topics t.id = some t) (c : Nat) :
    OffsetOnlyOpt cons.grp cons.id (find? t.parts c) (partOf (step y op).1.streams (s.id, t.id, c)) := by
  rcases hop with ⟨cc, pid, k, n, a, rfl⟩ | ⟨cc, pid, o, rfl⟩ | ⟨cc, pid, rfl⟩
  · simp only [step, Sys.withTopic, hs, ht]
    rcases t.resolve_cases cons (y.clientOf cc) pid true with ⟨e, he⟩ | ⟨_ | r, gs, he, _⟩ <;> simp only [he]
    all_goals repeat' split
    all_goals simp [partOf, topicOf, find?_insertAsc_self, hk, hkt, Topic.putPart]
    all_goals first
      | exact OffsetOnlyOpt.refl _ _ _
      | exact offsetOnlyOpt_putPart ‹_› (Part.storeOffset_offsetOnly ‹_›) c
  · simp only [step, Sys.withTopic, hs, ht]
    rcases t.resolve_cases cons (y.clientOf cc) pid false with ⟨e, he⟩ | ⟨_ | r, gs, he, _⟩ <;> simp only [he]
    all_goals repeat' split
    all_goals simp [partOf, topicOf, find?_insertAsc_self, hk, hkt, Topic.putPart]
    all_goals first
      | exact OffsetOnlyOpt.refl _ _ _
      | exact offsetOnlyOpt_putPart ‹_› (Part.storeOffset_offsetOnly ‹_›) c
  · simp only [step, Sys.withTopic, hs, ht]
    rcases t.resolve_cases cons (y.clientOf cc) pid false with ⟨e, he⟩ | ⟨_ | r, gs, he, _⟩ <;> simp only [he]
    all_goals repeat' split
    all_goals simp [partOf, topicOf, find?_insertAsc_self, hk, hkt, Topic.putPart]
    all_goals first
      | exact OffsetOnlyOpt.refl _ _ _
      | exact offsetOnlyOpt_putPart ‹_› (Part.deleteOffset_offsetOnly ‹_›) c


/-! ## consumer groups and memberships -/

/-- the consumer group an operation names -/
def Op.group? : Op → Option Ident
  | .deleteGroup _ _ g | .join _ _ _ g | .leave _ _ _ g | .groupInfo _ _ g _ => some g
  | _ => none

theorem Group.addMember_id (g : Group) (c : Nat) : (g.addMember c).id = g.id := rfl
theorem Group.adoptOrder_id (g : Group) (o : List Nat) : (g.adoptOrder o).id = g.id := by
  unfold Group.adoptOrder; simp only; split <;> rfl

/-- an operation that names group `g` of topic `t` leaves every other group of `t` alone -/
theorem step_groups_agreeOff (y : Sys) (op : Op) (si ti gi : Ident) (s : Stream) (t : Topic) (g : Group)
    (hop : op.stream? = some si) (hop' : op.topic? = some ti) (hop'' : op.group? = some gi)
    (hs : y.findStream si = .ok s) (ht : s.findTopic ti = .ok t) (hg : t.findGroup gi = .ok g)
    (gid' : Nat) (hne : gid' ≠ g.id) :
    groupOf (step y op).1.streams (s.id, t.id, gid') = find? t.groups gid' := by
  cases op <;> simp only [Op.stream?, Op.topic?, Op.group?, Option.some.injEq, reduceCtorEq] at hop hop' hop'' <;>
    cases hop <;> cases hop' <;> cases hop''
  all_goals simp only [step, Sys.withTopic, hs, ht, hg]
  all_goals try split
  all_goals simp [groupOf, topicOf, find?_insertAsc_self, Topic.putGroup, find?_insertAsc_ne _ _ hne,
    find?_erase_ne _ hne, Group.deleteMember_id, Group.addMember_id, Group.adoptOrder_id]

theorem find?_map_if_ne {α : Type} (l : List (Nat × α)) (k k' : Nat) (f : Nat × α → Nat × α)
    (hf : ∀ e, (f e).1 = e.1) (h : k' ≠ k) :
    find? (l.map (fun e => if e.1 = k then f e else e)) k' = find? l k' := by
  induction l with
  | nil => rfl
  | cons e l ih =>
    obtain ⟨a, v⟩ := e
    simp only [List.map_cons]
    by_cases ha : a = k
    · subst ha
      simp only [if_true]
      have h1 : (f (a, v)).1 ≠ k' := by rw [hf]; exact Ne.symm h
      have : f (a, v) = ((f (a, v)).1, (f (a, v)).2) := rfl
      rw [this, find?_cons, find?_cons, if_neg h1, if_neg (Ne.symm h), ih]
    · simp only [ha, if_false, find?_cons, ih]

/-- `join` / `leave` on connection `c` change the membership list of `c`'s client only; `clients` is
untouched -/
theorem step_join_leave_memberships (y : Sys) (op : Op) (c : Nat)
    (hop : (∃ si ti gi, op = .join c si ti gi) ∨ (∃ si ti gi, op = .leave c si ti gi)) :
    AgreeOff (y.clientOf c) y.memberships (step y op).1.memberships ∧ (step y op).1.clients = y.clients := by
  rcases hop with ⟨si, ti, gi, rfl⟩ | ⟨si, ti, gi, rfl⟩
  all_goals simp only [step, Sys.withTopic]
  all_goals repeat' split
  all_goals refine ⟨?_, rfl⟩
  all_goals first
    | exact AgreeOff.refl _ _
    | exact (AgreeOff.refl _ _).insert _
    | (intro k' hk'
       exact find?_map_if_ne _ _ _ (fun e => (e.1, List.filter _ e.2)) (fun _ => rfl) hk')

/-! ## target 5: the authentication layer -/


deriving instance DecidableEq for User

/-- the user an authentication-layer operation names -/
def AOp.user? : AOp → Option Ident
  | .deleteUser _ u | .updateUser _ u _ _ | .updatePerms _ u _ | .changePw _ u _ _ | .userInfo _ u => some u
  | _ => none

/-- the connection an operation is issued on (`cleanPats` is the background cleaner) -/
def AOp.conn? : AOp → Option Nat
  | .ping c | .login c .. | .loginPat c _ | .logout c | .createUser c .. | .deleteUser c _ | .updateUser c ..
  | .updatePerms c .. | .changePw c .. | .userInfo c _ | .users c | .createPat c .. | .deletePat c _ | .pats c
  | .core c _ => some c
  | .cleanPats => none

@[simp] theorem ASys.putUser_users (a : ASys) (u : User) : (a.putUser u).users = insertAsc a.users u.id u := rfl
@[simp] theorem ASys.putUser_sessions (a : ASys) (u : User) : (a.putUser u).sessions = a.sessions := rfl
@[simp] theorem ASys.putUser_sys (a : ASys) (u : User) : (a.putUser u).sys = a.sys := rfl

/-- an operation naming user `u` touches, in the user table, only the entry under `u.id`; it touches
no session and nothing of the core system -/
theorem stepA0_user_frame (a : ASys) (op : AOp) (ui : Ident) (u : User) (hop : op.user? = some ui)
    (hu : a.findUser ui = some u) :
    AgreeOff u.id a.users (stepA0 a op).1.users ∧ (stepA0 a op).1.sessions = a.sessions ∧
    (stepA0 a op).1.sys = a.sys := by
  cases op <;> simp only [AOp.user?, Option.some.injEq, reduceCtorEq] at hop <;> cases hop
  all_goals simp only [stepA0, hu]
  all_goals repeat' split
  all_goals refine ⟨?_, rfl, rfl⟩
  all_goals first | exact AgreeOff.refl _ _ | exact (AgreeOff.refl _ _).insert _ | exact (AgreeOff.refl _ _).erase

theorem stepA0_user_unresolved (a : ASys) (op : AOp) (ui : Ident) (hop : op.user? = some ui)
    (hu : a.findUser ui = none) : (stepA0 a op).1 = a := by
  cases op <;> simp only [AOp.user?, Option.some.injEq, reduceCtorEq] at hop <;> cases hop
  all_goals simp only [stepA0, hu]
  all_goals repeat' split
  all_goals rfl

/-- `createUser` only adds an entry: every existing user record stays (the id cursor is beyond every id
in use — `UWF.fresh`); no session and nothing of the core system is touched -/
theorem stepA0_createUser_frame {a : ASys} (h : a.UWF) (c : Nat) (name pw : String) (active : Bool)
    (perms : Option Permissions) :
    (∀ k u, find? a.users k = some u → find? (stepA0 a (.createUser c name pw active perms)).1.users k = some u) ∧
    (stepA0 a (.createUser c name pw active perms)).1.sessions = a.sessions ∧
    (stepA0 a (.createUser c name pw active perms)).1.sys = a.sys := by
  simp only [stepA0]
  repeat' split
  all_goals refine ⟨?_, rfl, rfl⟩
  all_goals intro k u hk
  all_goals try exact hk
  simp only
  rw [find?_insertAsc_ne _ _ _, hk]
  have := h.fresh _ (mem_of_find? hk)
  simp only at this
  omega

/-- token operations act on the record of the session's own user only -/
theorem stepA0_pat_frame (a : ASys) (op : AOp) (c : Nat) (u : User)
    (hop : (∃ n e, op = .createPat c n e) ∨ (∃ n, op = .deletePat c n) ∨ op = .pats c)
    (hu : find? a.users (a.userOf c) = some u) :
    AgreeOff u.id a.users (stepA0 a op).1.users ∧ (stepA0 a op).1.sessions = a.sessions ∧
    (stepA0 a op).1.sys = a.sys := by
  rcases hop with ⟨n, e, rfl⟩ | ⟨n, rfl⟩ | rfl
  all_goals simp only [stepA0, hu]
  all_goals repeat' split
  all_goals refine ⟨?_, rfl, rfl⟩
  all_goals first | exact AgreeOff.refl _ _ | exact (AgreeOff.refl _ _).insert _

/-- `login` / `loginPat` / `logout` on connection `c` change only the session of `c` -/
theorem stepA0_login_frame (a : ASys) (op : AOp) (c : Nat)
    (hop : (∃ n p, op = .login c n p) ∨ (∃ k, op = .loginPat c k) ∨ op = .logout c) :
    (stepA0 a op).1 = { a with sessions := (stepA0 a op).1.sessions } ∧
    AgreeOff c a.sessions (stepA0 a op).1.sessions := by
  rcases hop with ⟨n, p, rfl⟩ | ⟨k, rfl⟩ | rfl
  all_goals simp only [stepA0]
  all_goals repeat' split
  all_goals refine ⟨rfl, ?_⟩
  all_goals first | exact AgreeOff.refl _ _ | exact (AgreeOff.refl _ _).insert _ | exact (AgreeOff.refl _ _).erase

/-- sessions: every operation except a restart of the core system leaves the session of every
connection other than the issuing one alone; only `login`, `loginPat`, `logout` and `close` touch
sessions at all -/
theorem stepA0_sessions_frame (a : ASys) (op : AOp) (hop : ∀ c cl, op ≠ .core c (.restart cl)) (c' : Nat)
    (hc : op.conn? ≠ some c') : find? (stepA0 a op).1.sessions c' = find? a.sessions c' := by
  cases op
  case core c cop =>
    have hc' : c' ≠ c := fun h => hc (by rw [h]; rfl)
    cases cop
    case restart cl => exact absurd rfl (hop c cl)
    case close cc =>
      simp only [stepA0]
      exact find?_erase_ne _ hc'
    all_goals simp only [stepA0]
    all_goals repeat' split
    all_goals rfl
  case login c n p =>
    have hc' : c' ≠ c := fun h => hc (by rw [h]; rfl)
    simp only [stepA0]
    repeat' split
    all_goals first | rfl | exact find?_insertAsc_ne _ _ hc'
  case loginPat c k =>
    have hc' : c' ≠ c := fun h => hc (by rw [h]; rfl)
    simp only [stepA0]
    repeat' split
    all_goals first | rfl | exact find?_insertAsc_ne _ _ hc'
  case logout c =>
    have hc' : c' ≠ c := fun h => hc (by rw [h]; rfl)
    simp only [stepA0]
    repeat' split
    all_goals first | rfl | exact find?_erase_ne _ hc'
  all_goals simp only [stepA0]
  all_goals repeat' split
  all_goals rfl

/-- which operations touch sessions at all -/
theorem stepA0_sessions_same (a : ASys) (op : AOp)
    (h1 : ∀ c n p, op ≠ .login c n p) (h2 : ∀ c k, op ≠ .loginPat c k) (h3 : ∀ c, op ≠ .logout c)
    (h4 : ∀ c cc, op ≠ .core c (.close cc)) (h5 : ∀ c cl, op ≠ .core c (.restart cl)) :
    (stepA0 a op).1.sessions = a.sessions := by
  cases op
  case login c n p => exact absurd rfl (h1 c n p)
  case loginPat c k => exact absurd rfl (h2 c k)
  case logout c => exact absurd rfl (h3 c)
  case core c cop =>
    cases cop
    case restart cl => exact absurd rfl (h5 c cl)
    case close cc => exact absurd rfl (h4 c cc)
    all_goals simp only [stepA0]
    all_goals repeat' split
    all_goals rfl
  all_goals simp only [stepA0]
  all_goals repeat' split
  all_goals rfl

/-- a core operation acts on the core system as `step` does, or is refused and changes nothing -/
theorem stepA0_core_sys (a : ASys) (c : Nat) (op : Op) :
    (stepA0 a (.core c op)).1.sys = (step a.sys op).1 ∨ (stepA0 a (.core c op)).1 = a := by
  cases op
  all_goals simp only [stepA0]
  all_goals repeat' split
  all_goals first | exact .inl trivial | exact .inl rfl | exact .inr rfl

end Iggy.Sys
