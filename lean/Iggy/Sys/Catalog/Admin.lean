/-
The twelve journalled administrative commands: each either fails without a visible change or is
`Journaled`.
-/
import Iggy.Sys.Catalog.Spec
namespace Iggy.Sys
open Iggy.Log

theorem any_name_false {α : Type} {l : List (Nat × α)} {nm : α → String} {name : String}
    (h : ¬ (l.any fun e => decide (nm e.2 = name)) = true) : ∀ e ∈ l, nm e.2 ≠ name := by
  intro e he hn
  apply h
  exact List.any_eq_true.2 ⟨e, he, by simpa using hn⟩

theorem spec_createStream_core {y : Sys} (h : y.CatWF) {name : String}
    (hname : ¬ (y.streams.any fun e => decide (e.2.name = name)) = true) (sid cursor : Nat) :
    Spec y (if (find? y.streams sid).isSome = true then
        (({ y with streamCursor := cursor } : Sys), Out.err "stream_id_already_exists", [])
      else
        (({ y with streams := insertAsc y.streams sid { id := sid, name := name, topics := [], topicCursor := 1 },
                   streamCursor := cursor } : Sys).journalAdd (.createStream sid name), .okId sid, [])) := by
  split
  · exact .failed rfl rfl
  · next hid =>
    refine .logged (.createStream sid name) rfl ⟨rfl, ?_, ?_⟩
    · show CatView.WF (mapE _ (insertAsc _ _ _))
      rw [mapE_insertAsc]
      refine CatView.WF.insert h rfl ?_ (ScopeP.nil : ScopeP TV.id TV.name TV.WF [])
      intro x hx hn
      obtain ⟨a, ha, rfl⟩ := mem_mapE.1 hx
      exact absurd hn (any_name_false (nm := Stream.name) hname a ha)
    · intro r hr hp
      refine ⟨?_, hp⟩
      show mapE _ (insertAsc _ _ _) = mapE _ (insertAsc _ _ _)
      rw [mapE_insertAsc, mapE_insertAsc]
      show insertAsc (viewR r) _ _ = insertAsc (viewY y) _ _
      rw [hr]
      rfl

theorem spec_createStream {y : Sys} (h : y.CatWF) (id : Option Nat) (name : String) :
    Spec y (step y (.createStream id name)) := by
  simp only [step]
  split
  · exact .failed rfl rfl
  · next hname => exact spec_createStream_core h hname _ _

theorem any_other_false {α : Type} {l : List (Nat × α)} {nm : α → String} {name : String} {k : Nat}
    (h : ¬ (l.any fun e => decide (nm e.2 = name ∧ e.1 ≠ k)) = true) : ∀ e ∈ l, nm e.2 = name → e.1 = k := by
  intro e he hn
  apply Classical.byContradiction
  intro hk
  apply h
  exact List.any_eq_true.2 ⟨e, he, by simpa using ⟨hn, hk⟩⟩

theorem spec_updateStream {y : Sys} (h : y.CatWF) (si : Ident) (name : String) :
    Spec y (step y (.updateStream si name)) := by
  simp only [step]
  split
  · exact .failed rfl rfl
  · next s hs =>
    obtain ⟨hm, hsi⟩ := h.findStream.1 hs
    split
    · exact .failed rfl rfl
    · next hname =>
      refine .logged (.updateStream si name) rfl
        (Journaled.stream h hm hsi (f := fun s => some { s with name := name }) (fun r => rfl)
          (s' := { s with name := name }) rfl ?_ ?_ ?_ rfl rfl)
      · exact any_other_false (nm := Stream.name) hname
      · exact (h.stream hm : s.view.WF)
      · intro sr hsr
        refine ⟨_, rfl, ?_⟩
        have h1 := congrArg SV.id hsr
        have h2 := congrArg SV.topics hsr
        simp only [RStream.view, Stream.view] at h1 h2 ⊢
        rw [h1, h2]

theorem spec_deleteStream {y : Sys} (h : y.CatWF) (si : Ident) : Spec y (step y (.deleteStream si)) := by
  simp only [step]
  split
  · exact .failed rfl rfl
  · next s hs =>
    obtain ⟨hm, hsi⟩ := h.findStream.1 hs
    refine .logged (.deleteStream si) rfl ⟨rfl, ?_, ?_⟩
    · show CatView.WF (mapE _ (erase y.streams s.id))
      rw [mapE_erase]; exact CatView.WF.erase h _
    · intro r hr hp
      have hV : CatView.WF (viewR r) := by rw [hr]; exact h
      have hm' : (s.id, s.view) ∈ viewR r := by rw [hr]; exact mem_viewY hm
      have := viewR_deleteStream hp hV hm' hsi
      refine ⟨?_, this.2⟩
      rw [this.1, hr]
      exact (mapE_erase _ _ _).symm

theorem spec_purgeStream {y : Sys} (h : y.CatWF) (si : Ident) : Spec y (step y (.purgeStream si)) := by
  simp only [step]
  split
  · exact .failed rfl rfl
  · next s hs =>
    obtain ⟨hm, hsi⟩ := h.findStream.1 hs
    have hv : (s.mapTopics (fun t => mapParts t (fun p => p.purge y.cfg y.now))).view = s.view :=
      Stream.view_mapTopics s _ (fun t => Topic.view_mapParts t _)
    refine .logged (.purgeStream si) rfl
      (Journaled.stream h hm hsi (f := some) (fun r => rfl)
        (s' := s.mapTopics (fun t => mapParts t (fun p => p.purge y.cfg y.now))) rfl ?_ ?_ ?_ rfl rfl)
    · exact h.scope.fresh_of_same_name hm rfl
    · rw [hv]; exact h.stream hm
    · intro sr hsr
      exact ⟨sr, rfl, by rw [hv, hsr]⟩

/-! ### topics -/

theorem mkParts_keys (cfg : Cfg) (e : Option Nat) (now k n : Nat) :
    (mkParts cfg e now k n).map (·.1) = List.range' k n := by
  simp [mkParts, List.range'_eq_map_range, List.map_map, Function.comp_def]

theorem mkParts_length (cfg : Cfg) (e : Option Nat) (now k n : Nat) : (mkParts cfg e now k n).length = n := by
  simp [mkParts]

theorem TV.WF.congr {tv tv' : TV} (h : tv.WF) (hp : tv'.parts = tv.parts) (hg : tv'.groups = tv.groups) : tv'.WF := by
  unfold TV.WF at h ⊢
  rw [hp, hg]; exact h

theorem nparts_of_view {tr : RTopic} {t : Topic} (hv : tr.view = t.view) : tr.nparts = t.parts.length := by
  have := congrArg (fun v => v.parts.length) hv
  simpa [RTopic.view, Topic.view] using this

theorem spec_createTopic_core {y : Sys} (h : y.CatWF) {si : Ident} {s : Stream} (hm : (s.id, s) ∈ y.streams)
    (hsi : si.Matches s.id s.name) {name : String}
    (hname : ¬ (s.topics.any fun te => decide (te.2.name = name)) = true)
    (tid cursor nparts : Nat) (expiry maxSize repl : Option Nat) (effs : List Effect) :
    Spec y (if (find? s.topics tid).isSome = true then
        (y.putStream { s with topicCursor := cursor }, Out.err "topic_id_already_exists", [])
      else
        ((y.putTopic { s with topicCursor := cursor }
            { id := tid, name := name, parts := mkParts y.cfg expiry y.now 1 nparts, expiry := expiry,
              maxSize := maxSize, repl := repl.getD 1, cursor := 1 }).journalAdd
          (.createTopic si tid name nparts expiry maxSize repl), .okId tid, effs)) := by
  split
  · exact .failed (viewY_putStream_same h hm (s' := { s with topicCursor := cursor }) rfl rfl) rfl
  · next hid =>
    have hS := h.stream hm
    let t : Topic := Topic.mk tid name (mkParts y.cfg expiry y.now 1 nparts) expiry maxSize (repl.getD 1) 1 [] 1
    have htv : t.view = ⟨tid, name, List.range' 1 nparts, expiry, maxSize, repl.getD 1, []⟩ := by
      simp only [t, Topic.view, mkParts_keys]; rfl
    have hview : (Stream.putTopic { s with topicCursor := cursor } t).view = s.view.setTopic tid t.view :=
      Stream.view_putTopic _ _
    refine .logged (.createTopic si tid name nparts expiry maxSize repl) rfl
      (Journaled.stream h hm hsi
        (f := fun s => some { s with topics := insertAsc s.topics tid ⟨tid, name, nparts, expiry, maxSize, repl, []⟩ })
        (fun r => rfl) (s' := Stream.putTopic { s with topicCursor := cursor } t) rfl ?_ ?_ ?_ rfl rfl)
    · exact h.scope.fresh_of_same_name hm rfl
    · rw [hview]
      refine SV.WF.setTopic hS rfl ?_ ?_
      · intro x hx hn
        obtain ⟨a, ha, rfl⟩ := mem_mapE (f := fun _ (t : Topic) => t.view).1 hx
        exact absurd hn (any_name_false (nm := Topic.name) hname a ha)
      · rw [htv]
        exact ⟨by simp, ScopeP.nil⟩
    · intro sr hsr
      refine ⟨_, rfl, ?_⟩
      rw [hview, ← hsr, htv]
      simp only [RStream.view, SV.setTopic, mapE_insertAsc, RTopic.view]
      rfl

theorem spec_createTopic {y : Sys} (h : y.CatWF) (si : Ident) (id : Option Nat) (name : String) (nparts : Nat)
    (e : ExpiryArg) (m : MaxArg) (repl : Option Nat) :
    Spec y (step y (.createTopic si id name nparts e m repl)) := by
  simp only [step]
  split
  · exact .failed rfl rfl
  · next s hs =>
    obtain ⟨hm, hsi⟩ := h.findStream.1 hs
    split
    · exact .failed rfl rfl
    · next maxSize hmax =>
      split
      · exact .failed rfl rfl
      · next hname => exact spec_createTopic_core h hm hsi hname _ _ _ _ _ _ _

end Iggy.Sys
