/-
Journalled commands below a topic: update / delete / purge topic, create / delete partitions,
create / delete consumer group.
-/
import Iggy.Sys.Catalog.Admin
namespace Iggy.Sys
open Iggy.Log

/-- view-level: a new partition set; every group is re-balanced over it -/
def TV.setParts (tv : TV) (ps : List Nat) : TV :=
  { tv with parts := ps, groups := mapE (fun _ gv => { gv with nparts := ps.length }) tv.groups }

theorem TV.WF.setParts {tv : TV} (h : tv.WF) {ps : List Nat} (hps : ps = List.range' 1 ps.length) :
    (tv.setParts ps).WF := by
  refine ⟨hps, ⟨?_, ?_⟩⟩
  · exact (scope_mapE (idf := GV.id) (nm := GV.name) (idf' := GV.id) (nm' := GV.name)
      (fun _ (gv : GV) => ({ gv with nparts := ps.length } : GV)) (fun _ _ => rfl) (fun _ _ => rfl)).2 h.2.toScope
  · intro e he
    obtain ⟨a, _, rfl⟩ := mem_mapE (f := fun _ (gv : GV) => ({ gv with nparts := ps.length } : GV)).1 he
    rfl

theorem Topic.view_reassign (t : Topic) :
    (Topic.reassignGroups t).view = t.view.setParts (t.parts.map (·.1)) := by
  simp only [Topic.reassignGroups, Topic.view, TV.setParts, mapE, List.map_map, List.length_map]
  rfl

theorem RTopic.view_setNparts (tr : RTopic) (m : Nat) :
    ({ tr with nparts := m } : RTopic).view = tr.view.setParts (List.range' 1 m) := by
  simp only [RTopic.view, TV.setParts, mapE, List.map_map, List.length_range']
  rfl

theorem spec_updateTopic {y : Sys} (h : y.CatWF) (si ti : Ident) (name : String) (e : ExpiryArg) (m : MaxArg)
    (repl : Option Nat) : Spec y (step y (.updateTopic si ti name e m repl)) := by
  simp only [step]
  apply withTopic_elim h (fun e => .failed rfl rfl)
  intro s t hs hsi ht hti
  split
  · exact .failed rfl rfl
  · next maxSize hmax =>
    split
    · exact .failed rfl rfl
    · next hname =>
      have hT := (h.stream hs).topic ht
      refine .logged _ rfl (Journaled.topic h hs hsi ht hti
        (f := fun t => { t with name := name, expiry := resolveExpiry y.scfg e, maxSize := maxSize, repl := repl })
        rfl rfl rfl (fun r => rfl) rfl ?_ ?_ ?_)
      · exact any_other_false (nm := Topic.name) hname
      · refine hT.congr ?_ rfl
        simp [Topic.view, List.map_map, Function.comp_def]
      · intro tr hv
        have h1 := congrArg TV.id hv
        have h2 := congrArg TV.parts hv
        have h3 := congrArg TV.groups hv
        simp only [RTopic.view, Topic.view] at h1 h2 h3 ⊢
        simp only [h1, h2, h3, List.map_map, Function.comp_def]

theorem spec_deleteTopic {y : Sys} (h : y.CatWF) (si ti : Ident) : Spec y (step y (.deleteTopic si ti)) := by
  simp only [step]
  apply withTopic_elim h (fun e => .failed rfl rfl)
  intro s t hs hsi ht hti
  have hS := h.stream hs
  let s' : Stream := { s with topics := erase s.topics t.id, topicCursor := if t.id < s.topicCursor then t.id else s.topicCursor }
  have hview : s'.view = s.view.delTopic t.id := by
    simp only [s', Stream.view, SV.delTopic, mapE_erase]
  refine .logged (.deleteTopic si ti) rfl (Journaled.stream h hs hsi
    (f := fun s => (s.findTopicId ti).map (fun tid => { s with topics := erase s.topics tid }))
    (fun r => rfl) (s' := s') rfl ?_ ?_ ?_ rfl rfl)
  · exact h.scope.fresh_of_same_name hs rfl
  · rw [hview]; exact hS.delTopic _
  · intro sr hsr
    have h1 : sr.findTopicId ti = some t.id := by
      rw [RStream.findTopicId_eq, hsr]
      exact hS.toScope.findK_of (mem_view_topics ht) hti
    refine ⟨_, by rw [h1]; rfl, ?_⟩
    rw [hview, ← hsr]
    simp only [RStream.view, SV.delTopic, mapE_erase]

theorem spec_purgeTopic {y : Sys} (h : y.CatWF) (si ti : Ident) : Spec y (step y (.purgeTopic si ti)) := by
  simp only [step]
  apply withTopic_elim h (fun e => .failed rfl rfl)
  intro s t hs hsi ht hti
  have hT := (h.stream hs).topic ht
  have hv : (mapParts t (fun p => p.purge y.cfg y.now)).view = t.view := Topic.view_mapParts _ _
  refine .logged _ rfl (Journaled.topic h hs hsi ht hti (f := id) rfl rfl rfl (fun r => rfl) rfl ?_ ?_ ?_)
  · exact (h.stream hs).scope.fresh_of_same_name ht rfl
  · rw [hv]; exact hT
  · intro tr htr; rw [hv]; exact htr

theorem spec_createParts {y : Sys} (h : y.CatWF) (si ti : Ident) (n : Nat) :
    Spec y (step y (.createParts si ti n)) := by
  simp only [step]
  apply withTopic_elim h (fun e => .failed rfl rfl)
  intro s t hs hsi ht hti
  have hT := (h.stream hs).topic ht
  have hkeys : (t.parts ++ mkParts y.cfg t.expiry y.now (t.parts.length + 1) n).map (·.1) =
      List.range' 1 (t.parts.length + n) := by
    rw [List.map_append, mkParts_keys, hT.part_keys, Nat.add_comm t.parts.length 1]
    simp
  refine .logged _ rfl (Journaled.topic h hs hsi ht hti (f := fun t => { t with nparts := t.nparts + n })
    rfl rfl rfl (fun r => rfl) rfl ?_ ?_ ?_)
  · exact (h.stream hs).scope.fresh_of_same_name ht rfl
  · rw [Topic.view_reassign]
    refine TV.WF.setParts (tv := Topic.view _) (hT.congr rfl rfl) ?_
    simp only [hkeys, List.length_range']
  · intro tr htr
    rw [Topic.view_reassign, RTopic.view_setNparts, nparts_of_view htr]
    simp only [hkeys]
    have h1 := congrArg TV.id htr
    have h2 := congrArg TV.name htr
    have h3 := congrArg TV.groups htr
    have h4 := congrArg TV.expiry htr
    have h5 := congrArg TV.maxSize htr
    have h6 := congrArg TV.repl htr
    simp only [TV.setParts, Topic.view] at h1 h2 h3 h4 h5 h6 ⊢
    simp only [h1, h2, h3, h4, h5, h6]

theorem spec_deleteParts {y : Sys} (h : y.CatWF) (si ti : Ident) (n : Nat) :
    Spec y (step y (.deleteParts si ti n)) := by
  simp only [step]
  apply withTopic_elim h (fun e => .failed rfl rfl)
  intro s t hs hsi ht hti
  have hT := (h.stream hs).topic ht
  have hkeys : (t.parts.take (t.parts.length - min n t.parts.length)).map (·.1) =
      List.range' 1 (t.parts.length - n) := by
    rw [List.map_take, hT.part_keys, List.take_range'_of_length_ge (by omega)]
    congr 1; omega
  refine .logged _ rfl (Journaled.topic h hs hsi ht hti (f := fun t => { t with nparts := t.nparts - n })
    rfl rfl rfl (fun r => rfl) rfl ?_ ?_ ?_)
  · exact (h.stream hs).scope.fresh_of_same_name ht rfl
  · rw [Topic.view_reassign]
    refine TV.WF.setParts (tv := Topic.view _) (hT.congr rfl rfl) ?_
    simp only [hkeys, List.length_range']
  · intro tr htr
    rw [Topic.view_reassign, RTopic.view_setNparts, nparts_of_view htr]
    simp only [hkeys]
    have h1 := congrArg TV.id htr
    have h2 := congrArg TV.name htr
    have h3 := congrArg TV.groups htr
    have h4 := congrArg TV.expiry htr
    have h5 := congrArg TV.maxSize htr
    have h6 := congrArg TV.repl htr
    simp only [TV.setParts, Topic.view] at h1 h2 h3 h4 h5 h6 ⊢
    simp only [h1, h2, h3, h4, h5, h6]

theorem spec_createGroup_core {y : Sys} (h : y.CatWF) {si ti : Ident} {s : Stream} {t : Topic}
    (hs : (s.id, s) ∈ y.streams) (hsi : si.Matches s.id s.name) (ht : (t.id, t) ∈ s.topics)
    (hti : ti.Matches t.id t.name) {name : String}
    (hname : ¬ (t.groups.any fun ge => decide (ge.2.name = name)) = true) (gid cursor : Nat) :
    Spec y (if (find? t.groups gid).isSome = true then
        (y.putTopic s { t with groupCursor := cursor }, Out.err "consumer_group_id_already_exists", [])
      else
        ((y.putTopic s (Topic.putGroup { t with groupCursor := cursor }
            { id := gid, name := name, nparts := t.parts.length, members := [] })).journalAdd
          (.createGroup si ti gid name), .okId gid, [])) := by
  split
  · exact .failed (viewY_putTopic_same h hs ht (t' := { t with groupCursor := cursor }) rfl rfl) rfl
  · next hid =>
    have hT := (h.stream hs).topic ht
    have hview : (Topic.putGroup { t with groupCursor := cursor }
        { id := gid, name := name, nparts := t.parts.length, members := [] }).view =
        t.view.setGroup gid ⟨gid, name, t.parts.length⟩ := Topic.view_putGroup _ _
    refine .logged _ rfl (Journaled.topic h hs hsi ht hti
      (f := fun t => { t with groups := insertAsc t.groups gid name }) rfl rfl rfl (fun r => rfl) rfl ?_ ?_ ?_)
    · exact (h.stream hs).scope.fresh_of_same_name ht rfl
    · rw [hview]
      refine hT.setGroup rfl ?_ (by simp [Topic.view])
      intro x hx hn
      obtain ⟨a, ha, rfl⟩ := mem_mapE (f := fun _ (g : Group) => g.view).1 hx
      exact absurd hn (any_name_false (nm := Group.name) hname a ha)
    · intro tr htr
      rw [hview, ← htr, ← nparts_of_view htr]
      simp only [RTopic.view, TV.setGroup, mapE_insertAsc]

theorem spec_createGroup {y : Sys} (h : y.CatWF) (si ti : Ident) (id : Option Nat) (name : String) :
    Spec y (step y (.createGroup si ti id name)) := by
  simp only [step]
  apply withTopic_elim h (fun e => .failed rfl rfl)
  intro s t hs hsi ht hti
  split
  · exact .failed rfl rfl
  · next hname => exact spec_createGroup_core h hs hsi ht hti hname _ _

theorem spec_deleteGroup {y : Sys} (h : y.CatWF) (si ti gi : Ident) : Spec y (step y (.deleteGroup si ti gi)) := by
  simp only [step]
  apply withTopic_elim h (fun e => .failed rfl rfl)
  intro s t hs hsi ht hti
  have hT := (h.stream hs).topic ht
  split
  · exact .failed rfl rfl
  · next g hg =>
    obtain ⟨hgm, hgi⟩ := hT.findGroup.1 hg
    refine .logged _ rfl (Journaled.topic h hs hsi ht hti
      (f := fun t => match t.findGroupId gi with
        | none => t
        | some gid => { t with groups := erase t.groups gid }) rfl rfl rfl (fun r => rfl) rfl ?_ ?_ ?_)
    · exact (h.stream hs).scope.fresh_of_same_name ht rfl
    · refine (hT.delGroup g.id).congr ?_ ?_
      · simp [Topic.view, TV.delGroup, List.map_map, Function.comp_def]
      · simp only [Topic.view, TV.delGroup, mapE_erase]
    · intro tr htr
      have h1 : tr.findGroupId gi = some g.id := by
        rw [RTopic.findGroupId_eq, htr]
        exact hT.2.toScope.findK_of (mem_view_groups hgm) hgi
      simp only [h1]
      have h1 := congrArg TV.id htr
      have h2 := congrArg TV.name htr
      have h3 := congrArg TV.groups htr
      have h4 := congrArg TV.expiry htr
      have h5 := congrArg TV.maxSize htr
      have h6 := congrArg TV.repl htr
      have h7 := congrArg TV.parts htr
      simp only [RTopic.view, Topic.view] at h1 h2 h3 h4 h5 h6 h7 ⊢
      simp only [h1, h2, h4, h5, h6, h7, mapE_erase, h3, List.map_map, Function.comp_def]

end Iggy.Sys
