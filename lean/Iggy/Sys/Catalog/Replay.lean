/-
The journal replay (`applyEntry`, `RCat.withStream`, `RStream.withTopic`) and the start-up
(`loadCatalog`), seen through the catalogue view.
-/
import Iggy.Sys.Catalog.Trans
namespace Iggy.Sys
open Iggy.Log

theorem replay_snoc (js : List Entry) (e : Entry) : replay (js ++ [e]) = applyEntry (replay js) e := by
  simp [replay, List.foldl_append]

theorem find?_viewR {r : RCat} {k : Nat} {sv : SV} (h : find? (viewR r) k = some sv) :
    ∃ sr, find? r.streams k = some sr ∧ sr.view = sv := by
  rw [viewR, find?_mapE] at h
  cases hf : find? r.streams k with
  | none => rw [hf] at h; simp at h
  | some sr => rw [hf] at h; simp at h; exact ⟨sr, rfl, h⟩

theorem find?_view_topics {sr : RStream} {k : Nat} {tv : TV} (h : find? sr.view.topics k = some tv) :
    ∃ tr, find? sr.topics k = some tr ∧ tr.view = tv := by
  rw [RStream.view, find?_mapE] at h
  cases hf : find? sr.topics k with
  | none => rw [hf] at h; simp at h
  | some tr => rw [hf] at h; simp at h; exact ⟨tr, rfl, h⟩

/-- the replay resolves the stream the runtime resolved, and rewrites it with `f` -/
theorem viewR_withStream {r : RCat} (hp : r.panicked = false) (hV : CatView.WF (viewR r)) {si : Ident} {k : Nat}
    {sv sv' : SV} (hm : (k, sv) ∈ viewR r) (hi : si.Matches k sv.name) {f : RStream → Option RStream}
    (hf : ∀ sr, sr.view = sv → ∃ sr', f sr = some sr' ∧ sr'.view = sv') :
    viewR (r.withStream si f) = insertAsc (viewR r) k sv' ∧ (r.withStream si f).panicked = false := by
  have h1 : r.findStreamId si = some k := by
    rw [RCat.findStreamId_eq]; exact hV.toScope.findK_of hm hi
  obtain ⟨sr, h2, h3⟩ := find?_viewR (find?_of_mem hV.asc hm)
  obtain ⟨sr', h4, h5⟩ := hf sr h3
  simp only [RCat.withStream, h1, h2, h4]
  refine ⟨?_, hp⟩
  rw [← h5]
  exact mapE_insertAsc _ _ _ _

theorem RStream.view_withTopic {sr : RStream} (hS : sr.view.WF) {ti : Ident} {k : Nat} {tv tv' : TV}
    (hm : (k, tv) ∈ sr.view.topics) (hi : ti.Matches k tv.name) {f : RTopic → RTopic}
    (hf : ∀ tr, tr.view = tv → (f tr).view = tv') :
    ∃ sr', sr.withTopic ti f = some sr' ∧ sr'.view = sr.view.setTopic k tv' := by
  have h1 : sr.findTopicId ti = some k := by
    rw [RStream.findTopicId_eq]; exact hS.toScope.findK_of hm hi
  obtain ⟨tr, h2, h3⟩ := find?_view_topics (find?_of_mem hS.asc hm)
  simp only [RStream.withTopic, h1, h2]
  refine ⟨_, rfl, ?_⟩
  simp only [RStream.view, SV.setTopic, mapE_insertAsc, hf tr h3]

theorem viewR_withTopic {r : RCat} (hp : r.panicked = false) (hV : CatView.WF (viewR r)) {si ti : Ident} {ks kt : Nat}
    {sv : SV} {tv tv' : TV} (hs : (ks, sv) ∈ viewR r) (hsi : si.Matches ks sv.name)
    (ht : (kt, tv) ∈ sv.topics) (hti : ti.Matches kt tv.name) {f : RTopic → RTopic}
    (hf : ∀ tr, tr.view = tv → (f tr).view = tv') :
    viewR (r.withStream si (fun s => s.withTopic ti f)) = insertAsc (viewR r) ks (sv.setTopic kt tv') ∧
    (r.withStream si (fun s => s.withTopic ti f)).panicked = false := by
  apply viewR_withStream hp hV hs hsi
  intro sr hsr
  subst hsr
  exact RStream.view_withTopic (hV.all _ hs) ht hti hf

theorem viewR_deleteStream {r : RCat} (hp : r.panicked = false) (hV : CatView.WF (viewR r)) {si : Ident} {k : Nat}
    {sv : SV} (hm : (k, sv) ∈ viewR r) (hi : si.Matches k sv.name) :
    viewR (applyEntry r (.deleteStream si)) = erase (viewR r) k ∧
    (applyEntry r (.deleteStream si)).panicked = false := by
  have h1 : r.findStreamId si = some k := by
    rw [RCat.findStreamId_eq]; exact hV.toScope.findK_of hm hi
  simp only [applyEntry, h1]
  exact ⟨mapE_erase _ _ _, hp⟩

/-! ### start-up -/

theorem range_succ_keys {α : Type} (n : Nat) (f : Nat → α) :
    ((List.range n).map (fun i => (i + 1, f i))).map (·.1) = List.range' 1 n := by
  rw [List.range'_eq_map_range, List.map_map]
  apply List.map_congr_left
  intro i _
  simp [Nat.add_comm]

/-- the catalogue after start-up is the replayed one -/
theorem viewY_loadCatalog (y : Sys) {r : RCat} (hV : CatView.WF (viewR r)) (cl : List (PKey × Nat)) :
    viewY (loadCatalog y r cl) = viewR r := by
  simp only [viewY, viewR, loadCatalog, mapE, List.map_map]
  apply List.map_congr_left
  intro se hse
  have hsv : (se.1, se.2.view) ∈ viewR r := mem_mapE (f := fun _ (s : RStream) => s.view).2 ⟨se, hse, rfl⟩
  have hid : se.2.id = se.1 := hV.key _ hsv
  have hS : se.2.view.WF := hV.all _ hsv
  simp only [Function.comp_def, Stream.view, RStream.view, mapE, List.map_map, hid]
  congr 2
  apply List.map_congr_left
  intro te hte
  have htv : (te.1, te.2.view) ∈ se.2.view.topics := mem_mapE (f := fun _ (t : RTopic) => t.view).2 ⟨te, hte, rfl⟩
  have htid : te.2.id = te.1 := hS.key _ htv
  simp only [Topic.view, RTopic.view, mapE, List.map_map, htid, Function.comp_def, Group.view]
  have : List.map (fun x => x + 1) (List.range te.2.nparts) = List.range' 1 te.2.nparts := by
    rw [List.range'_eq_map_range]
    apply List.map_congr_left
    intro i _
    exact Nat.add_comm _ _
  rw [this]

end Iggy.Sys
