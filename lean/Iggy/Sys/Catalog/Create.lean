/-
Create-then-get, and the absence of spurious failures: a create with a fresh name (and a fresh or
absent id) succeeds in every well-formed state; the id allocator always finds a free id.
-/
import Iggy.Sys.Catalog.Map
namespace Iggy.Sys
open Iggy.Log

/-! ### the allocator -/

theorem length_filter_lt {α : Type} {p q : α → Bool} {l : List α} (hpq : ∀ x, p x = true → q x = true) {a : α}
    (ha : a ∈ l) (hqa : q a = true) (hpa : p a = false) : (l.filter p).length < (l.filter q).length := by
  induction l with
  | nil => simp at ha
  | cons x l ih =>
    have hle : (l.filter p).length ≤ (l.filter q).length := by
      clear ih ha
      induction l with
      | nil => simp
      | cons z l ih2 =>
        simp only [List.filter_cons]
        cases hp : p z
        · cases hq : q z <;> simp <;> omega
        · simp [hpq z hp]; exact ih2
    rcases List.mem_cons.1 ha with rfl | ha
    · simp only [List.filter_cons, hqa, hpa]
      simp; omega
    · have := ih ha
      simp only [List.filter_cons]
      cases hp : p x
      · cases hq : q x <;> simp <;> omega
      · simp [hpq x hp]; exact this

/-- with more fuel than taken ids at or above the cursor, the allocated id is free -/
theorem allocId_fresh (keys : List Nat) (taken : Nat → Bool) (ht : ∀ i, taken i = true → i ∈ keys) :
    ∀ fuel c, (keys.filter (fun k => decide (c ≤ k))).length < fuel → taken (allocId taken c fuel).1 = false := by
  intro fuel
  induction fuel with
  | zero => intro c h; omega
  | succ fuel ih =>
    intro c h
    unfold allocId
    split
    · next htc =>
      apply ih
      have := length_filter_lt (p := fun k => decide (c + 1 ≤ k)) (q := fun k => decide (c ≤ k)) (l := keys)
        (fun x hx => by simp at hx ⊢; omega) (ht c htc) (by simp) (by simp)
      omega
    · next htc => simpa using htc

theorem allocId_fresh_assoc {α : Type} (l : List (Nat × α)) (c : Nat) :
    find? l (allocId (fun i => (find? l i).isSome) c (l.length + 1)).1 = none := by
  have := allocId_fresh (l.map (·.1)) (fun i => (find? l i).isSome)
    (fun i hi => by
      obtain ⟨e, he, rfl⟩ := find?_isSome.1 hi
      exact List.mem_map.2 ⟨e, he, rfl⟩) (l.length + 1) c
    (by
      have := List.length_filter_le (fun k => decide (c ≤ k)) (l.map (·.1))
      simp at this ⊢; omega)
  simpa using this

theorem not_any_of_fresh {α : Type} {l : List (Nat × α)} {nm : α → String} {name : String}
    (h : ∀ e ∈ l, nm e.2 ≠ name) : ¬ (l.any fun e => decide (nm e.2 = name)) = true := by
  intro hc
  obtain ⟨e, he, hn⟩ := List.any_eq_true.1 hc
  exact h e he (by simpa using hn)

/-! ### streams -/

/-- a create with a fresh name and a fresh (or no) explicit id never fails -/
theorem createStream_succeeds {y : Sys} {id : Option Nat} {name : String}
    (hname : ∀ e ∈ y.streams, e.2.name ≠ name) (hid : ∀ i, id = some i → find? y.streams i = none) :
    ∃ sid, (step y (.createStream id name)).2.1 = .okId sid ∧ (∀ i, id = some i → sid = i) := by
  have hany := not_any_of_fresh (nm := Stream.name) hname
  cases id with
  | some i =>
    refine ⟨i, ?_, fun j hj => by cases hj; rfl⟩
    simp only [step, if_neg hany, hid i rfl, Option.isSome_none, Bool.false_eq_true, if_false]
  | none =>
    refine ⟨?sid, ?h1, fun j hj => by cases hj⟩
    case h1 =>
      simp only [step, if_neg hany, allocId_fresh_assoc, Option.isSome_none, Bool.false_eq_true, if_false]
      rfl

/-- the shape of a successful `createStream` -/
theorem createStream_shape {y : Sys} {id : Option Nat} {name : String} {sid : Nat}
    (hout : (step y (.createStream id name)).2.1 = .okId sid) :
    find? y.streams sid = none ∧ ∃ cursor, step y (.createStream id name) =
      (({ y with streams := insertAsc y.streams sid ⟨sid, name, [], 1⟩, streamCursor := cursor } : Sys).journalAdd
        (.createStream sid name), .okId sid, []) := by
  revert hout
  cases id <;> simp only [step] <;> split
  · intro hout; simp at hout
  · split
    · intro hout; simp at hout
    · next hc =>
      intro hout
      have hx := Out.okId.inj hout
      subst hx
      exact ⟨by simpa using hc, _, rfl⟩
  · intro hout; simp at hout
  · split
    · intro hout; simp at hout
    · next hc =>
      intro hout
      have hx := Out.okId.inj hout
      subst hx
      exact ⟨by simpa using hc, _, rfl⟩

/-- after a successful `createStream` the stream is found by the returned id and by its name, and no
other stream was touched -/
theorem createStream_get {y : Sys} (h : y.CatWF) {id : Option Nat} {name : String} {sid : Nat}
    (hout : (step y (.createStream id name)).2.1 = .okId sid) :
    (step y (.createStream id name)).1.findStream (.num sid) = .ok ⟨sid, name, [], 1⟩ ∧
    (step y (.createStream id name)).1.findStream (.name name) = .ok ⟨sid, name, [], 1⟩ ∧
    (∀ k, k ≠ sid → find? (step y (.createStream id name)).1.streams k = find? y.streams k) ∧
    find? y.streams sid = none := by
  have hwf := catwf_step h (.createStream id name) (fun cl hc => by cases hc)
  obtain ⟨hnone, cursor, heq⟩ := createStream_shape hout
  rw [heq] at hwf ⊢
  have hm : (sid, (⟨sid, name, [], 1⟩ : Stream)) ∈ insertAsc y.streams sid ⟨sid, name, [], 1⟩ := mem_insertAsc_self _ _ _
  exact ⟨hwf.findStream.2 ⟨hm, rfl⟩, hwf.findStream.2 ⟨hm, rfl⟩, fun k hk => find?_insertAsc_ne _ _ hk, hnone⟩

/-! ### topics -/

theorem createTopic_succeeds {y : Sys} {si : Ident} {id : Option Nat} {name : String} {nparts : Nat}
    {e : ExpiryArg} {m : MaxArg} {repl : Option Nat} {s : Stream} {ms : Option Nat}
    (hs : y.findStream si = .ok s) (hmax : resolveMax y.cfg y.scfg m = .ok ms)
    (hname : ∀ te ∈ s.topics, te.2.name ≠ name) (hid : ∀ i, id = some i → find? s.topics i = none) :
    ∃ tid, (step y (.createTopic si id name nparts e m repl)).2.1 = .okId tid ∧ (∀ i, id = some i → tid = i) := by
  have hany := not_any_of_fresh (nm := Topic.name) hname
  cases id with
  | some i =>
    refine ⟨i, ?_, fun j hj => by cases hj; rfl⟩
    simp only [step, hs, hmax, if_neg hany, hid i rfl, Option.isSome_none, Bool.false_eq_true, if_false]
  | none =>
    refine ⟨?tid, ?h1, fun j hj => by cases hj⟩
    case h1 =>
      simp only [step, hs, hmax, if_neg hany, allocId_fresh_assoc, Option.isSome_none, Bool.false_eq_true, if_false]
      rfl

/-- the shape of a successful `createTopic` -/
theorem createTopic_shape {y : Sys} {si : Ident} {id : Option Nat} {name : String} {nparts : Nat}
    {e : ExpiryArg} {m : MaxArg} {repl : Option Nat} {s : Stream} {tid : Nat}
    (hs : y.findStream si = .ok s) (hout : (step y (.createTopic si id name nparts e m repl)).2.1 = .okId tid) :
    find? s.topics tid = none ∧ ∃ cursor maxSize, resolveMax y.cfg y.scfg m = .ok maxSize ∧
      step y (.createTopic si id name nparts e m repl) =
      ((y.putTopic { s with topicCursor := cursor }
          ⟨tid, name, mkParts y.cfg (resolveExpiry y.scfg e) y.now 1 nparts, resolveExpiry y.scfg e, maxSize,
            repl.getD 1, 1, [], 1⟩).journalAdd
        (.createTopic si tid name nparts (resolveExpiry y.scfg e) maxSize repl), .okId tid,
        (List.range nparts).map (fun i => Effect.created (s.id, tid, 1 + i) (resolveExpiry y.scfg e))) := by
  revert hout
  cases id <;> simp only [step, hs] <;> split
  · intro hout; simp at hout
  · next maxSize hmax =>
    split
    · intro hout; simp at hout
    · split
      · intro hout; simp at hout
      · next hc =>
        intro hout
        have hx := Out.okId.inj hout
        subst hx
        exact ⟨by simpa using hc, _, _, hmax, rfl⟩
  · intro hout; simp at hout
  · next maxSize hmax =>
    split
    · intro hout; simp at hout
    · split
      · intro hout; simp at hout
      · next hc =>
        intro hout
        have hx := Out.okId.inj hout
        subst hx
        exact ⟨by simpa using hc, _, _, hmax, rfl⟩

/-- after a successful `createTopic` the topic is found by the returned id and by its name, with
partitions `1..n`; its siblings and the other streams are untouched -/
theorem createTopic_get {y : Sys} (h : y.CatWF) {si : Ident} {id : Option Nat} {name : String} {nparts : Nat}
    {e : ExpiryArg} {m : MaxArg} {repl : Option Nat} {s : Stream} {tid : Nat}
    (hs : y.findStream si = .ok s) (hout : (step y (.createTopic si id name nparts e m repl)).2.1 = .okId tid) :
    ∃ s' t', (step y (.createTopic si id name nparts e m repl)).1.findStream si = .ok s' ∧
      (step y (.createTopic si id name nparts e m repl)).1.findStream (.num s.id) = .ok s' ∧
      s'.id = s.id ∧ s'.name = s.name ∧
      s'.findTopic (.num tid) = .ok t' ∧ s'.findTopic (.name name) = .ok t' ∧
      t'.id = tid ∧ t'.name = name ∧ t'.parts.map (·.1) = List.range' 1 nparts ∧ t'.groups = [] ∧
      (∀ k, k ≠ tid → find? s'.topics k = find? s.topics k) ∧
      (∀ k, k ≠ s.id → find? (step y (.createTopic si id name nparts e m repl)).1.streams k = find? y.streams k) := by
  have hwf := catwf_step h (.createTopic si id name nparts e m repl) (fun cl hc => by cases hc)
  obtain ⟨hnone, cursor, maxSize, _, heq⟩ := createTopic_shape hs hout
  obtain ⟨hm, hsi⟩ := h.findStream.1 hs
  rw [heq] at hwf ⊢
  let t' : Topic := ⟨tid, name, mkParts y.cfg (resolveExpiry y.scfg e) y.now 1 nparts, resolveExpiry y.scfg e, maxSize,
            repl.getD 1, 1, [], 1⟩
  let s' : Stream := Stream.putTopic { s with topicCursor := cursor } t'
  have hm' : (s.id, s') ∈ insertAsc y.streams s.id s' := mem_insertAsc_self _ _ _
  have hS' := hwf.stream hm'
  have htm : (tid, t') ∈ s'.topics := mem_insertAsc_self _ _ _
  exact ⟨s', t', hwf.findStream.2 ⟨hm', hsi⟩, hwf.findStream.2 ⟨hm', rfl⟩, rfl, rfl,
    hS'.findTopic.2 ⟨htm, rfl⟩, hS'.findTopic.2 ⟨htm, rfl⟩, rfl, rfl, mkParts_keys _ _ _ _ _, rfl,
    fun k hk => find?_insertAsc_ne _ _ hk, fun k hk => find?_insertAsc_ne _ _ hk⟩

/-! ### consumer groups -/

theorem createGroup_succeeds {y : Sys} {si ti : Ident} {id : Option Nat} {name : String} {s : Stream} {t : Topic}
    (hs : y.findStream si = .ok s) (ht : s.findTopic ti = .ok t)
    (hname : ∀ ge ∈ t.groups, ge.2.name ≠ name) (hid : ∀ i, id = some i → find? t.groups i = none) :
    ∃ gid, (step y (.createGroup si ti id name)).2.1 = .okId gid ∧ (∀ i, id = some i → gid = i) := by
  have hany := not_any_of_fresh (nm := Group.name) hname
  cases id with
  | some i =>
    refine ⟨i, ?_, fun j hj => by cases hj; rfl⟩
    simp only [step, Sys.withTopic, hs, ht, if_neg hany, hid i rfl, Option.isSome_none, Bool.false_eq_true, if_false]
  | none =>
    refine ⟨?gid, ?h1, fun j hj => by cases hj⟩
    case h1 =>
      simp only [step, Sys.withTopic, hs, ht, if_neg hany, allocId_fresh_assoc, Option.isSome_none,
        Bool.false_eq_true, if_false]
      rfl

/-- the shape of a successful `createGroup` -/
theorem createGroup_shape {y : Sys} {si ti : Ident} {id : Option Nat} {name : String} {s : Stream} {t : Topic}
    {gid : Nat} (hs : y.findStream si = .ok s) (ht : s.findTopic ti = .ok t)
    (hout : (step y (.createGroup si ti id name)).2.1 = .okId gid) :
    find? t.groups gid = none ∧ ∃ cursor, step y (.createGroup si ti id name) =
      ((y.putTopic s (Topic.putGroup { t with groupCursor := cursor } ⟨gid, name, t.parts.length, []⟩)).journalAdd
        (.createGroup si ti gid name), .okId gid, []) := by
  revert hout
  cases id <;> simp only [step, Sys.withTopic, hs, ht] <;> split
  · intro hout; simp at hout
  · split
    · intro hout; simp at hout
    · next hc =>
      intro hout
      have hx := Out.okId.inj hout
      subst hx
      exact ⟨by simpa using hc, _, rfl⟩
  · intro hout; simp at hout
  · split
    · intro hout; simp at hout
    · next hc =>
      intro hout
      have hx := Out.okId.inj hout
      subst hx
      exact ⟨by simpa using hc, _, rfl⟩

/-- after a successful `createGroup` the group is found by the returned id and by its name; the topic
keeps its partitions (all message data), settings and other groups; siblings are untouched -/
theorem createGroup_get {y : Sys} (h : y.CatWF) {si ti : Ident} {id : Option Nat} {name : String} {s : Stream}
    {t : Topic} {gid : Nat} (hs : y.findStream si = .ok s) (ht : s.findTopic ti = .ok t)
    (hout : (step y (.createGroup si ti id name)).2.1 = .okId gid) :
    ∃ s' t', (step y (.createGroup si ti id name)).1.findStream si = .ok s' ∧ s'.findTopic ti = .ok t' ∧
      s'.id = s.id ∧ s'.name = s.name ∧ t'.id = t.id ∧ t'.name = t.name ∧ t'.parts = t.parts ∧
      t'.findGroup (.num gid) = .ok ⟨gid, name, t.parts.length, []⟩ ∧
      t'.findGroup (.name name) = .ok ⟨gid, name, t.parts.length, []⟩ ∧
      (∀ k, k ≠ gid → find? t'.groups k = find? t.groups k) ∧
      (∀ k, k ≠ t.id → find? s'.topics k = find? s.topics k) ∧
      (∀ k, k ≠ s.id → find? (step y (.createGroup si ti id name)).1.streams k = find? y.streams k) := by
  have hwf := catwf_step h (.createGroup si ti id name) (fun cl hc => by cases hc)
  obtain ⟨hnone, cursor, heq⟩ := createGroup_shape hs ht hout
  obtain ⟨hm, hsi⟩ := h.findStream.1 hs
  obtain ⟨htm, hti⟩ := (h.stream hm).findTopic.1 ht
  rw [heq] at hwf ⊢
  let g : Group := ⟨gid, name, t.parts.length, []⟩
  let t' : Topic := Topic.putGroup { t with groupCursor := cursor } g
  let s' : Stream := s.putTopic t'
  have hm' : (s.id, s') ∈ insertAsc y.streams s.id s' := mem_insertAsc_self _ _ _
  have hS' := hwf.stream hm'
  have htm' : (t.id, t') ∈ s'.topics := mem_insertAsc_self _ _ _
  have hT' := hS'.topic htm'
  have hgm : (gid, g) ∈ t'.groups := mem_insertAsc_self _ _ _
  exact ⟨s', t', hwf.findStream.2 ⟨hm', hsi⟩, hS'.findTopic.2 ⟨htm', hti⟩, rfl, rfl, rfl, rfl, rfl,
    hT'.findGroup.2 ⟨hgm, rfl⟩, hT'.findGroup.2 ⟨hgm, rfl⟩,
    fun k hk => find?_insertAsc_ne _ _ hk, fun k hk => find?_insertAsc_ne _ _ hk,
    fun k hk => find?_insertAsc_ne _ _ hk⟩

/-! ### updates -/

theorem not_any_other {α : Type} {l : List (Nat × α)} {nm : α → String} {name : String} {k : Nat}
    (h : ∀ e ∈ l, nm e.2 = name → e.1 = k) : ¬ (l.any fun e => decide (nm e.2 = name ∧ e.1 ≠ k)) = true := by
  intro hc
  obtain ⟨e, he, hn⟩ := List.any_eq_true.1 hc
  simp only [decide_eq_true_eq] at hn
  exact hn.2 (h e he hn.1)

/-- renaming a stream to a name no *other* stream has (its own name included) never fails -/
theorem updateStream_succeeds {y : Sys} {si : Ident} {name : String} {s : Stream} (hs : y.findStream si = .ok s)
    (hname : ∀ e ∈ y.streams, e.2.name = name → e.1 = s.id) : (step y (.updateStream si name)).2.1 = .ok := by
  simp only [step, hs, if_neg (not_any_other (nm := Stream.name) hname)]

theorem updateTopic_succeeds {y : Sys} {si ti : Ident} {name : String} {e : ExpiryArg} {m : MaxArg}
    {repl : Option Nat} {s : Stream} {t : Topic} {ms : Option Nat}
    (hs : y.findStream si = .ok s) (ht : s.findTopic ti = .ok t) (hmax : resolveMax y.cfg y.scfg m = .ok ms)
    (hname : ∀ te ∈ s.topics, te.2.name = name → te.1 = t.id) :
    (step y (.updateTopic si ti name e m repl)).2.1 = .ok := by
  simp only [step, Sys.withTopic, hs, ht, hmax, if_neg (not_any_other (nm := Topic.name) hname)]

end Iggy.Sys
