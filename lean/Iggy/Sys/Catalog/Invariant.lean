/-
The catalogue invariant `Sys.WF` = structural well-formedness + "the journal replays to the running
catalogue" (`Sync`), and its preservation by every operation.
-/
import Iggy.Sys.Catalog.AdminTopic
import Iggy.Sys.Catalog.Data
namespace Iggy.Sys
open Iggy.Log

/-- replaying the journal does not panic and yields exactly the catalogue the running server shows -/
def Sync (y : Sys) : Prop := (replay y.journal).panicked = false ∧ viewR (replay y.journal) = viewY y

/-- the catalogue invariant -/
def Sys.WF (y : Sys) : Prop := y.CatWF ∧ Sync y

/-- run a list of operations -/
def run (y : Sys) (ops : List Op) : Sys := ops.foldl (fun y op => (step y op).1) y

theorem run_snoc (y : Sys) (ops : List Op) (op : Op) : run y (ops ++ [op]) = (step (run y ops) op).1 := by
  simp [run, List.foldl_append]

/-- every operation except `restart` satisfies `Spec` on a structurally well-formed catalogue -/
theorem step_spec_of_catwf {y : Sys} (h : y.CatWF) (op : Op) (hop : ∀ cl, op ≠ .restart cl) :
    Spec y (step y op) := by
  cases op with
  | clock t => exact spec_clock t
  | createStream id name => exact spec_createStream h id name
  | updateStream s name => exact spec_updateStream h s name
  | deleteStream s => exact spec_deleteStream h s
  | purgeStream s => exact spec_purgeStream h s
  | createTopic s id name n e m r => exact spec_createTopic h s id name n e m r
  | updateTopic s t name e m r => exact spec_updateTopic h s t name e m r
  | deleteTopic s t => exact spec_deleteTopic h s t
  | purgeTopic s t => exact spec_purgeTopic h s t
  | createParts s t n => exact spec_createParts h s t n
  | deleteParts s t n => exact spec_deleteParts h s t n
  | createGroup s t id name => exact spec_createGroup h s t id name
  | deleteGroup s t g => exact spec_deleteGroup h s t g
  | join c s t g => exact spec_join h c s t g
  | leave c s t g => exact spec_leave h c s t g
  | groupInfo s t g o => exact spec_groupInfo h s t g o
  | groups s t => exact spec_groups h s t
  | me c cid => exact spec_me c cid
  | close c => exact spec_close h c
  | send s t p m => exact spec_send h s t p m
  | poll c s t pid cons k count auto => exact spec_poll h c s t pid cons k count auto
  | flush s t pid => exact spec_flush h s t pid
  | storeOffset c s t pid cons off => exact spec_storeOffset h c s t pid cons off
  | getOffset c s t pid cons => exact spec_getOffset h c s t pid cons
  | deleteOffset c s t pid cons => exact spec_deleteOffset h c s t pid cons
  | save => exact spec_save
  | maintain => exact spec_maintain
  | restart cl => exact absurd rfl (hop cl)
  | evict s t pid keep => exact spec_evict h s t pid keep
  | topicInfo s t => exact spec_topicInfo s t
  | topics s => exact spec_topics s
  | streamInfo s => exact spec_streamInfo s
  | streams => exact spec_streams
  | stats => exact spec_stats

theorem step_spec {y : Sys} (h : y.WF) (op : Op) : Spec y (step y op) := by
  cases op with
  | restart cl => exact spec_restart h.1 h.2.2 cl
  | _ => exact step_spec_of_catwf h.1 _ (fun cl hc => by cases hc)

theorem Spec.wf {y : Sys} (h : y.WF) {r : Sys × Out × List Effect} (hs : Spec y r) : r.1.WF := by
  cases hs with
  | same _ hv hj =>
    refine ⟨h.1.of_view hv, ?_⟩
    show (replay _).panicked = false ∧ viewR (replay _) = _
    rw [hj, hv]; exact h.2
  | logged e _ hj =>
    refine ⟨hj.wf, ?_⟩
    show (replay _).panicked = false ∧ viewR (replay _) = _
    rw [hj.journal, replay_snoc]
    have := hj.replay _ h.2.2 h.2.1
    exact ⟨this.2, this.1⟩

theorem wf_init (cfg : Cfg) (scfg : SCfg) (now : Nat) : (Sys.init cfg scfg now).WF :=
  ⟨(ScopeP.nil : ScopeP SV.id SV.name SV.WF []), rfl, rfl⟩

theorem wf_step {y : Sys} (h : y.WF) (op : Op) : (step y op).1.WF := (step_spec h op).wf h

theorem wf_run {y : Sys} (h : y.WF) (ops : List Op) : (run y ops).WF := by
  induction ops generalizing y with
  | nil => exact h
  | cons op ops ih => exact ih (wf_step h op)

/-- structural well-formedness alone is preserved by everything but `restart` -/
theorem catwf_step {y : Sys} (h : y.CatWF) (op : Op) (hop : ∀ cl, op ≠ .restart cl) : (step y op).1.CatWF := by
  have hs := step_spec_of_catwf h op hop
  generalize step y op = r at hs
  cases hs with
  | same _ hv _ => exact h.of_view hv
  | logged e _ hj => exact hj.wf

end Iggy.Sys
