/-
The *catalogue view*: everything the get / list calls show of the catalogue (numeric ids, names,
partition sets, settings, consumer groups), as a plain value.  It is computed both from the runtime
state (`viewY`) and from a replayed journal (`viewR`); well-formedness (`CatView.WF`) is a predicate on
the view alone, so it transfers between the two for free.
-/
import Iggy.Sys.Catalog.Assoc
namespace Iggy.Sys

/-- what a listing shows of a consumer group (members are connection state, not catalogue) -/
structure GV where
  id : Nat
  name : String
  nparts : Nat
deriving Repr, DecidableEq

/-- what a listing shows of a topic; `parts` = the partition ids -/
structure TV where
  id : Nat
  name : String
  parts : List Nat
  expiry : Option Nat
  maxSize : Option Nat
  repl : Nat
  groups : List (Nat × GV)
deriving Repr, DecidableEq

structure SV where
  id : Nat
  name : String
  topics : List (Nat × TV)
deriving Repr, DecidableEq

abbrev CatView := List (Nat × SV)

def Group.view (g : Group) : GV := { id := g.id, name := g.name, nparts := g.nparts }

def Topic.view (t : Topic) : TV :=
  { id := t.id, name := t.name, parts := t.parts.map (·.1), expiry := t.expiry, maxSize := t.maxSize,
    repl := t.repl, groups := mapE (fun _ g => g.view) t.groups }

def Stream.view (s : Stream) : SV := { id := s.id, name := s.name, topics := mapE (fun _ t => t.view) s.topics }

/-- the catalogue as the running server shows it -/
def viewY (y : Sys) : CatView := mapE (fun _ s => s.view) y.streams

/-- a replayed topic: `n` partitions are the partitions `1..n`; an absent replication factor is 1; a
group is rebuilt with the topic's partition count -/
def RTopic.view (t : RTopic) : TV :=
  { id := t.id, name := t.name, parts := List.range' 1 t.nparts, expiry := t.expiry, maxSize := t.maxSize,
    repl := t.repl.getD 1, groups := mapE (fun k nm => { id := k, name := nm, nparts := t.nparts }) t.groups }

def RStream.view (s : RStream) : SV := { id := s.id, name := s.name, topics := mapE (fun _ t => t.view) s.topics }

/-- the catalogue a replay of the journal yields -/
def viewR (r : RCat) : CatView := mapE (fun _ s => s.view) r.streams

/-! ### scopes: uniquely numbered and named entities -/

/-- an association list whose keys ascend strictly, whose entries carry their key as `id`, and in
which a name determines the entry -/
structure Scope {α : Type} (idf : α → Nat) (nm : α → String) (l : List (Nat × α)) : Prop where
  asc : Asc l
  key : ∀ e ∈ l, idf e.2 = e.1
  inj : ∀ a ∈ l, ∀ b ∈ l, nm a.2 = nm b.2 → a.1 = b.1

/-- a scope all of whose entries satisfy `P` -/
structure ScopeP {α : Type} (idf : α → Nat) (nm : α → String) (P : α → Prop) (l : List (Nat × α)) : Prop
    extends Scope idf nm l where
  all : ∀ e ∈ l, P e.2

def TV.WF (t : TV) : Prop :=
  t.parts = List.range' 1 t.parts.length ∧
  ScopeP GV.id GV.name (fun g => g.nparts = t.parts.length) t.groups

def SV.WF (s : SV) : Prop := ScopeP TV.id TV.name TV.WF s.topics

def CatView.WF (v : CatView) : Prop := ScopeP SV.id SV.name SV.WF v

/-- structural well-formedness of the runtime catalogue -/
def Sys.CatWF (y : Sys) : Prop := CatView.WF (viewY y)

section
variable {α β : Type} {idf : α → Nat} {nm : α → String} {P : α → Prop} {l : List (Nat × α)}

theorem Scope.nil : Scope idf nm [] :=
  ⟨List.Pairwise.nil, fun _ h => by simp at h, fun _ h => by simp at h⟩

theorem ScopeP.nil : ScopeP idf nm P [] := ⟨Scope.nil, fun _ h => by simp at h⟩

theorem Scope.eq_of_name (h : Scope idf nm l) {a b : Nat × α} (ha : a ∈ l) (hb : b ∈ l) (hn : nm a.2 = nm b.2) :
    a = b := h.asc.eq_of_key ha hb (h.inj a ha b hb hn)

theorem Scope.find_key (h : Scope idf nm l) {e : Nat × α} (he : e ∈ l) : find? l e.1 = some e.2 :=
  find?_of_mem h.asc he

/-- lookup by name finds the (unique) entry with that name -/
theorem Scope.find_name (h : Scope idf nm l) {e : Nat × α} (he : e ∈ l) :
    l.find? (fun x => nm x.2 = nm e.2) = some e := by
  cases hf : l.find? (fun x => nm x.2 = nm e.2) with
  | none =>
    have := List.find?_eq_none.1 hf e he
    simp at this
  | some e' =>
    have h1 := List.mem_of_find?_eq_some hf
    have h2 := List.find?_some hf
    simp at h2
    rw [h.eq_of_name h1 he h2]

theorem Scope.key_of_find (h : Scope idf nm l) {k : Nat} {a : α} (hf : find? l k = some a) : idf a = k :=
  h.key _ (mem_of_find? hf)

/-- insert a new entry, or overwrite the entry under the same key: fine as long as no *other* entry
has the new name -/
theorem Scope.insert (h : Scope idf nm l) {k : Nat} {v : α} (hk : idf v = k)
    (hfresh : ∀ e ∈ l, nm e.2 = nm v → e.1 = k) : Scope idf nm (insertAsc l k v) := by
  refine ⟨asc_insertAsc h.asc k v, fun e he => ?_, fun a ha b hb hn => ?_⟩
  · rcases mem_insertAsc he with he | ⟨he, _⟩
    · subst he; exact hk
    · exact h.key e he
  · rcases mem_insertAsc ha with ha | ⟨ha, ha'⟩ <;> rcases mem_insertAsc hb with hb | ⟨hb, hb'⟩
    · subst ha hb; rfl
    · subst ha; exact (hfresh b hb hn.symm).symm
    · subst hb; exact hfresh a ha hn
    · exact h.inj a ha b hb hn

theorem Scope.erase (h : Scope idf nm l) (k : Nat) : Scope idf nm (erase l k) :=
  ⟨asc_erase h.asc k, fun e he => h.key e (mem_erase.1 he).1,
   fun a ha b hb hn => h.inj a (mem_erase.1 ha).1 b (mem_erase.1 hb).1 hn⟩

theorem ScopeP.insert (h : ScopeP idf nm P l) {k : Nat} {v : α} (hk : idf v = k)
    (hfresh : ∀ e ∈ l, nm e.2 = nm v → e.1 = k) (hv : P v) : ScopeP idf nm P (insertAsc l k v) := by
  refine ⟨h.toScope.insert hk hfresh, fun e he => ?_⟩
  rcases mem_insertAsc he with he | ⟨he, _⟩
  · subst he; exact hv
  · exact h.all e he

theorem ScopeP.erase (h : ScopeP idf nm P l) (k : Nat) : ScopeP idf nm P (erase l k) :=
  ⟨h.toScope.erase k, fun e he => h.all e (mem_erase.1 he).1⟩

theorem ScopeP.mono {Q : α → Prop} (h : ScopeP idf nm P l) (hq : ∀ e ∈ l, P e.2 → Q e.2) : ScopeP idf nm Q l :=
  ⟨h.toScope, fun e he => hq e he (h.all e he)⟩

/-- a scope seen through a value map that respects ids and names -/
theorem scope_mapE {idf' : β → Nat} {nm' : β → String} (f : Nat → α → β)
    (hid : ∀ e ∈ l, idf' (f e.1 e.2) = idf e.2) (hnm : ∀ e ∈ l, nm' (f e.1 e.2) = nm e.2) :
    Scope idf' nm' (mapE f l) ↔ Scope idf nm l := by
  constructor
  · intro h
    refine ⟨(asc_mapE f l).1 h.asc, fun e he => ?_, fun a ha b hb hn => ?_⟩
    · have := h.key (e.1, f e.1 e.2) (mem_mapE.2 ⟨e, he, rfl⟩)
      rw [← hid e he]; exact this
    · have := h.inj (a.1, f a.1 a.2) (mem_mapE.2 ⟨a, ha, rfl⟩) (b.1, f b.1 b.2) (mem_mapE.2 ⟨b, hb, rfl⟩)
      apply this
      show nm' (f a.1 a.2) = nm' (f b.1 b.2)
      rw [hnm a ha, hnm b hb, hn]
  · intro h
    refine ⟨(asc_mapE f l).2 h.asc, fun e he => ?_, fun a ha b hb hn => ?_⟩
    · obtain ⟨a, ha, rfl⟩ := mem_mapE.1 he
      show idf' (f a.1 a.2) = a.1
      rw [hid a ha]; exact h.key a ha
    · obtain ⟨a', ha', rfl⟩ := mem_mapE.1 ha
      obtain ⟨b', hb', rfl⟩ := mem_mapE.1 hb
      apply h.inj a' ha' b' hb'
      have : nm' (f a'.1 a'.2) = nm' (f b'.1 b'.2) := hn
      rw [hnm a' ha', hnm b' hb'] at this; exact this

/-- names are pairwise distinct in a scope -/
theorem Scope.names_nodup (h : Scope idf nm l) : (l.map (fun e => nm e.2)).Nodup := by
  unfold List.Nodup
  rw [List.pairwise_map]
  refine List.Pairwise.imp_of_mem (fun {a b} ha hb hlt hn => ?_) h.asc
  have := h.inj a ha b hb hn
  omega

end

end Iggy.Sys
