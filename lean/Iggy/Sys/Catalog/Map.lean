/-
The catalogue as a sequential map: uniqueness, agreement of the two lookups, locality of updates,
cascading deletes, create-then-get, and the absence of spurious failures.
-/
import Iggy.Sys.Catalog.Restart
namespace Iggy.Sys
open Iggy.Log

/-! ### uniqueness -/

theorem Sys.CatWF.unique {y : Sys} (h : y.CatWF) :
    y.streams.Pairwise (fun a b => a.1 < b.1) ∧ (y.streams.map (·.2.name)).Nodup ∧
    ∀ se ∈ y.streams, se.2.id = se.1 ∧
      se.2.topics.Pairwise (fun a b => a.1 < b.1) ∧ (se.2.topics.map (·.2.name)).Nodup ∧
      ∀ te ∈ se.2.topics, te.2.id = te.1 ∧ te.2.parts.map (·.1) = List.range' 1 te.2.parts.length ∧
        te.2.groups.Pairwise (fun a b => a.1 < b.1) ∧ (te.2.groups.map (·.2.name)).Nodup ∧
        ∀ ge ∈ te.2.groups, ge.2.id = ge.1 ∧ ge.2.nparts = te.2.parts.length := by
  refine ⟨h.scope.asc, h.scope.names_nodup, fun se hse => ?_⟩
  have hS := h.stream (k := se.1) (s := se.2) hse
  refine ⟨h.scope.key _ hse, hS.scope.asc, hS.scope.names_nodup, fun te hte => ?_⟩
  have hT := hS.topic (k := te.1) (t := te.2) hte
  refine ⟨hS.scope.key _ hte, hT.part_keys, hT.scope.asc, hT.scope.names_nodup, fun ge hge => ?_⟩
  exact ⟨hT.scope.key _ hge, hT.group_nparts (k := ge.1) (g := ge.2) hge⟩

/-! ### lookup by name = lookup by id -/

theorem Sys.CatWF.findStream_name_iff_num {y : Sys} (h : y.CatWF) (s : Stream) :
    y.findStream (.name s.name) = .ok s ↔ y.findStream (.num s.id) = .ok s := by
  rw [h.findStream, h.findStream]
  simp [Ident.Matches]

theorem SV.WF.findTopic_name_iff_num {s : Stream} (h : s.view.WF) (t : Topic) :
    s.findTopic (.name t.name) = .ok t ↔ s.findTopic (.num t.id) = .ok t := by
  rw [h.findTopic, h.findTopic]
  simp [Ident.Matches]

theorem TV.WF.findGroup_name_iff_num {t : Topic} (h : t.view.WF) (g : Group) :
    t.findGroup (.name g.name) = .ok g ↔ t.findGroup (.num g.id) = .ok g := by
  rw [h.findGroup, h.findGroup]
  simp [Ident.Matches]

/-- whatever identifier resolved a stream, its own id and its own name resolve to it too -/
theorem Sys.CatWF.findStream_canon {y : Sys} (h : y.CatWF) {si : Ident} {s : Stream} (hs : y.findStream si = .ok s) :
    y.findStream (.num s.id) = .ok s ∧ y.findStream (.name s.name) = .ok s := by
  have := (h.findStream.1 hs).1
  exact ⟨h.findStream.2 ⟨this, rfl⟩, h.findStream.2 ⟨this, rfl⟩⟩

/-! ### a failed command changes nothing -/

theorem failed_changes_nothing_aux {y : Sys} {r : Sys × Out × List Effect} (hs : Spec y r) {e : String}
    (he : r.2.1 = .err e) : viewY r.1 = viewY y ∧ r.1.journal = y.journal ∧ r.2.2 = [] := by
  cases hs with
  | same himp hv hj => exact ⟨hv, hj, himp (by simp only at he; rw [he]; rfl)⟩
  | logged e' ho _ => simp only at he; rw [he] at ho; cases ho

/-! ### updates are local -/

theorem find?_putStream_self (y : Sys) (s : Stream) : find? (y.putStream s).streams s.id = some s :=
  find?_insertAsc_self _ _ _

theorem find?_putStream_ne (y : Sys) (s : Stream) {k : Nat} (hk : k ≠ s.id) :
    find? (y.putStream s).streams k = find? y.streams k := find?_insertAsc_ne _ _ hk

theorem find?_putTopic_self (s : Stream) (t : Topic) : find? (s.putTopic t).topics t.id = some t :=
  find?_insertAsc_self _ _ _

theorem find?_putTopic_ne (s : Stream) (t : Topic) {k : Nat} (hk : k ≠ t.id) :
    find? (s.putTopic t).topics k = find? s.topics k := find?_insertAsc_ne _ _ hk

/-- `updateStream`: when it succeeds, the addressed stream is the same stream with the new name (same
id, same topics with all their data and groups) and every other stream is untouched -/
theorem updateStream_local {y : Sys} {si : Ident} {name : String} {s : Stream}
    (hs : y.findStream si = .ok s) (hok : (step y (.updateStream si name)).2.1 = .ok) :
    find? (step y (.updateStream si name)).1.streams s.id = some { s with name := name } ∧
    (∀ k, k ≠ s.id → find? (step y (.updateStream si name)).1.streams k = find? y.streams k) ∧
    (step y (.updateStream si name)).1.memberships = y.memberships := by
  revert hok
  simp only [step, hs]
  split
  · intro hok; simp at hok
  · intro _; exact ⟨find?_insertAsc_self _ _ _, fun k hk => find?_insertAsc_ne _ _ hk, rfl⟩

/-- `updateTopic`: when it succeeds, the addressed topic keeps its id, its groups and every partition
with all its messages and offsets (only the partitions' expiry setting follows the topic's), sibling
topics and other streams are untouched -/
theorem updateTopic_local {y : Sys} {si ti : Ident} {name : String} {e : ExpiryArg} {m : MaxArg} {repl : Option Nat}
    {s : Stream} {t : Topic} (hs : y.findStream si = .ok s) (ht : s.findTopic ti = .ok t)
    (hok : (step y (.updateTopic si ti name e m repl)).2.1 = .ok) :
    ∃ s' t', find? (step y (.updateTopic si ti name e m repl)).1.streams s.id = some s' ∧
      (∀ k, k ≠ s.id → find? (step y (.updateTopic si ti name e m repl)).1.streams k = find? y.streams k) ∧
      s'.id = s.id ∧ s'.name = s.name ∧ find? s'.topics t.id = some t' ∧
      (∀ k, k ≠ t.id → find? s'.topics k = find? s.topics k) ∧
      t'.id = t.id ∧ t'.name = name ∧ t'.groups = t.groups ∧
      t'.parts = t.parts.map (fun pe => (pe.1, { pe.2 with expiry := t'.expiry })) ∧
      (step y (.updateTopic si ti name e m repl)).1.memberships = y.memberships := by
  revert hok
  simp only [step, Sys.withTopic, hs, ht]
  split
  · intro hok; simp at hok
  · next maxSize hmax =>
    split
    · intro hok; simp at hok
    · intro _
      exact ⟨_, _, find?_insertAsc_self _ _ _, fun k hk => find?_insertAsc_ne _ _ hk, rfl, rfl,
        find?_insertAsc_self _ _ _, fun k hk => find?_insertAsc_ne _ _ hk, rfl, rfl, rfl, rfl, rfl⟩

/-! ### deletes cascade and never disturb a sibling -/

theorem mem_allKeys {y : Sys} {k : PKey} :
    k ∈ y.allKeys ↔ ∃ se ∈ y.streams, ∃ te ∈ se.2.topics, ∃ pe ∈ te.2.parts, k = (se.1, te.1, pe.1) := by
  simp only [Sys.allKeys, List.mem_flatten, List.mem_map]
  constructor
  · rintro ⟨l, ⟨se, hse, rfl⟩, hk⟩
    simp only [List.mem_flatten, List.mem_map] at hk
    obtain ⟨l', ⟨te, hte, rfl⟩, hk⟩ := hk
    simp only [List.mem_map] at hk
    obtain ⟨pe, hpe, rfl⟩ := hk
    exact ⟨se, hse, te, hte, pe, hpe, rfl⟩
  · rintro ⟨se, hse, te, hte, pe, hpe, rfl⟩
    refine ⟨_, ⟨se, hse, rfl⟩, ?_⟩
    simp only [List.mem_flatten, List.mem_map]
    exact ⟨_, ⟨te, hte, rfl⟩, List.mem_map.2 ⟨pe, hpe, rfl⟩⟩

theorem deleteStream_cascades {y : Sys} (h : y.CatWF) {si : Ident} {s : Stream} (hs : y.findStream si = .ok s) :
    ∃ y', step y (.deleteStream si) =
        (y', .ok, (s.topics.map (fun te => te.2.parts.map (fun pe => Effect.deleted (s.id, te.1, pe.1)))).flatten) ∧
      find? y'.streams s.id = none ∧
      (∀ k, k ≠ s.id → find? y'.streams k = find? y.streams k) ∧
      (∀ k ∈ y'.allKeys, k.1 ≠ s.id) ∧
      (∀ e ∈ y'.memberships, ∀ m ∈ e.2, m.1 ≠ s.id) ∧
      y'.findStream (.num s.id) = .error "stream_id_not_found" ∧
      y'.findStream (.name s.name) = .error "stream_name_not_found" := by
  obtain ⟨hm, _⟩ := h.findStream.1 hs
  refine ⟨?y', ?eq, ?rest⟩
  case eq => simp only [step, hs]; rfl
  refine ⟨find?_erase_self _ _, fun k hk => find?_erase_ne _ hk, ?_, ?_, ?_, ?_⟩
  · intro k hk
    obtain ⟨se, hse, te, _, pe, _, rfl⟩ := mem_allKeys.1 hk
    exact (mem_erase.1 hse).2
  · intro e he m hm'
    simp only [Sys.journalAdd, Sys.dropMemberships, List.mem_map] at he
    obtain ⟨e0, _, rfl⟩ := he
    simpa using (List.mem_filter.1 hm').2
  · simp only [Sys.findStream]
    have : find? (erase y.streams s.id) s.id = none := find?_erase_self _ _
    simp only [Sys.journalAdd, Sys.dropMemberships, this]
  · simp only [Sys.findStream, Sys.journalAdd, Sys.dropMemberships]
    have : (erase y.streams s.id).find? (fun e => e.2.name = s.name) = none := by
      rw [List.find?_eq_none]
      intro e he hn
      have he' := mem_erase.1 he
      exact he'.2 (h.scope.inj e he'.1 (s.id, s) hm (by simpa using hn))
    simp only [this]

theorem deleteTopic_cascades {y : Sys} (h : y.CatWF) {si ti : Ident} {s : Stream} {t : Topic}
    (hs : y.findStream si = .ok s) (ht : s.findTopic ti = .ok t) :
    ∃ y' s', step y (.deleteTopic si ti) = (y', .ok, t.parts.map (fun pe => Effect.deleted (s.id, t.id, pe.1))) ∧
      find? y'.streams s.id = some s' ∧
      (∀ k, k ≠ s.id → find? y'.streams k = find? y.streams k) ∧
      s'.id = s.id ∧ s'.name = s.name ∧ find? s'.topics t.id = none ∧
      (∀ k, k ≠ t.id → find? s'.topics k = find? s.topics k) ∧
      (∀ k ∈ y'.allKeys, ¬ (k.1 = s.id ∧ k.2.1 = t.id)) ∧
      (∀ e ∈ y'.memberships, ∀ m ∈ e.2, ¬ (m.1 = s.id ∧ m.2.1 = t.id)) := by
  refine ⟨?y', { s with topics := erase s.topics t.id, topicCursor := if t.id < s.topicCursor then t.id else s.topicCursor }, ?eq, ?rest⟩
  case eq => simp only [step, Sys.withTopic, hs, ht]; rfl
  case rest =>
    refine ⟨find?_insertAsc_self y.streams s.id _,
      fun k hk => find?_insertAsc_ne y.streams _ hk, rfl, rfl, find?_erase_self _ _, fun k hk => find?_erase_ne _ hk, ?_, ?_⟩
    · intro k hk
      obtain ⟨se, hse, te, hte, pe, _, rfl⟩ := mem_allKeys.1 hk
      rintro ⟨h1, h2⟩
      rcases mem_insertAsc hse with hse | ⟨_, hne⟩
      · subst hse
        exact (mem_erase.1 hte).2 h2
      · exact hne h.scope.asc h1
    · intro e he m hm'
      simp only [Sys.journalAdd, Sys.dropMemberships, List.mem_map] at he
      obtain ⟨e0, _, rfl⟩ := he
      have := (List.mem_filter.1 hm').2
      intro hc
      simp [hc.1, hc.2] at this

theorem deleteGroup_cascades {y : Sys} {si ti gi : Ident} {s : Stream} {t : Topic} {g : Group}
    (hs : y.findStream si = .ok s) (ht : s.findTopic ti = .ok t) (hg : t.findGroup gi = .ok g) :
    ∃ y' s' t' effs, step y (.deleteGroup si ti gi) = (y', .ok, effs) ∧
      find? y'.streams s.id = some s' ∧
      (∀ k, k ≠ s.id → find? y'.streams k = find? y.streams k) ∧
      s'.id = s.id ∧ s'.name = s.name ∧ find? s'.topics t.id = some t' ∧
      (∀ k, k ≠ t.id → find? s'.topics k = find? s.topics k) ∧
      t'.id = t.id ∧ t'.name = t.name ∧ t'.expiry = t.expiry ∧ t'.maxSize = t.maxSize ∧ t'.repl = t.repl ∧
      find? t'.groups g.id = none ∧
      (∀ k, k ≠ g.id → find? t'.groups k = find? t.groups k) ∧
      t'.parts = t.parts.map (fun pe => (pe.1, { pe.2 with grpOffs := eraseK pe.2.grpOffs g.id })) ∧
      (∀ e ∈ y'.memberships, ∀ m ∈ e.2, m ≠ (s.id, t.id, g.id)) := by
  let t' : Topic := { t with groups := erase t.groups g.id, groupCursor := if g.id < t.groupCursor then g.id else t.groupCursor, parts := t.parts.map (fun pe => (pe.1, { pe.2 with grpOffs := eraseK pe.2.grpOffs g.id })) }
  refine ⟨?y', s.putTopic t', t', ?effs, ?eq, ?rest⟩
  case eq => simp only [step, Sys.withTopic, hs, ht, hg]; rfl
  case rest =>
    refine ⟨find?_insertAsc_self y.streams s.id _,
      fun k hk => find?_insertAsc_ne y.streams _ hk, rfl, rfl, find?_insertAsc_self s.topics t.id _,
      fun k hk => find?_insertAsc_ne s.topics _ hk, rfl, rfl, rfl, rfl, rfl, find?_erase_self _ _,
      fun k hk => find?_erase_ne _ hk, rfl, ?_⟩
    intro e he m hm'
    simp only [Sys.journalAdd, Sys.dropMemberships, List.mem_map] at he
    obtain ⟨e0, _, rfl⟩ := he
    simpa using (List.mem_filter.1 hm').2

/-- erasing a group's stored offset from a partition's offset table touches no other group's offset -/
theorem eraseK_lookup (l : List (Nat × Nat)) (k : Nat) :
    lookup (eraseK l k) k = none ∧ ∀ k', k' ≠ k → lookup (eraseK l k) k' = lookup l k' :=
  ⟨find?_erase_self l k, fun _ hk => find?_erase_ne l hk⟩

end Iggy.Sys
