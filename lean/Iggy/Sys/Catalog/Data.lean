/-
Data-plane operations, membership operations and queries never change the catalogue view and never
write to the journal.
-/
import Iggy.Sys.Catalog.Spec
namespace Iggy.Sys
open Iggy.Log

theorem Sys.CatWF.mem_of_find {y : Sys} (h : y.CatWF) {k : Nat} {s : Stream} (hf : find? y.streams k = some s) :
    (s.id, s) ∈ y.streams := by
  have := mem_of_find? hf
  rwa [h.scope.key _ this]

theorem SV.WF.mem_of_find {s : Stream} (h : s.view.WF) {k : Nat} {t : Topic} (hf : find? s.topics k = some t) :
    (t.id, t) ∈ s.topics := by
  have := mem_of_find? hf
  rwa [h.scope.key _ this]

theorem TV.WF.mem_of_find {t : Topic} (h : t.view.WF) {k : Nat} {g : Group} (hf : find? t.groups k = some g) :
    (g.id, g) ∈ t.groups := by
  have := mem_of_find? hf
  rwa [h.scope.key _ this]

theorem Group.view_deleteMember (g : Group) (c : Nat) : (g.deleteMember c).view = g.view := by
  unfold Group.deleteMember; split <;> rfl

theorem Group.view_adoptOrder (g : Group) (o : List Nat) : (g.adoptOrder o).view = g.view := by
  unfold Group.adoptOrder; simp only; split <;> rfl

theorem spec_clock {y : Sys} (t : Nat) : Spec y (step y (.clock t)) := by
  simp only [step]; exact .quiet rfl rfl rfl

theorem spec_join {y : Sys} (h : y.CatWF) (c : Nat) (si ti gi : Ident) : Spec y (step y (.join c si ti gi)) := by
  simp only [step]
  apply withTopic_elim h (fun e => .failed rfl rfl)
  intro s t hs hsi ht hti
  have hT := (h.stream hs).topic ht
  split
  · exact .failed rfl rfl
  · next g hg =>
    obtain ⟨hgm, _⟩ := hT.findGroup.1 hg
    refine .quiet rfl ?_ rfl
    exact viewY_putTopic_same h hs ht (Topic.view_putGroup_same hT hgm (g' := g.addMember (y.clientOf c)) rfl)
      (y₁ := y) rfl

theorem spec_leave {y : Sys} (h : y.CatWF) (c : Nat) (si ti gi : Ident) : Spec y (step y (.leave c si ti gi)) := by
  simp only [step]
  apply withTopic_elim h (fun e => .failed rfl rfl)
  intro s t hs hsi ht hti
  have hT := (h.stream hs).topic ht
  split
  · exact .failed rfl rfl
  · next g hg =>
    obtain ⟨hgm, _⟩ := hT.findGroup.1 hg
    refine .quiet rfl ?_ rfl
    exact viewY_putTopic_same h hs ht (Topic.view_putGroup_same hT hgm (Group.view_deleteMember _ _))
      (y₁ := y) rfl

theorem spec_groupInfo {y : Sys} (h : y.CatWF) (si ti gi : Ident) (o : List Nat) :
    Spec y (step y (.groupInfo si ti gi o)) := by
  simp only [step]
  apply withTopic_elim h (fun e => .failed rfl rfl)
  intro s t hs hsi ht hti
  have hT := (h.stream hs).topic ht
  split
  · exact .quiet rfl rfl rfl
  · next g hg =>
    obtain ⟨hgm, _⟩ := hT.findGroup.1 hg
    refine .quiet rfl ?_ rfl
    exact viewY_putTopic_same h hs ht (Topic.view_putGroup_same hT hgm (Group.view_adoptOrder _ _))
      (y₁ := y) rfl

theorem spec_groups {y : Sys} (h : y.CatWF) (si ti : Ident) : Spec y (step y (.groups si ti)) := by
  simp only [step]
  apply withTopic_elim h (fun e => .failed rfl rfl)
  intro s t hs hsi ht hti
  exact .quiet rfl rfl rfl

theorem spec_me {y : Sys} (c cid : Nat) : Spec y (step y (.me c cid)) := by
  simp only [step]; exact .quiet rfl rfl rfl

/-- one iteration of the `close` loop -/
def closeOne (client : Nat) (acc : Sys) (k : Nat × Nat × Nat) : Sys :=
  match find? acc.streams k.1 with
  | none => acc
  | some s => match find? s.topics k.2.1 with
    | none => acc
    | some t => match find? t.groups k.2.2 with
      | none => acc
      | some g => acc.putTopic s (t.putGroup (g.deleteMember client))

theorem closeOne_same {acc : Sys} (h : acc.CatWF) (client : Nat) (k : Nat × Nat × Nat) :
    viewY (closeOne client acc k) = viewY acc ∧ (closeOne client acc k).journal = acc.journal := by
  unfold closeOne
  split
  · exact ⟨rfl, rfl⟩
  · next s hs =>
    have hs' := h.mem_of_find hs
    have hS := h.stream hs'
    split
    · exact ⟨rfl, rfl⟩
    · next t ht =>
      have ht' := hS.mem_of_find ht
      have hT := hS.topic ht'
      split
      · exact ⟨rfl, rfl⟩
      · next g hg =>
        have hg' := hT.mem_of_find hg
        exact ⟨viewY_putTopic_same h hs' ht' (Topic.view_putGroup_same hT hg' (Group.view_deleteMember _ _))
          (y₁ := acc) rfl, rfl⟩

theorem close_fold_same {y : Sys} (h : y.CatWF) (client : Nat) (keys : List (Nat × Nat × Nat)) :
    ∀ acc : Sys, viewY acc = viewY y → acc.journal = y.journal →
      viewY (keys.foldl (closeOne client) acc) = viewY y ∧ (keys.foldl (closeOne client) acc).journal = y.journal := by
  induction keys with
  | nil => intro acc hv hj; exact ⟨hv, hj⟩
  | cons k ks ih =>
    intro acc hv hj
    have := closeOne_same (h.of_view hv) client k
    exact ih _ (this.1.trans hv) (this.2.trans hj)

theorem spec_close {y : Sys} (h : y.CatWF) (c : Nat) : Spec y (step y (.close c)) := by
  simp only [step]
  have := close_fold_same h (y.clientOf c) ((find? y.memberships (y.clientOf c)).getD []) y rfl rfl
  exact .quiet rfl this.1 this.2

theorem Topic.send_spec {t : Topic} (hT : t.view.WF) (cfg : Cfg) (sc : SCfg) (sid now : Nat) (part : Partitioning)
    (msgs : List InMsg) :
    (t.send cfg sc sid now part msgs).1.view = t.view ∧
    ((t.send cfg sc sid now part msgs).2.1.isErr = true → (t.send cfg sc sid now part msgs).2.2 = []) := by
  unfold Topic.send
  split
  · exact ⟨rfl, fun _ => rfl⟩
  · split
    · exact ⟨rfl, fun _ => rfl⟩
    · split
      · exact ⟨rfl, fun _ => rfl⟩
      · cases part with
        | balanced =>
          simp only [Topic.nextPartition]
          split
          · exact ⟨rfl, fun _ => rfl⟩
          · next p hp =>
            split
            · exact ⟨rfl, fun _ => rfl⟩
            · refine ⟨?_, fun h => by cases h⟩
              exact Topic.view_putPart_same (t := { t with cursor := _ }) hT hp
        | pid n =>
          simp only
          split
          · exact ⟨rfl, fun _ => rfl⟩
          · next p hp =>
            split
            · exact ⟨rfl, fun _ => rfl⟩
            · exact ⟨Topic.view_putPart_same hT hp, fun h => by cases h⟩
        | key k =>
          simp only
          split
          · exact ⟨rfl, fun _ => rfl⟩
          · next p hp =>
            split
            · exact ⟨rfl, fun _ => rfl⟩
            · exact ⟨Topic.view_putPart_same hT hp, fun h => by cases h⟩

theorem spec_send {y : Sys} (h : y.CatWF) (si ti : Ident) (p : Partitioning) (msgs : List InMsg) :
    Spec y (step y (.send si ti p msgs)) := by
  simp only [step]
  apply withTopic_elim h (fun e => .failed rfl rfl)
  intro s t hs hsi ht hti
  have hT := (h.stream hs).topic ht
  have := Topic.send_spec hT y.cfg y.scfg s.id y.now p msgs
  exact .same this.2 (viewY_putTopic_same h hs ht this.1 (y₁ := y) rfl) rfl

theorem Topic.resolve_view {t t' : Topic} (hT : t.view.WF) {cons : Consumer} {client : Nat} {pid r : Option Nat}
    {rot : Bool} (hr : t.resolve cons client pid rot = .ok (r, t')) : t'.view = t.view := by
  unfold Topic.resolve at hr
  split at hr
  · cases hr; rfl
  · split at hr
    · cases hr
    · next g hg =>
      split at hr
      · cases hr; rfl
      · split at hr
        · cases hr
        · split at hr
          · simp only [Except.ok.injEq, Prod.mk.injEq] at hr
            rw [← hr.2]
            exact Topic.view_putGroup_same hT (hT.mem_of_find hg) rfl
          · cases hr; rfl

theorem spec_poll {y : Sys} (h : y.CatWF) (c : Nat) (si ti : Ident) (pid : Option Nat) (cons : Consumer)
    (k : PollKind) (count : Nat) (auto : Bool) : Spec y (step y (.poll c si ti pid cons k count auto)) := by
  simp only [step]
  split
  · exact .failed rfl rfl
  · apply withTopic_elim h (fun e => .failed rfl rfl)
    intro s t hs hsi ht hti
    have hT := (h.stream hs).topic ht
    split
    · exact .failed rfl rfl
    · split
      · exact .failed rfl rfl
      · next t' hr =>
        have hv := Topic.resolve_view hT hr
        exact .quiet rfl (viewY_putTopic_same h hs ht hv (y₁ := y) rfl) rfl
      · next pid' t' hr =>
        have hv := Topic.resolve_view hT hr
        have hy := viewY_putTopic_same h hs ht hv (y₁ := y) rfl
        have hT' : t'.view.WF := by rw [hv]; exact hT
        split
        · exact .failed hy rfl
        · next p hp =>
          split
          · exact .quiet rfl hy rfl
          · split
            · split
              · exact .failed hy rfl
              · refine .quiet rfl ?_ rfl
                exact viewY_putTopic_same h hs ht ((Topic.view_putPart_same hT' hp).trans hv) hy
            · exact .quiet rfl hy rfl

theorem spec_flush {y : Sys} (h : y.CatWF) (si ti : Ident) (pid : Nat) : Spec y (step y (.flush si ti pid)) := by
  simp only [step]
  apply withPart_elim h (fun e => .failed rfl rfl)
  intro s t p hs hsi ht hti hp
  have hT := (h.stream hs).topic ht
  exact .quiet rfl (viewY_putTopic_same h hs ht (Topic.view_putPart_same hT hp) (y₁ := y) rfl) rfl

theorem spec_evict {y : Sys} (h : y.CatWF) (si ti : Ident) (pid keep : Nat) :
    Spec y (step y (.evict si ti pid keep)) := by
  simp only [step]
  apply withPart_elim h (fun e => .failed rfl rfl)
  intro s t p hs hsi ht hti hp
  have hT := (h.stream hs).topic ht
  exact .quiet rfl (viewY_putTopic_same h hs ht (Topic.view_putPart_same hT hp) (y₁ := y) rfl) rfl

theorem spec_storeOffset {y : Sys} (h : y.CatWF) (c : Nat) (si ti : Ident) (pid : Option Nat) (cons : Consumer)
    (off : Nat) : Spec y (step y (.storeOffset c si ti pid cons off)) := by
  simp only [step]
  apply withTopic_elim h (fun e => .failed rfl rfl)
  intro s t hs hsi ht hti
  have hT := (h.stream hs).topic ht
  split
  · exact .failed rfl rfl
  · exact .failed rfl rfl
  · split
    · exact .failed rfl rfl
    · next p hp =>
      split
      · exact .failed rfl rfl
      · exact .quiet rfl (viewY_putTopic_same h hs ht (Topic.view_putPart_same hT hp) (y₁ := y) rfl) rfl

theorem spec_deleteOffset {y : Sys} (h : y.CatWF) (c : Nat) (si ti : Ident) (pid : Option Nat) (cons : Consumer) :
    Spec y (step y (.deleteOffset c si ti pid cons)) := by
  simp only [step]
  apply withTopic_elim h (fun e => .failed rfl rfl)
  intro s t hs hsi ht hti
  have hT := (h.stream hs).topic ht
  split
  · exact .failed rfl rfl
  · exact .failed rfl rfl
  · split
    · exact .failed rfl rfl
    · next p hp =>
      split
      · exact .failed rfl rfl
      · exact .quiet rfl (viewY_putTopic_same h hs ht (Topic.view_putPart_same hT hp) (y₁ := y) rfl) rfl

theorem spec_getOffset {y : Sys} (h : y.CatWF) (c : Nat) (si ti : Ident) (pid : Option Nat) (cons : Consumer) :
    Spec y (step y (.getOffset c si ti pid cons)) := by
  simp only [step]
  apply withTopic_elim h (fun e => .failed rfl rfl)
  intro s t hs hsi ht hti
  split
  · exact .failed rfl rfl
  · exact .quiet rfl rfl rfl
  · split
    · exact .failed rfl rfl
    · exact .quiet rfl rfl rfl

theorem spec_save {y : Sys} : Spec y (step y .save) := by
  simp only [step]; exact .quiet rfl (viewY_mapAllParts _ _) rfl

theorem Topic.maintain_view (cfg : Cfg) (sc : SCfg) (sid : Nat) (t : Topic) (now : Nat) :
    (Topic.maintain cfg sc sid t now).1.view = t.view := by
  simp [Topic.maintain, Topic.view, List.map_map, Function.comp_def]

theorem spec_maintain {y : Sys} : Spec y (step y .maintain) := by
  simp only [step]
  refine .quiet rfl ?_ rfl
  simp only [viewY, mapE, List.map_map]
  apply List.map_congr_left
  intro se _
  simp only [Function.comp_def, Stream.view, mapE, List.map_map, Topic.maintain_view]

theorem spec_topicInfo {y : Sys} (si ti : Ident) : Spec y (step y (.topicInfo si ti)) := by
  simp only [step]
  split
  · exact .quiet rfl rfl rfl
  · split
    · exact .quiet rfl rfl rfl
    · exact .quiet rfl rfl rfl

theorem spec_topics {y : Sys} (si : Ident) : Spec y (step y (.topics si)) := by
  simp only [step]
  split
  · exact .failed rfl rfl
  · exact .quiet rfl rfl rfl

theorem spec_streamInfo {y : Sys} (si : Ident) : Spec y (step y (.streamInfo si)) := by
  simp only [step]
  split
  · exact .quiet rfl rfl rfl
  · exact .quiet rfl rfl rfl

theorem spec_streams {y : Sys} : Spec y (step y .streams) := by
  simp only [step]; exact .quiet rfl rfl rfl

theorem spec_stats {y : Sys} : Spec y (step y .stats) := by
  simp only [step]; exact .quiet rfl rfl rfl

/-- a restart, when the journal replays to the running catalogue -/
theorem spec_restart {y : Sys} (h : y.CatWF) (hs : viewR (replay y.journal) = viewY y) (cl : List (PKey × Nat)) :
    Spec y (step y (.restart cl)) := by
  simp only [step]
  split
  · exact .failed rfl rfl
  · refine .quiet rfl ?_ rfl
    rw [viewY_loadCatalog y (by rw [hs]; exact h)]
    exact hs

end Iggy.Sys
