/-
What one `step` does to the catalogue, in two shapes:
* `Spec.same`   – nothing visible changes and nothing is journalled (every failure, every data-plane
                  operation, every query);
* `Spec.logged` – a successful administrative command: exactly one journal entry, whose replay
                  reproduces the new runtime catalogue (`Journaled`).
-/
import Iggy.Sys.Catalog.Replay
namespace Iggy.Sys
open Iggy.Log

def Out.isErr : Out → Bool
  | .err _ => true
  | _ => false

/-- `y'` is `y` after one journalled command `e`: the catalogue stays well-formed and applying `e` to
any replayed catalogue that shows what `y` shows yields what `y'` shows, without panicking -/
structure Journaled (y y' : Sys) (e : Entry) : Prop where
  journal : y'.journal = y.journal ++ [e]
  wf : y'.CatWF
  replay : ∀ r, viewR r = viewY y → r.panicked = false →
    viewR (applyEntry r e) = viewY y' ∧ (applyEntry r e).panicked = false

inductive Spec (y : Sys) : Sys × Out × List Effect → Prop
  | same {y' : Sys} {out : Out} {effs : List Effect} :
      (out.isErr = true → effs = []) → viewY y' = viewY y → y'.journal = y.journal → Spec y (y', out, effs)
  | logged {y' : Sys} {out : Out} {effs : List Effect} (e : Entry) :
      out.isErr = false → Journaled y y' e → Spec y (y', out, effs)

theorem Spec.failed {y y' : Sys} {e : String} (hv : viewY y' = viewY y) (hj : y'.journal = y.journal) :
    Spec y (y', .err e, []) := .same (fun _ => rfl) hv hj

theorem Spec.quiet {y y' : Sys} {out : Out} {effs : List Effect} (ho : out.isErr = false)
    (hv : viewY y' = viewY y) (hj : y'.journal = y.journal) : Spec y (y', out, effs) :=
  .same (fun h => by rw [ho] at h; cases h) hv hj

theorem Sys.CatWF.of_view {y y' : Sys} (h : y.CatWF) (hv : viewY y' = viewY y) : y'.CatWF := by
  unfold Sys.CatWF; rw [hv]; exact h

/-- a journalled command that rewrites one stream -/
theorem Journaled.stream {y : Sys} (h : y.CatWF) {si : Ident} {s s' : Stream} (hs : (s.id, s) ∈ y.streams)
    (hsi : si.Matches s.id s.name) {e : Entry} {f : RStream → Option RStream}
    (he : ∀ r, applyEntry r e = r.withStream si f)
    (hid : s'.id = s.id) (hname : ∀ x ∈ y.streams, x.2.name = s'.name → x.1 = s.id) (hwf : s'.view.WF)
    (hf : ∀ sr : RStream, sr.view = s.view → ∃ sr', f sr = some sr' ∧ sr'.view = s'.view)
    {y' : Sys} (hv : viewY y' = viewY (y.putStream s')) (hj : y'.journal = y.journal ++ [e]) :
    Journaled y y' e := by
  refine ⟨hj, ?_, ?_⟩
  · unfold Sys.CatWF
    rw [hv, viewY_putStream, hid]
    refine CatView.WF.insert h hid ?_ hwf
    intro x hx hn
    obtain ⟨a, ha, rfl⟩ := mem_mapE.1 hx
    exact hname a ha hn
  · intro r hr hp
    rw [he, hv, viewY_putStream, hid, ← hr]
    have hV : CatView.WF (viewR r) := by rw [hr]; exact h
    have hm : (s.id, s.view) ∈ viewR r := by rw [hr]; exact mem_viewY hs
    exact viewR_withStream hp hV hm hsi hf

/-- a journalled command that rewrites one topic (the stream may carry a moved cursor) -/
theorem Journaled.topic {y : Sys} (h : y.CatWF) {si ti : Ident} {s s₁ : Stream} {t t' : Topic}
    (hs : (s.id, s) ∈ y.streams) (hsi : si.Matches s.id s.name)
    (ht : (t.id, t) ∈ s.topics) (hti : ti.Matches t.id t.name) {e : Entry} {f : RTopic → RTopic}
    (hs₁ : s₁.view = s.view)
    {y' : Sys} (hv : viewY y' = viewY (y.putTopic s₁ t')) (hj : y'.journal = y.journal ++ [e])
    (he : ∀ r, applyEntry r e = r.withStream si (fun s => s.withTopic ti f))
    (hid : t'.id = t.id) (hname : ∀ x ∈ s.topics, x.2.name = t'.name → x.1 = t.id) (hwf : t'.view.WF)
    (hf : ∀ tr : RTopic, tr.view = t.view → (f tr).view = t'.view) :
    Journaled y y' e := by
  have hS := h.stream hs
  have hview : (s₁.putTopic t').view = s.view.setTopic t.id t'.view := by
    rw [Stream.view_putTopic, hs₁, hid]
  refine Journaled.stream h hs hsi he (s' := s₁.putTopic t') (congrArg SV.id hs₁) ?_ ?_ ?_ hv hj
  · exact h.scope.fresh_of_same_name hs (congrArg SV.name hs₁)
  · rw [hview]
    refine SV.WF.setTopic hS hid ?_ hwf
    intro x hx hn
    obtain ⟨a, ha, rfl⟩ := mem_mapE (f := fun _ (t : Topic) => t.view).1 hx
    exact hname a ha hn
  · intro sr hsr
    rw [hview, ← hsr]
    exact RStream.view_withTopic (by rw [hsr]; exact hS) (by rw [hsr]; exact mem_view_topics ht) hti hf

/-- elimination for `withTopic` in a well-formed catalogue -/
theorem withTopic_elim {y : Sys} (h : y.CatWF) {si ti : Ident} {f : Stream → Topic → Sys × Out × List Effect}
    {P : Sys × Out × List Effect → Prop} (herr : ∀ e, P (y, .err e, []))
    (hok : ∀ s t, (s.id, s) ∈ y.streams → si.Matches s.id s.name → (t.id, t) ∈ s.topics →
      ti.Matches t.id t.name → P (f s t)) : P (y.withTopic si ti f) := by
  unfold Sys.withTopic
  split
  · exact herr _
  · next s hs =>
    have hs' := h.findStream.1 hs
    split
    · exact herr _
    · next t ht =>
      have ht' := (h.stream hs'.1).findTopic.1 ht
      exact hok s t hs'.1 hs'.2 ht'.1 ht'.2

theorem withPart_elim {y : Sys} (h : y.CatWF) {si ti : Ident} {pid : Nat}
    {f : Stream → Topic → Part → Sys × Out × List Effect}
    {P : Sys × Out × List Effect → Prop} (herr : ∀ e, P (y, .err e, []))
    (hok : ∀ s t p, (s.id, s) ∈ y.streams → si.Matches s.id s.name → (t.id, t) ∈ s.topics →
      ti.Matches t.id t.name → find? t.parts pid = some p → P (f s t p)) : P (y.withPart si ti pid f) := by
  unfold Sys.withPart
  apply withTopic_elim h herr
  intro s t hs hsi ht hti
  split
  · exact herr _
  · next p hp => exact hok s t p hs hsi ht hti hp

end Iggy.Sys
