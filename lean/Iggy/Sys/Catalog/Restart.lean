/-
Restart in a state satisfying the catalogue invariant: same catalogue, same partition keys, only
`restarted` effects, and every partition keeps its data.
-/
import Iggy.Sys.Catalog.Invariant
namespace Iggy.Sys
open Iggy.Log

/-- the partition keys, computed from the catalogue view -/
def allKeysV (V : CatView) : List PKey :=
  (V.map (fun se => (se.2.topics.map (fun te => te.2.parts.map (fun p => (se.1, te.1, p)))).flatten)).flatten

theorem allKeys_eq (y : Sys) : y.allKeys = allKeysV (viewY y) := by
  simp [Sys.allKeys, allKeysV, viewY, mapE, Stream.view, Topic.view, List.map_map, Function.comp_def]

theorem filter_contains_self (K : List PKey) : K.filter (fun k => K.contains k) = K := by
  rw [List.filter_eq_self]
  intro a ha
  simpa using ha

theorem filter_not_contains_self (K : List PKey) : K.filter (fun k => !K.contains k) = [] := by
  rw [List.filter_eq_nil_iff]
  intro a ha
  simpa using ha

theorem restart_view {y : Sys} (h : y.WF) (cl : List (PKey × Nat)) :
    viewY (loadCatalog y (replay y.journal) cl) = viewY y := by
  rw [viewY_loadCatalog y (by rw [h.2.2]; exact h.1)]
  exact h.2.2

/-- what a restart is, under the invariant -/
theorem restart_eq {y : Sys} (h : y.WF) (cl : List (PKey × Nat)) :
    step y (.restart cl) = (loadCatalog y (replay y.journal) cl, .ok, y.allKeys.map Effect.restarted) := by
  have hk : (loadCatalog y (replay y.journal) cl).allKeys = y.allKeys := by
    rw [allKeys_eq, allKeys_eq, restart_view h]
  simp only [step, h.2.1, Bool.false_eq_true, if_false, hk, filter_contains_self, filter_not_contains_self,
    List.map_nil, List.nil_append]

theorem find?_map_key {α β : Type} (G : Nat × α → β) (l : List (Nat × α)) (k : Nat) :
    find? (l.map (fun e => (e.1, G e))) k = (l.find? (fun e => e.1 = k)).map G := by
  unfold find?
  rw [List.find?_map]
  simp [Option.map_map, Function.comp_def]

theorem find?_entry {α : Type} {l : List (Nat × α)} {k : Nat} {v : α} (h : find? l k = some v) :
    l.find? (fun e => e.1 = k) = some (k, v) := by
  unfold find? at h
  cases hf : l.find? (fun e => decide (e.1 = k)) with
  | none => rw [hf] at h; simp at h
  | some e =>
    rw [hf] at h
    have h1 := List.find?_some hf
    simp at h h1
    rw [← h, ← h1]

theorem find?_range_succ {α : Type} (P : Nat → α) {n j : Nat} (hj : j < n) :
    find? ((List.range n).map (fun i => (i + 1, P i))) (j + 1) = some (P j) := by
  apply find?_of_mem
  · unfold Asc
    have := List.pairwise_lt_range' (s := 1) (n := n)
    rw [← range_succ_keys n P, List.pairwise_map] at this
    exact this
  · exact List.mem_map.2 ⟨j, List.mem_range.2 hj, rfl⟩

/-- no data directory of a live entity is discarded: every partition that existed before the restart
is the *restarted* old partition (its messages and offsets reloaded from its files), never a fresh one -/
theorem restart_keeps_data {y : Sys} (h : y.WF) (cl : List (PKey × Nat)) {sid tid pid : Nat} {s : Stream}
    {t : Topic} {p : Part} (hs : find? y.streams sid = some s) (ht : find? s.topics tid = some t)
    (hp : find? t.parts pid = some p) :
    ∃ s' t', find? (step y (.restart cl)).1.streams sid = some s' ∧ find? s'.topics tid = some t' ∧
      find? t'.parts pid = some (Part.restart y.cfg { p with expiry := t.expiry } y.now
        (((cl.find? (fun e => e.1 = (sid, tid, pid))).map (·.2)).getD 0)) := by
  rw [restart_eq h]
  have hsv : find? (viewR (replay y.journal)) sid = some s.view := by
    rw [h.2.2, viewY, find?_mapE, hs]; rfl
  obtain ⟨sr, hsr, hsrv⟩ := find?_viewR hsv
  have htv : find? sr.view.topics tid = some t.view := by
    rw [hsrv, Stream.view, find?_mapE, ht]; rfl
  obtain ⟨tr, htr, htrv⟩ := find?_view_topics htv
  have hT : t.view.WF := (h.1.stream (mem_of_find? hs)).topic (mem_of_find? ht)
  have hn := nparts_of_view htrv
  have hexp : tr.expiry = t.expiry := congrArg TV.expiry htrv
  have hpid : ∃ j, pid = j + 1 ∧ j < tr.nparts := by
    have : pid ∈ t.parts.map (·.1) := List.mem_map.2 ⟨(pid, p), mem_of_find? hp, rfl⟩
    rw [hT.part_keys, List.mem_range'_1] at this
    exact ⟨pid - 1, by omega, by omega⟩
  obtain ⟨j, rfl, hj⟩ := hpid
  refine ⟨?s', ?t', ?h1, ?h2, ?h3⟩
  case h1 =>
    simp only [loadCatalog]
    rw [find?_map_key, find?_entry hsr]; rfl
  case h2 =>
    simp only
    rw [find?_map_key, find?_entry htr]; rfl
  case h3 =>
    simp only
    rw [find?_range_succ _ hj]
    simp only [hs, ht, hp, Option.bind_some, hexp]

end Iggy.Sys
