/-
How the runtime's building blocks (`putStream`, `putTopic`, `putGroup`, `putPart`, the `map…`
traversals) act on the catalogue view, and view-level well-formedness of the results.
-/
import Iggy.Sys.Catalog.Lookup
namespace Iggy.Sys
open Iggy.Log

/-! ### view-level updates -/

def SV.setTopic (sv : SV) (k : Nat) (tv : TV) : SV := { sv with topics := insertAsc sv.topics k tv }
def SV.delTopic (sv : SV) (k : Nat) : SV := { sv with topics := erase sv.topics k }
def TV.setGroup (tv : TV) (k : Nat) (gv : GV) : TV := { tv with groups := insertAsc tv.groups k gv }
def TV.delGroup (tv : TV) (k : Nat) : TV := { tv with groups := erase tv.groups k }

theorem viewY_putStream (y : Sys) (s : Stream) : viewY (y.putStream s) = insertAsc (viewY y) s.id s.view :=
  mapE_insertAsc _ _ _ _

theorem Stream.view_putTopic (s : Stream) (t : Topic) : (s.putTopic t).view = s.view.setTopic t.id t.view := by
  simp only [Stream.view, Stream.putTopic, SV.setTopic, mapE_insertAsc]

theorem Topic.view_putGroup (t : Topic) (g : Group) : (t.putGroup g).view = t.view.setGroup g.id g.view := by
  simp only [Topic.view, Topic.putGroup, TV.setGroup, mapE_insertAsc]

theorem viewY_putTopic (y : Sys) (s : Stream) (t : Topic) :
    viewY (y.putTopic s t) = insertAsc (viewY y) s.id (s.view.setTopic t.id t.view) := by
  rw [Sys.putTopic, viewY_putStream, Stream.view_putTopic]; rfl

/-! ### membership at view level -/

theorem mem_viewY {y : Sys} {k : Nat} {s : Stream} (h : (k, s) ∈ y.streams) : (k, s.view) ∈ viewY y :=
  mem_mapE (f := fun _ (s : Stream) => s.view).2 ⟨(k, s), h, rfl⟩

theorem mem_view_topics {s : Stream} {k : Nat} {t : Topic} (h : (k, t) ∈ s.topics) : (k, t.view) ∈ s.view.topics :=
  mem_mapE (f := fun _ (t : Topic) => t.view).2 ⟨(k, t), h, rfl⟩

theorem mem_view_groups {t : Topic} {k : Nat} {g : Group} (h : (k, g) ∈ t.groups) : (k, g.view) ∈ t.view.groups :=
  mem_mapE (f := fun _ (g : Group) => g.view).2 ⟨(k, g), h, rfl⟩

/-! ### writing back something with the same view changes nothing visible -/

theorem keys_insertAsc_same {α : Type} {l : List (Nat × α)} (h : Asc l) {k : Nat} {v v' : α}
    (hf : find? l k = some v) : (insertAsc l k v').map (·.1) = l.map (·.1) := by
  have := mapE_insertAsc_same (fun _ _ => ()) h (v' := v') hf rfl
  have := congrArg (fun l => l.map (·.1)) this
  simpa [mapE_keys] using this

theorem length_insertAsc_same {α : Type} {l : List (Nat × α)} (h : Asc l) {k : Nat} {v v' : α}
    (hf : find? l k = some v) : (insertAsc l k v').length = l.length := by
  have := congrArg List.length (keys_insertAsc_same h (v' := v') hf)
  simpa using this

theorem Topic.view_putPart_same {t : Topic} (ht : t.view.WF) {pid : Nat} {p p' : Part}
    (hf : find? t.parts pid = some p) : (t.putPart pid p').view = t.view := by
  simp only [Topic.view, Topic.putPart, keys_insertAsc_same ht.parts_asc hf]

theorem Topic.view_putGroup_same {t : Topic} (ht : t.view.WF) {g g' : Group} (hm : (g.id, g) ∈ t.groups)
    (hv : g'.view = g.view) : (t.putGroup g').view = t.view := by
  have hid : g'.id = g.id := congrArg GV.id hv
  rw [Topic.view_putGroup, hid, hv]
  simp only [TV.setGroup]
  rw [insertAsc_self ht.2.asc]
  exact find?_of_mem ht.2.asc (mem_view_groups hm)

theorem SV.setTopic_same {sv : SV} (hs : sv.WF) {k : Nat} {tv : TV} (hm : (k, tv) ∈ sv.topics) :
    sv.setTopic k tv = sv := by
  simp only [SV.setTopic]
  rw [insertAsc_self hs.asc (find?_of_mem hs.asc hm)]

theorem Stream.view_putTopic_same {s : Stream} (hs : s.view.WF) {t t' : Topic} (hm : (t.id, t) ∈ s.topics)
    (hv : t'.view = t.view) : (s.putTopic t').view = s.view := by
  have hid : t'.id = t.id := congrArg TV.id hv
  rw [Stream.view_putTopic, hid, hv, SV.setTopic_same hs (mem_view_topics hm)]

/-- `putStream` of a stream with an unchanged view, on any state showing the same catalogue -/
theorem viewY_putStream_same {y : Sys} (h : y.CatWF) {s s' : Stream} (hm : (s.id, s) ∈ y.streams)
    (hv : s'.view = s.view) {y₁ : Sys} (hy : viewY y₁ = viewY y) : viewY (y₁.putStream s') = viewY y := by
  have hid : s'.id = s.id := congrArg SV.id hv
  rw [viewY_putStream, hy, hid, hv]
  exact insertAsc_self h.asc (find?_of_mem h.asc (mem_viewY hm))

theorem viewY_putTopic_same {y : Sys} (h : y.CatWF) {s : Stream} {t t' : Topic} (hs : (s.id, s) ∈ y.streams)
    (ht : (t.id, t) ∈ s.topics) (hv : t'.view = t.view) {y₁ : Sys} (hy : viewY y₁ = viewY y) :
    viewY (y₁.putTopic s t') = viewY y :=
  viewY_putStream_same h hs (Stream.view_putTopic_same (h.stream hs) ht hv) hy

/-! ### traversals -/

theorem Topic.view_mapParts (t : Topic) (f : Part → Part) : (mapParts t f).view = t.view := by
  simp [Topic.view, mapParts, List.map_map, Function.comp_def]

theorem Topic.view_mapPartsK (t : Topic) (sid : Nat) (f : PKey → Part → Part) : (t.mapPartsK sid f).view = t.view := by
  simp [Topic.view, Topic.mapPartsK, List.map_map, Function.comp_def]

theorem Stream.view_mapTopics (s : Stream) (f : Topic → Topic) (hf : ∀ t, (f t).view = t.view) :
    (s.mapTopics f).view = s.view := by
  simp only [Stream.view, Stream.mapTopics]
  congr 1
  simp [mapE, List.map_map, Function.comp_def, hf]

theorem viewY_mapStreams (y : Sys) (f : Stream → Stream) (hf : ∀ s, (f s).view = s.view) :
    viewY (y.mapStreams f) = viewY y := by
  simp [viewY, Sys.mapStreams, mapE, List.map_map, Function.comp_def, hf]

theorem viewY_mapAllParts (y : Sys) (f : PKey → Part → Part) : viewY (y.mapAllParts f) = viewY y :=
  viewY_mapStreams _ _ (fun _ => Stream.view_mapTopics _ _ (fun _ => Topic.view_mapPartsK _ _ _))

/-! ### well-formedness of updated views -/

theorem Scope.fresh_of_same_name {α : Type} {idf : α → Nat} {nm : α → String} {l : List (Nat × α)}
    (h : Scope idf nm l) {k : Nat} {a v : α} (hm : (k, a) ∈ l) (hn : nm v = nm a) :
    ∀ e ∈ l, nm e.2 = nm v → e.1 = k :=
  fun e he hne => h.inj e he (k, a) hm (hne.trans hn)

theorem TV.WF.setGroup {tv : TV} (h : tv.WF) {k : Nat} {gv : GV} (hid : gv.id = k)
    (hfresh : ∀ e ∈ tv.groups, e.2.name = gv.name → e.1 = k) (hn : gv.nparts = tv.parts.length) :
    (tv.setGroup k gv).WF :=
  ⟨h.1, h.2.insert hid hfresh hn⟩

theorem TV.WF.delGroup {tv : TV} (h : tv.WF) (k : Nat) : (tv.delGroup k).WF := ⟨h.1, h.2.erase k⟩

theorem SV.WF.setTopic {sv : SV} (h : sv.WF) {k : Nat} {tv : TV} (hid : tv.id = k)
    (hfresh : ∀ e ∈ sv.topics, e.2.name = tv.name → e.1 = k) (hwf : tv.WF) : (sv.setTopic k tv).WF :=
  ScopeP.insert h hid hfresh hwf

theorem SV.WF.delTopic {sv : SV} (h : sv.WF) (k : Nat) : (sv.delTopic k).WF := ScopeP.erase h k

theorem CatView.WF.insert {V : CatView} (h : V.WF) {k : Nat} {sv : SV} (hid : sv.id = k)
    (hfresh : ∀ e ∈ V, e.2.name = sv.name → e.1 = k) (hwf : sv.WF) : CatView.WF (insertAsc V k sv) :=
  ScopeP.insert h hid hfresh hwf

theorem CatView.WF.erase {V : CatView} (h : V.WF) (k : Nat) : CatView.WF (Iggy.Sys.erase V k) := ScopeP.erase h k

end Iggy.Sys
