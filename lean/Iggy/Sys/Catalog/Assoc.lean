/-
Association lists keyed by ascending `Nat` ids (`find?` / `insertAsc` / `erase` of `Iggy.Sys.Model`)
behave like finite maps.  Generic lemmas, used at the three levels of the catalogue
(streams, topics, consumer groups).
-/
import Iggy.Sys.Model
namespace Iggy.Sys

variable {α β : Type}

/-- strictly ascending keys -/
def Asc (l : List (Nat × α)) : Prop := l.Pairwise (fun a b => a.1 < b.1)

/-- map the values of an association list (the function may look at the key) -/
def mapE (f : Nat → α → β) (l : List (Nat × α)) : List (Nat × β) := l.map (fun e => (e.1, f e.1 e.2))

/-! ### find? -/

@[simp] theorem find?_nil (k : Nat) : find? ([] : List (Nat × α)) k = none := rfl

theorem find?_cons (k' : Nat) (v' : α) (l : List (Nat × α)) (k : Nat) :
    find? ((k', v') :: l) k = if k' = k then some v' else find? l k := by
  unfold find?
  by_cases h : k' = k
  · simp [h]
  · simp [h]

theorem find?_eq_none {l : List (Nat × α)} {k : Nat} : find? l k = none ↔ ∀ e ∈ l, e.1 ≠ k := by
  unfold find?
  simp [List.find?_eq_none]

theorem mem_of_find? {l : List (Nat × α)} {k : Nat} {v : α} (h : find? l k = some v) : (k, v) ∈ l := by
  induction l with
  | nil => simp at h
  | cons e l ih =>
    obtain ⟨k', v'⟩ := e
    rw [find?_cons] at h
    split at h
    · next hk => cases h; subst hk; exact List.mem_cons_self
    · exact List.mem_cons_of_mem _ (ih h)

theorem find?_isSome {l : List (Nat × α)} {k : Nat} : (find? l k).isSome = true ↔ ∃ e ∈ l, e.1 = k := by
  cases h : find? l k with
  | none =>
    simp only [Option.isSome_none, Bool.false_eq_true, false_iff]
    rintro ⟨e, he, hk⟩
    exact find?_eq_none.1 h e he hk
  | some v => simp only [Option.isSome_some, true_iff]; exact ⟨(k, v), mem_of_find? h, rfl⟩

theorem Asc.tail {e : Nat × α} {l : List (Nat × α)} (h : Asc (e :: l)) : Asc l := (List.pairwise_cons.1 h).2

theorem Asc.head_lt {e : Nat × α} {l : List (Nat × α)} (h : Asc (e :: l)) : ∀ a ∈ l, e.1 < a.1 :=
  (List.pairwise_cons.1 h).1

theorem find?_of_mem {l : List (Nat × α)} (h : Asc l) {k : Nat} {v : α} (hm : (k, v) ∈ l) : find? l k = some v := by
  induction l with
  | nil => simp at hm
  | cons e l ih =>
    obtain ⟨k', v'⟩ := e
    rw [find?_cons]
    rcases List.mem_cons.1 hm with heq | hm'
    · cases heq; simp
    · have := h.head_lt _ hm'
      have hne : k' ≠ k := by simp at this; omega
      simp [hne, ih h.tail hm']

/-- under ascending keys an entry is determined by its key -/
theorem Asc.eq_of_key {l : List (Nat × α)} (h : Asc l) {a b : Nat × α} (ha : a ∈ l) (hb : b ∈ l) (hk : a.1 = b.1) :
    a = b := by
  have h1 := find?_of_mem h (k := a.1) (v := a.2) ha
  have h2 := find?_of_mem h (k := b.1) (v := b.2) hb
  rw [hk, h2] at h1
  cases a; cases b; simp at h1 hk; simp [h1, hk]

/-! ### insertAsc -/

theorem find?_insertAsc_self (l : List (Nat × α)) (k : Nat) (v : α) : find? (insertAsc l k v) k = some v := by
  induction l with
  | nil => simp [insertAsc, find?_cons]
  | cons e l ih =>
    obtain ⟨k', v'⟩ := e
    unfold insertAsc
    split
    · simp [find?_cons]
    · split
      · simp [find?_cons]
      · next h1 h2 => rw [find?_cons]; simp [Ne.symm h2, ih]

theorem find?_insertAsc_ne (l : List (Nat × α)) {k k' : Nat} (v : α) (hne : k' ≠ k) :
    find? (insertAsc l k v) k' = find? l k' := by
  induction l with
  | nil => simp [insertAsc, find?_cons, Ne.symm hne]
  | cons e l ih =>
    obtain ⟨k'', v''⟩ := e
    unfold insertAsc
    split
    · rw [find?_cons]; simp [Ne.symm hne]
    · split
      · next h1 h2 => subst h2; simp [find?_cons, Ne.symm hne]
      · rw [find?_cons, find?_cons, ih]

theorem mem_insertAsc {l : List (Nat × α)} {k : Nat} {v : α} {e : Nat × α} (h : e ∈ insertAsc l k v) :
    e = (k, v) ∨ (e ∈ l ∧ (Asc l → e.1 ≠ k)) := by
  induction l with
  | nil => simp [insertAsc] at h; exact Or.inl h
  | cons e' l ih =>
    obtain ⟨k', v'⟩ := e'
    unfold insertAsc at h
    split at h
    · next hlt =>
      rcases List.mem_cons.1 h with h | h
      · exact Or.inl h
      · refine Or.inr ⟨h, fun hasc => ?_⟩
        rcases List.mem_cons.1 h with h | h
        · subst h; simp; omega
        · have := hasc.head_lt _ h; simp at this; omega
    · split at h
      · next h1 h2 =>
        subst h2
        rcases List.mem_cons.1 h with h | h
        · exact Or.inl h
        · refine Or.inr ⟨List.mem_cons_of_mem _ h, fun hasc => ?_⟩
          have := hasc.head_lt _ h; simp at this; omega
      · next h1 h2 =>
        rcases List.mem_cons.1 h with h | h
        · subst h; exact Or.inr ⟨List.mem_cons_self, fun _ => Ne.symm h2⟩
        · rcases ih h with h | ⟨h, h'⟩
          · exact Or.inl h
          · exact Or.inr ⟨List.mem_cons_of_mem _ h, fun hasc => h' hasc.tail⟩

theorem mem_insertAsc_self (l : List (Nat × α)) (k : Nat) (v : α) : (k, v) ∈ insertAsc l k v :=
  mem_of_find? (find?_insertAsc_self l k v)

theorem mem_insertAsc_of_mem {l : List (Nat × α)} {k : Nat} {v : α} {e : Nat × α} (h : e ∈ l) (hne : e.1 ≠ k) :
    e ∈ insertAsc l k v := by
  induction l with
  | nil => simp at h
  | cons e' l ih =>
    obtain ⟨k', v'⟩ := e'
    unfold insertAsc
    split
    · exact List.mem_cons_of_mem _ h
    · split
      · next h1 h2 =>
        subst h2
        rcases List.mem_cons.1 h with h | h
        · subst h; simp at hne
        · exact List.mem_cons_of_mem _ h
      · rcases List.mem_cons.1 h with h | h
        · subst h; exact List.mem_cons_self
        · exact List.mem_cons_of_mem _ (ih h)

theorem asc_insertAsc {l : List (Nat × α)} (h : Asc l) (k : Nat) (v : α) : Asc (insertAsc l k v) := by
  induction l with
  | nil => simp [insertAsc, Asc]
  | cons e l ih =>
    obtain ⟨k', v'⟩ := e
    unfold insertAsc
    split
    · next hlt =>
      refine List.pairwise_cons.2 ⟨fun a ha => ?_, h⟩
      rcases List.mem_cons.1 ha with ha | ha
      · subst ha; exact hlt
      · have := h.head_lt _ ha; simp at this ⊢; omega
    · split
      · next h1 h2 => subst h2; exact List.pairwise_cons.2 ⟨h.head_lt, h.tail⟩
      · next h1 h2 =>
        refine List.pairwise_cons.2 ⟨fun a ha => ?_, ih h.tail⟩
        rcases mem_insertAsc ha with ha | ⟨ha, _⟩
        · subst ha; simp; omega
        · exact h.head_lt _ ha

/-- writing back the value that is already there is the identity -/
theorem insertAsc_self {l : List (Nat × α)} (h : Asc l) {k : Nat} {v : α} (hf : find? l k = some v) :
    insertAsc l k v = l := by
  induction l with
  | nil => simp at hf
  | cons e l ih =>
    obtain ⟨k', v'⟩ := e
    rw [find?_cons] at hf
    unfold insertAsc
    split at hf
    · next hk => cases hf; subst hk; simp
    · next hk =>
      have hm := mem_of_find? hf
      have := h.head_lt _ hm
      simp at this
      have h1 : ¬ k < k' := by omega
      have h2 : ¬ k = k' := fun h => hk h.symm
      simp [h1, h2, ih h.tail hf]

theorem length_insertAsc_of_mem {l : List (Nat × α)} {k : Nat} {v v' : α} (hf : find? l k = some v) :
    (insertAsc l k v').length ≤ l.length + 1 := by
  induction l with
  | nil => simp at hf
  | cons e l ih =>
    obtain ⟨k', v''⟩ := e
    unfold insertAsc
    split
    · simp
    · split
      · simp
      · next h1 h2 =>
        rw [find?_cons] at hf
        simp [Ne.symm h2] at hf
        have := ih hf
        simp; omega

/-! ### erase -/

theorem mem_erase {l : List (Nat × α)} {k : Nat} {e : Nat × α} : e ∈ erase l k ↔ e ∈ l ∧ e.1 ≠ k := by
  unfold erase; simp [List.mem_filter]

theorem asc_erase {l : List (Nat × α)} (h : Asc l) (k : Nat) : Asc (erase l k) := List.Pairwise.filter _ h

theorem find?_erase_self (l : List (Nat × α)) (k : Nat) : find? (erase l k) k = none :=
  find?_eq_none.2 (fun _ he => (mem_erase.1 he).2)

theorem find?_erase_ne (l : List (Nat × α)) {k k' : Nat} (hne : k' ≠ k) : find? (erase l k) k' = find? l k' := by
  induction l with
  | nil => rfl
  | cons e l ih =>
    obtain ⟨k'', v''⟩ := e
    unfold erase at ih ⊢
    by_cases h : k'' = k
    · subst h
      rw [List.filter_cons_of_neg (by simp), ih, find?_cons]
      simp [Ne.symm hne]
    · rw [List.filter_cons_of_pos (by simp [h]), find?_cons, find?_cons, ih]

theorem erase_of_not_mem {l : List (Nat × α)} {k : Nat} (h : find? l k = none) : erase l k = l := by
  unfold erase
  rw [List.filter_eq_self]
  intro e he
  simpa using find?_eq_none.1 h e he

/-! ### mapE -/

@[simp] theorem mapE_nil (f : Nat → α → β) : mapE f [] = [] := rfl

@[simp] theorem mapE_cons (f : Nat → α → β) (e : Nat × α) (l : List (Nat × α)) :
    mapE f (e :: l) = (e.1, f e.1 e.2) :: mapE f l := rfl

theorem mapE_insertAsc (f : Nat → α → β) (l : List (Nat × α)) (k : Nat) (v : α) :
    mapE f (insertAsc l k v) = insertAsc (mapE f l) k (f k v) := by
  induction l with
  | nil => rfl
  | cons e l ih =>
    obtain ⟨k', v'⟩ := e
    simp only [mapE_cons]
    unfold insertAsc
    split
    · rfl
    · split
      · next h1 h2 => subst h2; rfl
      · simp only [mapE_cons, ih]

theorem mapE_erase (f : Nat → α → β) (l : List (Nat × α)) (k : Nat) : mapE f (erase l k) = erase (mapE f l) k := by
  unfold erase mapE
  rw [List.filter_map]
  rfl

theorem find?_mapE (f : Nat → α → β) (l : List (Nat × α)) (k : Nat) :
    find? (mapE f l) k = (find? l k).map (f k) := by
  induction l with
  | nil => rfl
  | cons e l ih =>
    obtain ⟨k', v'⟩ := e
    simp only [mapE_cons, find?_cons, ih]
    split
    · next h => subst h; rfl
    · rfl

theorem asc_mapE (f : Nat → α → β) (l : List (Nat × α)) : Asc (mapE f l) ↔ Asc l := by
  unfold Asc mapE
  rw [List.pairwise_map]

theorem mem_mapE {f : Nat → α → β} {l : List (Nat × α)} {e : Nat × β} :
    e ∈ mapE f l ↔ ∃ a ∈ l, e = (a.1, f a.1 a.2) := by
  unfold mapE
  simp only [List.mem_map]
  constructor
  · rintro ⟨a, ha, rfl⟩; exact ⟨a, ha, rfl⟩
  · rintro ⟨a, ha, rfl⟩; exact ⟨a, ha, rfl⟩

theorem length_mapE (f : Nat → α → β) (l : List (Nat × α)) : (mapE f l).length = l.length := by
  simp [mapE]

theorem mapE_keys (f : Nat → α → β) (l : List (Nat × α)) : (mapE f l).map (·.1) = l.map (·.1) := by
  simp [mapE]

theorem mapE_mapE {γ : Type} (g : Nat → β → γ) (f : Nat → α → β) (l : List (Nat × α)) :
    mapE g (mapE f l) = mapE (fun k v => g k (f k v)) l := by
  simp [mapE]

theorem mapE_congr {f g : Nat → α → β} {l : List (Nat × α)} (h : ∀ e ∈ l, f e.1 e.2 = g e.1 e.2) :
    mapE f l = mapE g l := by
  unfold mapE
  apply List.map_congr_left
  intro e he
  rw [h e he]

/-- overwriting an entry with one that has the same image leaves the image of the list unchanged -/
theorem mapE_insertAsc_same (f : Nat → α → β) {l : List (Nat × α)} (h : Asc l) {k : Nat} {v v' : α}
    (hf : find? l k = some v) (hv : f k v' = f k v) : mapE f (insertAsc l k v') = mapE f l := by
  rw [mapE_insertAsc, hv]
  apply insertAsc_self ((asc_mapE f l).2 h)
  rw [find?_mapE, hf]; rfl

end Iggy.Sys
