/-
Resolution of identifiers (numeric id or name) in a scope: the three `find…` functions of the runtime
model and the three `find…Id` functions of the journal replay are instances of two generic lookups,
and under `Scope` both are characterised by membership.
-/
import Iggy.Sys.Catalog.View
namespace Iggy.Sys

/-- the identifier denotes the entity with id `k` and name `name` -/
def Ident.Matches (i : Ident) (k : Nat) (name : String) : Prop :=
  match i with
  | .num n => k = n
  | .name x => name = x

section
variable {α β : Type}

/-- generic runtime lookup -/
def findI (nm : α → String) (l : List (Nat × α)) : Ident → Option α
  | .num n => find? l n
  | .name x => (l.find? (fun e => nm e.2 = x)).map (·.2)

/-- generic replay lookup: a numeric identifier is taken at face value -/
def findK (nm : α → String) (l : List (Nat × α)) : Ident → Option Nat
  | .num n => some n
  | .name x => (l.find? (fun e => nm e.2 = x)).map (·.1)

variable {idf : α → Nat} {nm : α → String} {l : List (Nat × α)}

theorem Scope.find_name_iff (h : Scope idf nm l) {x : String} {e : Nat × α} :
    l.find? (fun e => nm e.2 = x) = some e ↔ e ∈ l ∧ nm e.2 = x := by
  constructor
  · intro hf
    have := List.find?_some hf
    exact ⟨List.mem_of_find?_eq_some hf, by simpa using this⟩
  · rintro ⟨he, rfl⟩
    exact h.find_name he

theorem Scope.findI_iff (h : Scope idf nm l) {i : Ident} {a : α} :
    findI nm l i = some a ↔ (idf a, a) ∈ l ∧ i.Matches (idf a) (nm a) := by
  cases i with
  | num n =>
    simp only [findI, Ident.Matches]
    constructor
    · intro hf
      have hk := h.key_of_find hf
      rw [hk]; exact ⟨mem_of_find? hf, rfl⟩
    · rintro ⟨hm, hn⟩
      rw [← hn]; exact find?_of_mem h.asc hm
  | name x =>
    simp only [findI, Ident.Matches]
    constructor
    · intro hf
      cases hf' : l.find? (fun e => nm e.2 = x) with
      | none => rw [hf'] at hf; simp at hf
      | some e =>
        rw [hf'] at hf; simp at hf; subst hf
        have := h.find_name_iff.1 hf'
        rw [h.key e this.1]
        exact this
    · rintro ⟨hm, hn⟩
      rw [h.find_name_iff.2 ⟨hm, hn⟩]; rfl

theorem Scope.findK_of (h : Scope idf nm l) {i : Ident} {k : Nat} {a : α} (hm : (k, a) ∈ l)
    (hi : i.Matches k (nm a)) : findK nm l i = some k := by
  cases i with
  | num n => simp only [findK, Ident.Matches] at hi ⊢; rw [hi]
  | name x =>
    simp only [findK, Ident.Matches] at hi ⊢
    rw [h.find_name_iff.2 ⟨hm, hi⟩]; rfl

theorem findK_mapE {nm' : β → String} (f : Nat → α → β) (hnm : ∀ k a, nm' (f k a) = nm a) (i : Ident) :
    findK nm' (mapE f l) i = findK nm l i := by
  cases i with
  | num n => rfl
  | name x =>
    simp only [findK, mapE, List.find?_map, Option.map_map]
    congr 1
    congr 1
    funext e
    simp [hnm]

theorem findI_mapE {nm' : β → String} (f : α → β) (hnm : ∀ a, nm' (f a) = nm a) (i : Ident) :
    findI nm' (mapE (fun _ => f) l) i = (findI nm l i).map f := by
  cases i with
  | num n => simp only [findI, find?_mapE]
  | name x =>
    simp only [findI, mapE, List.find?_map, Option.map_map]
    have : ((fun e : Nat × β => decide (nm' e.2 = x)) ∘ fun e : Nat × α => (e.1, f e.2)) =
        fun e : Nat × α => decide (nm e.2 = x) := by
      funext e; simp [hnm]
    rw [this]
    rfl

end

/-! ### the model's lookups are the generic ones -/

theorem Sys.findStream_ok {y : Sys} {si : Ident} {s : Stream} :
    y.findStream si = .ok s ↔ findI Stream.name y.streams si = some s := by
  cases si with
  | num n =>
    simp only [Sys.findStream, findI]
    split <;> simp_all
  | name x =>
    simp only [Sys.findStream, findI]
    cases y.streams.find? (fun e => e.2.name = x) <;> simp

theorem Stream.findTopic_ok {s : Stream} {ti : Ident} {t : Topic} :
    s.findTopic ti = .ok t ↔ findI Topic.name s.topics ti = some t := by
  cases ti with
  | num n =>
    simp only [Stream.findTopic, findI]
    split <;> simp_all
  | name x =>
    simp only [Stream.findTopic, findI]
    cases s.topics.find? (fun e => e.2.name = x) <;> simp

theorem Topic.findGroup_ok {t : Topic} {gi : Ident} {g : Group} :
    t.findGroup gi = .ok g ↔ findI Group.name t.groups gi = some g := by
  cases gi with
  | num n =>
    simp only [Topic.findGroup, findI]
    split <;> simp_all
  | name x =>
    simp only [Topic.findGroup, findI]
    cases t.groups.find? (fun e => e.2.name = x) <;> simp

theorem RCat.findStreamId_eq (r : RCat) (si : Ident) : r.findStreamId si = findK SV.name (viewR r) si := by
  rw [viewR, findK_mapE (nm := RStream.name) (nm' := SV.name) (fun _ (s : RStream) => s.view) (fun _ _ => rfl)]
  cases si <;> rfl

theorem RStream.findTopicId_eq (s : RStream) (ti : Ident) : s.findTopicId ti = findK TV.name s.view.topics ti := by
  show _ = findK TV.name (mapE (fun _ (t : RTopic) => t.view) s.topics) ti
  rw [findK_mapE (nm := RTopic.name) (nm' := TV.name) (fun _ (t : RTopic) => t.view) (fun _ _ => rfl)]
  cases ti <;> rfl

theorem RTopic.findGroupId_eq (t : RTopic) (gi : Ident) : t.findGroupId gi = findK GV.name t.view.groups gi := by
  show _ = findK GV.name (mapE (fun k nm => ({ id := k, name := nm, nparts := t.nparts } : GV)) t.groups) gi
  rw [findK_mapE (nm := fun (x : String) => x) (nm' := GV.name) (fun k nm => ({ id := k, name := nm, nparts := t.nparts } : GV)) (fun _ _ => rfl)]
  cases gi <;> rfl

/-! ### structural facts of a well-formed runtime catalogue -/

theorem Sys.CatWF.scope {y : Sys} (h : y.CatWF) : Scope Stream.id Stream.name y.streams :=
  (scope_mapE (idf' := SV.id) (nm' := SV.name) (fun _ (s : Stream) => s.view) (fun _ _ => rfl) (fun _ _ => rfl)).1
    h.toScope

theorem Sys.CatWF.stream {y : Sys} (h : y.CatWF) {k : Nat} {s : Stream} (hm : (k, s) ∈ y.streams) : s.view.WF :=
  h.all (k, s.view) (mem_mapE (f := fun _ (s : Stream) => s.view).2 ⟨(k, s), hm, rfl⟩)

theorem SV.WF.scope {s : Stream} (h : s.view.WF) : Scope Topic.id Topic.name s.topics :=
  (scope_mapE (idf' := TV.id) (nm' := TV.name) (fun _ (t : Topic) => t.view) (fun _ _ => rfl) (fun _ _ => rfl)).1
    h.toScope

theorem SV.WF.topic {s : Stream} (h : s.view.WF) {k : Nat} {t : Topic} (hm : (k, t) ∈ s.topics) : t.view.WF :=
  h.all (k, t.view) (mem_mapE (f := fun _ (t : Topic) => t.view).2 ⟨(k, t), hm, rfl⟩)

theorem TV.WF.scope {t : Topic} (h : t.view.WF) : Scope Group.id Group.name t.groups :=
  (scope_mapE (idf' := GV.id) (nm' := GV.name) (fun _ (g : Group) => g.view) (fun _ _ => rfl) (fun _ _ => rfl)).1
    h.2.toScope

theorem TV.WF.group_nparts {t : Topic} (h : t.view.WF) {k : Nat} {g : Group} (hm : (k, g) ∈ t.groups) :
    g.nparts = t.parts.length := by
  have := h.2.all (k, g.view) (mem_mapE (f := fun _ (g : Group) => g.view).2 ⟨(k, g), hm, rfl⟩)
  simpa [Topic.view, Group.view] using this

theorem TV.WF.part_keys {t : Topic} (h : t.view.WF) : t.parts.map (·.1) = List.range' 1 t.parts.length := by
  have := h.1
  simpa [Topic.view] using this

theorem TV.WF.parts_asc {t : Topic} (h : t.view.WF) : Asc t.parts := by
  unfold Asc
  have := List.pairwise_lt_range' (s := 1) (n := t.parts.length)
  rw [← h.part_keys, List.pairwise_map] at this
  exact this

/-! ### successful resolution, in a well-formed catalogue -/

theorem Sys.CatWF.findStream {y : Sys} (h : y.CatWF) {si : Ident} {s : Stream} :
    y.findStream si = .ok s ↔ (s.id, s) ∈ y.streams ∧ si.Matches s.id s.name := by
  rw [Sys.findStream_ok, h.scope.findI_iff]

theorem SV.WF.findTopic {s : Stream} (h : s.view.WF) {ti : Ident} {t : Topic} :
    s.findTopic ti = .ok t ↔ (t.id, t) ∈ s.topics ∧ ti.Matches t.id t.name := by
  rw [Stream.findTopic_ok, h.scope.findI_iff]

theorem TV.WF.findGroup {t : Topic} (h : t.view.WF) {gi : Ident} {g : Group} :
    t.findGroup gi = .ok g ↔ (g.id, g) ∈ t.groups ∧ gi.Matches g.id g.name := by
  rw [Topic.findGroup_ok, h.scope.findI_iff]

end Iggy.Sys
