/-
L1 system model: catalogue of streams / topics / partitions on top of `Iggy.Log.Part`, with the
wire-level operations of the `node` line protocol (DESIGN.md Appendix A).  `step` dispatches each
operation in the order the real handler does (resolve → act) and returns, besides the result, the
list of *abstract effects* the operation had on partitions: the L2 specification state is evolved
from those effects alone (Iggy/Sys/Spec.lean).
-/
import Iggy.Log.Model
namespace Iggy.Sys
open Iggy.Log

/-- server-level settings outside `Log.Cfg` -/
structure SCfg where
  deleteOldest : Bool          -- topic.delete_oldest_segments
  defaultExpiry : Option Nat   -- segment.message_expiry (none = never)
  defaultMax : Option Nat      -- topic.max_size (none = unlimited)
deriving Repr, DecidableEq

inductive Ident | num (n : Nat) | name (s : String)
deriving Repr, DecidableEq

/-- IggyExpiry as sent by a client -/
inductive ExpiryArg | never | default | dur (us : Nat)
deriving Repr, DecidableEq

/-- MaxTopicSize as sent by a client -/
inductive MaxArg | unlimited | default | custom (bytes : Nat)
deriving Repr, DecidableEq

structure Topic where
  id : Nat
  name : String
  parts : List (Nat × Part)     -- ascending partition ids 1..n
  expiry : Option Nat           -- resolved message expiry, µs
  maxSize : Option Nat          -- resolved max size, bytes; none = unlimited
  repl : Nat
  cursor : Nat                  -- current_partition_id (balanced sends)
deriving Repr

structure Stream where
  id : Nat
  name : String
  topics : List (Nat × Topic)   -- ascending ids
  topicCursor : Nat             -- current_topic_id
deriving Repr

structure Sys where
  cfg : Cfg
  scfg : SCfg
  now : Nat
  streams : List (Nat × Stream) -- ascending ids
  streamCursor : Nat            -- CURRENT_STREAM_ID (process-global, restarts at 1)
deriving Repr

abbrev PKey := Nat × Nat × Nat   -- (stream, topic, partition)

inductive PollKind | offset (o : Nat) | timestamp (t : Nat) | first | last | next
deriving Repr, DecidableEq

/-- What an operation did to partitions, in abstract terms. -/
inductive Effect
  | created (k : PKey) (expiry : Option Nat)
  | deleted (k : PKey)
  | appended (k : PKey) (now : Nat) (msgs : List InMsg)
  | purged (k : PKey)
  | dropped (k : PKey) (n : Nat)            -- retention removed the n oldest retained messages
  | restarted (k : PKey)
  | setExpiry (k : PKey) (expiry : Option Nat)
  | offStored (k : PKey) (grp : Bool) (cid off : Nat)
  | offDeleted (k : PKey) (grp : Bool) (cid : Nat)
deriving Repr

inductive Partitioning | balanced | pid (n : Nat) | key (hash : Nat)
deriving Repr, DecidableEq

structure Consumer where
  grp : Bool
  id : Nat          -- resolved id (numeric, or hash32 of the name — an input)
deriving Repr, DecidableEq

inductive Op
  | clock (t : Nat)
  | createStream (id : Option Nat) (name : String)
  | deleteStream (s : Ident)
  | purgeStream (s : Ident)
  | createTopic (s : Ident) (id : Option Nat) (name : String) (nparts : Nat) (e : ExpiryArg)
      (m : MaxArg) (repl : Option Nat)
  | updateTopic (s t : Ident) (name : String) (e : ExpiryArg) (m : MaxArg) (repl : Option Nat)
  | deleteTopic (s t : Ident)
  | purgeTopic (s t : Ident)
  | createParts (s t : Ident) (n : Nat)
  | deleteParts (s t : Ident) (n : Nat)
  | send (s t : Ident) (p : Partitioning) (msgs : List InMsg)
  | poll (s t : Ident) (pid : Option Nat) (c : Consumer) (k : PollKind) (count : Nat) (auto : Bool)
  | flush (s t : Ident) (pid : Nat)
  | storeOffset (s t : Ident) (pid : Option Nat) (c : Consumer) (off : Nat)
  | getOffset (s t : Ident) (pid : Option Nat) (c : Consumer)
  | deleteOffset (s t : Ident) (pid : Option Nat) (c : Consumer)
  | save
  | maintain
  | restart (cacheLens : List (PKey × Nat))
  | evict (s t : Ident) (pid keep : Nat)
  | topicInfo (s t : Ident)
  | stats
deriving Repr

structure PartInfo where
  id : Nat
  cur : Nat
  msgs : Nat
  size : Nat
  segs : Nat
deriving Repr, DecidableEq

inductive Out
  | ok
  | okId (n : Nat)
  | err (e : String)
  | polled (pid cur : Nat) (msgs : List Msg)
  | offset (info : Option (Nat × Nat × Nat))   -- partition, current, stored
  | topic (id : Nat) (name : String) (nparts : Nat) (expiry maxSize : Option Nat) (repl : Nat)
      (msgs size : Nat) (parts : List PartInfo)
  | stats (streams topics parts segs msgs size : Nat)
  | none'
deriving Repr, DecidableEq

/-! ## association lists keyed by ascending Nat ids -/

def find? {α} (l : List (Nat × α)) (k : Nat) : Option α := (l.find? (fun e => e.1 = k)).map (·.2)

def insertAsc {α} (l : List (Nat × α)) (k : Nat) (v : α) : List (Nat × α) :=
  match l with
  | [] => [(k, v)]
  | (k', v') :: rest =>
    if k < k' then (k, v) :: (k', v') :: rest
    else if k = k' then (k, v) :: rest
    else (k', v') :: insertAsc rest k v

def erase {α} (l : List (Nat × α)) (k : Nat) : List (Nat × α) := l.filter (fun e => e.1 ≠ k)

/-! ## resolution -/

def Sys.findStream (y : Sys) : Ident → Except String Stream
  | .num n => match find? y.streams n with
    | some s => .ok s | none => .error "stream_id_not_found"
  | .name nm => match y.streams.find? (fun e => e.2.name = nm) with
    | some e => .ok e.2 | none => .error "stream_name_not_found"

def Stream.findTopic (s : Stream) : Ident → Except String Topic
  | .num n => match find? s.topics n with
    | some t => .ok t | none => .error "topic_id_not_found"
  | .name nm => match s.topics.find? (fun e => e.2.name = nm) with
    | some e => .ok e.2 | none => .error "topic_name_not_found"

def Sys.putStream (y : Sys) (s : Stream) : Sys := { y with streams := insertAsc y.streams s.id s }
def Stream.putTopic (s : Stream) (t : Topic) : Stream := { s with topics := insertAsc s.topics t.id t }
def Topic.putPart (t : Topic) (pid : Nat) (p : Part) : Topic := { t with parts := insertAsc t.parts pid p }

def Sys.putTopic (y : Sys) (s : Stream) (t : Topic) : Sys := y.putStream (s.putTopic t)

/-! ## figures (C16) -/

def Topic.size (t : Topic) : Nat := (t.parts.map (fun e => e.2.cnt.size)).sum
def Topic.msgs (t : Topic) : Nat := (t.parts.map (fun e => e.2.cnt.msgs)).sum
def Topic.segs (t : Topic) : Nat := (t.parts.map (fun e => e.2.cnt.segs)).sum
def Stream.size (s : Stream) : Nat := (s.topics.map (fun e => e.2.size)).sum
def Stream.msgs (s : Stream) : Nat := (s.topics.map (fun e => e.2.msgs)).sum
def Stream.segs (s : Stream) : Nat := (s.topics.map (fun e => e.2.segs)).sum
def Stream.nparts (s : Stream) : Nat := (s.topics.map (fun e => e.2.parts.length)).sum

/-! ## topic-level rules (topics/topic.rs, topics/messages.rs) -/

def resolveExpiry (sc : SCfg) : ExpiryArg → Option Nat
  | .never => none
  | .default => sc.defaultExpiry
  | .dur us => some us

/-- Topic::get_max_topic_size: a custom (or unlimited) size must be ≥ the segment size -/
def resolveMax (cfg : Cfg) (sc : SCfg) : MaxArg → Except String (Option Nat)
  | .default => .ok sc.defaultMax
  | .unlimited => .ok none
  | .custom b => if cfg.segSize ≤ b then .ok (some b) else .error "invalid_topic_size"

def Topic.isFull (t : Topic) : Bool :=
  match t.maxSize with
  | none => false
  | some m => decide (m ≤ t.size)

/-- `(size as f64 * 0.9) as u64`; exact for the sizes used here: ⌊9·m/10⌋ -/
def Topic.isAlmostFull (t : Topic) : Bool :=
  match t.maxSize with
  | none => false
  | some m => decide (m * 9 / 10 ≤ t.size)

/-- get_next_partition_id on (cursor, partition count): fetch_add(1); if the fetched value exceeds
the count, use 1 and store 2 -/
def nextPid (cursor n : Nat) : Nat × Nat := if n < cursor then (1, 2) else (cursor, cursor + 1)

def Topic.nextPartition (t : Topic) : Nat × Topic :=
  let r := nextPid t.cursor t.parts.length
  (r.1, { t with cursor := r.2 })

/-- calculate_partition_id_by_messages_key_hash -/
def byKey (hash n : Nat) : Nat := if hash % n = 0 then n else hash % n

def mkParts (cfg : Cfg) (expiry : Option Nat) (now : Nat) (fromId n : Nat) : List (Nat × Part) :=
  (List.range n).map (fun i => (fromId + i, Part.create cfg expiry now))

/-- allocate an id: the cursor value, skipping taken ids (streams.rs / streams/topics.rs) -/
def allocId (taken : Nat → Bool) (cursor : Nat) : Nat → Nat × Nat
  | 0 => (cursor, cursor + 1)
  | fuel + 1 => if taken cursor then allocId taken (cursor + 1) fuel else (cursor, cursor + 1)

/-! ## maintenance for one topic (channels/commands/maintain_messages.rs) -/

def retainedCount (p : Part) : Nat :=
  ((p.segs.map (fun s => batchesMsgs s.log ++ (match s.acc with | some a => a.msgs | none => []))).flatten).length

def Topic.maintain (cfg : Cfg) (sc : SCfg) (sid : Nat) (t : Topic) (now : Nat) : Topic × List Effect :=
  -- handle_expired_segments
  let r1 := t.parts.map (fun e =>
    let p' := if t.expiry.isSome then e.2.expire cfg now else e.2
    (e.1, p', retainedCount e.2 - retainedCount p'))
  let t1 : Topic := { t with parts := r1.map (fun e => (e.1, e.2.1)) }
  -- handle_oldest_segments
  let doOldest := t1.maxSize.isSome && sc.deleteOldest && t1.isAlmostFull
  let r2 := t1.parts.map (fun e =>
    let p' := if doOldest then e.2.deleteOldest cfg now else e.2
    (e.1, p', retainedCount e.2 - retainedCount p'))
  let t2 : Topic := { t1 with parts := r2.map (fun e => (e.1, e.2.1)) }
  let effs := (r1 ++ r2).filterMap (fun e =>
    if e.2.2 = 0 then none else some (Effect.dropped (sid, t.id, e.1) e.2.2))
  (t2, effs)

/-! ## step -/

def errOf : Log.Err → String
  | .segmentNotFound => "segment_not_found"
  | .segmentClosed => "segment_closed"
  | .invalidOffset => "invalid_offset"
  | .offsetNotFound => "consumer_offset_not_found"

/-- topics/messages.rs: append_messages (gate, partition choice, append) -/
def Topic.send (t : Topic) (cfg : Cfg) (sc : SCfg) (sid now : Nat) (part : Partitioning)
    (msgs : List InMsg) : Topic × Out × List Effect :=
  if t.parts.isEmpty then (t, .err "no_partitions", []) else
  if t.isFull && !sc.deleteOldest then (t, .err "topic_full", []) else
  if msgs.isEmpty then (t, .ok, []) else
  let (pid, t) := match part with
    | .balanced => t.nextPartition
    | .pid n => (n, t)
    | .key h => (byKey h t.parts.length, t)
  match find? t.parts pid with
  | none => (t, .err "partition_not_found", [])
  | some p =>
    match p.append cfg now msgs with
    | .error e => (t, .err (errOf e), [])
    | .ok p' => (t.putPart pid p', .ok, [.appended (sid, t.id, pid) now msgs])

def partInfo (e : Nat × Part) : PartInfo :=
  { id := e.1, cur := e.2.cur, msgs := e.2.cnt.msgs, size := e.2.cnt.size, segs := e.2.cnt.segs }

def pollPart (p : Part) (c : Consumer) (k : PollKind) (count : Nat) : List Msg :=
  match k with
  | .offset o => p.getByOffset o count
  | .timestamp ts => p.getByTimestamp ts count
  | .first => p.getFirst count
  | .last => p.getLast count
  | .next => p.getNext c.grp c.id count

def mapParts (t : Topic) (f : Part → Part) : Topic := { t with parts := t.parts.map (fun e => (e.1, f e.2)) }

def Topic.mapPartsK (t : Topic) (sid : Nat) (f : PKey → Part → Part) : Topic :=
  { t with parts := t.parts.map (fun pe => (pe.1, f (sid, t.id, pe.1) pe.2)) }

def Stream.mapTopics (s : Stream) (f : Topic → Topic) : Stream :=
  { s with topics := s.topics.map (fun te => (te.1, f te.2)) }

def Sys.mapStreams (y : Sys) (f : Stream → Stream) : Sys :=
  { y with streams := y.streams.map (fun se => (se.1, f se.2)) }

def Sys.mapAllParts (y : Sys) (f : PKey → Part → Part) : Sys :=
  y.mapStreams (fun s => s.mapTopics (fun t => t.mapPartsK s.id f))

def Sys.allKeys (y : Sys) : List PKey :=
  (y.streams.map (fun se => (se.2.topics.map (fun te =>
      te.2.parts.map (fun pe => (se.1, te.1, pe.1)))).flatten)).flatten

def step (y : Sys) : Op → Sys × Out × List Effect
  | .clock t => ({ y with now := t }, .ok, [])
  | .createStream id name =>
    if y.streams.any (fun e => e.2.name = name) then (y, .err "stream_name_already_exists", []) else
    let (sid, cursor) := match id with
      | some i => (i, y.streamCursor)
      | none => allocId (fun i => (find? y.streams i).isSome) y.streamCursor (y.streams.length + 1)
    if (find? y.streams sid).isSome then ({ y with streamCursor := cursor }, .err "stream_id_already_exists", []) else
    let s : Stream := { id := sid, name := name, topics := [], topicCursor := 1 }
    ({ y with streams := insertAsc y.streams sid s, streamCursor := cursor }, .okId sid, [])
  | .deleteStream si =>
    match y.findStream si with
    | .error e => (y, .err e, [])
    | .ok s =>
      let effs := (s.topics.map (fun te => te.2.parts.map (fun pe => Effect.deleted (s.id, te.1, pe.1)))).flatten
      ({ y with streams := erase y.streams s.id
                streamCursor := if s.id < y.streamCursor then s.id else y.streamCursor }, .ok, effs)
  | .purgeStream si =>
    match y.findStream si with
    | .error e => (y, .err e, [])
    | .ok s =>
      let s' := { s with topics := s.topics.map (fun te => (te.1, mapParts te.2 (fun p => p.purge y.cfg y.now))) }
      let effs := (s.topics.map (fun te => te.2.parts.map (fun pe => Effect.purged (s.id, te.1, pe.1)))).flatten
      (y.putStream s', .ok, effs)
  | .createTopic si id name nparts e m repl =>
    match y.findStream si with
    | .error e => (y, .err e, [])
    | .ok s =>
      match resolveMax y.cfg y.scfg m with
      | .error e => (y, .err e, [])
      | .ok maxSize =>
        if s.topics.any (fun te => te.2.name = name) then (y, .err "topic_name_already_exists", []) else
        let (tid, cursor) := match id with
          | some i => (i, s.topicCursor)
          | none => allocId (fun i => (find? s.topics i).isSome) s.topicCursor (s.topics.length + 1)
        let s := { s with topicCursor := cursor }
        if (find? s.topics tid).isSome then (y.putStream s, .err "topic_id_already_exists", []) else
        let expiry := resolveExpiry y.scfg e
        let t : Topic := { id := tid, name := name, parts := mkParts y.cfg expiry y.now 1 nparts,
                           expiry := expiry, maxSize := maxSize, repl := repl.getD 1, cursor := 1 }
        (y.putTopic s t, .okId tid,
          (List.range nparts).map (fun i => Effect.created (s.id, tid, 1 + i) expiry))
  | .updateTopic si ti name e m repl =>
    match y.findStream si with
    | .error e => (y, .err e, [])
    | .ok s =>
      match s.findTopic ti with
      | .error e => (y, .err e, [])
      | .ok t =>
        match resolveMax y.cfg y.scfg m with
        | .error e => (y, .err e, [])
        | .ok maxSize =>
          if s.topics.any (fun te => te.2.name = name ∧ te.1 ≠ t.id) then
            (y, .err "topic_name_already_exists", []) else
          let expiry := resolveExpiry y.scfg e
          let t' := { t with name := name, expiry := expiry, maxSize := maxSize, repl := repl.getD 1,
                             parts := t.parts.map (fun pe => (pe.1, { pe.2 with expiry := expiry })) }
          (y.putTopic s t', .ok, t.parts.map (fun pe => Effect.setExpiry (s.id, t.id, pe.1) expiry))
  | .deleteTopic si ti =>
    match y.findStream si with
    | .error e => (y, .err e, [])
    | .ok s =>
      match s.findTopic ti with
      | .error e => (y, .err e, [])
      | .ok t =>
        let s' := { s with topics := erase s.topics t.id
                           topicCursor := if t.id < s.topicCursor then t.id else s.topicCursor }
        (y.putStream s', .ok, t.parts.map (fun pe => Effect.deleted (s.id, t.id, pe.1)))
  | .purgeTopic si ti =>
    match y.findStream si with
    | .error e => (y, .err e, [])
    | .ok s =>
      match s.findTopic ti with
      | .error e => (y, .err e, [])
      | .ok t =>
        (y.putTopic s (mapParts t (fun p => p.purge y.cfg y.now)), .ok,
          t.parts.map (fun pe => Effect.purged (s.id, t.id, pe.1)))
  | .createParts si ti n =>
    match y.findStream si with
    | .error e => (y, .err e, [])
    | .ok s =>
      match s.findTopic ti with
      | .error e => (y, .err e, [])
      | .ok t =>
        let k := t.parts.length
        let t' := { t with parts := t.parts ++ mkParts y.cfg t.expiry y.now (k + 1) n }
        (y.putTopic s t', .ok, (List.range n).map (fun i => Effect.created (s.id, t.id, k + 1 + i) t.expiry))
  | .deleteParts si ti n =>
    match y.findStream si with
    | .error e => (y, .err e, [])
    | .ok s =>
      match s.findTopic ti with
      | .error e => (y, .err e, [])
      | .ok t =>
        let k := t.parts.length
        let n := min n k
        let t' := { t with parts := t.parts.take (k - n) }
        (y.putTopic s t', .ok, (List.range n).map (fun i => Effect.deleted (s.id, t.id, k - n + 1 + i)))
  | .send si ti part msgs =>
    match y.findStream si with
    | .error e => (y, .err e, [])
    | .ok s =>
      match s.findTopic ti with
      | .error e => (y, .err e, [])
      | .ok t =>
        let (t', out, effs) := t.send y.cfg y.scfg s.id y.now part msgs
        (y.putTopic s t', out, effs)
  | .poll si ti pid c k count auto =>
    if count = 0 then (y, .err "invalid_messages_count", []) else
    match y.findStream si with
    | .error e => (y, .err e, [])
    | .ok s =>
      match s.findTopic ti with
      | .error e => (y, .err e, [])
      | .ok t =>
        if t.parts.isEmpty then (y, .err "no_partitions", []) else
        let pid := pid.getD 1            -- consumer groups: Iggy/Group (later stage)
        match find? t.parts pid with
        | none => (y, .err "partition_not_found", [])
        | some p =>
          let ms := pollPart p c k count
          match ms.getLast? with
          | none => (y, .polled pid p.cur [], [])
          | some last =>
            if auto then
              match p.storeOffset c.grp c.id last.off with
              | .error e => (y, .err (errOf e), [])
              | .ok p' => (y.putTopic s (t.putPart pid p'), .polled pid p.cur ms,
                            [.offStored (s.id, t.id, pid) c.grp c.id last.off])
            else (y, .polled pid p.cur ms, [])
  | .flush si ti pid =>
    match y.findStream si with
    | .error e => (y, .err e, [])
    | .ok s =>
      match s.findTopic ti with
      | .error e => (y, .err e, [])
      | .ok t =>
        match find? t.parts pid with
        | none => (y, .err "partition_not_found", [])
        | some p => (y.putTopic s (t.putPart pid (p.flush y.cfg)), .ok, [])
  | .storeOffset si ti pid c off =>
    match y.findStream si with
    | .error e => (y, .err e, [])
    | .ok s =>
      match s.findTopic ti with
      | .error e => (y, .err e, [])
      | .ok t =>
        let pid := pid.getD 1
        match find? t.parts pid with
        | none => (y, .err "partition_not_found", [])
        | some p =>
          match p.storeOffset c.grp c.id off with
          | .error e => (y, .err (errOf e), [])
          | .ok p' => (y.putTopic s (t.putPart pid p'), .ok, [.offStored (s.id, t.id, pid) c.grp c.id off])
  | .getOffset si ti pid c =>
    match y.findStream si with
    | .error e => (y, .err e, [])
    | .ok s =>
      match s.findTopic ti with
      | .error e => (y, .err e, [])
      | .ok t =>
        let pid := pid.getD 1
        match find? t.parts pid with
        | none => (y, .err "partition_not_found", [])
        | some p => (y, .offset ((p.getOffset c.grp c.id).map (fun o => (pid, p.cur, o))), [])
  | .deleteOffset si ti pid c =>
    match y.findStream si with
    | .error e => (y, .err e, [])
    | .ok s =>
      match s.findTopic ti with
      | .error e => (y, .err e, [])
      | .ok t =>
        let pid := pid.getD 1
        match find? t.parts pid with
        | none => (y, .err "partition_not_found", [])
        | some p =>
          match p.deleteOffset c.grp c.id with
          | .error e => (y, .err (errOf e), [])
          | .ok p' => (y.putTopic s (t.putPart pid p'), .ok, [.offDeleted (s.id, t.id, pid) c.grp c.id])
  | .save => (y.mapAllParts (fun _ p => p.save y.cfg), .ok, [])
  | .maintain =>
    let r := y.streams.map (fun se =>
      let tr := se.2.topics.map (fun te => (te.1, Topic.maintain y.cfg y.scfg se.1 te.2 y.now))
      ((se.1, { se.2 with topics := tr.map (fun x => (x.1, x.2.1)) }), (tr.map (fun x => x.2.2)).flatten))
    ({ y with streams := r.map (·.1) }, .ok, (r.map (·.2)).flatten)
  | .restart cacheLens =>
    let y' := y.mapAllParts (fun k p =>
      p.restart y.cfg y.now (((cacheLens.find? (fun e => e.1 = k)).map (·.2)).getD 0))
    -- process-global stream cursor restarts at 1; topic cursors restart at 1 (Stream::empty / Topic::empty)
    let y' := { y' with streamCursor := 1 }
    let y' := y'.mapStreams (fun s =>
      { (s.mapTopics (fun t => { t with cursor := 1 })) with topicCursor := 1 })
    (y', .ok, y.allKeys.map Effect.restarted)
  | .evict si ti pid keep =>
    match y.findStream si with
    | .error e => (y, .err e, [])
    | .ok s =>
      match s.findTopic ti with
      | .error e => (y, .err e, [])
      | .ok t =>
        match find? t.parts pid with
        | none => (y, .err "partition_not_found", [])
        | some p => (y.putTopic s (t.putPart pid (p.evict keep)), .ok, [])
  | .topicInfo si ti =>
    match y.findStream si with
    | .error e => (y, .err e, [])
    | .ok s =>
      match s.findTopic ti with
      | .error _ => (y, .none', [])
      | .ok t => (y, .topic t.id t.name t.parts.length t.expiry t.maxSize t.repl t.msgs t.size
                        (t.parts.map partInfo), [])
  | .stats =>
    (y, .stats y.streams.length ((y.streams.map (fun e => e.2.topics.length)).sum)
          ((y.streams.map (fun e => e.2.nparts)).sum) ((y.streams.map (fun e => e.2.segs)).sum)
          ((y.streams.map (fun e => e.2.msgs)).sum) ((y.streams.map (fun e => e.2.size)).sum), [])

def Sys.init (cfg : Cfg) (scfg : SCfg) (now : Nat) : Sys :=
  { cfg := cfg, scfg := scfg, now := now, streams := [], streamCursor := 1 }

end Iggy.Sys
