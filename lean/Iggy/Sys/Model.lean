/-
L1 system model: catalogue of streams / topics / partitions on top of `Iggy.Log.Part`, with the
wire-level operations of the `node` line protocol (DESIGN.md Appendix A).  `step` dispatches each
operation in the order the real handler does (resolve → act) and returns, besides the result, the
list of *abstract effects* the operation had on partitions: the L2 specification state is evolved
from those effects alone (Iggy/Sys/Spec.lean).
-/
import Iggy.Log.Model
namespace Iggy.Sys
open Iggy.Log

/-- server-level settings outside `Log.Cfg` -/
structure SCfg where
  deleteOldest : Bool          -- topic.delete_oldest_segments
  defaultExpiry : Option Nat   -- segment.message_expiry (none = never)
  defaultMax : Option Nat      -- topic.max_size (none = unlimited)
deriving Repr, DecidableEq

inductive Ident | num (n : Nat) | name (s : String)
deriving Repr, DecidableEq

/-- IggyExpiry as sent by a client -/
inductive ExpiryArg | never | default | dur (us : Nat)
deriving Repr, DecidableEq

/-- MaxTopicSize as sent by a client -/
inductive MaxArg | unlimited | default | custom (bytes : Nat)
deriving Repr, DecidableEq

/-- topics/consumer_group.rs: ConsumerGroupMember. `share` = its partitions in index order. -/
structure Member where
  id : Nat                      -- client id
  share : List Nat
  idx : Option Nat              -- current_partition_index
  cur : Option Nat              -- current_partition_id
deriving Repr, DecidableEq

/-- topics/consumer_group.rs: ConsumerGroup. `members` in the implementation's (hash-map) order. -/
structure Group where
  id : Nat
  name : String
  nparts : Nat
  members : List Member
deriving Repr, DecidableEq

structure Topic where
  id : Nat
  name : String
  parts : List (Nat × Part)     -- ascending partition ids 1..n
  expiry : Option Nat           -- resolved message expiry, µs
  maxSize : Option Nat          -- resolved max size, bytes; none = unlimited
  repl : Nat
  cursor : Nat                  -- current_partition_id (balanced sends)
  groups : List (Nat × Group) := []   -- ascending ids
  groupCursor : Nat := 1        -- current_consumer_group_id
deriving Repr

structure Stream where
  id : Nat
  name : String
  topics : List (Nat × Topic)   -- ascending ids
  topicCursor : Nat             -- current_topic_id
deriving Repr

/-- what a handler writes to the state journal after a successful change (state/command.rs), with
the ids actually assigned (fix 3ab0310) and the resolved expiry / max size -/
inductive Entry
  | createStream (id : Nat) (name : String)
  | updateStream (s : Ident) (name : String)
  | deleteStream (s : Ident)
  | purgeStream (s : Ident)
  | createTopic (s : Ident) (id : Nat) (name : String) (nparts : Nat) (expiry maxSize : Option Nat) (repl : Option Nat)
  | updateTopic (s t : Ident) (name : String) (expiry maxSize : Option Nat) (repl : Option Nat)
  | deleteTopic (s t : Ident)
  | purgeTopic (s t : Ident)
  | createParts (s t : Ident) (n : Nat)
  | deleteParts (s t : Ident) (n : Nat)
  | createGroup (s t : Ident) (id : Nat) (name : String)
  | deleteGroup (s t g : Ident)
deriving Repr, DecidableEq

structure Sys where
  cfg : Cfg
  scfg : SCfg
  now : Nat
  streams : List (Nat × Stream) -- ascending ids
  streamCursor : Nat            -- CURRENT_STREAM_ID (process-global, restarts at 1)
  clients : List (Nat × Nat) := []          -- connection ↦ client id (assigned by the server)
  memberships : List (Nat × List (Nat × Nat × Nat)) := []  -- client id ↦ (stream, topic, group) joined
  journal : List Entry := []
deriving Repr

abbrev PKey := Nat × Nat × Nat   -- (stream, topic, partition)

inductive PollKind | offset (o : Nat) | timestamp (t : Nat) | first | last | next
deriving Repr, DecidableEq

/-- What an operation did to partitions, in abstract terms. -/
inductive Effect
  | created (k : PKey) (expiry : Option Nat)
  | deleted (k : PKey)
  | appended (k : PKey) (now : Nat) (msgs : List InMsg)
  | purged (k : PKey)
  | dropped (k : PKey) (n : Nat)            -- retention removed the n oldest retained messages
  | restarted (k : PKey)
  | setExpiry (k : PKey) (expiry : Option Nat)
  | offStored (k : PKey) (grp : Bool) (cid off : Nat)
  | offDeleted (k : PKey) (grp : Bool) (cid : Nat)
deriving Repr

inductive Partitioning | balanced | pid (n : Nat) | key (hash : Nat)
deriving Repr, DecidableEq

structure Consumer where
  grp : Bool
  id : Nat          -- resolved id (numeric, or hash32 of the name — an input)
deriving Repr, DecidableEq

inductive Op
  | clock (t : Nat)
  | createStream (id : Option Nat) (name : String)
  | updateStream (s : Ident) (name : String)
  | deleteStream (s : Ident)
  | purgeStream (s : Ident)
  | createTopic (s : Ident) (id : Option Nat) (name : String) (nparts : Nat) (e : ExpiryArg)
      (m : MaxArg) (repl : Option Nat)
  | updateTopic (s t : Ident) (name : String) (e : ExpiryArg) (m : MaxArg) (repl : Option Nat)
  | deleteTopic (s t : Ident)
  | purgeTopic (s t : Ident)
  | createParts (s t : Ident) (n : Nat)
  | deleteParts (s t : Ident) (n : Nat)
  | createGroup (s t : Ident) (id : Option Nat) (name : String)
  | deleteGroup (s t g : Ident)
  | join (c : Nat) (s t g : Ident)
  | leave (c : Nat) (s t g : Ident)
  | groupInfo (s t g : Ident) (order : List Nat)   -- `order`: member ids as the implementation lists them
  | groups (s t : Ident)
  | me (c : Nat) (clientId : Nat)                  -- `clientId`: assigned by the server, observed
  | close (c : Nat)
  | send (s t : Ident) (p : Partitioning) (msgs : List InMsg)
  | poll (c : Nat) (s t : Ident) (pid : Option Nat) (cons : Consumer) (k : PollKind) (count : Nat) (auto : Bool)
  | flush (s t : Ident) (pid : Nat)
  | storeOffset (c : Nat) (s t : Ident) (pid : Option Nat) (cons : Consumer) (off : Nat)
  | getOffset (c : Nat) (s t : Ident) (pid : Option Nat) (cons : Consumer)
  | deleteOffset (c : Nat) (s t : Ident) (pid : Option Nat) (cons : Consumer)
  | save
  | maintain
  | restart (cacheLens : List (PKey × Nat))
  | evict (s t : Ident) (pid keep : Nat)
  | topicInfo (s t : Ident)
  | topics (s : Ident)
  | streamInfo (s : Ident)
  | streams
  | stats
deriving Repr

structure PartInfo where
  id : Nat
  cur : Nat
  msgs : Nat
  size : Nat
  segs : Nat
deriving Repr, DecidableEq

inductive Out
  | ok
  | okId (n : Nat)
  | err (e : String)
  | polled (pid cur : Nat) (msgs : List Msg)
  | offset (info : Option (Nat × Nat × Nat))   -- partition, current, stored
  | topic (id : Nat) (name : String) (nparts : Nat) (expiry maxSize : Option Nat) (repl : Nat)
      (msgs size : Nat) (parts : List PartInfo)
  | stats (streams topics parts segs msgs size groups : Nat)
  | group (id : Nat) (name : String) (nparts : Nat) (members : List (Nat × List Nat))
  | me (clientId : Nat) (groups : List (Nat × Nat × Nat))
  | text (s : String)            -- listings (streams / topics / groups), canonical text
  | none'
deriving Repr, DecidableEq

/-! ## association lists keyed by ascending Nat ids -/

def find? {α} (l : List (Nat × α)) (k : Nat) : Option α := (l.find? (fun e => e.1 = k)).map (·.2)

def insertAsc {α} (l : List (Nat × α)) (k : Nat) (v : α) : List (Nat × α) :=
  match l with
  | [] => [(k, v)]
  | (k', v') :: rest =>
    if k < k' then (k, v) :: (k', v') :: rest
    else if k = k' then (k, v) :: rest
    else (k', v') :: insertAsc rest k v

def erase {α} (l : List (Nat × α)) (k : Nat) : List (Nat × α) := l.filter (fun e => e.1 ≠ k)

/-! ## resolution -/

def Sys.findStream (y : Sys) : Ident → Except String Stream
  | .num n => match find? y.streams n with
    | some s => .ok s | none => .error "stream_id_not_found"
  | .name nm => match y.streams.find? (fun e => e.2.name = nm) with
    | some e => .ok e.2 | none => .error "stream_name_not_found"

def Stream.findTopic (s : Stream) : Ident → Except String Topic
  | .num n => match find? s.topics n with
    | some t => .ok t | none => .error "topic_id_not_found"
  | .name nm => match s.topics.find? (fun e => e.2.name = nm) with
    | some e => .ok e.2 | none => .error "topic_name_not_found"

def Sys.putStream (y : Sys) (s : Stream) : Sys := { y with streams := insertAsc y.streams s.id s }
def Stream.putTopic (s : Stream) (t : Topic) : Stream := { s with topics := insertAsc s.topics t.id t }
def Topic.putPart (t : Topic) (pid : Nat) (p : Part) : Topic := { t with parts := insertAsc t.parts pid p }

def Sys.putTopic (y : Sys) (s : Stream) (t : Topic) : Sys := y.putStream (s.putTopic t)

/-! ## figures (C16) -/

def Topic.size (t : Topic) : Nat := (t.parts.map (fun e => e.2.cnt.size)).sum
def Topic.msgs (t : Topic) : Nat := (t.parts.map (fun e => e.2.cnt.msgs)).sum
def Topic.segs (t : Topic) : Nat := (t.parts.map (fun e => e.2.cnt.segs)).sum
def Stream.size (s : Stream) : Nat := (s.topics.map (fun e => e.2.size)).sum
def Stream.msgs (s : Stream) : Nat := (s.topics.map (fun e => e.2.msgs)).sum
def Stream.segs (s : Stream) : Nat := (s.topics.map (fun e => e.2.segs)).sum
def Stream.nparts (s : Stream) : Nat := (s.topics.map (fun e => e.2.parts.length)).sum

/-! ## topic-level rules (topics/topic.rs, topics/messages.rs) -/

def resolveExpiry (sc : SCfg) : ExpiryArg → Option Nat
  | .never => none
  | .default => sc.defaultExpiry
  | .dur us => some us

/-- Topic::get_max_topic_size: a custom (or unlimited) size must be ≥ the segment size -/
def resolveMax (cfg : Cfg) (sc : SCfg) : MaxArg → Except String (Option Nat)
  | .default => .ok sc.defaultMax
  | .unlimited => .ok none
  | .custom b => if cfg.segSize ≤ b then .ok (some b) else .error "invalid_topic_size"

def Topic.isFull (t : Topic) : Bool :=
  match t.maxSize with
  | none => false
  | some m => decide (m ≤ t.size)

/-- `(size as f64 * 0.9) as u64`; exact for the sizes used here: ⌊9·m/10⌋ -/
def Topic.isAlmostFull (t : Topic) : Bool :=
  match t.maxSize with
  | none => false
  | some m => decide (m * 9 / 10 ≤ t.size)

/-- get_next_partition_id on (cursor, partition count): fetch_add(1); if the fetched value exceeds
the count, use 1 and store 2 -/
def nextPid (cursor n : Nat) : Nat × Nat := if n < cursor then (1, 2) else (cursor, cursor + 1)

def Topic.nextPartition (t : Topic) : Nat × Topic :=
  let r := nextPid t.cursor t.parts.length
  (r.1, { t with cursor := r.2 })

/-- calculate_partition_id_by_messages_key_hash -/
def byKey (hash n : Nat) : Nat := if hash % n = 0 then n else hash % n

def mkParts (cfg : Cfg) (expiry : Option Nat) (now : Nat) (fromId n : Nat) : List (Nat × Part) :=
  (List.range n).map (fun i => (fromId + i, Part.create cfg expiry now))

/-- allocate an id: the cursor value, skipping taken ids (streams.rs / streams/topics.rs) -/
def allocId (taken : Nat → Bool) (cursor : Nat) : Nat → Nat × Nat
  | 0 => (cursor, cursor + 1)
  | fuel + 1 => if taken cursor then allocId taken (cursor + 1) fuel else (cursor, cursor + 1)

/-! ## maintenance for one topic (channels/commands/maintain_messages.rs) -/

def retainedCount (p : Part) : Nat :=
  ((p.segs.map (fun s => batchesMsgs s.log ++ (match s.acc with | some a => a.msgs | none => []))).flatten).length

def Topic.maintain (cfg : Cfg) (sc : SCfg) (sid : Nat) (t : Topic) (now : Nat) : Topic × List Effect :=
  -- handle_expired_segments
  let r1 := t.parts.map (fun e =>
    let p' := if t.expiry.isSome then e.2.expire cfg now else e.2
    (e.1, p', retainedCount e.2 - retainedCount p'))
  let t1 : Topic := { t with parts := r1.map (fun e => (e.1, e.2.1)) }
  -- handle_oldest_segments
  let doOldest := t1.maxSize.isSome && sc.deleteOldest && t1.isAlmostFull
  let r2 := t1.parts.map (fun e =>
    let p' := if doOldest then e.2.deleteOldest cfg now else e.2
    (e.1, p', retainedCount e.2 - retainedCount p'))
  let t2 : Topic := { t1 with parts := r2.map (fun e => (e.1, e.2.1)) }
  let effs := (r1 ++ r2).filterMap (fun e =>
    if e.2.2 = 0 then none else some (Effect.dropped (sid, t.id, e.1) e.2.2))
  (t2, effs)

/-! ## step -/

def errOf : Log.Err → String
  | .segmentNotFound => "segment_not_found"
  | .segmentClosed => "segment_closed"
  | .invalidOffset => "invalid_offset"
  | .offsetNotFound => "consumer_offset_not_found"

/-- topics/messages.rs: append_messages (gate, partition choice, append) -/
def Topic.send (t : Topic) (cfg : Cfg) (sc : SCfg) (sid now : Nat) (part : Partitioning)
    (msgs : List InMsg) : Topic × Out × List Effect :=
  if t.parts.isEmpty then (t, .err "no_partitions", []) else
  if t.isFull && !sc.deleteOldest then (t, .err "topic_full", []) else
  if msgs.isEmpty then (t, .ok, []) else
  let (pid, t) := match part with
    | .balanced => t.nextPartition
    | .pid n => (n, t)
    | .key h => (byKey h t.parts.length, t)
  match find? t.parts pid with
  | none => (t, .err "partition_not_found", [])
  | some p =>
    match p.append cfg now msgs with
    | .error e => (t, .err (errOf e), [])
    | .ok p' => (t.putPart pid p', .ok, [.appended (sid, t.id, pid) now msgs])

def partInfo (e : Nat × Part) : PartInfo :=
  { id := e.1, cur := e.2.cur, msgs := e.2.cnt.msgs, size := e.2.cnt.size, segs := e.2.cnt.segs }

def pollPart (p : Part) (c : Consumer) (k : PollKind) (count : Nat) : List Msg :=
  match k with
  | .offset o => p.getByOffset o count
  | .timestamp ts => p.getByTimestamp ts count
  | .first => p.getFirst count
  | .last => p.getLast count
  | .next => p.getNext c.grp c.id count

def mapParts (t : Topic) (f : Part → Part) : Topic := { t with parts := t.parts.map (fun e => (e.1, f e.2)) }

def Topic.mapPartsK (t : Topic) (sid : Nat) (f : PKey → Part → Part) : Topic :=
  { t with parts := t.parts.map (fun pe => (pe.1, f (sid, t.id, pe.1) pe.2)) }

def Stream.mapTopics (s : Stream) (f : Topic → Topic) : Stream :=
  { s with topics := s.topics.map (fun te => (te.1, f te.2)) }

def Sys.mapStreams (y : Sys) (f : Stream → Stream) : Sys :=
  { y with streams := y.streams.map (fun se => (se.1, f se.2)) }

def Sys.mapAllParts (y : Sys) (f : PKey → Part → Part) : Sys :=
  y.mapStreams (fun s => s.mapTopics (fun t => t.mapPartsK s.id f))

def Sys.allKeys (y : Sys) : List PKey :=
  (y.streams.map (fun se => (se.2.topics.map (fun te =>
      te.2.parts.map (fun pe => (se.1, te.1, pe.1)))).flatten)).flatten

/-! ## consumer groups (topics/consumer_group.rs) -/

/-- assign_partitions: clear every member, then partition `i+1` goes to member `i mod m` (in the
given member order); each member's cursor points at its first partition -/
def assignShares (nparts : Nat) (members : List Member) : List Member :=
  let m := members.length
  if m = 0 then members else
  members.zipIdx.map (fun mj =>
    let share := (List.range nparts).filterMap (fun i => if i % m = mj.2 then some (i + 1) else none)
    { mj.1 with share := share, idx := if share.isEmpty then none else some 0, cur := share.head? })

def Group.assign (g : Group) : Group := { g with members := assignShares g.nparts g.members }

/-- add_member: insert (replacing a member with the same id), then reassign -/
def Group.addMember (g : Group) (id : Nat) : Group :=
  Group.assign { g with members := g.members.filter (fun m => m.id ≠ id) ++
    [{ id := id, share := [], idx := none, cur := none }] }

/-- delete_member: reassign only if the member existed -/
def Group.deleteMember (g : Group) (id : Nat) : Group :=
  if g.members.any (fun m => m.id = id) then
    Group.assign { g with members := g.members.filter (fun m => m.id ≠ id) }
  else g

/-- reassign_partitions -/
def Group.setParts (g : Group) (n : Nat) : Group := Group.assign { g with nparts := n }

/-- the hash-map order is an input: adopt the observed order (when it is a permutation of the
members) and redo the assignment if the order changed -/
def Group.adoptOrder (g : Group) (order : List Nat) : Group :=
  let ms := order.filterMap (fun id => g.members.find? (fun m => m.id = id))
  if ms.length = g.members.length ∧ order.length = g.members.length ∧ ms.map (·.id) ≠ g.members.map (·.id)
  then Group.assign { g with members := ms } else g

/-- ConsumerGroupMember::calculate_partition_id: rotation over the member's share -/
def Member.calc (m : Member) : Option Nat × Member :=
  match m.idx with
  | none => (none, m)
  | some i =>
    match m.share[i]? with
    | none => (none, m)
    | some pid => (some pid, { m with cur := some pid, idx := some (if m.share.length ≤ i + 1 then 0 else i + 1) })

def Topic.findGroup (t : Topic) : Ident → Except String Group
  | .num n => match find? t.groups n with
    | some g => .ok g | none => .error "consumer_group_id_not_found"
  | .name nm => match t.groups.find? (fun e => e.2.name = nm) with
    | some e => .ok e.2 | none => .error "consumer_group_name_not_found"

def Topic.putGroup (t : Topic) (g : Group) : Topic := { t with groups := insertAsc t.groups g.id g }

/-- reassign_consumer_groups after a change of the partition count -/
def Topic.reassignGroups (t : Topic) : Topic :=
  { t with groups := t.groups.map (fun e => (e.1, e.2.setParts t.parts.length)) }

/-- resolve_consumer_with_partition_id: which partition a request is about. `calc`: rotate (polls) or
read the current partition (offset calls): `rotate`. `none` = no partition assigned. -/
def Topic.resolve (t : Topic) (cons : Consumer) (client : Nat) (pid : Option Nat) (rotate : Bool) :
    Except String (Option Nat × Topic) :=
  if !cons.grp then .ok (some (pid.getD 1), t) else
  match find? t.groups cons.id with
  | none => .error "consumer_group_id_not_found"
  | some g =>
    match pid with
    | some p => .ok (some p, t)
    | none =>
      match g.members.find? (fun m => m.id = client) with
      | none => .error "consumer_group_member_not_found"
      | some m =>
        if rotate then
          let (r, m') := m.calc
          .ok (r, t.putGroup { g with members := g.members.map (fun x => if x.id = client then m' else x) })
        else .ok (m.cur, t)

/-! ## journal replay (state/system.rs) and start-up (systems/streams.rs load_streams, streams/storage.rs,
topics/storage.rs) -/

structure RTopic where
  id : Nat
  name : String
  nparts : Nat
  expiry : Option Nat
  maxSize : Option Nat
  repl : Option Nat
  groups : List (Nat × String) := []
deriving Repr, DecidableEq

structure RStream where
  id : Nat
  name : String
  topics : List (Nat × RTopic) := []
deriving Repr, DecidableEq

/-- replayed catalogue; `panicked`: an `unwrap_or_else(panic!)` arm of the replay was hit -/
structure RCat where
  streams : List (Nat × RStream) := []
  panicked : Bool := false
deriving Repr, DecidableEq

def RCat.findStreamId (r : RCat) : Ident → Option Nat
  | .num n => some n
  | .name nm => (r.streams.find? (fun e => e.2.name = nm)).map (·.1)

def RStream.findTopicId (s : RStream) : Ident → Option Nat
  | .num n => some n
  | .name nm => (s.topics.find? (fun e => e.2.name = nm)).map (·.1)

def RTopic.findGroupId (t : RTopic) : Ident → Option Nat
  | .num n => some n
  | .name nm => (t.groups.find? (fun e => e.2 = nm)).map (·.1)

def RCat.panic (r : RCat) : RCat := { r with panicked := true }

def RCat.withStream (r : RCat) (si : Ident) (f : RStream → Option RStream) : RCat :=
  match r.findStreamId si with
  | none => r.panic
  | some sid => match find? r.streams sid with
    | none => r.panic
    | some s => match f s with
      | none => r.panic
      | some s' => { r with streams := insertAsc r.streams sid s' }

def RStream.withTopic (s : RStream) (ti : Ident) (f : RTopic → RTopic) : Option RStream :=
  match s.findTopicId ti with
  | none => none
  | some tid => match find? s.topics tid with
    | none => none
    | some t => some { s with topics := insertAsc s.topics tid (f t) }

/-- one entry of SystemState::init -/
def applyEntry (r : RCat) : Entry → RCat
  | .createStream id name =>
    let s : RStream := { id := id, name := name }
    { r with streams := insertAsc r.streams id s }
  | .updateStream si name => r.withStream si (fun s => some { s with name := name })
  | .deleteStream si => match r.findStreamId si with
    | none => r.panic
    | some sid => { r with streams := erase r.streams sid }
  | .purgeStream si => r.withStream si some
  | .createTopic si id name n e m repl => r.withStream si (fun s =>
      let t : RTopic := { id := id, name := name, nparts := n, expiry := e, maxSize := m, repl := repl }
      some { s with topics := insertAsc s.topics id t })
  | .updateTopic si ti name e m repl => r.withStream si (fun s =>
      s.withTopic ti (fun t => { t with name := name, expiry := e, maxSize := m, repl := repl }))
  | .deleteTopic si ti => r.withStream si (fun s =>
      (s.findTopicId ti).map (fun tid => { s with topics := erase s.topics tid }))
  | .purgeTopic si ti => r.withStream si (fun s => s.withTopic ti id)
  | .createParts si ti n => r.withStream si (fun s => s.withTopic ti (fun t => { t with nparts := t.nparts + n }))
  | .deleteParts si ti n => r.withStream si (fun s => s.withTopic ti (fun t => { t with nparts := t.nparts - n }))
  | .createGroup si ti id name => r.withStream si (fun s =>
      s.withTopic ti (fun t => { t with groups := insertAsc t.groups id name }))
  | .deleteGroup si ti gi => r.withStream si (fun s =>
      s.withTopic ti (fun t => match t.findGroupId gi with
        | none => t
        | some gid => { t with groups := erase t.groups gid }))

def replay (js : List Entry) : RCat := js.foldl applyEntry {}

/-- start-up: the catalogue is what the replay says; a partition keeps its files if its directory
exists (same stream/topic/partition ids), otherwise it is re-created empty; directories the replayed
state does not know are removed. Consumer-group offsets of groups unknown to the state stay in the
partition files. Cursors restart at 1. -/
def loadCatalog (y : Sys) (r : RCat) (cacheLens : List (PKey × Nat)) : Sys :=
  let streams := r.streams.map (fun se =>
    let old := find? y.streams se.1
    let topics := se.2.topics.map (fun te =>
      let oldT := old.bind (fun s => find? s.topics te.1)
      let parts := (List.range te.2.nparts).map (fun i =>
        let pid := i + 1
        let p := match oldT.bind (fun t => find? t.parts pid) with
          | some p =>
            let p0 : Part := { p with expiry := te.2.expiry }
            Part.restart y.cfg p0 y.now (((cacheLens.find? (fun e => e.1 = (se.1, te.1, pid))).map (·.2)).getD 0)
          | none => Part.create y.cfg te.2.expiry y.now
        (pid, p))
      let t : Topic := { id := te.1, name := te.2.name, parts := parts, expiry := te.2.expiry,
                         maxSize := te.2.maxSize, repl := te.2.repl.getD 1, cursor := 1,
                         groups := te.2.groups.map (fun ge =>
                           (ge.1, { id := ge.1, name := ge.2, nparts := te.2.nparts, members := [] })),
                         groupCursor := 1 }
      (te.1, t))
    (se.1, ({ id := se.1, name := se.2.name, topics := topics, topicCursor := 1 } : Stream)))
  { y with streams := streams, streamCursor := 1, clients := [], memberships := [] }

/-! ## listings -/

def showOpt (none' : String) : Option Nat → String
  | none => none'
  | some n => toString n

def topicLine (t : Topic) : String :=
  s!"{t.id}:{t.name}:{t.parts.length}:{showOpt "never" t.expiry}:{showOpt "unlimited" t.maxSize}:{t.repl}:{t.msgs}:{t.size}"

def streamLine (s : Stream) : String := s!"{s.id}:{s.name}:{s.topics.length}:{s.msgs}:{s.size}"

def keyLe (a b : Nat × Nat × Nat) : Bool :=
  a.1 < b.1 || (a.1 = b.1 && (a.2.1 < b.2.1 || (a.2.1 = b.2.1 && a.2.2 ≤ b.2.2)))

def insertKey (k : Nat × Nat × Nat) : List (Nat × Nat × Nat) → List (Nat × Nat × Nat)
  | [] => [k]
  | x :: rest => if keyLe k x then k :: x :: rest else x :: insertKey k rest

def sortKeys (l : List (Nat × Nat × Nat)) : List (Nat × Nat × Nat) := l.foldr insertKey []

def Sys.clientOf (y : Sys) (c : Nat) : Nat := (find? y.clients c).getD 0

def Sys.journalAdd (y : Sys) (e : Entry) : Sys := { y with journal := y.journal ++ [e] }

/-- remove client memberships that satisfy `f` (delete stream / topic / group) -/
def Sys.dropMemberships (y : Sys) (f : Nat × Nat × Nat → Bool) : Sys :=
  { y with memberships := y.memberships.map (fun e => (e.1, e.2.filter (fun k => !f k))) }

def Sys.withTopic (y : Sys) (si ti : Ident) (f : Stream → Topic → Sys × Out × List Effect) :
    Sys × Out × List Effect :=
  match y.findStream si with
  | .error e => (y, .err e, [])
  | .ok s =>
    match s.findTopic ti with
    | .error e => (y, .err e, [])
    | .ok t => f s t

def Sys.withPart (y : Sys) (si ti : Ident) (pid : Nat) (f : Stream → Topic → Part → Sys × Out × List Effect) :
    Sys × Out × List Effect :=
  y.withTopic si ti (fun s t =>
    match find? t.parts pid with
    | none => (y, .err "partition_not_found", [])
    | some p => f s t p)

def step (y : Sys) : Op → Sys × Out × List Effect
  | .clock t => ({ y with now := t }, .ok, [])
  | .createStream id name =>
    if y.streams.any (fun e => e.2.name = name) then (y, .err "stream_name_already_exists", []) else
    let (sid, cursor) := match id with
      | some i => (i, y.streamCursor)
      | none => allocId (fun i => (find? y.streams i).isSome) y.streamCursor (y.streams.length + 1)
    if (find? y.streams sid).isSome then ({ y with streamCursor := cursor }, .err "stream_id_already_exists", []) else
    let s : Stream := { id := sid, name := name, topics := [], topicCursor := 1 }
    (({ y with streams := insertAsc y.streams sid s, streamCursor := cursor } : Sys).journalAdd
      (.createStream sid name), .okId sid, [])
  | .updateStream si name =>
    match y.findStream si with
    | .error e => (y, .err e, [])
    | .ok s =>
      if y.streams.any (fun e => e.2.name = name ∧ e.1 ≠ s.id) then (y, .err "stream_name_already_exists", []) else
      ((y.putStream { s with name := name }).journalAdd (.updateStream si name), .ok, [])
  | .deleteStream si =>
    match y.findStream si with
    | .error e => (y, .err e, [])
    | .ok s =>
      let effs := (s.topics.map (fun te => te.2.parts.map (fun pe => Effect.deleted (s.id, te.1, pe.1)))).flatten
      let y' : Sys := { y with streams := erase y.streams s.id
                               streamCursor := if s.id < y.streamCursor then s.id else y.streamCursor }
      (((y'.dropMemberships (fun k => k.1 = s.id)).journalAdd (.deleteStream si)), .ok, effs)
  | .purgeStream si =>
    match y.findStream si with
    | .error e => (y, .err e, [])
    | .ok s =>
      let s' := { s with topics := s.topics.map (fun te => (te.1, mapParts te.2 (fun p => p.purge y.cfg y.now))) }
      let effs := (s.topics.map (fun te => te.2.parts.map (fun pe => Effect.purged (s.id, te.1, pe.1)))).flatten
      ((y.putStream s').journalAdd (.purgeStream si), .ok, effs)
  | .createTopic si id name nparts e m repl =>
    match y.findStream si with
    | .error e => (y, .err e, [])
    | .ok s =>
      match resolveMax y.cfg y.scfg m with
      | .error e => (y, .err e, [])
      | .ok maxSize =>
        if s.topics.any (fun te => te.2.name = name) then (y, .err "topic_name_already_exists", []) else
        let (tid, cursor) := match id with
          | some i => (i, s.topicCursor)
          | none => allocId (fun i => (find? s.topics i).isSome) s.topicCursor (s.topics.length + 1)
        let s := { s with topicCursor := cursor }
        if (find? s.topics tid).isSome then (y.putStream s, .err "topic_id_already_exists", []) else
        let expiry := resolveExpiry y.scfg e
        let t : Topic := { id := tid, name := name, parts := mkParts y.cfg expiry y.now 1 nparts,
                           expiry := expiry, maxSize := maxSize, repl := repl.getD 1, cursor := 1 }
        ((y.putTopic s t).journalAdd (.createTopic si tid name nparts expiry maxSize repl), .okId tid,
          (List.range nparts).map (fun i => Effect.created (s.id, tid, 1 + i) expiry))
  | .updateTopic si ti name e m repl =>
    y.withTopic si ti (fun s t =>
      match resolveMax y.cfg y.scfg m with
      | .error e => (y, .err e, [])
      | .ok maxSize =>
        if s.topics.any (fun te => te.2.name = name ∧ te.1 ≠ t.id) then
          (y, .err "topic_name_already_exists", []) else
        let expiry := resolveExpiry y.scfg e
        let t' := { t with name := name, expiry := expiry, maxSize := maxSize, repl := repl.getD 1,
                           parts := t.parts.map (fun pe => (pe.1, { pe.2 with expiry := expiry })) }
        ((y.putTopic s t').journalAdd (.updateTopic si ti name expiry maxSize repl), .ok,
          t.parts.map (fun pe => Effect.setExpiry (s.id, t.id, pe.1) expiry)))
  | .deleteTopic si ti =>
    y.withTopic si ti (fun s t =>
      let s' := { s with topics := erase s.topics t.id
                         topicCursor := if t.id < s.topicCursor then t.id else s.topicCursor }
      ((((y.putStream s').dropMemberships (fun k => k.1 = s.id ∧ k.2.1 = t.id)).journalAdd (.deleteTopic si ti)),
        .ok, t.parts.map (fun pe => Effect.deleted (s.id, t.id, pe.1))))
  | .purgeTopic si ti =>
    y.withTopic si ti (fun s t =>
      ((y.putTopic s (mapParts t (fun p => p.purge y.cfg y.now))).journalAdd (.purgeTopic si ti), .ok,
        t.parts.map (fun pe => Effect.purged (s.id, t.id, pe.1))))
  | .createParts si ti n =>
    y.withTopic si ti (fun s t =>
      let k := t.parts.length
      let t' := Topic.reassignGroups { t with parts := t.parts ++ mkParts y.cfg t.expiry y.now (k + 1) n }
      ((y.putTopic s t').journalAdd (.createParts si ti n), .ok,
        (List.range n).map (fun i => Effect.created (s.id, t.id, k + 1 + i) t.expiry)))
  | .deleteParts si ti n =>
    y.withTopic si ti (fun s t =>
      let k := t.parts.length
      let n' := min n k
      let t' := Topic.reassignGroups { t with parts := t.parts.take (k - n') }
      ((y.putTopic s t').journalAdd (.deleteParts si ti n), .ok,
        (List.range n').map (fun i => Effect.deleted (s.id, t.id, k - n' + 1 + i))))
  | .createGroup si ti id name =>
    y.withTopic si ti (fun s t =>
      if t.groups.any (fun ge => ge.2.name = name) then (y, .err "consumer_group_name_already_exists", []) else
      let (gid, cursor) := match id with
        | some i => (i, t.groupCursor)
        | none => allocId (fun i => (find? t.groups i).isSome) t.groupCursor (t.groups.length + 1)
      let t := { t with groupCursor := cursor }
      if (find? t.groups gid).isSome then (y.putTopic s t, .err "consumer_group_id_already_exists", []) else
      let g : Group := { id := gid, name := name, nparts := t.parts.length, members := [] }
      ((y.putTopic s (t.putGroup g)).journalAdd (.createGroup si ti gid name), .okId gid, []))
  | .deleteGroup si ti gi =>
    y.withTopic si ti (fun s t =>
      match t.findGroup gi with
      | .error e => (y, .err e, [])
      | .ok g =>
        let t' := { t with groups := erase t.groups g.id
                           groupCursor := if g.id < t.groupCursor then g.id else t.groupCursor
                           parts := t.parts.map (fun pe => (pe.1, { pe.2 with grpOffs := eraseK pe.2.grpOffs g.id })) }
        ((((y.putTopic s t').dropMemberships (fun k => k = (s.id, t.id, g.id))).journalAdd (.deleteGroup si ti gi)),
          .ok, t.parts.filterMap (fun pe =>
            if (lookup pe.2.grpOffs g.id).isSome then some (Effect.offDeleted (s.id, t.id, pe.1) true g.id) else none)))
  | .join c si ti gi =>
    y.withTopic si ti (fun s t =>
      match t.findGroup gi with
      | .error e => (y, .err e, [])
      | .ok g =>
        let client := y.clientOf c
        let y' := y.putTopic s (t.putGroup (g.addMember client))
        let key := (s.id, t.id, g.id)
        let cur := (find? y'.memberships client).getD []
        let cur' := if cur.contains key then cur else cur ++ [key]
        ({ y' with memberships := insertAsc y'.memberships client cur' }, .ok, []))
  | .leave c si ti gi =>
    y.withTopic si ti (fun s t =>
      match t.findGroup gi with
      | .error e => (y, .err e, [])
      | .ok g =>
        let client := y.clientOf c
        let y' := y.putTopic s (t.putGroup (g.deleteMember client))
        let key := (s.id, t.id, g.id)
        ({ y' with memberships := y'.memberships.map (fun e =>
            if e.1 = client then (e.1, e.2.filter (· ≠ key)) else e) }, .ok, []))
  | .groupInfo si ti gi order =>
    y.withTopic si ti (fun s t =>
      match t.findGroup gi with
      | .error _ => (y, .none', [])
      | .ok g =>
        let g' := g.adoptOrder order
        (y.putTopic s (t.putGroup g'), .group g'.id g'.name g'.nparts (g'.members.map (fun m => (m.id, m.share))), []))
  | .groups si ti =>
    y.withTopic si ti (fun _ t =>
      (y, .text (",".intercalate (t.groups.map (fun ge =>
        s!"{ge.1}:{ge.2.name}:{ge.2.nparts}:{ge.2.members.length}"))), []))
  | .me c clientId =>
    let y' := { y with clients := insertAsc y.clients c clientId }
    (y', .me clientId (sortKeys ((find? y'.memberships clientId).getD [])), [])
  | .close c =>
    -- systems/clients.rs: delete_client leaves every group the client had joined
    let client := y.clientOf c
    let keys := (find? y.memberships client).getD []
    let y' := keys.foldl (fun (acc : Sys) k =>
      match find? acc.streams k.1 with
      | none => acc
      | some s => match find? s.topics k.2.1 with
        | none => acc
        | some t => match find? t.groups k.2.2 with
          | none => acc
          | some g => acc.putTopic s (t.putGroup (g.deleteMember client))) y
    ({ y' with memberships := erase y'.memberships client, clients := erase y'.clients c }, .ok, [])
  | .send si ti part msgs =>
    y.withTopic si ti (fun s t =>
      let (t', out, effs) := t.send y.cfg y.scfg s.id y.now part msgs
      (y.putTopic s t', out, effs))
  | .poll c si ti pid cons k count auto =>
    if count = 0 then (y, .err "invalid_messages_count", []) else
    y.withTopic si ti (fun s t =>
      if t.parts.isEmpty then (y, .err "no_partitions", []) else
      match t.resolve cons (y.clientOf c) pid true with
      | .error e => (y, .err e, [])
      | .ok (none, t) => (y.putTopic s t, .polled 0 0 [], [])
      | .ok (some pid, t) =>
        let y := y.putTopic s t
        match find? t.parts pid with
        | none => (y, .err "partition_not_found", [])
        | some p =>
          let ms := pollPart p cons k count
          match ms.getLast? with
          | none => (y, .polled pid p.cur [], [])
          | some last =>
            if auto then
              match p.storeOffset cons.grp cons.id last.off with
              | .error e => (y, .err (errOf e), [])
              | .ok p' => (y.putTopic s (t.putPart pid p'), .polled pid p.cur ms,
                            [.offStored (s.id, t.id, pid) cons.grp cons.id last.off])
            else (y, .polled pid p.cur ms, []))
  | .flush si ti pid =>
    y.withPart si ti pid (fun s t p => (y.putTopic s (t.putPart pid (p.flush y.cfg)), .ok, []))
  | .storeOffset c si ti pid cons off =>
    y.withTopic si ti (fun s t =>
      match t.resolve cons (y.clientOf c) pid false with
      | .error e => (y, .err e, [])
      | .ok (none, _) => (y, .err "consumer_offset_not_found", [])
      | .ok (some pid, _) =>
        match find? t.parts pid with
        | none => (y, .err "partition_not_found", [])
        | some p =>
          match p.storeOffset cons.grp cons.id off with
          | .error e => (y, .err (errOf e), [])
          | .ok p' => (y.putTopic s (t.putPart pid p'), .ok, [.offStored (s.id, t.id, pid) cons.grp cons.id off]))
  | .getOffset c si ti pid cons =>
    y.withTopic si ti (fun s t =>
      match t.resolve cons (y.clientOf c) pid false with
      | .error e => (y, .err e, [])
      | .ok (none, _) => (y, .offset none, [])
      | .ok (some pid, _) =>
        match find? t.parts pid with
        | none => (y, .err "partition_not_found", [])
        | some p => (y, .offset ((p.getOffset cons.grp cons.id).map (fun o => (pid, p.cur, o))), []))
  | .deleteOffset c si ti pid cons =>
    y.withTopic si ti (fun s t =>
      match t.resolve cons (y.clientOf c) pid false with
      | .error e => (y, .err e, [])
      | .ok (none, _) => (y, .err "consumer_offset_not_found", [])
      | .ok (some pid, _) =>
        match find? t.parts pid with
        | none => (y, .err "partition_not_found", [])
        | some p =>
          match p.deleteOffset cons.grp cons.id with
          | .error e => (y, .err (errOf e), [])
          | .ok p' => (y.putTopic s (t.putPart pid p'), .ok, [.offDeleted (s.id, t.id, pid) cons.grp cons.id]))
  | .save => (y.mapAllParts (fun _ p => p.save y.cfg), .ok, [])
  | .maintain =>
    let r := y.streams.map (fun se =>
      let tr := se.2.topics.map (fun te => (te.1, Topic.maintain y.cfg y.scfg se.1 te.2 y.now))
      ((se.1, { se.2 with topics := tr.map (fun x => (x.1, x.2.1)) }), (tr.map (fun x => x.2.2)).flatten))
    ({ y with streams := r.map (·.1) }, .ok, (r.map (·.2)).flatten)
  | .restart cacheLens =>
    -- shutdown persists every buffer; start-up rebuilds the catalogue from the journal
    let r := replay y.journal
    if r.panicked then (y, .err "replay_panicked", []) else
    let y' := loadCatalog y r cacheLens
    let kept := y'.allKeys
    (y', .ok, (y.allKeys.filter (fun k => !kept.contains k)).map Effect.deleted ++
              (kept.filter (fun k => !y.allKeys.contains k)).map (fun k => Effect.created k none) ++
              (kept.filter (fun k => y.allKeys.contains k)).map Effect.restarted)
  | .evict si ti pid keep =>
    y.withPart si ti pid (fun s t p => (y.putTopic s (t.putPart pid (p.evict keep)), .ok, []))
  | .topicInfo si ti =>
    match y.findStream si with
    | .error _ => (y, .none', [])            -- try_find_topic: an unknown stream is "no such topic"
    | .ok s =>
      match s.findTopic ti with
      | .error _ => (y, .none', [])
      | .ok t => (y, .topic t.id t.name t.parts.length t.expiry t.maxSize t.repl t.msgs t.size
                        (t.parts.map partInfo), [])
  | .topics si =>
    match y.findStream si with
    | .error e => (y, .err e, [])
    | .ok s => (y, .text (",".intercalate (s.topics.map (fun te => topicLine te.2))), [])
  | .streamInfo si =>
    match y.findStream si with
    | .error _ => (y, .none', [])
    | .ok s => (y, .text (streamLine s ++ " " ++ ",".intercalate (s.topics.map (fun te => topicLine te.2))), [])
  | .streams => (y, .text (",".intercalate (y.streams.map (fun se => streamLine se.2))), [])
  | .stats =>
    (y, .stats y.streams.length ((y.streams.map (fun e => e.2.topics.length)).sum)
          ((y.streams.map (fun e => e.2.nparts)).sum) ((y.streams.map (fun e => e.2.segs)).sum)
          ((y.streams.map (fun e => e.2.msgs)).sum) ((y.streams.map (fun e => e.2.size)).sum)
          ((y.streams.map (fun e => (e.2.topics.map (fun t => t.2.groups.length)).sum)).sum), [])

def Sys.init (cfg : Cfg) (scfg : SCfg) (now : Nat) : Sys :=
  { cfg := cfg, scfg := scfg, now := now, streams := [], streamCursor := 1 }

end Iggy.Sys
