/-
L2 system specification for the data plane: a finite map from partition keys to abstract
partitions (`Log.SPart`), evolved only by the abstract effects of operations, and the answers the
specification gives to polls and offset reads.
-/
import Iggy.Log.Spec
import Iggy.Sys.Model
namespace Iggy.Sys
open Iggy.Log

abbrev SpecState := List (PKey × SPart)

def SpecState.get (z : SpecState) (k : PKey) : Option SPart := (z.find? (fun e => e.1 = k)).map (·.2)

def SpecState.put (z : SpecState) (k : PKey) (p : SPart) : SpecState :=
  (k, p) :: z.filter (fun e => e.1 ≠ k)

def SpecState.upd (z : SpecState) (k : PKey) (f : SPart → SPart) : SpecState :=
  z.map (fun e => if e.1 = k then (e.1, f e.2) else e)

def applyEffect (cfg : Cfg) (z : SpecState) : Effect → SpecState
  | .created k e => z.put k (SPart.create cfg e)
  | .deleted k => z.filter (fun e => e.1 ≠ k)
  | .appended k now msgs => z.upd k (fun p => p.append now msgs)
  | .purged k => z.upd k SPart.purge
  | .dropped k n => z.upd k (fun p => p.dropPrefix n)
  | .restarted k => z.upd k (fun p =>
      { p with ids := p.ids.map (fun _ => (p.msgs.map (·.id)).eraseDups) })
  | .setExpiry k e => z.upd k (fun p => { p with expiry := e })
  | .offStored k grp cid off => z.upd k (fun p =>
      match p.storeOffset grp cid off with | .ok p' => p' | .error _ => p)
  | .offDeleted k grp cid => z.upd k (fun p =>
      match p.deleteOffset grp cid with | .ok p' => p' | .error _ => p)

def applyEffects (cfg : Cfg) (z : SpecState) (es : List Effect) : SpecState := es.foldl (applyEffect cfg) z

def specPoll (p : SPart) (c : Consumer) (k : PollKind) (count : Nat) : List Msg :=
  match k with
  | .offset o => p.pollOffset o count
  | .timestamp ts => p.pollTimestamp ts count
  | .first => p.pollFirst count
  | .last => p.pollLast count
  | .next => p.pollNext c.grp c.id count

end Iggy.Sys
