/-
C05 — restart reproduces the acknowledged catalogue exactly (replay equals runtime).

For every sequence of operations the model accepts — administrative commands acknowledged or refused,
data-plane traffic, restarts — replaying the state journal (`replay`, the model of
`SystemState::init`) never hits a panicking arm and yields exactly the catalogue the running server
shows: same numeric ids, names, settings, partition sets and consumer groups (`viewR … = viewY …`).
A restart (`Op.restart`, i.e. `loadCatalog` of the replayed journal) therefore changes nothing
visible, keeps every partition key, emits only `restarted` effects and reloads every partition from
its own files.

`viewY` / `viewR` (Iggy/Sys/Catalog/View.lean) are the catalogue as the get / list calls show it, computed
from the runtime state and from a replayed journal; `Sys.WF` (Iggy/Sys/Catalog/Invariant.lean) is the
invariant: structural well-formedness (`Sys.CatWF`: ids strictly ascending, names unique per scope,
every entity stored under its own id, partitions exactly `1..n`, every group balanced over the
topic's partition count) together with `Sync` (the journal replays, without panic, to the running
catalogue).
-/
import Iggy.Sys.CatalogLemmas
namespace Iggy.Props.C05
open Iggy.Sys Iggy.Log

/-- the freshly started, empty server satisfies the invariant -/
theorem wf_init (cfg : Cfg) (scfg : SCfg) (now : Nat) : (Sys.init cfg scfg now).WF :=
  Iggy.Sys.wf_init cfg scfg now

/-- every operation — all constructors of `Op`: administrative commands (successful or refused),
membership and data-plane operations, queries, maintenance, `restart` — preserves the invariant -/
theorem wf_step {y : Sys} (h : y.WF) (op : Op) : (step y op).1.WF := Iggy.Sys.wf_step h op

/-- structural well-formedness alone (no assumption on the journal) is preserved by every operation
other than `restart` -/
theorem catwf_step {y : Sys} (h : y.CatWF) (op : Op) (hop : ∀ cl, op ≠ .restart cl) : (step y op).1.CatWF :=
  Iggy.Sys.catwf_step h op hop

/-- every state reachable from the empty server satisfies the invariant -/
theorem wf_reachable (cfg : Cfg) (scfg : SCfg) (now : Nat) (ops : List Op) :
    (ops.foldl (fun y op => (step y op).1) (Sys.init cfg scfg now)).WF :=
  wf_run (Iggy.Sys.wf_init cfg scfg now) ops

/-- **replay equals runtime**: after any sequence of operations (restarts may be interleaved
anywhere, any number of times — `restart` is an `Op`), replaying the journal does not panic and
reproduces exactly the catalogue the server shows: nothing acknowledged is lost, renumbered,
resurrected or attached to a different entity -/
theorem replay_eq_runtime (cfg : Cfg) (scfg : SCfg) (now : Nat) (ops : List Op) :
    let y := ops.foldl (fun y op => (step y op).1) (Sys.init cfg scfg now)
    (replay y.journal).panicked = false ∧ viewR (replay y.journal) = viewY y :=
  (wf_run (Iggy.Sys.wf_init cfg scfg now) ops).2

/-- one journalled command: the entry written replays, on *any* replayed catalogue showing what the
server showed before the command, to what the server shows after it.  (This is the step of the
induction behind `replay_eq_runtime`; it is what each of the twelve administrative commands is
proved to satisfy.) -/
theorem step_journal {y : Sys} (h : y.WF) (op : Op) :
    ((step y op).1.journal = y.journal ∧ viewY (step y op).1 = viewY y) ∨
    (∃ e, (step y op).1.journal = y.journal ++ [e] ∧
      ∀ r, viewR r = viewY y → r.panicked = false →
        viewR (applyEntry r e) = viewY (step y op).1 ∧ (applyEntry r e).panicked = false) := by
  have hs := step_spec h op
  generalize step y op = r at hs
  cases hs with
  | same _ hv hj => exact Or.inl ⟨hj, hv⟩
  | logged e _ hj => exact Or.inr ⟨e, hj.journal, hj.replay⟩

/-- a restart never fails (the replay never panics) -/
theorem restart_never_fails {y : Sys} (h : y.WF) (cl : List (PKey × Nat)) : (step y (.restart cl)).2.1 = .ok := by
  rw [restart_eq h]

/-- a restart shows exactly the catalogue that was running -/
theorem restart_preserves_view {y : Sys} (h : y.WF) (cl : List (PKey × Nat)) :
    viewY (step y (.restart cl)).1 = viewY y := by
  rw [restart_eq h]; exact restart_view h cl

/-- … and does not touch the journal -/
theorem restart_keeps_journal {y : Sys} (h : y.WF) (cl : List (PKey × Nat)) :
    (step y (.restart cl)).1.journal = y.journal := by
  rw [restart_eq h]; rfl

/-- every partition key present before the restart is present after it, and no other -/
theorem restart_keeps_partitions {y : Sys} (h : y.WF) (cl : List (PKey × Nat)) :
    (step y (.restart cl)).1.allKeys = y.allKeys := by
  rw [allKeys_eq, allKeys_eq, restart_preserves_view h]

/-- the only effects of a restart on partitions are `restarted`: nothing is deleted (no data directory
of a live entity is discarded), nothing is created empty -/
theorem restart_effects {y : Sys} (h : y.WF) (cl : List (PKey × Nat)) :
    (step y (.restart cl)).2.2 = y.allKeys.map Effect.restarted := by
  rw [restart_eq h]

/-- every partition that existed before the restart is, afterwards, the old partition reloaded from
its own files (`Part.restart`) under the same (stream, topic, partition) ids — never a fresh one -/
theorem restart_keeps_data {y : Sys} (h : y.WF) (cl : List (PKey × Nat)) {sid tid pid : Nat} {s : Stream}
    {t : Topic} {p : Part} (hs : find? y.streams sid = some s) (ht : find? s.topics tid = some t)
    (hp : find? t.parts pid = some p) :
    ∃ s' t', find? (step y (.restart cl)).1.streams sid = some s' ∧ find? s'.topics tid = some t' ∧
      find? t'.parts pid = some (Part.restart y.cfg { p with expiry := t.expiry } y.now
        (((cl.find? (fun e => e.1 = (sid, tid, pid))).map (·.2)).getD 0)) :=
  Iggy.Sys.restart_keeps_data h cl hs ht hp

/-- any number of consecutive restarts shows the same catalogue with the same partition keys -/
theorem restarts_preserve_view {y : Sys} (h : y.WF) (cls : List (List (PKey × Nat))) :
    viewY ((cls.map Op.restart).foldl (fun y op => (step y op).1) y) = viewY y ∧
    ((cls.map Op.restart).foldl (fun y op => (step y op).1) y).allKeys = y.allKeys := by
  induction cls generalizing y with
  | nil => exact ⟨rfl, rfl⟩
  | cons cl cls ih =>
    have := ih (Iggy.Sys.wf_step h (.restart cl))
    simp only [List.map_cons, List.foldl_cons]
    exact ⟨this.1.trans (restart_preserves_view h cl), this.2.trans (restart_keeps_partitions h cl)⟩

/-- reachable states: a restart after any history changes nothing visible, loses no partition and
never fails -/
theorem restart_after_any_history (cfg : Cfg) (scfg : SCfg) (now : Nat) (ops : List Op) (cl : List (PKey × Nat)) :
    let y := ops.foldl (fun y op => (step y op).1) (Sys.init cfg scfg now)
    (step y (.restart cl)).2.1 = .ok ∧ viewY (step y (.restart cl)).1 = viewY y ∧
    (step y (.restart cl)).1.allKeys = y.allKeys ∧ (step y (.restart cl)).2.2 = y.allKeys.map Effect.restarted := by
  have h := wf_run (Iggy.Sys.wf_init cfg scfg now) ops
  exact ⟨restart_never_fails h cl, restart_preserves_view h cl, restart_keeps_partitions h cl, restart_effects h cl⟩

/-! ## non-vacuity: explicit and automatic ids, renames, deletes, re-creates, refused commands, data
traffic and two restarts -/

def exCfg : Cfg := ⟨10, 1000, true, true, false⟩
def exSCfg : SCfg := ⟨false, some 7, none⟩

def exOps : List Op := [
  .createStream (some 5) "a",                                   -- explicit id
  .createStream none "b",                                       -- allocated: 1
  .createTopic (.name "a") none "t" 2 .never .unlimited none,
  .createTopic (.num 5) (some 7) "u" 1 (.dur 100) .default (some 3),
  .createGroup (.num 5) (.name "t") none "g",
  .createGroup (.num 5) (.num 1) (some 4) "h",
  .send (.num 5) (.num 1) (.pid 1) [⟨1, 50, 1⟩],
  .updateStream (.name "a") "c",                                -- rename; later commands use the new name
  .updateTopic (.name "c") (.name "t") "t2" (.dur 5) .unlimited (some 2),
  .createParts (.num 5) (.name "t2") 2,
  .deleteParts (.num 5) (.num 1) 3,
  .deleteGroup (.num 5) (.num 1) (.name "g"),
  .deleteTopic (.name "c") (.num 7),
  .createTopic (.num 5) none "u" 3 .default .default none,      -- re-create under a new id (2)
  .deleteStream (.name "b"),
  .createStream none "b",                                       -- re-create: id 1 again
  .createStream (some 5) "zz",                                  -- refused: id taken
  .createStream none "c",                                       -- refused: name taken
  .deleteParts (.num 1) (.num 1) 1,                             -- refused: no such topic
  .restart [],
  .createStream none "d",                                       -- allocator restarts at 1, skips 1 → 2
  .send (.num 5) (.num 1) (.pid 1) [⟨2, 50, 2⟩],
  .restart []]

def exFinal : Sys := exOps.foldl (fun y op => (step y op).1) (Sys.init exCfg exSCfg 0)

/-- the catalogue at the end -/
example : viewY exFinal =
    [(1, ⟨1, "b", []⟩), (2, ⟨2, "d", []⟩),
     (5, ⟨5, "c", [(1, ⟨1, "t2", [1], some 5, none, 2, [(4, ⟨4, "h", 1⟩)]⟩),
                   (2, ⟨2, "u", [1, 2, 3], some 7, none, 1, []⟩)]⟩)] := by decide

/-- sixteen commands were acknowledged and journalled; replaying them gives the same catalogue -/
example : exFinal.journal.length = 16 := by decide
example : (replay exFinal.journal).panicked = false ∧ viewR (replay exFinal.journal) = viewY exFinal := by decide

/-- one more restart: same catalogue (hence the same partition keys, which are a function of it) -/
example : viewY (step exFinal (.restart [])).1 = viewY exFinal := by decide +kernel
example : exFinal.allKeys = [(5, 1, 1), (5, 2, 1), (5, 2, 2), (5, 2, 3)] := by decide

/-- the hypothesis `Sync` of the restart theorems is not vacuous and not automatic: a state whose
journal is empty but whose catalogue is not is well-formed structurally, and a restart wipes it -/
example : viewY (step { exFinal with journal := [] } (.restart [])).1 = [] := by decide

end Iggy.Props.C05
