/-
C18 — with deduplication on, a message id is stored at most once per partition.
-/
import Iggy.Log.SpecRun
import Iggy.Log.RefineRun
namespace Iggy.Props.C18
open Iggy.Log

/-- In every reachable state with deduplication on no two retained messages share an id — repeats in
the same batch, in later batches, after retention and after restarts included. -/
theorem ids_nodup (cfg : Cfg) (e : Option Nat) (ops : List SOp) (ids : List Nat)
    (h : (SPart.run cfg e ops).ids = some ids) : ((SPart.run cfg e ops).msgs.map (·.id)).Nodup :=
  (SPart.run_dedupInv cfg e ops ids h).2

/-- the first occurrence is kept, later ones are dropped: a given message whose id is not yet
remembered is accepted by the batch (some message with that id is stored) -/
theorem distinct_never_dropped (ids : List Nat) (base now : Nat) (msgs : List InMsg) (m : InMsg)
    (hm : m ∈ msgs) (hn : m.id ∉ ids) : m.id ∈ (number (some ids) base now msgs 0 []).2.map (·.id) := by
  obtain ⟨_, _, _, _, _, h5⟩ := number_some_ids ids base now msgs 0
  exact h5 m hm hn

/-- a message is dropped only if its id was remembered or occurred earlier in the batch: accepted ids
are never already-remembered ids, and within one batch each id is accepted once -/
theorem accepted_are_new (ids : List Nat) (base now : Nat) (msgs : List InMsg) :
    (∀ m ∈ (number (some ids) base now msgs 0 []).2, m.id ∉ ids) ∧
    ((number (some ids) base now msgs 0 []).2.map (·.id)).Nodup := by
  obtain ⟨_, _, _, h3, h4, _⟩ := number_some_ids ids base now msgs 0
  exact ⟨fun m hm => (h3 m hm).1, h4⟩

/-- dropped duplicates consume no offset: accepted messages are numbered consecutively -/
theorem dup_consumes_no_offset (d : Option (List Nat)) (base now : Nat) (msgs : List InMsg) :
    consecutiveFrom base (number d base now msgs 0 []).2 := by
  simpa using number_consecutive d base now msgs 0

/-- with deduplication off every message is stored -/
theorem dedup_off_stores_all (base now : Nat) (msgs : List InMsg) :
    (number none base now msgs 0 []).2.map (fun m => (m.id, m.size, m.tag)) =
      msgs.map (fun m => (m.id, m.size, m.tag)) := number_none_all base now msgs 0

/-- after a restart the remembered ids are exactly the retained ids -/
theorem restart_rebuilds (p : SPart) (ids : List Nat) (h : p.restart.ids = some ids) (i : Nat) :
    i ∈ ids ↔ i ∈ p.msgs.map (·.id) := by
  unfold SPart.restart at h
  cases hp : p.ids with
  | none => rw [hp] at h; cases h
  | some x => rw [hp] at h; simp only [Option.map_some, Option.some.injEq] at h; subst h; exact List.mem_eraseDups

/-! non-vacuity -/
example : ((SPart.run exCfg none
    [.append 1 [⟨5, 50, 1⟩, ⟨5, 50, 2⟩, ⟨6, 50, 3⟩], .restart, .append 2 [⟨6, 50, 4⟩, ⟨7, 50, 5⟩]]).msgs.map
      (fun m => (m.off, m.id))) = [(0, 5), (1, 6), (2, 7)] := by decide


/-! ## on the storage model L1 -/

theorem l1_ids_nodup {cfg : Cfg} {p : Part} (hseg : 0 < cfg.segSize) (r : Reach cfg p) (hd : p.dedup.isSome) :
    (p.msgs.map (·.id)).Nodup := reach_ids_nodup hseg r hd

end Iggy.Props.C18
