/-
C16 — reported sizes and counts always equal what is actually stored.
The counters are threaded through the model exactly where the code touches the shared atomics
(append_batch, persist_messages, load_from_disk, Segment::delete); topic / stream / server figures are
sums over the partitions (Iggy/Sys/Model.lean: Topic.size, Stream.size, …).
-/
import Iggy.Log.RefineRun
import Iggy.Sys.Model
namespace Iggy.Props.C16
open Iggy.Log Iggy.Sys

/-- The message count reported for a partition equals the number of messages it retains, the segment
count the number of segments, and the size the sum of the segments' sizes — in every reachable state. -/
theorem count_exact {cfg : Cfg} {p : Part} (hseg : 0 < cfg.segSize) (r : Reach cfg p) :
    p.cnt.msgs = p.msgs.length ∧ p.cnt.segs = p.segs.length ∧
      p.cnt.size = (p.segs.map (·.sizeBytes)).sum := reach_counts hseg r

/-- Byte exactness: the reported size is the bytes of all log files (24-byte batch headers included)
plus the bytes of the messages still buffered. -/
theorem size_exact {cfg : Cfg} {p : Part} (hseg : 0 < cfg.segSize) (r : Reach cfg p) :
    p.cnt.size = (p.segs.map (fun s => logBytes s.log)).sum + sumSizes p.buffered :=
  reach_size_exact hseg r

/-- A restart reports the same message and segment counts as before it, and the size of the state
that the shutdown saved. -/
theorem restart_same_figures {cfg : Cfg} {p : Part} (hseg : 0 < cfg.segSize) (r : Reach cfg p) {now : Nat}
    (hnow : ∀ m ∈ p.msgs, m.ts ≤ now) (n : Nat) :
    (p.restart cfg now n).cnt.msgs = p.cnt.msgs ∧ (p.restart cfg now n).cnt.segs = p.cnt.segs ∧
      (p.restart cfg now n).cnt.size = (p.save cfg).cnt.size := by
  have h := reach_restart_same hseg r hnow n
  exact ⟨h.2.2.2.2.2.1, h.2.2.2.2.2.2.2, h.2.2.2.2.2.2.1⟩

/-- A topic's count and size are the sums over its partitions, a stream's the sums over its topics
(by definition in the model; the correspondence checks the real shared atomics against these sums). -/
theorem hierarchy_sums (t : Topic) (s : Stream) :
    t.msgs = (t.parts.map (fun e => e.2.cnt.msgs)).sum ∧ t.size = (t.parts.map (fun e => e.2.cnt.size)).sum ∧
    s.msgs = (s.topics.map (fun e => e.2.msgs)).sum ∧ s.size = (s.topics.map (fun e => e.2.size)).sum :=
  ⟨rfl, rfl, rfl, rfl⟩

theorem le_sum_of_mem {l : List Nat} {a : Nat} (h : a ∈ l) : a ≤ l.sum := by
  induction l with
  | nil => cases h
  | cons x xs ih =>
    simp only [List.mem_cons] at h
    simp only [List.sum_cons]
    rcases h with rfl | h
    · omega
    · have := ih h; omega

/-- counters never underflow when segments are deleted: a deleted segment's figures are part of the
partition's (purge, retention, partition / topic / stream deletion all go through `Counters.subSeg`) -/
theorem delete_never_underflows {cfg : Cfg} {p : Part} (hseg : 0 < cfg.segSize) (r : Reach cfg p) {s : Seg}
    (hs : s ∈ p.segs) : s.sizeBytes ≤ p.cnt.size ∧ s.msgCount ≤ p.cnt.msgs := by
  have hc := reach_counts hseg r
  have hsc := reach_seg_counts hseg r hs
  constructor
  · rw [hc.2.2]
    exact le_sum_of_mem (List.mem_map_of_mem hs)
  · rw [hc.1, hsc.2.1, Part.msgs]
    have : s.msgs.length ∈ (p.segs.map Seg.msgs).map List.length := List.mem_map_of_mem (List.mem_map_of_mem hs)
    rw [List.length_flatten]
    exact le_sum_of_mem this

/-! non-vacuity -/
example : ((Part.create rxCfg none 0).runOps rxCfg rxOps).cnt.msgs = 3 := by decide

end Iggy.Props.C16
