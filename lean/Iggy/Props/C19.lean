/-
C19 — with encryption on, nothing sensitive is stored in clear and reads are lossless.
Theorems are for EVERY cipher satisfying the two `Aead` laws (assumptions about AES-256-GCM), every
key, nonce sequence and payload list.  That real files contain no plaintext is established by the byte
search of the correspondence run (a test over the generated inputs); the placement theorems give the
reason it holds for all inputs of the model: the only bytes derived from a payload or a journalled
command that reach a file are `enc key nonce x`.
-/
import Iggy.Crypto.Model
namespace Iggy.Props.C19
open Iggy.Crypto

variable (A : Aead)

/-- every poll returns exactly the payloads that were sent (same key; any nonces) -/
theorem poll_returns_sent (k : A.Key) (ns : List A.Nonce) (ps : List Bytes) (h : ps.length ≤ ns.length) :
    openAll A k (sealAll A k ns ps) = some ps := by
  induction ps generalizing ns with
  | nil => cases ns <;> simp [sealAll, openAll]
  | cons p ps ih =>
    cases ns with
    | nil => simp at h
    | cons n ns =>
      simp only [sealAll, openAll, A.dec_enc]
      rw [ih ns (by simpa using h)]

/-- placement: what is stored for a message is `enc key nonce payload` for one of the sent payloads —
no code path stores the payload itself -/
theorem files_hold_ciphertext (k : A.Key) (ns : List A.Nonce) (ps : List Bytes) :
    ∀ c ∈ sealAll A k ns ps, ∃ n p, p ∈ ps ∧ c = A.enc k n p := by
  induction ps generalizing ns with
  | nil => cases ns <;> simp [sealAll]
  | cons p ps ih =>
    cases ns with
    | nil => simp [sealAll]
    | cons n ns =>
      intro c hc
      simp only [sealAll, List.mem_cons] at hc
      rcases hc with rfl | hc
      · exact ⟨n, p, by simp, rfl⟩
      · obtain ⟨n', p', hp, rfl⟩ := ih ns c hc
        exact ⟨n', p', by simp [hp], rfl⟩

/-- one stored ciphertext per sent message (sizes and counts are accounted on the ciphertext) -/
theorem seal_length (k : A.Key) (ns : List A.Nonce) (ps : List Bytes) (h : ps.length ≤ ns.length) :
    (sealAll A k ns ps).length = ps.length := by
  induction ps generalizing ns with
  | nil => cases ns <;> simp [sealAll]
  | cons p ps ih =>
    cases ns with
    | nil => simp at h
    | cons n ns => simp only [sealAll, List.length_cons]; rw [ih ns (by simpa using h)]

/-- data written under one key is never returned as valid content under another key: the poll fails as
a whole (cannot_decrypt_data), nothing is delivered -/
theorem other_key_never_valid (k k' : A.Key) (hk : k ≠ k') (ns : List A.Nonce) (ps : List Bytes)
    (h : ps.length ≤ ns.length) (hne : ps ≠ []) : openAll A k' (sealAll A k ns ps) = none := by
  cases ps with
  | nil => exact absurd rfl hne
  | cons p ps =>
    cases ns with
    | nil => simp at h
    | cons n ns => simp only [sealAll, openAll, A.key_sep k k' n p hk]

/-- an undecryptable record anywhere in the range makes the poll an error rather than a delivery -/
theorem undecryptable_is_error (k : A.Key) (pre post : List Bytes) (c : Bytes) (hc : A.dec k c = none) :
    openAll A k (pre ++ c :: post) = none := by
  induction pre with
  | nil => simp [openAll, hc]
  | cons x xs ih =>
    simp only [List.cons_append, openAll, ih]
    cases A.dec k x <;> rfl

/-- the journal: a command body is stored encrypted, and loading with the same key restores it (the
checksum, computed over the clear form, verifies) -/
theorem journal_roundtrip (ck : Bytes → Nat) (k : A.Key) (n : A.Nonce) (clear : Bytes) :
    openEntry A ck k (sealEntry A ck k n clear) = some clear ∧
    ∃ n', (sealEntry A ck k n clear).body = A.enc k n' clear := by
  refine ⟨?_, n, rfl⟩
  simp [openEntry, sealEntry, A.dec_enc]

/-- loading the journal with another key is an error — never a different command -/
theorem journal_other_key (ck : Bytes → Nat) (k k' : A.Key) (hk : k ≠ k') (n : A.Nonce) (clear : Bytes) :
    openEntry A ck k' (sealEntry A ck k n clear) = none := by
  simp [openEntry, sealEntry, A.key_sep k k' n clear hk]

/-! non-vacuity: a toy cipher satisfying both laws (key byte prepended, payload shifted by the key) -/
@[reducible] def toy : Aead where
  Key := UInt8
  Nonce := Unit
  enc k _ p := k :: p.map (· + k)
  dec k c := match c with
    | [] => none
    | t :: rest => if t = k then some (rest.map (· - k)) else none
  dec_enc := by
    intro k n p
    simp only [if_true, List.map_map]
    congr 1
    have : ((fun x : UInt8 => x - k) ∘ fun x => x + k) = id := by funext x; simp
    rw [this, List.map_id]
  key_sep := by
    intro k k' n p hk
    simp only
    rw [if_neg hk]

example : openAll toy (3 : UInt8) (sealAll toy (3 : UInt8) [(), ()] [[1, 2], [9]]) = some [[1, 2], [9]] := by decide
example : openAll toy (4 : UInt8) (sealAll toy (3 : UInt8) [(), ()] [[1, 2], [9]]) = none := by decide

end Iggy.Props.C19
