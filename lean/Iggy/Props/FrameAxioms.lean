/-
Axiom audit for Iggy/Props/Frame.lean: every theorem depends on at most propext, Classical.choice,
Quot.sound.
-/
import Iggy.Props.Frame
open Iggy.Props.Frame

#print axioms ex_wf
#print axioms other_stream_untouched
#print axioms named_stream_is_entry
#print axioms unresolved_stream_changes_nothing
#print axioms unresolved_topic_changes_nothing
#print axioms no_stream_op_keeps_streams
#print axioms createStream_keeps_existing
#print axioms deleteStream_removes_only_named
#print axioms close_changes_only_members
#print axioms close_partitions_untouched
#print axioms close_groups_exact
#print axioms other_topic_untouched
#print axioms other_topic_untouched_anywhere
#print axioms named_topic_is_entry
#print axioms frame_needs_keyed
#print axioms stream_op_keeps_topics
#print axioms purgeStream_exact
#print axioms send_topic_local
#print axioms maintain_topic_local
#print axioms other_partition_untouched
#print axioms send_changes_one_partition
#print axioms data_ops_one_effect
#print axioms effects_name_what_changed
#print axioms changed_partition_is_named
#print axioms flush_exact
#print axioms quiet_flush_unreported
#print axioms evict_exact
#print axioms evict_only_cache
#print axioms save_exact
#print axioms other_consumer_offsets_untouched
#print axioms other_group_untouched
#print axioms no_effect_no_partition_change
#print axioms join_leave_own_memberships
#print axioms other_user_untouched
#print axioms named_user_is_entry
#print axioms unresolved_user_changes_nothing
#print axioms createUser_keeps_existing
#print axioms token_ops_own_user
#print axioms login_logout_only_own_session
#print axioms other_sessions_untouched
#print axioms sessions_touched_only_by
#print axioms core_op_on_sys
