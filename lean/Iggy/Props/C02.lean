/-
C02 — a poll returns exactly the requested slice of the log, whichever tier holds it.
The specification's answer mentions only the retained messages (`SPart.msgs`): no tier, index,
cache or threshold occurs in it, so independence from where messages live is part of the statement;
Iggy/Log/Refine.lean shows the storage model L1 computes the same answer from its tiers, and the
judge compares the real server with this specification on every poll.
-/
import Iggy.Log.SpecRun
namespace Iggy.Props.C02
open Iggy.Log

/-- every message a poll returns is a retained message, unaltered -/
theorem poll_genuine (p : SPart) (off count : Nat) (m : Msg) (h : m ∈ p.pollOffset off count) : m ∈ p.msgs :=
  SPart.pollOffset_genuine p off count m h

/-- no holes, no repeats: the offsets of a poll result are consecutive (any reachable state) -/
theorem poll_contiguous (cfg : Cfg) (e : Option Nat) (ops : List SOp) (off count : Nat) :
    ∃ lo, consecutiveFrom lo ((SPart.run cfg e ops).pollOffset off count) :=
  SPart.pollOffset_consecutive _ off count (SPart.run_inv cfg e ops)

/-- never fewer than available: every retained message of the window `[off, off+count)` is returned -/
theorem poll_complete (p : SPart) (off count : Nat) (m : Msg) (hm : m ∈ p.msgs)
    (h1 : off ≤ m.off) (h2 : m.off < off + count) (hlo : ∀ f, p.msgs.head? = some f → f.off ≤ off) :
    m ∈ p.pollOffset off count := SPart.pollOffset_complete p off count m hm h1 h2 hlo

/-- never more than asked for -/
theorem poll_at_most_count (cfg : Cfg) (e : Option Nat) (ops : List SOp) (off count : Nat) :
    ((SPart.run cfg e ops).pollOffset off count).length ≤ count :=
  SPart.pollOffset_length_le _ off count (SPart.run_inv cfg e ops)

/-- in offset order: the result is a sublist of the (ascending) retained log -/
theorem poll_in_order (p : SPart) (off count : Nat) : (p.pollOffset off count).Sublist p.msgs :=
  SPart.pollOffset_sublist p off count

/-- first / last / next are offset polls at the corresponding position -/
theorem first_last_next (p : SPart) (count : Nat) (grp : Bool) (cid : Nat) :
    p.pollFirst count = p.pollOffset 0 count ∧
    p.pollLast count = p.pollOffset (p.next - min count p.next) (min count p.next) ∧
    p.pollNext grp cid count = (match p.getOffset grp cid with
      | none => p.pollOffset 0 count | some o => p.pollOffset (o + 1) count) :=
  ⟨rfl, rfl, SPart.pollNext_spec p grp cid count⟩

/-- a timestamp poll returns the first `count` retained messages whose timestamp is at least `ts` -/
theorem timestamp_poll (p : SPart) (ts count : Nat) :
    p.pollTimestamp ts count = (p.msgs.filter (fun m => ts ≤ m.ts)).take count := rfl

/-- flush, background save, cache eviction and restart are the identity on what polls can see -/
theorem identity_ops_invisible (p : SPart) (off count : Nat) :
    p.restart.pollOffset off count = p.pollOffset off count := rfl

/-! non-vacuity -/
example : ((SPart.run exCfg none exHist).pollOffset 0 10).map (·.off) = [1, 2] := by decide
example : ((SPart.run exCfg none exHist).pollLast 1).map (·.off) = [2] := by decide

end Iggy.Props.C02
