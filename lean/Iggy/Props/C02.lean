/-
C02 — a poll returns exactly the requested slice of the log, whichever tier holds it.
The specification's answer mentions only the retained messages (`SPart.msgs`): no tier, index,
cache or threshold occurs in it, so independence from where messages live is part of the statement;
Iggy/Log/Refine.lean shows the storage model L1 computes the same answer from its tiers, and the
judge compares the real server with this specification on every poll.
-/
import Iggy.Log.SpecRun
import Iggy.Log.RefineRun
namespace Iggy.Props.C02
open Iggy.Log

/-- every message a poll returns is a retained message, unaltered -/
theorem poll_genuine (p : SPart) (off count : Nat) (m : Msg) (h : m ∈ p.pollOffset off count) : m ∈ p.msgs :=
  SPart.pollOffset_genuine p off count m h

/-- no holes, no repeats: the offsets of a poll result are consecutive (any reachable state) -/
theorem poll_contiguous (cfg : Cfg) (e : Option Nat) (ops : List SOp) (off count : Nat) :
    ∃ lo, consecutiveFrom lo ((SPart.run cfg e ops).pollOffset off count) :=
  SPart.pollOffset_consecutive _ off count (SPart.run_inv cfg e ops)

/-- never fewer than available: every retained message of the window `[off, off+count)` is returned -/
theorem poll_complete (p : SPart) (off count : Nat) (m : Msg) (hm : m ∈ p.msgs)
    (h1 : off ≤ m.off) (h2 : m.off < off + count) (hlo : ∀ f, p.msgs.head? = some f → f.off ≤ off) :
    m ∈ p.pollOffset off count := SPart.pollOffset_complete p off count m hm h1 h2 hlo

/-- never more than asked for -/
theorem poll_at_most_count (cfg : Cfg) (e : Option Nat) (ops : List SOp) (off count : Nat) :
    ((SPart.run cfg e ops).pollOffset off count).length ≤ count :=
  SPart.pollOffset_length_le _ off count (SPart.run_inv cfg e ops)

/-- in offset order: the result is a sublist of the (ascending) retained log -/
theorem poll_in_order (p : SPart) (off count : Nat) : (p.pollOffset off count).Sublist p.msgs :=
  SPart.pollOffset_sublist p off count

/-- first / last / next are offset polls at the corresponding position -/
theorem first_last_next (p : SPart) (count : Nat) (grp : Bool) (cid : Nat) :
    p.pollFirst count = p.pollOffset 0 count ∧
    p.pollLast count = p.pollOffset (p.next - min count p.next) (min count p.next) ∧
    p.pollNext grp cid count = (match p.getOffset grp cid with
      | none => p.pollOffset 0 count | some o => p.pollOffset (o + 1) count) :=
  ⟨rfl, rfl, SPart.pollNext_spec p grp cid count⟩

/-- a timestamp poll returns the first `count` retained messages whose timestamp is at least `ts` -/
theorem timestamp_poll (p : SPart) (ts count : Nat) :
    p.pollTimestamp ts count = (p.msgs.filter (fun m => ts ≤ m.ts)).take count := rfl

/-- flush, background save, cache eviction and restart are the identity on what polls can see -/
theorem identity_ops_invisible (p : SPart) (off count : Nat) :
    p.restart.pollOffset off count = p.pollOffset off count := rfl

/-! non-vacuity -/
example : ((SPart.run exCfg none exHist).pollOffset 0 10).map (·.off) = [1, 2] := by decide
example : ((SPart.run exCfg none exHist).pollLast 1).map (·.off) = [2] := by decide


/-! ## on the storage model L1: the tiers compute the specification's answer -/

/-- C02 on L1: whatever tier holds the messages — cache, unsaved buffer, one or several segments, one or
several stored batches, cached or scanned index, stale cache after retention — a poll by offset
returns exactly the specification's slice. Configuration (`cfg`) occurs only in reachability. -/
theorem l1_poll_offset {cfg : Cfg} {p : Part} (hseg : 0 < cfg.segSize) (r : Reach cfg p) {off count : Nat}
    (hc : 0 < count) : p.getByOffset off count = (abs p).pollOffset off count :=
  getByOffset_refines (r.inv hseg) hc

theorem l1_poll_exact {cfg : Cfg} {p : Part} (hseg : 0 < cfg.segSize) (r : Reach cfg p) {off count : Nat}
    (hc : 0 < count) : p.getByOffset off count =
      p.msgs.filter (fun m => max off p.firstStart ≤ m.off ∧ m.off < max off p.firstStart + count) :=
  reach_poll_exact hseg r hc

theorem l1_poll_first_last_next {cfg : Cfg} {p : Part} (hseg : 0 < cfg.segSize) (r : Reach cfg p)
    {count : Nat} (hc : 0 < count) (grp : Bool) (cid : Nat) :
    p.getFirst count = (abs p).pollFirst count ∧ p.getLast count = (abs p).pollLast count ∧
    p.getNext grp cid count = (abs p).pollNext grp cid count :=
  ⟨getFirst_refines (r.inv hseg) hc, getLast_refines (r.inv hseg) hc, getNext_refines (r.inv hseg) hc⟩

/-- timestamp polls — proved for log files below 4 GiB (`_partial`: the index position is a u32 in the
real code, so larger files are outside what the server supports) -/
theorem l1_poll_timestamp_partial {cfg : Cfg} {p : Part} (hseg : 0 < cfg.segSize) (r : Reach cfg p)
    (hsmall : ∀ s ∈ p.segs, logBytes s.log < 2^32) (ts count : Nat) :
    p.getByTimestamp ts count = (abs p).pollTimestamp ts count :=
  getByTimestamp_refines_partial (r.inv hseg) hsmall ts count

/-- flush, background save and cache eviction never change any poll answer -/
theorem l1_identity_ops {cfg : Cfg} {p : Part} (hseg : 0 < cfg.segSize) (r : Reach cfg p) (keep : Nat) :
    abs (p.flush cfg) = abs p ∧ abs (p.save cfg) = abs p ∧ abs (p.evict keep) = abs p :=
  ⟨(flush_refines (r.inv hseg)).2, (save_refines (r.inv hseg)).2, (evict_refines (r.inv hseg) keep).2⟩

end Iggy.Props.C02
