import Iggy.Props.C20Rewind
open Iggy.Props.C20Rewind
#print axioms reachR_iff_runR
#print axioms reach_reachR
#print axioms runR_base
#print axioms rewind_spec
#print axioms yields_in_order_once_rewind
#print axioms yields_consecutive_any_schedule
#print axioms first_yield_resumes_rewind
#print axioms resume_after_committed_rewind
#print axioms commits_yielded_rewind
#print axioms stored_le_consumed_rewind
#print axioms yields_schedule_independent_rewind
#print axioms stored_le_yielded_rewind
#print axioms no_gap_across_incarnations_rewind
#print axioms no_stall_rewind
#print axioms no_stall_rewind_consume
#print axioms no_stall_two_polls_rewind
