/-
C12 (no-wait confirmation) — a poll never returns messages from beyond a batch that is still on its
way to the log.

Under no-wait confirmation a batch handed to the persister task is, until written, in neither the
buffer nor the log file; later batches may already be in the buffer, and the message cache may show
any accepted message.  What the read tiers can see is therefore a SUB-SEQUENCE `seen` of the accepted
messages `acc` (order kept, arbitrary holes).  `Iggy/Log/NoWait.lean` mirrors the post-processing of
`Partition::get_messages_by_offset` / `get_messages_by_timestamp` (fixes 5922a8c, a7c30e4, 959ee6e);
here: for EVERY gap-free `acc`, EVERY sub-sequence `seen`, every request, the fixed answer is a prefix
of the specification's answer (`SPart.pollOffset` / `SPart.pollTimestamp` on `msgs = acc`), it is the
specification's answer once nothing is in flight, and each guard of the fixes is necessary.

Hypotheses: `consecutiveFrom lo acc` (C01; `lo` = first retained offset = `segments[0].start_offset`),
`tsSorted acc` (timestamp polls only), `seen.Sublist acc`.  `cur` (`current_offset`) is unconstrained
in the safety theorems and an upper bound of the accepted offsets in the completeness theorems.
-/
import Iggy.Log.Lemmas.NoWait
namespace Iggy.Props.C12NoWait
open Iggy.Log Iggy.Log.NoWait

/-! ## poll by offset -/

/-- Safety, by offset: whatever subset of the accepted messages is visible, the answer is a PREFIX of
the specification's answer — genuine messages, consecutive offsets, starting exactly at the requested
(clamped) offset, or nothing yet.  A consumer that continues after the last returned offset never
skips a message. -/
theorem byOffset_prefix {lo : Nat} {acc seen : List Msg} (hc : consecutiveFrom lo acc)
    (hs : seen.Sublist acc) (cur start count : Nat) :
    visibleByOffset seen lo cur start count <+: specAnswerByOffset acc start count := by
  rw [visibleByOffset_eq_run]
  split
  · exact List.nil_prefix
  · refine run_prefix_of_sublist ?_ (specAnswerByOffset_consecutive hc start count)
    rw [specAnswerByOffset_eq_filter hc]
    exact hs.filter _

/-- the same statement on any specification state `p` (`SPart.pollOffset` itself) -/
theorem byOffset_prefix_spec (p : SPart) {lo : Nat} {seen : List Msg} (hc : consecutiveFrom lo p.msgs)
    (hs : seen.Sublist p.msgs) (cur start count : Nat) :
    visibleByOffset seen lo cur start count <+: p.pollOffset start count :=
  byOffset_prefix hc hs cur start count

/-- consequences spelled out: the answer is empty or starts exactly at the clamped requested offset,
has consecutive offsets, and holds only accepted messages in the requested window -/
theorem byOffset_shape {lo : Nat} {acc seen : List Msg} (hc : consecutiveFrom lo acc)
    (hs : seen.Sublist acc) (cur start count : Nat) :
    consecutiveFrom (max start lo) (visibleByOffset seen lo cur start count) ∧
    (∀ m ∈ visibleByOffset seen lo cur start count,
      m ∈ acc ∧ max start lo ≤ m.off ∧ m.off < max start lo + count) := by
  obtain ⟨t, ht⟩ := byOffset_prefix hc hs cur start count
  have hcons := specAnswerByOffset_consecutive hc start count
  rw [← ht, consecutiveFrom_append_iff] at hcons
  refine ⟨hcons.1, fun m hm => ?_⟩
  have : m ∈ specAnswerByOffset acc start count := by rw [← ht]; exact List.mem_append_left _ hm
  rw [specAnswerByOffset_eq_filter hc, List.mem_filter] at this
  simpa using this

/-- Liveness, by offset: once the persister is idle (everything accepted is visible) the answer is
exactly the specification's answer. -/
theorem byOffset_complete_when_settled {lo : Nat} {acc : List Msg} (hc : consecutiveFrom lo acc)
    {cur : Nat} (hcur : ∀ m ∈ acc, m.off ≤ cur) (start count : Nat) :
    visibleByOffset acc lo cur start count = specAnswerByOffset acc start count := by
  rw [visibleByOffset_eq_run]
  split
  · rename_i h
    rw [specAnswerByOffset_eq_filter hc]
    symm
    rw [List.filter_eq_nil_iff]
    intro m hm
    have := hcur m hm
    simp only [decide_eq_true_eq]
    omega
  · have : rawByOffset acc lo start count = specAnswerByOffset acc start count := by
      rw [specAnswerByOffset_eq_filter hc]; rfl
    rw [this]
    exact run_of_consecutive (specAnswerByOffset_consecutive hc start count)

/-- Monotonicity, by offset: when more becomes visible the answer only grows (the earlier answer is a
prefix of the later one) — a poll never has to be taken back. -/
theorem byOffset_monotone {lo : Nat} {acc seen₁ seen₂ : List Msg} (hc : consecutiveFrom lo acc)
    (h₁ : seen₁.Sublist seen₂) (h₂ : seen₂.Sublist acc) (cur start count : Nat) :
    visibleByOffset seen₁ lo cur start count <+: visibleByOffset seen₂ lo cur start count := by
  rw [visibleByOffset_eq_run, visibleByOffset_eq_run]
  split
  · exact List.nil_prefix
  · refine run_mono (h₁.filter _) ?_ (specAnswerByOffset_consecutive hc start count)
    rw [specAnswerByOffset_eq_filter hc]
    exact h₂.filter _

/-! ## poll by timestamp -/

/-- what the guard of 959ee6e establishes: every accepted message before the first returned one is
older than the requested timestamp -/
private theorem before_first_older {lo : Nat} {acc look : List Msg} (hc : consecutiveFrom lo acc)
    (hts : tsSorted acc) (hl : look.Sublist acc) {cur t : Nat} {f : Msg}
    (hg : ¬ (lo < f.off ∧
      ((visibleByOffset look lo cur (f.off - 1) 1).head?.all (fun p => decide (t ≤ p.ts))) = true)) :
    ∀ m ∈ acc, m.off < f.off → m.ts < t := by
  intro m hm hlt
  by_cases hlo : lo < f.off
  · have hall : ¬ ((visibleByOffset look lo cur (f.off - 1) 1).head?.all
        (fun p => decide (t ≤ p.ts))) = true := fun h => hg ⟨hlo, h⟩
    cases hh : (visibleByOffset look lo cur (f.off - 1) 1).head? with
    | none => rw [hh] at hall; simp at hall
    | some p =>
      rw [hh] at hall
      simp only [Option.all_some, decide_eq_true_eq, Nat.not_le] at hall
      have hpv : p ∈ visibleByOffset look lo cur (f.off - 1) 1 := List.mem_of_head? hh
      have hp := (byOffset_shape hc hl cur (f.off - 1) 1).2 p hpv
      have hmp : m.off ≤ p.off := by omega
      have := ts_le_of_off_le hc hts hm hp.1 hmp
      omega
  · have := (consecutiveFrom.bounds hc m hm).1
    omega

/-- Safety, by timestamp: whatever the timestamp scan sees (`seen`) and whatever the predecessor
look-up sees (`look`: the same tiers plus the cache), the answer is a PREFIX of the specification's
answer — it starts at the FIRST accepted message with `timestamp ≥ t` and has no hole — or is empty. -/
theorem byTs_prefix {lo : Nat} {acc seen look : List Msg} (hc : consecutiveFrom lo acc)
    (hts : tsSorted acc) (hs : seen.Sublist acc) (hl : look.Sublist acc) (cur t count : Nat) :
    visibleByTs seen look lo cur t count <+: specAnswerByTs acc t count := by
  unfold visibleByTs
  simp only [head?_contigPrefix]
  cases hraw : rawByTs seen t count with
  | nil => exact List.nil_prefix
  | cons f r =>
    simp only [List.head?_cons]
    split
    · exact List.nil_prefix
    · rename_i hg
      have hfraw : f ∈ rawByTs seen t count := by rw [hraw]; exact List.mem_cons_self ..
      have hfs : f ∈ seen.filter (fun m => t ≤ m.ts) := List.mem_of_mem_take hfraw
      rw [List.mem_filter] at hfs
      have hfa : f ∈ acc := hs.subset hfs.1
      have hft : t ≤ f.ts := by simpa using hfs.2
      have hbefore := before_first_older hc hts hl hg
      have heq := filter_ts_eq_filter_off hc hts hfa hft hbefore
      have hcons : consecutiveFrom f.off (acc.filter (fun m => t ≤ m.ts)) := by
        rw [heq]; exact consecutiveFrom_filter_ge hc (consecutiveFrom.bounds hc f hfa).1
      rw [contigPrefix_cons_eq_run, ← hraw]
      show run f.off ((seen.filter (fun m => t ≤ m.ts)).take count) <+:
        (acc.filter (fun m => t ≤ m.ts)).take count
      rw [List.prefix_take_iff]
      constructor
      · exact (run_prefix_mono (List.take_prefix _ _)).trans
          (run_prefix_of_sublist (hs.filter _) hcons)
      · exact Nat.le_trans (run_prefix_self _ _).length_le (List.length_take_le _ _)

/-- the case the server without a cache is in: scan and look-up see the same messages -/
theorem byTs_prefix_same {lo : Nat} {acc seen : List Msg} (hc : consecutiveFrom lo acc)
    (hts : tsSorted acc) (hs : seen.Sublist acc) (cur t count : Nat) :
    visibleByTs seen seen lo cur t count <+: specAnswerByTs acc t count :=
  byTs_prefix hc hts hs hs cur t count

/-- the same statement on any specification state `p` (`SPart.pollTimestamp` itself) -/
theorem byTs_prefix_spec (p : SPart) {lo : Nat} {seen look : List Msg} (hc : consecutiveFrom lo p.msgs)
    (hts : tsSorted p.msgs) (hs : seen.Sublist p.msgs) (hl : look.Sublist p.msgs) (cur t count : Nat) :
    visibleByTs seen look lo cur t count <+: p.pollTimestamp t count :=
  byTs_prefix hc hts hs hl cur t count

/-- Liveness, by timestamp: once the persister is idle the answer is exactly the specification's
answer (the predecessor check never fires on a gap-free, timestamp-ordered log). -/
theorem byTs_complete_when_settled {lo : Nat} {acc : List Msg} (hc : consecutiveFrom lo acc)
    (hts : tsSorted acc) {cur : Nat} (hcur : ∀ m ∈ acc, m.off ≤ cur) (t count : Nat) :
    visibleByTs acc acc lo cur t count = specAnswerByTs acc t count := by
  have hspec : specAnswerByTs acc t count = rawByTs acc t count := rfl
  unfold visibleByTs
  simp only [head?_contigPrefix]
  rw [hspec]
  cases hraw : rawByTs acc t count with
  | nil => rfl
  | cons f r =>
    simp only [List.head?_cons]
    -- `f` is the first match among the accepted messages
    obtain ⟨r', hfil⟩ : ∃ r', acc.filter (fun m => t ≤ m.ts) = f :: r' := by
      cases hF : acc.filter (fun m => t ≤ m.ts) with
      | nil => simp [rawByTs, hF] at hraw
      | cons g r' =>
        cases count with
        | zero => simp [rawByTs] at hraw
        | succ n =>
          simp only [rawByTs, hF, List.take_succ_cons, List.cons.injEq] at hraw
          exact ⟨r', by rw [hraw.1]⟩
    have hfmem : f ∈ acc.filter (fun m => t ≤ m.ts) := by rw [hfil]; exact List.mem_cons_self ..
    rw [List.mem_filter] at hfmem
    have hfa : f ∈ acc := hfmem.1
    have hft : t ≤ f.ts := by simpa using hfmem.2
    have hpw : (f :: r').Pairwise (fun a b => a.off < b.off) := by
      rw [← hfil]; exact (consecutiveFrom.pairwise hc).sublist List.filter_sublist
    have hbefore : ∀ m ∈ acc, m.off < f.off → m.ts < t := by
      intro m hm hlt
      apply Nat.lt_of_not_le
      intro hmt
      have : m ∈ f :: r' := by rw [← hfil, List.mem_filter]; exact ⟨hm, by simpa using hmt⟩
      rcases List.mem_cons.1 this with rfl | hmr
      · omega
      · have := (List.pairwise_cons.1 hpw).1 m hmr; omega
    have heq := filter_ts_eq_filter_off hc hts hfa hft hbefore
    have hcons : consecutiveFrom f.off (f :: r) := by
      rw [← hraw]
      show consecutiveFrom f.off ((acc.filter (fun m => t ≤ m.ts)).take count)
      rw [heq]
      exact consecutiveFrom_take (consecutiveFrom_filter_ge hc (consecutiveFrom.bounds hc f hfa).1) _
    rw [contigPrefix_cons_eq_run, run_of_consecutive hcons]
    split
    · rename_i hg
      exfalso
      obtain ⟨hlo, hall⟩ := hg
      rw [byOffset_complete_when_settled hc hcur] at hall
      obtain ⟨p, hpa, hpo⟩ := exists_off hc hfa (k := f.off - 1) (by omega) (by omega)
      have hpin : p ∈ specAnswerByOffset acc (f.off - 1) 1 := by
        rw [specAnswerByOffset_eq_filter hc, List.mem_filter]
        refine ⟨hpa, ?_⟩
        simp only [decide_eq_true_eq]; omega
      cases hh : (specAnswerByOffset acc (f.off - 1) 1).head? with
      | none =>
        rw [List.head?_eq_none_iff] at hh
        rw [hh] at hpin; cases hpin
      | some q =>
        rw [hh] at hall
        simp only [Option.all_some, decide_eq_true_eq] at hall
        have hq : q ∈ specAnswerByOffset acc (f.off - 1) 1 := List.mem_of_head? hh
        rw [specAnswerByOffset_eq_filter hc, List.mem_filter] at hq
        have hqo : q.off < f.off := by
          have := hq.2; simp only [decide_eq_true_eq] at this; omega
        have := hbefore q hq.1 hqo
        omega
    · rfl

/-- Monotonicity, by timestamp: when more becomes visible (to the scan and to the look-up) the answer
only grows — a non-empty answer is never taken back or re-based on a different first message. -/
theorem byTs_monotone {lo : Nat} {acc seen₁ seen₂ look₁ look₂ : List Msg} (hc : consecutiveFrom lo acc)
    (hts : tsSorted acc) (hs₁ : seen₁.Sublist seen₂) (hs₂ : seen₂.Sublist acc)
    (hl₁ : look₁.Sublist look₂) (hl₂ : look₂.Sublist acc) (cur t count : Nat) :
    visibleByTs seen₁ look₁ lo cur t count <+: visibleByTs seen₂ look₂ lo cur t count := by
  unfold visibleByTs
  simp only [head?_contigPrefix]
  cases hraw₁ : rawByTs seen₁ t count with
  | nil => exact List.nil_prefix
  | cons f r₁ =>
    simp only [List.head?_cons]
    split
    · exact List.nil_prefix
    · rename_i hg₁
      have hfraw : f ∈ rawByTs seen₁ t count := by rw [hraw₁]; exact List.mem_cons_self ..
      have hfs : f ∈ seen₁.filter (fun m => t ≤ m.ts) := List.mem_of_mem_take hfraw
      rw [List.mem_filter] at hfs
      have hfa : f ∈ acc := (hs₁.trans hs₂).subset hfs.1
      have hft : t ≤ f.ts := by simpa using hfs.2
      have hbefore := before_first_older hc hts (hl₁.trans hl₂) hg₁
      have heq := filter_ts_eq_filter_off hc hts hfa hft hbefore
      have hcons : consecutiveFrom f.off (acc.filter (fun m => t ≤ m.ts)) := by
        rw [heq]; exact consecutiveFrom_filter_ge hc (consecutiveFrom.bounds hc f hfa).1
      -- the later scan finds the same first message
      obtain ⟨n, rfl⟩ : ∃ n, count = n + 1 := by
        cases count with
        | zero => simp [rawByTs] at hraw₁
        | succ n => exact ⟨n, rfl⟩
      have hf₂ : f ∈ seen₂.filter (fun m => t ≤ m.ts) :=
        List.mem_filter.2 ⟨hs₁.subset hfs.1, hfs.2⟩
      obtain ⟨r₂', hF₂⟩ : ∃ r₂', seen₂.filter (fun m => t ≤ m.ts) = f :: r₂' := by
        cases hF : seen₂.filter (fun m => t ≤ m.ts) with
        | nil => rw [hF] at hf₂; cases hf₂
        | cons g r₂' =>
          have hpw : (g :: r₂').Pairwise (fun a b => a.off < b.off) := by
            rw [← hF]; exact (consecutiveFrom.pairwise hc).sublist (List.filter_sublist.trans hs₂)
          have hg : g ∈ seen₂.filter (fun m => t ≤ m.ts) := by rw [hF]; exact List.mem_cons_self ..
          rw [List.mem_filter] at hg
          have hgt : t ≤ g.ts := by simpa using hg.2
          have hgo : ¬ g.off < f.off := fun h => by
            have := hbefore g (hs₂.subset hg.1) h; omega
          rw [hF] at hf₂
          rcases List.mem_cons.1 hf₂ with rfl | hfr
          · exact ⟨r₂', rfl⟩
          · have := (List.pairwise_cons.1 hpw).1 f hfr; omega
      have hraw₂ : rawByTs seen₂ t (n + 1) = f :: r₂'.take n := by
        simp [rawByTs, hF₂]
      rw [hraw₂]
      simp only [List.head?_cons]
      rw [if_neg]
      · rw [contigPrefix_cons_eq_run, contigPrefix_cons_eq_run, ← hraw₁, ← hraw₂]
        show run f.off ((seen₁.filter (fun m => t ≤ m.ts)).take (n + 1)) <+:
          run f.off ((seen₂.filter (fun m => t ≤ m.ts)).take (n + 1))
        rw [run_take, run_take, List.prefix_take_iff]
        exact ⟨(List.take_prefix _ _).trans (run_mono (hs₁.filter _) (hs₂.filter _) hcons),
          List.length_take_le _ _⟩
      · rintro ⟨hlo, hall₂⟩
        have hall₁ : ¬ ((visibleByOffset look₁ lo cur (f.off - 1) 1).head?.all
            (fun p => decide (t ≤ p.ts))) = true := fun h => hg₁ ⟨hlo, h⟩
        cases hh : (visibleByOffset look₁ lo cur (f.off - 1) 1).head? with
        | none => rw [hh] at hall₁; simp at hall₁
        | some p =>
          rw [hh] at hall₁
          obtain ⟨ys, hys⟩ := List.head?_eq_some_iff.1 hh
          obtain ⟨zs, hzs⟩ := byOffset_monotone hc hl₁ hl₂ cur (f.off - 1) 1
          rw [hys] at hzs
          rw [← hzs] at hall₂
          simp only [List.cons_append, List.head?_cons] at hall₂
          exact hall₁ hall₂

/-! ## each guard is necessary (replays of the three findings), and non-vacuity -/

/-- test message: offset, timestamp -/
def mk (off ts : Nat) : Msg := { off := off, id := off, ts := ts, size := 1, tag := 0 }

/-- accepted: offsets 0..4, timestamps 100, 110, … -/
def acc5 : List Msg := [mk 0 100, mk 1 110, mk 2 120, mk 3 130, mk 4 140]
/-- the batch (2,3) is on its way to the log: the tiers show 0,1 (file) and 4 (buffer) -/
def seen014 : List Msg := [mk 0 100, mk 1 110, mk 4 140]

example : consecutiveFrom 0 acc5 ∧ tsSorted acc5 ∧ seen014.Sublist acc5 := by decide

/-- (a) 5922a8c replay: without the "first message must be at the requested offset" check,
`poll offset 3 count 5` answers `[4]`: not a prefix of the specification's `[3, 4]` — a consumer
polling `next` would skip 3 for good. -/
theorem first_check_necessary :
    (byOffsetNoFirstCheck seen014 0 4 3 5).map (·.off) = [4] ∧
    (specAnswerByOffset acc5 3 5).map (·.off) = [3, 4] ∧
    ¬ (byOffsetNoFirstCheck seen014 0 4 3 5 <+: specAnswerByOffset acc5 3 5) ∧
    visibleByOffset seen014 0 4 3 5 = [] := by decide

/-- (b) 5922a8c replay: without the truncation at the first discontinuity, `poll offset 0 count 10`
answers `[0, 1, 4]` (a hole): not a prefix of `[0, 1, 2, 3, 4]`; the fixed code answers `[0, 1]`. -/
theorem truncation_necessary :
    (byOffsetNoTruncate seen014 0 4 0 10).map (·.off) = [0, 1, 4] ∧
    ¬ (byOffsetNoTruncate seen014 0 4 0 10 <+: specAnswerByOffset acc5 0 10) ∧
    (visibleByOffset seen014 0 4 0 10).map (·.off) = [0, 1] := by decide

/-- (c) a7c30e4 replay (there: tiers show …,12 and 28, the request matches from 13 on, answer `[28]`):
without the predecessor check a poll by timestamp 120 (first match: offset 2, in flight) answers `[4]`:
not a prefix of the specification's `[2, 3, 4]`; the fixed code answers nothing yet. -/
theorem pred_check_necessary :
    (byTsNoPredCheck seen014 120 10).map (·.off) = [4] ∧
    (specAnswerByTs acc5 120 10).map (·.off) = [2, 3, 4] ∧
    ¬ (byTsNoPredCheck seen014 120 10 <+: specAnswerByTs acc5 120 10) ∧
    visibleByTs seen014 seen014 0 4 120 10 = [] := by decide

/-- (d) 959ee6e replay (there: `poll ts count 1` answered offset 38 instead of 27): cache on, so the
predecessor look-up sees every accepted message while the scan sees only file and buffer.  Request:
timestamp 120 (first match: offset 2, in flight).  The scan finds offset 4 first; its predecessor 3 IS
visible (through the cache), so the a7c30e4 check passes and the answer is `[4]` — yet 3 is itself a
match (130 ≥ 120).  Requiring the predecessor to be OLDER than the request rejects it. -/
theorem pred_older_necessary :
    (byTsPredVisibleOnly seen014 acc5 0 4 120 1).map (·.off) = [4] ∧
    (specAnswerByTs acc5 120 1).map (·.off) = [2] ∧
    ¬ (byTsPredVisibleOnly seen014 acc5 0 4 120 1 <+: specAnswerByTs acc5 120 1) ∧
    visibleByTs seen014 acc5 0 4 120 1 = [] := by decide

/-! non-vacuity: the fixed paths do answer — partially while a batch is in flight, fully afterwards -/
example : (visibleByOffset seen014 0 4 0 10).map (·.off) = [0, 1] := by decide
example : (visibleByOffset seen014 0 4 4 10).map (·.off) = [4] := by decide
example : (visibleByOffset acc5 0 4 3 5).map (·.off) = [3, 4] := by decide
example : (visibleByOffset acc5 0 4 0 10) = specAnswerByOffset acc5 0 10 := by decide
example : (visibleByTs seen014 seen014 0 4 105 10).map (·.off) = [1] := by decide
example : (visibleByTs seen014 seen014 0 4 135 10).map (·.off) = [] := by decide
example : (visibleByTs seen014 acc5 0 4 135 10).map (·.off) = [4] := by decide
example : (visibleByTs acc5 acc5 0 4 120 2).map (·.off) = [2, 3] := by decide
example : (visibleByTs acc5 acc5 0 4 0 10) = specAnswerByTs acc5 0 10 := by decide
/-- after retention (first retained offset 2) a poll below it is clamped, in flight or not -/
example : (visibleByOffset [mk 2 120, mk 4 140] 2 4 0 10).map (·.off) = [2] := by decide

end Iggy.Props.C12NoWait
