/-
C17 — partition selection is deterministic and always lands on an existing partition.
Model: `Iggy.Sys.byKey`, `nextPid`, `Topic.nextPartition`, `Topic.send` (server/src/streaming/topics/messages.rs).
`hash32` (xxhash32 of the key) is a parameter: every statement is for all hash values.
-/
import Iggy.Sys.Model
namespace Iggy.Props.C17
open Iggy.Sys Iggy.Log

/-- A messages key always selects an existing partition `1..n` — for every hash value, including
multiples of `n` and `n = 1`. -/
theorem key_in_range (h n : Nat) (hn : 1 ≤ n) : 1 ≤ byKey h n ∧ byKey h n ≤ n := by
  unfold byKey
  split
  · omega
  · have := Nat.mod_lt h (show 0 < n by omega)
    omega

/-- Same key (same hash), same partition count ⇒ same partition: `byKey` is a function of `(hash, n)`
and nothing else (no state is read). -/
theorem key_deterministic (h n : Nat) (t₁ t₂ : Topic) (h₁ : t₁.parts.length = n) (h₂ : t₂.parts.length = n) :
    byKey h t₁.parts.length = byKey h t₂.parts.length := by rw [h₁, h₂]

/-- Balanced selection lands on an existing partition for every cursor value ≥ 1 (the cursor starts at
1 and this lemma shows it stays ≥ 1), whatever the partition count has become meanwhile. -/
theorem balanced_in_range (c n : Nat) (hc : 1 ≤ c) (hn : 1 ≤ n) :
    1 ≤ (nextPid c n).1 ∧ (nextPid c n).1 ≤ n ∧ 1 ≤ (nextPid c n).2 := by
  unfold nextPid
  split <;> simp <;> omega

/-- the cursor automaton iterated `k` times with a fixed partition count: returns the k-th chosen
partition and the cursor afterwards -/
def iter (n : Nat) : Nat → Nat → Nat × Nat
  | c, 0 => nextPid c n
  | c, k + 1 => iter n (nextPid c n).2 k

/-- position of a cursor in the rotation: cursor `n+1` (or anything larger) wraps to 0 -/
def pos (c n : Nat) : Nat := if n < c then 0 else c - 1

theorem nextPid_pos (c n : Nat) (hc : 1 ≤ c) (hn : 1 ≤ n) :
    (nextPid c n).1 = pos c n + 1 ∧ pos (nextPid c n).2 n = (pos c n + 1) % n := by
  unfold nextPid pos
  by_cases h : n < c
  · simp only [h, if_true]
    refine ⟨by simp, ?_⟩
    by_cases h2 : n < 2
    · have : n = 1 := by omega
      subst this; simp
    · simp only [h2, if_false]
      rw [Nat.mod_eq_of_lt (by omega)]
  · simp only [h, if_false]
    refine ⟨by omega, ?_⟩
    by_cases h3 : n < c + 1
    · have : c = n := by omega
      subst this
      simp only [h3, if_true]
      rw [show c - 1 + 1 = c by omega, Nat.mod_self]
    · simp only [h3, if_false]
      rw [Nat.mod_eq_of_lt (by omega)]; omega

theorem pos_lt (c n : Nat) (hc : 1 ≤ c) (hn : 1 ≤ n) : pos c n < n := by
  unfold pos; split <;> omega

/-- Rotation: with the partition count fixed, the k-th balanced send goes to partition
`((pos c₀ + k) mod n) + 1`. Hence any `n` consecutive balanced sends visit every partition exactly once
and any window of sends differs by at most one between partitions. -/
theorem balanced_rotation (n : Nat) (hn : 1 ≤ n) : ∀ (k c : Nat), 1 ≤ c →
    (iter n c k).1 = (pos c n + k) % n + 1 ∧ 1 ≤ (iter n c k).2 := by
  intro k
  induction k with
  | zero =>
    intro c hc
    have h := nextPid_pos c n hc hn
    have hb := balanced_in_range c n hc hn
    simp only [iter, Nat.add_zero]
    rw [Nat.mod_eq_of_lt (pos_lt c n hc hn)]
    exact ⟨h.1, hb.2.2⟩
  | succ k ih =>
    intro c hc
    have h := nextPid_pos c n hc hn
    have hb := balanced_in_range c n hc hn
    have := ih (nextPid c n).2 hb.2.2
    simp only [iter]
    rw [this.1, h.2]
    refine ⟨?_, this.2⟩
    congr 1
    rw [Nat.mod_add_mod]
    congr 1
    omega

/-- `n` consecutive balanced sends hit `n` distinct partitions (so each exactly once): two sends
`i < j < n` apart never collide. -/
theorem add_mod_ne (a d n : Nat) (hd : 0 < d) (hdn : d < n) : (a + d) % n ≠ a % n := by
  have hr := Nat.mod_lt a (show 0 < n by omega)
  have ha := Nat.div_add_mod a n
  have : (a + d) % n = (a % n + d) % n := by
    conv => lhs; rw [← ha]
    rw [show n * (a / n) + a % n + d = a % n + d + n * (a / n) by omega, Nat.add_mul_mod_self_left]
  rw [this]
  by_cases hs : a % n + d < n
  · rw [Nat.mod_eq_of_lt hs]; omega
  · rw [Nat.mod_eq_sub_mod (by omega), Nat.mod_eq_of_lt (by omega)]; omega

theorem balanced_window_distinct (n : Nat) (hn : 1 ≤ n) (c : Nat) (hc : 1 ≤ c) (i j : Nat)
    (hij : i < j) (hj : j < i + n) : (iter n c i).1 ≠ (iter n c j).1 := by
  rw [(balanced_rotation n hn i c hc).1, (balanced_rotation n hn j c hc).1]
  intro h
  have h' : (pos c n + i) % n = (pos c n + j) % n := by omega
  have := add_mod_ne (pos c n + i) (j - i) n (by omega) (by omega)
  rw [show pos c n + i + (j - i) = pos c n + j by omega] at this
  exact this h'.symm

/-- A send that names a partition that does not exist stores nothing: the topic is unchanged and no
effect is produced. -/
theorem by_id_missing_stores_nothing (t : Topic) (cfg : Cfg) (sc : SCfg) (sid now n : Nat)
    (msgs : List InMsg) (h : find? t.parts n = none) :
    (t.send cfg sc sid now (.pid n) msgs).1 = t ∧ (t.send cfg sc sid now (.pid n) msgs).2.2 = [] := by
  unfold Topic.send
  split
  · simp
  · split
    · simp
    · split
      · simp
      · simp [h]

/-- All messages of one send land in one partition and no send is stored in more than one: a send has
at most one `appended` effect, it carries the whole batch, and every other partition is untouched. -/
theorem one_send_one_partition (t : Topic) (cfg : Cfg) (sc : SCfg) (sid now : Nat) (part : Partitioning)
    (msgs : List InMsg) :
    let r := t.send cfg sc sid now part msgs
    (r.2.2 = [] ∧ r.1.parts = t.parts) ∨
    (∃ pid p', r.2.2 = [Effect.appended (sid, t.id, pid) now msgs] ∧ r.1.parts = insertAsc t.parts pid p'
      ∧ (find? t.parts pid).isSome) := by
  intro r
  simp only [r]
  unfold Topic.send
  split
  · exact Or.inl ⟨rfl, rfl⟩
  · split
    · exact Or.inl ⟨rfl, rfl⟩
    · split
      · exact Or.inl ⟨rfl, rfl⟩
      · cases part with
        | balanced =>
          simp only [Topic.nextPartition]
          split
          · exact Or.inl ⟨rfl, rfl⟩
          · rename_i p hp
            split
            · exact Or.inl ⟨rfl, rfl⟩
            · rename_i p' _
              exact Or.inr ⟨_, p', rfl, rfl, by simp [hp]⟩
        | pid n =>
          simp only
          split
          · exact Or.inl ⟨rfl, rfl⟩
          · rename_i p hp
            split
            · exact Or.inl ⟨rfl, rfl⟩
            · rename_i p' _
              exact Or.inr ⟨_, p', rfl, rfl, by simp [hp]⟩
        | key h =>
          simp only
          split
          · exact Or.inl ⟨rfl, rfl⟩
          · rename_i p hp
            split
            · exact Or.inl ⟨rfl, rfl⟩
            · rename_i p' _
              exact Or.inr ⟨_, p', rfl, rfl, by simp [hp]⟩

/-! non-vacuity -/
example : byKey 12 4 = 4 ∧ byKey 13 4 = 1 ∧ byKey 7 1 = 1 := by decide
example : (iter 3 1 0).1 = 1 ∧ (iter 3 1 1).1 = 2 ∧ (iter 3 1 2).1 = 3 ∧ (iter 3 1 3).1 = 1 := by decide
example : (iter 3 4 0).1 = 1 ∧ (iter 2 7 1).1 = 2 := by decide

end Iggy.Props.C17
