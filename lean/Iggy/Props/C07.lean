/-
C07 — consumer offsets are exact, isolated per consumer and partition, and durable.
One offset map per (kind, id) inside each abstract partition; partitions are separate values, so
isolation between partitions is structural.  The judge compares every store / get / delete / poll-next
of the real server with this specification (including consumers and groups sharing numeric ids).
-/
import Iggy.Log.SpecRun
import Iggy.Log.RefineRun
namespace Iggy.Props.C07
open Iggy.Log

theorem get_after_store (p p' : SPart) (grp : Bool) (cid off : Nat)
    (h : p.storeOffset grp cid off = .ok p') : p'.getOffset grp cid = some off :=
  SPart.get_after_store p p' grp cid off h

/-- another consumer, another group, or a consumer and a group sharing a numeric id: untouched -/
theorem store_isolated (p p' : SPart) (grp grp' : Bool) (cid cid' off : Nat)
    (h : p.storeOffset grp cid off = .ok p') (hne : grp' ≠ grp ∨ cid' ≠ cid) :
    p'.getOffset grp' cid' = p.getOffset grp' cid' := SPart.store_isolated p p' grp grp' cid cid' off h hne

theorem delete_isolated (p p' : SPart) (grp grp' : Bool) (cid cid' : Nat)
    (h : p.deleteOffset grp cid = .ok p') (hne : grp' ≠ grp ∨ cid' ≠ cid) :
    p'.getOffset grp' cid' = p.getOffset grp' cid' := SPart.delete_isolated p p' grp grp' cid cid' h hne

theorem store_beyond_refused (p : SPart) (grp : Bool) (cid off : Nat) (h : p.cur < off) :
    p.storeOffset grp cid off = .error .invalidOffset := SPart.store_beyond_refused p grp cid off h

theorem delete_removes (p p' : SPart) (grp : Bool) (cid : Nat) (h : p.deleteOffset grp cid = .ok p') :
    p'.getOffset grp cid = none := SPart.delete_removes p p' grp cid h

theorem purge_clears (p : SPart) (grp : Bool) (cid : Nat) : p.purge.getOffset grp cid = none :=
  SPart.purge_clears_offsets p grp cid

/-- sends, retention and restarts never change a stored offset (durability across restart) -/
theorem survives (p : SPart) (now : Nat) (msgs : List InMsg) (n : Nat) (grp : Bool) (cid : Nat) :
    (p.append now msgs).getOffset grp cid = p.getOffset grp cid ∧
    (p.dropPrefix n).getOffset grp cid = p.getOffset grp cid ∧
    p.restart.getOffset grp cid = p.getOffset grp cid := ⟨rfl, rfl, rfl⟩

/-- polling `next` returns the messages immediately after the stored offset (from the beginning when
none is stored) -/
theorem next_after_stored (p : SPart) (grp : Bool) (cid count : Nat) :
    p.pollNext grp cid count = (match p.getOffset grp cid with
      | none => p.pollOffset 0 count | some o => p.pollOffset (o + 1) count) :=
  SPart.pollNext_spec p grp cid count

/-! non-vacuity: consumer 7 and group 7 on the same partition -/
def p0 : SPart := (SPart.create exCfg none).append 5 [⟨1, 50, 1⟩, ⟨2, 50, 2⟩, ⟨3, 50, 3⟩]
example : ∃ p1, p0.storeOffset true 7 2 = .ok p1 ∧ p1.getOffset true 7 = some 2 ∧ p1.getOffset false 7 = none :=
  ⟨_, rfl, by decide, by decide⟩
example : p0.storeOffset false 1 3 = .error .invalidOffset := rfl


/-! ## on the storage model L1 -/

/-- the L1 offset operations are the specification's, state by state -/
theorem l1_offsets_refine {cfg : Cfg} {p : Part} (hseg : 0 < cfg.segSize) (r : Reach cfg p) (grp : Bool)
    (cid off : Nat) :
    (p.storeOffset grp cid off).map abs = (abs p).storeOffset grp cid off ∧
    (p.deleteOffset grp cid).map abs = (abs p).deleteOffset grp cid ∧
    p.getOffset grp cid = (abs p).getOffset grp cid :=
  ⟨(storeOffset_refines (r.inv hseg) grp cid off).1, (deleteOffset_refines (r.inv hseg) grp cid).1,
    getOffset_refines p grp cid⟩

/-- stored offsets survive a restart unchanged -/
theorem l1_survive_restart {cfg : Cfg} {p : Part} (hseg : 0 < cfg.segSize) (r : Reach cfg p) {now : Nat}
    (hnow : ∀ m ∈ p.msgs, m.ts ≤ now) (n : Nat) :
    (p.restart cfg now n).consOffs = p.consOffs ∧ (p.restart cfg now n).grpOffs = p.grpOffs :=
  ⟨(reach_restart_same hseg r hnow n).2.2.1, (reach_restart_same hseg r hnow n).2.2.2.1⟩

end Iggy.Props.C07
