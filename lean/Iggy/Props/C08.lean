/-
C08 — consumer groups split a topic's partitions exclusively and evenly among the members; a member
polling without naming a partition is served only from its own share, visiting each of its partitions
in turn; with `next` polling and auto-commit the group as a whole is handed every message of every
partition in offset order and none twice, whichever members poll and however membership changes.

The statements are about the executable model of `ConsumerGroup` (Iggy/Sys/Model.lean:
`assignShares`, `Group.addMember`, `Group.deleteMember`, `Group.setParts`, `Group.adoptOrder`,
`Member.calc`, `Topic.resolve`) — the judge compares every join / leave / get-group / group poll of the
real server with it — and about the abstract partition (`SPart`) for the offset part.  The hash-map
iteration order of the implementation is the list order of `members`: every theorem below is for an
arbitrary member list, hence for every order.
-/
import Iggy.Sys.GroupLemmas
namespace Iggy.Props.C08
open Iggy.Log Iggy.Sys

/-! ## 1–3: exclusive, within the topic, even -/

/-- Every partition `1 … nparts` of the topic is in the share of exactly one position of the member
list (any number of members ≥ 1, any order, any `nparts`). -/
theorem exclusive_cover (nparts : Nat) (ms : List Member) (hne : ms ≠ []) (p : Nat)
    (h1 : 1 ≤ p) (h2 : p ≤ nparts) :
    ∃ j : Nat, (∃ m : Member, (assignShares nparts ms)[j]? = some m ∧ p ∈ m.share) ∧
      ∀ j' : Nat, (∃ m' : Member, (assignShares nparts ms)[j']? = some m' ∧ p ∈ m'.share) → j' = j :=
  assignShares_cover nparts ms hne p h1 h2

/-- The same by members: some member owns partition `p`, and every member owning `p` is that one. -/
theorem exclusive_cover_member (nparts : Nat) (ms : List Member) (hne : ms ≠ []) (p : Nat)
    (h1 : 1 ≤ p) (h2 : p ≤ nparts) :
    ∃ m ∈ assignShares nparts ms, p ∈ m.share ∧
      ∀ m' ∈ assignShares nparts ms, p ∈ m'.share → m' = m := by
  obtain ⟨j, ⟨m, hm, hp⟩, huniq⟩ := assignShares_cover nparts ms hne p h1 h2
  refine ⟨m, List.mem_of_getElem? hm, hp, ?_⟩
  intro m' hm' hp'
  obtain ⟨j', hj'⟩ := List.mem_iff_getElem?.mp hm'
  have := huniq j' ⟨m', hj', hp'⟩
  subst this
  rw [hm] at hj'; cases hj'; rfl

/-- With pairwise distinct client ids (a hash map keyed by client id) a client id names one member:
its share is well defined. -/
theorem member_unique (nparts : Nat) (ms : List Member) (hnd : (ms.map (·.id)).Nodup) :
    ∀ a ∈ assignShares nparts ms, ∀ b ∈ assignShares nparts ms, a.id = b.id → a = b :=
  fun _ ha _ hb hid => assignShares_id_inj hnd ha hb hid

/-- Exactly one client owns partition `p`: there is a client id among the members such that the
members owning `p` are precisely those with that id. -/
theorem exclusive_client (nparts : Nat) (ms : List Member) (hnd : (ms.map (·.id)).Nodup) (hne : ms ≠ [])
    (p : Nat) (h1 : 1 ≤ p) (h2 : p ≤ nparts) :
    ∃ id ∈ ms.map (·.id), ∀ m ∈ assignShares nparts ms, (p ∈ m.share ↔ m.id = id) := by
  obtain ⟨m, hm, hp, huniq⟩ := exclusive_cover_member nparts ms hne p h1 h2
  refine ⟨m.id, ?_, ?_⟩
  · rw [← map_id_assignShares nparts ms]; exact List.mem_map_of_mem hm
  · intro m' hm'
    constructor
    · intro hp'; rw [huniq m' hm' hp']
    · intro hid; rw [assignShares_id_inj hnd hm' hm hid]; exact hp

/-- Two different clients never share a partition. -/
theorem shares_disjoint (nparts : Nat) (ms : List Member) :
    ∀ a ∈ assignShares nparts ms, ∀ b ∈ assignShares nparts ms, a.id ≠ b.id →
      ∀ p, p ∈ a.share → p ∉ b.share := by
  intro a ha b hb hid p hpa hpb
  have hne : ms ≠ [] := by
    rintro rfl; simp [assignShares] at ha
  have hr := assignShares_share_mem ha hpa
  obtain ⟨m, _, _, huniq⟩ := exclusive_cover_member nparts ms hne p hr.1 hr.2
  exact hid (by rw [huniq a ha hpa, huniq b hb hpb])

/-- Shares contain only partitions of the topic. -/
theorem shares_only_existing (nparts : Nat) (ms : List Member) :
    ∀ m ∈ assignShares nparts ms, ∀ p ∈ m.share, 1 ≤ p ∧ p ≤ nparts :=
  fun _ hm _ hp => assignShares_share_mem hm hp

/-- Even split: the share sizes of any two members differ by at most one. -/
theorem balanced (nparts : Nat) (ms : List Member) :
    ∀ a ∈ assignShares nparts ms, ∀ b ∈ assignShares nparts ms, a.share.length ≤ b.share.length + 1 := by
  intro a ha b hb
  have := assignShares_share_length ha
  have := assignShares_share_length hb
  omega

/-- … namely `⌊nparts / members⌋` or one more. -/
theorem share_size (nparts : Nat) (ms : List Member) :
    ∀ a ∈ assignShares nparts ms,
      nparts / ms.length ≤ a.share.length ∧ a.share.length ≤ nparts / ms.length + 1 :=
  fun _ ha => assignShares_share_length ha

/-- A share lists its partitions in ascending order — in particular none twice. -/
theorem share_ascending (nparts : Nat) (ms : List Member) :
    ∀ a ∈ assignShares nparts ms, a.share.Pairwise (· < ·) :=
  fun _ ha => assignShares_share_sorted ha

/-! ## 4: membership, and the assignment in every reachable group state -/

/-- Assigning neither adds, drops nor reorders members. -/
theorem members_preserved (nparts : Nat) (ms : List Member) :
    (assignShares nparts ms).map (·.id) = ms.map (·.id) := map_id_assignShares nparts ms

/-- Assigning twice is assigning once. -/
theorem assign_idempotent (nparts : Nat) (ms : List Member) :
    assignShares nparts (assignShares nparts ms) = assignShares nparts ms := assignShares_idem nparts ms

/-- Join: the members are the old ones other than `id`, plus `id`; the group is freshly assigned. -/
theorem join_members (g : Group) (id : Nat) :
    (g.addMember id).members.map (·.id) = (g.members.map (·.id)).filter (· ≠ id) ++ [id] ∧
    (g.addMember id).nparts = g.nparts ∧ (g.addMember id).Assigned :=
  ⟨Group.addMember_ids g id, rfl, Group.addMember_assigned g id⟩

/-- Leave (or disconnect): the members are the old ones other than `id`. -/
theorem leave_members (g : Group) (id : Nat) (h : g.Assigned) :
    (g.deleteMember id).members.map (·.id) = (g.members.map (·.id)).filter (· ≠ id) ∧
    (g.deleteMember id).nparts = g.nparts ∧ (g.deleteMember id).Assigned :=
  ⟨Group.deleteMember_ids g id, Group.deleteMember_nparts g id, Group.deleteMember_assigned g id h⟩

/-- A change of the topic's partition count: the group follows it, members unchanged, reassigned. -/
theorem parts_tracks_topic (g : Group) (n : Nat) :
    (g.setParts n).nparts = n ∧ (g.setParts n).members.map (·.id) = g.members.map (·.id) ∧
    (g.setParts n).Assigned :=
  ⟨rfl, Group.setParts_ids g n, Group.setParts_assigned g n⟩

/-- Observing another iteration order of the hash map (no key twice) permutes the members — none
lost, none added — and leaves the group assigned for the new order. -/
theorem adopt_members (g : Group) (order : List Nat) (ho : order.Nodup) (h : g.Assigned)
    (hnd : (g.members.map (·.id)).Nodup) :
    ((g.adoptOrder order).members.map (·.id)).Perm (g.members.map (·.id)) ∧
    (g.adoptOrder order).nparts = g.nparts ∧ (g.adoptOrder order).Assigned :=
  ⟨Group.adoptOrder_perm g order ho hnd, Group.adoptOrder_nparts g order, Group.adoptOrder_assigned g order h⟩

/-- Every group state reachable from a new (memberless) group by any sequence of joins, leaves,
partition-count changes and order observations carries exactly the assignment of
`assign_partitions` for its current partition count and member order. -/
theorem reachable_assigned (g0 : Group) (h0 : g0.members = []) (ops : List GOp) :
    (g0.run ops).Assigned :=
  Group.run_assigned g0 ops (by unfold Group.Assigned; rw [h0]; rfl)

/-- … and its member ids are pairwise distinct, provided no observed order lists an id twice
(`GOp.WF`; a hash-map iteration never does).  Without that proviso the statement is false of the
model: see the counterexample below. -/
theorem reachable_nodup_partial (g0 : Group) (h0 : g0.members = []) (ops : List GOp)
    (hops : ∀ op ∈ ops, op.WF) : ((g0.run ops).members.map (·.id)).Nodup :=
  Group.run_nodup g0 ops hops (by rw [h0]; exact List.nodup_nil)

/-- counterexample to `reachable_nodup` without `GOp.WF`: `adoptOrder [1,1]` on members 1, 2 passes the
model's length checks and yields member 1 twice. -/
example : ¬ (((Group.mk 1 "g" 3 []).run [.join 1, .join 2, .adopt [1, 1]]).members.map (·.id)).Nodup := by
  decide

/-- The member ids a history leaves behind, computed on ids alone. -/
def specIds (ops : List GOp) : List Nat :=
  ops.foldl (fun ids op => match op with
    | .join id => ids.filter (· ≠ id) ++ [id]
    | .leave id => ids.filter (· ≠ id)
    | _ => ids) []

/-- The members of a reachable group are exactly the clients that joined and have not left since (up
to the order, which is the implementation's). -/
theorem reachable_members (g0 : Group) (h0 : g0.members = []) (ops : List GOp)
    (hops : ∀ op ∈ ops, op.WF) : ((g0.run ops).members.map (·.id)).Perm (specIds ops) := by
  unfold specIds Group.run
  suffices H : ∀ (g : Group) (ids : List Nat), (g.members.map (·.id)).Nodup →
      (g.members.map (·.id)).Perm ids →
      ((ops.foldl Group.step g).members.map (·.id)).Perm
        (ops.foldl (fun ids op => match op with
          | .join id => ids.filter (· ≠ id) ++ [id]
          | .leave id => ids.filter (· ≠ id)
          | _ => ids) ids) by
    exact H g0 [] (by rw [h0]; exact List.nodup_nil) (by rw [h0]; exact List.Perm.refl _)
  induction ops with
  | nil => intro g ids _ hp; exact hp
  | cons op rest ih =>
    intro g ids hnd hp
    have hop : op.WF := hops op List.mem_cons_self
    simp only [List.foldl_cons]
    apply ih (fun o ho => hops o (List.mem_cons_of_mem _ ho)) _ _ (Group.step_nodup g op hop hnd)
    cases op with
    | join id =>
      simp only [Group.step]; rw [Group.addMember_ids]
      exact (hp.filter _).append_right _
    | leave id =>
      simp only [Group.step]; rw [Group.deleteMember_ids]
      exact hp.filter _
    | setParts n =>
      simp only [Group.step]; rw [Group.setParts_ids]; exact hp
    | adopt o =>
      simp only [Group.step]
      exact (Group.adoptOrder_perm g o hop hnd).trans hp

/-- 1 in every reachable group state with at least one member: each partition of the (tracked)
partition count is owned by exactly one position … -/
theorem reachable_exclusive_cover (g0 : Group) (h0 : g0.members = []) (ops : List GOp)
    (hne : (g0.run ops).members ≠ []) (p : Nat) (h1 : 1 ≤ p) (h2 : p ≤ (g0.run ops).nparts) :
    ∃ j : Nat, (∃ m : Member, (g0.run ops).members[j]? = some m ∧ p ∈ m.share) ∧
      ∀ j' : Nat, (∃ m' : Member, (g0.run ops).members[j']? = some m' ∧ p ∈ m'.share) → j' = j := by
  have h := reachable_assigned g0 h0 ops
  unfold Group.Assigned at h
  rw [h]
  exact assignShares_cover _ _ hne p h1 h2

/-- … and, observed orders being duplicate-free, by exactly one client. -/
theorem reachable_exclusive_client (g0 : Group) (h0 : g0.members = []) (ops : List GOp)
    (hops : ∀ op ∈ ops, op.WF)
    (hne : (g0.run ops).members ≠ []) (p : Nat) (h1 : 1 ≤ p) (h2 : p ≤ (g0.run ops).nparts) :
    ∃ id ∈ (g0.run ops).members.map (·.id), ∀ m ∈ (g0.run ops).members, (p ∈ m.share ↔ m.id = id) := by
  have h := reachable_assigned g0 h0 ops
  have hnd := reachable_nodup_partial g0 h0 ops hops
  unfold Group.Assigned at h
  have := exclusive_client (g0.run ops).nparts (g0.run ops).members hnd hne p h1 h2
  rw [← h] at this
  exact this

/-- 2 in every reachable group state. -/
theorem reachable_shares_only_existing (g0 : Group) (h0 : g0.members = []) (ops : List GOp) :
    ∀ m ∈ (g0.run ops).members, ∀ p ∈ m.share, 1 ≤ p ∧ p ≤ (g0.run ops).nparts := by
  have h := reachable_assigned g0 h0 ops
  unfold Group.Assigned at h
  rw [h]
  exact shares_only_existing _ _

/-- 3 in every reachable group state. -/
theorem reachable_balanced (g0 : Group) (h0 : g0.members = []) (ops : List GOp) :
    ∀ a ∈ (g0.run ops).members, ∀ b ∈ (g0.run ops).members, a.share.length ≤ b.share.length + 1 := by
  have h := reachable_assigned g0 h0 ops
  unfold Group.Assigned at h
  rw [h]
  exact balanced _ _

/-! ## 5: rotation over the own share -/

/-- Whatever its state, a member is only ever handed partitions of its own share, and calling
`calculate_partition_id` changes neither its share nor its id. -/
theorem rotation_in_share (m : Member) (k : Nat) :
    (∀ p, (calcIter m k).1 = some p → p ∈ m.share) ∧
    (calcIter m k).2.share = m.share ∧ (calcIter m k).2.id = m.id :=
  ⟨fun p h => calcIter_mem m k p h, calcIter_share m k, calcIter_id m k⟩

/-- After an assignment the `k`-th call (counting from 0) of a member with a non-empty share returns
entry `k mod length` of the share: each partition of the share in turn, then again from the first. -/
theorem rotation (nparts : Nat) (ms : List Member) (m : Member) (hm : m ∈ assignShares nparts ms)
    (hne : m.share ≠ []) (k : Nat) :
    (calcIter m k).1 = m.share[k % m.share.length]? := by
  have hf := assignShares_fresh hm
  have hidx : m.idx = some 0 := by rw [hf]; exact Member.fresh_idx _ _ hne
  have := calcIter_spec m 0 k hidx (List.length_pos_iff.mpr hne)
  rwa [Nat.zero_add] at this

/-- Every round of `share.length` consecutive calls visits the share once, in order. -/
theorem rotation_round (nparts : Nat) (ms : List Member) (m : Member) (hm : m ∈ assignShares nparts ms)
    (r : Nat) :
    (List.range m.share.length).map (fun k => (calcIter m (m.share.length * r + k)).1) =
      m.share.map some := by
  apply List.ext_getElem?
  intro i
  rw [List.getElem?_map, List.getElem?_map]
  by_cases hi : i < m.share.length
  · have hne : m.share ≠ [] := by intro h; rw [h] at hi; simp at hi
    rw [List.getElem?_range hi, Option.map_some, rotation nparts ms m hm hne,
      Nat.mul_add_mod_self_left, Nat.mod_eq_of_lt hi, List.getElem?_eq_getElem hi]
    rfl
  · have hi' : m.share.length ≤ i := Nat.le_of_not_lt hi
    rw [List.getElem?_eq_none (by simpa using hi'), List.getElem?_eq_none hi']
    rfl

/-- A member without partitions (more members than partitions) is told there is none. -/
theorem empty_share_none (m : Member) (h : m.share = []) : m.calc.1 = none := Member.calc_nil m h

/-- The members left without a partition are exactly those at positions `≥ nparts`. -/
theorem empty_share_iff (nparts : Nat) (ms : List Member) (j : Nat) (m : Member)
    (hm : (assignShares nparts ms)[j]? = some m) : m.share = [] ↔ nparts ≤ j := by
  rw [getElem?_assignShares] at hm
  cases hx : ms[j]? with
  | none => rw [hx] at hm; cases hm
  | some x =>
    rw [hx] at hm
    simp only [Option.map_some, Option.some.injEq] at hm
    subst hm
    exact shareOf_eq_nil_iff nparts ms.length j (lt_length_of_getElem? hx)

/-- `resolve_consumer_with_partition_id` for a group poll that names no partition: the partition
served is the next of the polling member's own share (or none), and the only change to the topic is
that member's rotation cursor (`Group.poll`). -/
theorem poll_from_own_share (t t' : Topic) (cons : Consumer) (client : Nat) (r : Option Nat)
    (hg : cons.grp = true) (h : t.resolve cons client none true = .ok (r, t')) :
    ∃ g m, find? t.groups cons.id = some g ∧ g.members.find? (fun m => m.id = client) = some m ∧
      m.id = client ∧ r = m.calc.1 ∧ (∀ p, r = some p → p ∈ m.share) ∧
      t' = t.putGroup (g.poll client) := by
  unfold Topic.resolve at h
  simp only [hg, Bool.not_true, Bool.false_eq_true, if_false] at h
  split at h
  · cases h
  · rename_i g hgf
    split at h
    · cases h
    · rename_i m hmf
      simp only [if_true] at h
      cases h
      refine ⟨g, m, hgf, hmf, by simpa using List.find?_some hmf, rfl, fun p hp => m.calc_mem p hp, ?_⟩
      unfold Group.poll
      rw [hmf]

/-- From any cursor position `i` inside the share, the `k`-th call returns entry `(i + k) mod length`:
the rotation goes on from where it stands. -/
theorem rotation_from (m : Member) (i k : Nat) (hi : m.idx = some i) (hlt : i < m.share.length) :
    (calcIter m k).1 = m.share[(i + k) % m.share.length]? := calcIter_spec m i k hi hlt

/-! ### group states reachable with polls in between

`Group.Assigned` fixes the rotation cursors at the start of each share, so it describes the group
right after a membership event.  Polls move the cursors; they change neither the members nor their
shares (`Group.SharesAssigned`), and the cursors keep pointing into the shares (`Group.CursorsOk`). -/

/-- A poll by any client changes no member id, no share and not the partition count. -/
theorem poll_keeps_shares (g : Group) (client : Nat) (hnd : (g.members.map (·.id)).Nodup) :
    (g.poll client).members.map Member.key = g.members.map Member.key ∧
    (g.poll client).nparts = g.nparts :=
  ⟨Group.poll_keys g client hnd, Group.poll_nparts g client⟩

/-- Every group state reachable from a new group by joins, leaves, partition-count changes, order
observations (duplicate-free) and polls by any clients in any interleaving: ids and shares are those of
`assign_partitions` for the current partition count and order, ids are pairwise distinct, and every
cursor points into its member's share. -/
theorem reachable_with_polls (g0 : Group) (h0 : g0.members = []) (ops : List GOpP)
    (hops : ∀ op ∈ ops, op.WF) :
    (g0.runP ops).SharesAssigned ∧ ((g0.runP ops).members.map (·.id)).Nodup ∧ (g0.runP ops).CursorsOk := by
  apply Group.runP_good g0 ops hops
  refine ⟨?_, by rw [h0]; exact List.nodup_nil, ?_⟩
  · unfold Group.SharesAssigned; rw [h0]; rfl
  · intro m hm; rw [h0] at hm; cases hm

/-- 1 with polls in between: each partition is owned by exactly one position and exactly one client. -/
theorem reachable_with_polls_exclusive (g0 : Group) (h0 : g0.members = []) (ops : List GOpP)
    (hops : ∀ op ∈ ops, op.WF) (hne : (g0.runP ops).members ≠ []) (p : Nat)
    (h1 : 1 ≤ p) (h2 : p ≤ (g0.runP ops).nparts) :
    (∃ j : Nat, (∃ m : Member, (g0.runP ops).members[j]? = some m ∧ p ∈ m.share) ∧
      ∀ j' : Nat, (∃ m' : Member, (g0.runP ops).members[j']? = some m' ∧ p ∈ m'.share) → j' = j) ∧
    (∃ id ∈ (g0.runP ops).members.map (·.id),
      ∀ m ∈ (g0.runP ops).members, (p ∈ m.share ↔ m.id = id)) := by
  obtain ⟨ha, hn, _⟩ := reachable_with_polls g0 h0 ops hops
  exact ⟨ha.cover hne p h1 h2, ha.client hn hne p h1 h2⟩

/-- 2 and 3 with polls in between: only partitions of the topic, ascending, sizes differing by at most
one. -/
theorem reachable_with_polls_even (g0 : Group) (h0 : g0.members = []) (ops : List GOpP)
    (hops : ∀ op ∈ ops, op.WF) :
    (∀ m ∈ (g0.runP ops).members, ∀ p ∈ m.share, 1 ≤ p ∧ p ≤ (g0.runP ops).nparts) ∧
    (∀ m ∈ (g0.runP ops).members, m.share.Pairwise (· < ·)) ∧
    (∀ a ∈ (g0.runP ops).members, ∀ b ∈ (g0.runP ops).members, a.share.length ≤ b.share.length + 1) := by
  obtain ⟨ha, _, _⟩ := reachable_with_polls g0 h0 ops hops
  refine ⟨fun m hm p hp => ha.share_mem hm hp, fun m hm => ha.share_sorted hm, ?_⟩
  intro a hma b hmb
  have := ha.share_length hma
  have := ha.share_length hmb
  omega

/-- 5 with polls in between: in every reachable state a member with a non-empty share that polls is
handed a partition of its share (never refused), a member with an empty share none. -/
theorem reachable_with_polls_served (g0 : Group) (h0 : g0.members = []) (ops : List GOpP)
    (hops : ∀ op ∈ ops, op.WF) :
    ∀ m ∈ (g0.runP ops).members,
      (m.share ≠ [] → ∃ p, m.calc.1 = some p ∧ p ∈ m.share) ∧ (m.share = [] → m.calc.1 = none) := by
  obtain ⟨_, _, hc⟩ := reachable_with_polls g0 h0 ops hops
  intro m hm
  refine ⟨fun hne => ?_, fun he => Member.calc_nil m he⟩
  obtain ⟨p, hp⟩ := m.calc_some (hc m hm) hne
  exact ⟨p, hp, m.calc_mem p hp⟩

/-! ## 6: the group as a whole is handed every message once, in offset order

The offset a group has reached on a partition is stored in the partition, keyed by the group id alone
(`grpOffs`; C07): `deliver` below does not even take the polling member as an argument.  So which
member polls — the owner of the partition, a new owner after any join / leave / partition-count
change, or a member naming the partition explicitly — makes no difference to what is handed out
next. -/

/-- one group poll with strategy next and auto-commit on one partition -/
def deliver (p : SPart) (gid count : Nat) : List Msg × SPart :=
  let ms := p.pollNext true gid count
  match ms.getLast? with
  | none => (ms, p)
  | some last => (ms, match p.storeOffset true gid last.off with | .ok p' => p' | .error _ => p)

/-- A group poll that finds nothing changes nothing (helper for `deliver_spec`). -/
theorem deliver_of_none (p : SPart) (gid count : Nat) (h : p.Inv)
    (hl : ((p.undelivered gid).take count).getLast? = none) :
    deliver p gid count = ((p.undelivered gid).take count, p) := by
  unfold deliver
  simp only [SPart.pollNext_undelivered p gid count h, hl]

/-- A non-empty group poll returns the messages and the partition with the committed offset (helper
for `deliver_spec`). -/
theorem deliver_of_some (p : SPart) (gid count : Nat) (h : p.Inv) (last : Msg) (p' : SPart)
    (hl : ((p.undelivered gid).take count).getLast? = some last)
    (hs : p.storeOffset true gid last.off = .ok p') :
    deliver p gid count = ((p.undelivered gid).take count, p') := by
  unfold deliver
  simp only [SPart.pollNext_undelivered p gid count h, hl, hs]

/-- One group poll hands out the first `count` messages not yet handed to the group, commits exactly
that (what is left undelivered is the rest, nothing skipped, nothing kept), and touches neither the
messages nor the next offset.  The stored offset stays below the next offset. -/
theorem deliver_spec (p : SPart) (gid count : Nat) (h : p.Inv) :
    (deliver p gid count).1 = (p.undelivered gid).take count ∧
    (deliver p gid count).2.undelivered gid = (p.undelivered gid).drop count ∧
    (deliver p gid count).2.msgs = p.msgs ∧ (deliver p gid count).2.next = p.next ∧
    (deliver p gid count).2.ids = p.ids ∧
    ((∀ o, p.getOffset true gid = some o → o < p.next) →
      ∀ o, (deliver p gid count).2.getOffset true gid = some o → o < p.next) := by
  cases hl : ((p.undelivered gid).take count).getLast? with
  | none =>
    have he : (p.undelivered gid).take count = [] := List.getLast?_eq_none_iff.mp hl
    rw [deliver_of_none p gid count h hl]
    refine ⟨rfl, ?_, rfl, rfl, rfl, fun ho => ho⟩
    show p.undelivered gid = _
    rcases List.take_eq_nil_iff.mp he with hc | hu
    · rw [hc, List.drop_zero]
    · rw [hu, List.drop_nil]
  | some last =>
    obtain ⟨p', h1, h2, h3, h4, h5, h6, h7⟩ := SPart.commit_last p gid count last h hl
    rw [deliver_of_some p gid count h last p' hl h1]
    refine ⟨rfl, h7, h2, h3, h4, ?_⟩
    intro _ o ho
    rw [h5] at ho; cases ho; exact h6

/-- The committed offset after a non-empty group poll is the offset of the last message handed out;
an empty poll changes nothing. -/
theorem deliver_commits (p : SPart) (gid count : Nat) (h : p.Inv) :
    (∀ last, (deliver p gid count).1.getLast? = some last →
      (deliver p gid count).2.getOffset true gid = some last.off) ∧
    ((deliver p gid count).1 = [] → (deliver p gid count).2 = p) := by
  cases hl : ((p.undelivered gid).take count).getLast? with
  | none =>
    rw [deliver_of_none p gid count h hl]
    exact ⟨fun last h' => by (rw [hl] at h'; cases h'), fun _ => rfl⟩
  | some last =>
    obtain ⟨p', h1, _, _, _, h5, _, _⟩ := SPart.commit_last p gid count last h hl
    rw [deliver_of_some p gid count h last p' hl h1]
    refine ⟨fun l h' => ?_, fun he => ?_⟩
    · rw [hl] at h'; cases h'; exact h5
    · have he' : (p.undelivered gid).take count = [] := he
      rw [he'] at hl; cases hl

/-- Progress: while something is undelivered, a group poll asking for at least one message gets at
least one. -/
theorem delivery_progress (p : SPart) (gid count : Nat) (h : p.Inv) (hc : 0 < count)
    (hu : p.undelivered gid ≠ []) : (deliver p gid count).1 ≠ [] := by
  rw [(deliver_spec p gid count h).1]
  intro he
  rcases List.take_eq_nil_iff.mp he with h0 | h0
  · omega
  · exact hu h0

/-- A group poll asking for at least as many messages as are undelivered drains the partition. -/
theorem delivery_drains (p : SPart) (gid count : Nat) (h : p.Inv)
    (hc : (p.undelivered gid).length ≤ count) :
    (deliver p gid count).1 = p.undelivered gid ∧ (deliver p gid count).2.undelivered gid = [] := by
  obtain ⟨h1, h2, _⟩ := deliver_spec p gid count h
  rw [h1, h2]
  exact ⟨List.take_of_length_le hc, List.drop_eq_nil_of_le hc⟩

/-- what happens to a partition between and during group polls: anyone appends, some member of the
group polls (`next`, auto-commit), retention removes the `n` oldest messages -/
inductive GEv
  | append (now : Nat) (msgs : List InMsg)
  | deliver (count : Nat)
  | drop (n : Nat)
deriving Repr, DecidableEq

/-- the partition, everything handed to the group so far (in the order handed out), and everything
the partition ever held -/
structure GState where
  part : SPart
  delivered : List Msg
  accepted : List Msg
deriving Repr, DecidableEq

def gstep (gid : Nat) (s : GState) : GEv → GState
  | .append now msgs =>
    { s with part := s.part.append now msgs,
             accepted := s.accepted ++ (number s.part.ids s.part.next now msgs 0 []).2 }
  | .deliver count =>
    { s with part := (deliver s.part gid count).2, delivered := s.delivered ++ (deliver s.part gid count).1 }
  | .drop n => { s with part := s.part.dropPrefix n }

def grun (gid : Nat) (p0 : SPart) (evs : List GEv) : GState :=
  evs.foldl (gstep gid) { part := p0, delivered := [], accepted := p0.msgs }

def GEv.isDrop : GEv → Bool
  | .drop _ => true
  | _ => false

/-- Without retention: however appends (by anyone) and group polls (by any members, any counts)
interleave, what the group has been handed so far, in the order it was handed out, followed by what
is still undelivered, is exactly the partition's message list — so the delivered messages are a prefix
of it: offset order, none skipped, none twice. -/
theorem delivered_exact (gid : Nat) (p0 : SPart) (h0 : p0.Inv) (hoff : p0.getOffset true gid = none)
    (evs : List GEv) (hnd : ∀ e ∈ evs, e.isDrop = false) :
    (grun gid p0 evs).delivered ++ (grun gid p0 evs).part.undelivered gid = (grun gid p0 evs).part.msgs ∧
    (grun gid p0 evs).part.msgs = (grun gid p0 evs).accepted := by
  unfold grun
  suffices H : ∀ s : GState, (s.part.Inv ∧ s.delivered ++ s.part.undelivered gid = s.part.msgs ∧
      (∀ o, s.part.getOffset true gid = some o → o < s.part.next) ∧ s.part.msgs = s.accepted) →
      (evs.foldl (gstep gid) s).delivered ++ (evs.foldl (gstep gid) s).part.undelivered gid =
        (evs.foldl (gstep gid) s).part.msgs ∧
      (evs.foldl (gstep gid) s).part.msgs = (evs.foldl (gstep gid) s).accepted by
    apply H
    refine ⟨h0, ?_, ?_, rfl⟩
    · simp [SPart.undelivered, hoff]
    · intro o ho; rw [hoff] at ho; cases ho
  induction evs with
  | nil => intro s hs; exact ⟨hs.2.1, hs.2.2.2⟩
  | cons e rest ih =>
    intro s ⟨hi, hd, ho, ha⟩
    simp only [List.foldl_cons]
    apply ih (fun e he => hnd e (List.mem_cons_of_mem _ he))
    have he := hnd e List.mem_cons_self
    cases e with
    | append now msgs =>
      simp only [gstep]
      refine ⟨SPart.append_inv _ now msgs hi, ?_, ?_, ?_⟩
      · rw [SPart.undelivered_append s.part gid now msgs ho, ← List.append_assoc, hd]; rfl
      · intro o h'
        rw [SPart.append_keeps_offsets] at h'
        have := ho o h'
        show o < s.part.next + _
        omega
      · show s.part.msgs ++ _ = s.accepted ++ _
        rw [ha]
    | deliver count =>
      simp only [gstep]
      obtain ⟨h1, h2, h3, h4, _, h6⟩ := deliver_spec s.part gid count hi
      refine ⟨?_, ?_, ?_, ?_⟩
      · unfold SPart.Inv; rw [h3, h4]; exact hi
      · rw [h1, h2, h3, List.append_assoc, List.take_append_drop, hd]
      · rw [h4]; exact h6 ho
      · rw [h3]; exact ha
    | drop n => cases he

/-- `delivered_exact` as the plain prefix statement. -/
theorem delivered_prefix (gid : Nat) (p0 : SPart) (h0 : p0.Inv) (hoff : p0.getOffset true gid = none)
    (evs : List GEv) (hnd : ∀ e ∈ evs, e.isDrop = false) :
    (grun gid p0 evs).delivered <+: (grun gid p0 evs).part.msgs :=
  ⟨_, (delivered_exact gid p0 h0 hoff evs hnd).1⟩

/-- With retention in play (`drop` events, any number of messages, at any time): the messages handed
to the group so far, followed by the still undelivered ones, form a sublist of everything the
partition ever held — the order of acceptance is kept and no message occurs twice; what is missing
was removed by retention before the group got to it.  The accepted messages carry gap-free ascending
offsets. -/
theorem delivered_sublist (gid : Nat) (p0 : SPart) (h0 : p0.Inv) (hoff : p0.getOffset true gid = none)
    (evs : List GEv) :
    ((grun gid p0 evs).delivered ++ (grun gid p0 evs).part.undelivered gid).Sublist
      (grun gid p0 evs).accepted ∧
    (∃ lo, consecutiveFrom lo (grun gid p0 evs).accepted) := by
  unfold grun
  suffices H : ∀ s : GState, (∃ lo, consecutiveFrom lo s.accepted ∧ lo + s.accepted.length = s.part.next ∧
      (∃ pre, s.accepted = pre ++ s.part.msgs) ∧
      (∃ h1, s.accepted = h1 ++ s.part.undelivered gid ∧ s.delivered.Sublist h1) ∧
      (∀ o, s.part.getOffset true gid = some o → o < s.part.next)) →
      ((evs.foldl (gstep gid) s).delivered ++ (evs.foldl (gstep gid) s).part.undelivered gid).Sublist
        (evs.foldl (gstep gid) s).accepted ∧
      (∃ lo, consecutiveFrom lo (evs.foldl (gstep gid) s).accepted) by
    apply H
    obtain ⟨lo, hc, hn⟩ := h0
    refine ⟨lo, hc, hn, ⟨[], rfl⟩, ⟨[], ?_, List.Sublist.refl _⟩, ?_⟩
    · simp [SPart.undelivered, hoff]
    · intro o ho; rw [hoff] at ho; cases ho
  induction evs with
  | nil =>
    rintro s ⟨lo, hc, _, _, ⟨h1, e1, hs⟩, _⟩
    refine ⟨?_, lo, hc⟩
    show (s.delivered ++ s.part.undelivered gid).Sublist s.accepted
    rw [e1]
    exact hs.append (List.Sublist.refl _)
  | cons e rest ih =>
    rintro s ⟨lo, hc, hn, ⟨pre, hpre⟩, ⟨h1, e1, hs⟩, ho⟩
    simp only [List.foldl_cons]
    apply ih
    have hinv : s.part.Inv := by
      rw [hpre, consecutiveFrom_append] at hc
      refine ⟨lo + pre.length, hc.2, ?_⟩
      rw [hpre, List.length_append] at hn; omega
    cases e with
    | append now msgs =>
      simp only [gstep]
      refine ⟨lo, ?_, ?_, ⟨pre, ?_⟩, ⟨h1, ?_, hs⟩, ?_⟩
      · rw [consecutiveFrom_append]
        refine ⟨hc, ?_⟩
        have := number_consecutive s.part.ids s.part.next now msgs 0
        rw [hn]; simpa using this
      · show lo + (s.accepted ++ _).length = s.part.next + _
        rw [List.length_append]; omega
      · show s.accepted ++ _ = pre ++ (s.part.msgs ++ _)
        rw [hpre, List.append_assoc]
      · rw [SPart.undelivered_append s.part gid now msgs ho, ← List.append_assoc, ← e1]
      · intro o h'
        rw [SPart.append_keeps_offsets] at h'
        have := ho o h'
        show o < s.part.next + _
        omega
    | deliver count =>
      simp only [gstep]
      obtain ⟨d1, d2, d3, d4, _, d6⟩ := deliver_spec s.part gid count hinv
      refine ⟨lo, hc, by rw [d4]; exact hn, ⟨pre, by rw [d3]; exact hpre⟩,
        ⟨h1 ++ (s.part.undelivered gid).take count, ?_, ?_⟩, ?_⟩
      · rw [d2, List.append_assoc, List.take_append_drop]; exact e1
      · rw [d1]; exact hs.append (List.Sublist.refl _)
      · rw [d4]; exact d6 ho
    | drop n =>
      simp only [gstep]
      obtain ⟨gone, hg⟩ := SPart.undelivered_dropPrefix s.part gid n
      refine ⟨lo, hc, hn, ⟨pre ++ s.part.msgs.take n, ?_⟩, ⟨h1 ++ gone, ?_, ?_⟩, ho⟩
      · show s.accepted = pre ++ s.part.msgs.take n ++ s.part.msgs.drop n
        rw [List.append_assoc, List.take_append_drop]; exact hpre
      · rw [List.append_assoc, ← hg]; exact e1
      · exact hs.trans (List.sublist_append_left _ _)

/-- Whatever appends, polls and retention runs happened: the messages handed to the group are
messages the partition accepted, in strictly increasing offset order — in particular none twice and
never out of order. -/
theorem delivered_increasing (gid : Nat) (p0 : SPart) (h0 : p0.Inv) (hoff : p0.getOffset true gid = none)
    (evs : List GEv) :
    (grun gid p0 evs).delivered.Sublist (grun gid p0 evs).accepted ∧
    (grun gid p0 evs).delivered.Pairwise (fun a b => a.off < b.off) := by
  obtain ⟨h1, lo, h2⟩ := delivered_sublist gid p0 h0 hoff evs
  have hs : (grun gid p0 evs).delivered.Sublist (grun gid p0 evs).accepted :=
    (List.sublist_append_left _ _).trans h1
  exact ⟨hs, (consecutiveFrom_pairwise lo _ h2).sublist hs⟩

/-! ### the whole topic: members come and go, any of them polls, anyone appends -/

/-- a topic with one consumer group: the group, and for partitions 1, 2, … the abstract partition with
what the group has been handed from it so far -/
structure TState where
  group : Group
  parts : List (SPart × List Msg)

/-- a membership / partition-count / order event of the group; an append by anyone to partition `pid`;
a poll (`next`, auto-commit) by `client`, naming a partition or leaving the choice to the rotation -/
inductive TEv
  | member (op : GOp)
  | append (pid now : Nat) (msgs : List InMsg)
  | poll (client : Nat) (pid : Option Nat) (count : Nat)

/-- the group poll on an entry -/
def pollEntry (gid count : Nat) (x : SPart × List Msg) : SPart × List Msg :=
  ((deliver x.1 gid count).2, x.2 ++ (deliver x.1 gid count).1)

/-- `Topic.resolve` followed by the poll: a named partition is polled as is; otherwise the partition
comes from the polling member's rotation (a non-member is refused, a member without partitions gets
nothing) -/
def tstep (gid : Nat) (s : TState) : TEv → TState
  | .member op => { s with group := s.group.step op }
  | .append pid now msgs => { s with parts := modAt s.parts pid (fun x => (x.1.append now msgs, x.2)) }
  | .poll _ (some pid) count => { s with parts := modAt s.parts pid (pollEntry gid count) }
  | .poll client none count =>
    match s.group.members.find? (fun m => m.id = client) with
    | none => s
    | some m =>
      match m.calc.1 with
      | none => { s with group := s.group.poll client }
      | some pid => { group := s.group.poll client, parts := modAt s.parts pid (pollEntry gid count) }

def trun (gid : Nat) (s0 : TState) (evs : List TEv) : TState := evs.foldl (tstep gid) s0

/-- The group as a whole, over all partitions of the topic: whatever members join and leave, however
the partition count of the group and the member order change, whichever members poll (naming a
partition or not, any counts) and whoever appends, in any interleaving — for every partition, what the
group has been handed from it, followed by what is still undelivered, is exactly that partition's
message list: offset order, nothing skipped, nothing twice. -/
theorem topic_delivered_prefix (gid : Nat) (s0 : TState)
    (h0 : ∀ x ∈ s0.parts, x.1.Inv ∧ x.1.getOffset true gid = none ∧ x.2 = []) (evs : List TEv) :
    ∀ x ∈ (trun gid s0 evs).parts,
      x.2 ++ x.1.undelivered gid = x.1.msgs ∧ x.2 <+: x.1.msgs := by
  unfold trun
  suffices H : ∀ s : TState, (∀ x ∈ s.parts, SPart.GroupInv gid x.1 x.2) →
      ∀ x ∈ (evs.foldl (tstep gid) s).parts, SPart.GroupInv gid x.1 x.2 by
    intro x hx
    have := H s0 (fun y hy => by
      obtain ⟨a, b, c⟩ := h0 y hy
      rw [c]; exact SPart.GroupInv.init gid y.1 a b) x hx
    exact ⟨this.2.1, ⟨_, this.2.1⟩⟩
  have hpoll : ∀ (l : List (SPart × List Msg)) (pid count : Nat),
      (∀ x ∈ l, SPart.GroupInv gid x.1 x.2) →
      ∀ x ∈ modAt l pid (pollEntry gid count), SPart.GroupInv gid x.1 x.2 := by
    intro l pid count hl x hx
    obtain ⟨y, hy, rfl | rfl⟩ := mem_modAt hx
    · exact hl _ hy
    · have hj := hl y hy
      obtain ⟨d1, d2, d3, d4, _, d6⟩ := deliver_spec y.1 gid count hj.1
      exact hj.deliver _ _ count d1 d2 d3 d4 d6
  induction evs with
  | nil => intro s hs; exact hs
  | cons e rest ih =>
    intro s hs
    simp only [List.foldl_cons]
    apply ih
    cases e with
    | member op => exact hs
    | append pid now msgs =>
      intro x hx
      simp only [tstep] at hx
      obtain ⟨y, hy, rfl | rfl⟩ := mem_modAt hx
      · exact hs _ hy
      · exact (hs y hy).append now msgs
    | poll client pid count =>
      cases pid with
      | some pid => exact hpoll s.parts pid count hs
      | none =>
        simp only [tstep]
        split
        · exact hs
        · split
          · exact hs
          · exact hpoll s.parts _ count hs

/-! ## non-vacuity -/

def mem (id : Nat) : Member := { id := id, share := [], idx := none, cur := none }

/-- 3 members, 7 partitions -/
example : (assignShares 7 [mem 10, mem 20, mem 30]).map (fun m => (m.id, m.share)) =
    [(10, [1, 4, 7]), (20, [2, 5]), (30, [3, 6])] := by decide

/-- the order matters for who gets what, not for the properties -/
example : (assignShares 7 [mem 30, mem 10, mem 20]).map (fun m => (m.id, m.share)) =
    [(30, [1, 4, 7]), (10, [2, 5]), (20, [3, 6])] := by decide

/-- 3 members, 2 partitions: the third member has nothing and is told so -/
example : (assignShares 2 [mem 10, mem 20, mem 30]).map (fun m => (m.id, m.share, m.calc.1)) =
    [(10, [1], some 1), (20, [2], some 2), (30, [], none)] := by decide

/-- rotation of the first member of the 7-partition example -/
example : (List.range 7).map (fun k => (calcIter (Member.fresh 10 [1, 4, 7]) k).1) =
    [some 1, some 4, some 7, some 1, some 4, some 7, some 1] := by decide

/-- a history: joins, a leave, a change of the partition count -/
example : ((Group.mk 1 "g" 3 []).run [.join 1, .join 2, .setParts 5, .join 3, .leave 1, .adopt [3, 2]]
    ).members.map (fun m => (m.id, m.share)) = [(3, [1, 3, 5]), (2, [2, 4])] := by decide
example : specIds [.join 1, .join 2, .setParts 5, .join 3, .leave 1, .adopt [3, 2]] = [2, 3] := by decide

/-- a history with polls in between -/
example : ((Group.mk 1 "g" 5 []).runP [.op (.join 1), .op (.join 2), .poll 1, .poll 1, .poll 2, .op (.join 3),
    .poll 3, .poll 1]).members.map (fun m => (m.id, m.share, m.idx)) =
    [(1, [1, 4], some 1), (2, [2, 5], some 0), (3, [3], some 0)] := by decide

/-- a group (id 7) on one partition: appends and polls interleaved, every message once, in order -/
def exP : SPart := SPart.create exCfg none
def exEvs : List GEv :=
  [.append 5 [⟨1, 50, 1⟩, ⟨2, 50, 2⟩, ⟨3, 50, 3⟩], .deliver 2, .append 6 [⟨4, 50, 4⟩], .deliver 1,
   .deliver 5, .deliver 5]
example : (grun 7 exP exEvs).delivered.map (·.off) = [0, 1, 2, 3] := by decide
example : (grun 7 exP exEvs).delivered = (grun 7 exP exEvs).part.msgs := by decide
example : (grun 7 exP exEvs).part.getOffset true 7 = some 3 := by decide
example : exP.Inv ∧ exP.getOffset true 7 = none ∧ ∀ e ∈ exEvs, e.isDrop = false :=
  ⟨SPart.create_inv _ _, by decide, by decide⟩

/-- with retention removing messages 0 and 1 before the group got to message 1 -/
def exEvsR : List GEv :=
  [.append 5 [⟨1, 50, 1⟩, ⟨2, 50, 2⟩, ⟨3, 50, 3⟩], .deliver 1, .drop 2, .append 6 [⟨4, 50, 4⟩], .deliver 5]
example : (grun 7 exP exEvsR).delivered.map (·.off) = [0, 2, 3] ∧
    (grun 7 exP exEvsR).accepted.map (·.off) = [0, 1, 2, 3] := by decide

/-- a topic with two partitions: members 1 and 2 join, poll by rotation, member 1 leaves, member 2
takes over partition 1 where the group had stopped -/
def exT : TState := { group := Group.mk 7 "g" 2 [], parts := [(exP, []), (exP, [])] }
def exTEvs : List TEv :=
  [.member (.join 1), .member (.join 2),
   .append 1 5 [⟨1, 50, 1⟩, ⟨2, 50, 2⟩, ⟨3, 50, 3⟩], .append 2 5 [⟨4, 50, 4⟩],
   .poll 1 none 2, .poll 2 none 5, .member (.leave 1), .poll 2 none 5, .poll 2 none 5, .poll 2 none 5]
example : (trun 7 exT exTEvs).parts.map (fun x => x.2.map (·.off)) = [[0, 1, 2], [0]] ∧
    (trun 7 exT exTEvs).parts.map (fun x => x.1.msgs.map (·.off)) = [[0, 1, 2], [0]] := by decide

end Iggy.Props.C08
