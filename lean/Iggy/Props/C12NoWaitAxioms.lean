import Iggy.Props.C12NoWait
#print axioms Iggy.Props.C12NoWait.byOffset_prefix
#print axioms Iggy.Props.C12NoWait.byOffset_prefix_spec
#print axioms Iggy.Props.C12NoWait.byOffset_shape
#print axioms Iggy.Props.C12NoWait.byOffset_complete_when_settled
#print axioms Iggy.Props.C12NoWait.byOffset_monotone
#print axioms Iggy.Props.C12NoWait.byTs_prefix
#print axioms Iggy.Props.C12NoWait.byTs_prefix_same
#print axioms Iggy.Props.C12NoWait.byTs_prefix_spec
#print axioms Iggy.Props.C12NoWait.byTs_complete_when_settled
#print axioms Iggy.Props.C12NoWait.byTs_monotone
#print axioms Iggy.Props.C12NoWait.first_check_necessary
#print axioms Iggy.Props.C12NoWait.truncation_necessary
#print axioms Iggy.Props.C12NoWait.pred_check_necessary
#print axioms Iggy.Props.C12NoWait.pred_older_necessary
