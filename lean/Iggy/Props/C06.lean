/-
C06 — the catalogue is a sequential map of uniquely named and numbered entities.

In every reachable state (more generally in every structurally well-formed state, `Sys.CatWF`, which
every operation preserves — C05 `wf_step` / `catwf_step`): ids and names are unique within their
scope, lookup by name and lookup by numeric id agree, an update changes only what it names, a failed
command changes nothing, deleting an entity removes everything nested in it and never disturbs a
sibling, a valid create never fails and the created entity is found by the returned id and by its
name; no command sequence makes the replay panic.

Notation: `find? l k` is the lookup by numeric id in an (ascending) association list; `findStream`,
`findTopic`, `findGroup` resolve an `Ident` (numeric id or name); `viewY` is the catalogue as the
get / list calls show it.
-/
import Iggy.Sys.CatalogLemmas
namespace Iggy.Props.C06
open Iggy.Sys Iggy.Log

/-! ## 1. uniqueness -/

/-- in a well-formed catalogue: stream ids ascend strictly and stream names are pairwise distinct; each
stream is stored under its own id; the same holds for the topics of a stream and the consumer groups
of a topic; the partitions of a topic are exactly `1..n`, and every group is balanced over `n` -/
theorem ids_names_unique {y : Sys} (h : y.CatWF) :
    y.streams.Pairwise (fun a b => a.1 < b.1) ∧ (y.streams.map (·.2.name)).Nodup ∧
    ∀ se ∈ y.streams, se.2.id = se.1 ∧
      se.2.topics.Pairwise (fun a b => a.1 < b.1) ∧ (se.2.topics.map (·.2.name)).Nodup ∧
      ∀ te ∈ se.2.topics, te.2.id = te.1 ∧ te.2.parts.map (·.1) = List.range' 1 te.2.parts.length ∧
        te.2.groups.Pairwise (fun a b => a.1 < b.1) ∧ (te.2.groups.map (·.2.name)).Nodup ∧
        ∀ ge ∈ te.2.groups, ge.2.id = ge.1 ∧ ge.2.nparts = te.2.parts.length :=
  h.unique

/-- … in particular in every state reachable from the empty server by any operations -/
theorem ids_names_unique_reachable (cfg : Cfg) (scfg : SCfg) (now : Nat) (ops : List Op) :
    let y := ops.foldl (fun y op => (step y op).1) (Sys.init cfg scfg now)
    y.streams.Pairwise (fun a b => a.1 < b.1) ∧ (y.streams.map (·.2.name)).Nodup ∧
    ∀ se ∈ y.streams, se.2.id = se.1 ∧
      se.2.topics.Pairwise (fun a b => a.1 < b.1) ∧ (se.2.topics.map (·.2.name)).Nodup ∧
      ∀ te ∈ se.2.topics, te.2.id = te.1 ∧ te.2.parts.map (·.1) = List.range' 1 te.2.parts.length ∧
        te.2.groups.Pairwise (fun a b => a.1 < b.1) ∧ (te.2.groups.map (·.2.name)).Nodup ∧
        ∀ ge ∈ te.2.groups, ge.2.id = ge.1 ∧ ge.2.nparts = te.2.parts.length :=
  (wf_run (wf_init cfg scfg now) ops).1.unique

/-! ## 2. lookup by name and lookup by numeric id agree -/

theorem lookup_by_name_eq_by_id {y : Sys} (h : y.CatWF) (s : Stream) :
    y.findStream (.name s.name) = .ok s ↔ y.findStream (.num s.id) = .ok s :=
  h.findStream_name_iff_num s

/-- a resolved stream is the one stored under its id, and both of its own identifiers resolve to it -/
theorem lookup_canonical {y : Sys} (h : y.CatWF) {si : Ident} {s : Stream} (hs : y.findStream si = .ok s) :
    find? y.streams s.id = some s ∧ y.findStream (.num s.id) = .ok s ∧ y.findStream (.name s.name) = .ok s :=
  ⟨find?_of_mem h.scope.asc (h.findStream.1 hs).1, (h.findStream_canon hs).1, (h.findStream_canon hs).2⟩

/-- topics of a stream of the catalogue -/
theorem topic_lookup_by_name_eq_by_id {y : Sys} (h : y.CatWF) {si : Ident} {s : Stream}
    (hs : y.findStream si = .ok s) (t : Topic) :
    s.findTopic (.name t.name) = .ok t ↔ s.findTopic (.num t.id) = .ok t :=
  (h.stream (h.findStream.1 hs).1).findTopic_name_iff_num t

/-- consumer groups of a topic of the catalogue -/
theorem group_lookup_by_name_eq_by_id {y : Sys} (h : y.CatWF) {si ti : Ident} {s : Stream} {t : Topic}
    (hs : y.findStream si = .ok s) (ht : s.findTopic ti = .ok t) (g : Group) :
    t.findGroup (.name g.name) = .ok g ↔ t.findGroup (.num g.id) = .ok g := by
  have hS := h.stream (h.findStream.1 hs).1
  exact (hS.topic (hS.findTopic.1 ht).1).findGroup_name_iff_num g

/-! ## 3. a failed command changes nothing -/

/-- whatever the operation: if it answers with an error, the catalogue shown is unchanged, nothing is
journalled and no partition is affected (the allocator cursors and a polling member's rotation may
have moved — they are not visible) -/
theorem failed_changes_nothing {y : Sys} (h : y.WF) (op : Op) {e : String} (he : (step y op).2.1 = .err e) :
    viewY (step y op).1 = viewY y ∧ (step y op).1.journal = y.journal ∧ (step y op).2.2 = [] :=
  failed_changes_nothing_aux (step_spec h op) he

/-- the same from structural well-formedness alone, for everything but `restart` -/
theorem failed_changes_nothing' {y : Sys} (h : y.CatWF) (op : Op) (hop : ∀ cl, op ≠ .restart cl) {e : String}
    (he : (step y op).2.1 = .err e) :
    viewY (step y op).1 = viewY y ∧ (step y op).1.journal = y.journal ∧ (step y op).2.2 = [] :=
  failed_changes_nothing_aux (step_spec_of_catwf h op hop) he

/-- and what is not an administrative command never changes the catalogue or the journal: every step
either leaves both alone or appends exactly one journal entry -/
theorem journal_grows_by_at_most_one {y : Sys} (h : y.WF) (op : Op) :
    ((step y op).1.journal = y.journal ∧ viewY (step y op).1 = viewY y) ∨
    (∃ e, (step y op).1.journal = y.journal ++ [e] ∧ ∀ s, (step y op).2.1 ≠ .err s) := by
  have hs := step_spec h op
  generalize step y op = r at hs
  cases hs with
  | same _ hv hj => exact Or.inl ⟨hj, hv⟩
  | logged e ho hj =>
    refine Or.inr ⟨e, hj.journal, fun s hs => ?_⟩
    simp only at hs
    rw [hs] at ho
    cases ho

/-! ## 4. an update changes only what it names -/

/-- `updateStream`: the addressed stream keeps its id, its topics (with every partition, message and
group) and only takes the new name; every other stream, and the memberships, are untouched -/
theorem update_stream_is_local {y : Sys} {si : Ident} {name : String} {s : Stream}
    (hs : y.findStream si = .ok s) (hok : (step y (.updateStream si name)).2.1 = .ok) :
    find? (step y (.updateStream si name)).1.streams s.id = some { s with name := name } ∧
    (∀ k, k ≠ s.id → find? (step y (.updateStream si name)).1.streams k = find? y.streams k) ∧
    (step y (.updateStream si name)).1.memberships = y.memberships :=
  updateStream_local hs hok

/-- `updateTopic`: the addressed topic keeps its id, its groups and every partition with its messages
and offsets (the partitions' expiry setting follows the topic's); sibling topics, the stream's id and
name, the other streams and the memberships are untouched -/
theorem update_topic_is_local {y : Sys} {si ti : Ident} {name : String} {e : ExpiryArg} {m : MaxArg}
    {repl : Option Nat} {s : Stream} {t : Topic} (hs : y.findStream si = .ok s) (ht : s.findTopic ti = .ok t)
    (hok : (step y (.updateTopic si ti name e m repl)).2.1 = .ok) :
    ∃ s' t', find? (step y (.updateTopic si ti name e m repl)).1.streams s.id = some s' ∧
      (∀ k, k ≠ s.id → find? (step y (.updateTopic si ti name e m repl)).1.streams k = find? y.streams k) ∧
      s'.id = s.id ∧ s'.name = s.name ∧ find? s'.topics t.id = some t' ∧
      (∀ k, k ≠ t.id → find? s'.topics k = find? s.topics k) ∧
      t'.id = t.id ∧ t'.name = name ∧ t'.groups = t.groups ∧
      t'.parts = t.parts.map (fun pe => (pe.1, { pe.2 with expiry := t'.expiry })) ∧
      (step y (.updateTopic si ti name e m repl)).1.memberships = y.memberships :=
  updateTopic_local hs ht hok

/-- a rename to a name no other stream carries never fails -/
theorem update_stream_succeeds {y : Sys} {si : Ident} {name : String} {s : Stream} (hs : y.findStream si = .ok s)
    (hname : ∀ e ∈ y.streams, e.2.name = name → e.1 = s.id) : (step y (.updateStream si name)).2.1 = .ok :=
  updateStream_succeeds hs hname

theorem update_topic_succeeds {y : Sys} {si ti : Ident} {name : String} {e : ExpiryArg} {m : MaxArg}
    {repl : Option Nat} {s : Stream} {t : Topic} {ms : Option Nat}
    (hs : y.findStream si = .ok s) (ht : s.findTopic ti = .ok t) (hmax : resolveMax y.cfg y.scfg m = .ok ms)
    (hname : ∀ te ∈ s.topics, te.2.name = name → te.1 = t.id) :
    (step y (.updateTopic si ti name e m repl)).2.1 = .ok :=
  updateTopic_succeeds hs ht hmax hname

/-! ## 5. deletes cascade and never disturb a sibling -/

/-- `deleteStream` of a resolvable stream always succeeds; afterwards the stream is found neither by
id nor by name, no partition key and no membership of that stream remains, exactly its partitions
are reported deleted, and every other stream is untouched -/
theorem delete_stream_cascades {y : Sys} (h : y.CatWF) {si : Ident} {s : Stream} (hs : y.findStream si = .ok s) :
    ∃ y', step y (.deleteStream si) =
        (y', .ok, (s.topics.map (fun te => te.2.parts.map (fun pe => Effect.deleted (s.id, te.1, pe.1)))).flatten) ∧
      find? y'.streams s.id = none ∧
      (∀ k, k ≠ s.id → find? y'.streams k = find? y.streams k) ∧
      (∀ k ∈ y'.allKeys, k.1 ≠ s.id) ∧
      (∀ e ∈ y'.memberships, ∀ m ∈ e.2, m.1 ≠ s.id) ∧
      y'.findStream (.num s.id) = .error "stream_id_not_found" ∧
      y'.findStream (.name s.name) = .error "stream_name_not_found" :=
  deleteStream_cascades h hs

/-- `deleteTopic`: the topic is gone with all its partitions and memberships; the stream keeps its id
and name; sibling topics and other streams are untouched -/
theorem delete_topic_cascades {y : Sys} (h : y.CatWF) {si ti : Ident} {s : Stream} {t : Topic}
    (hs : y.findStream si = .ok s) (ht : s.findTopic ti = .ok t) :
    ∃ y' s', step y (.deleteTopic si ti) = (y', .ok, t.parts.map (fun pe => Effect.deleted (s.id, t.id, pe.1))) ∧
      find? y'.streams s.id = some s' ∧
      (∀ k, k ≠ s.id → find? y'.streams k = find? y.streams k) ∧
      s'.id = s.id ∧ s'.name = s.name ∧ find? s'.topics t.id = none ∧
      (∀ k, k ≠ t.id → find? s'.topics k = find? s.topics k) ∧
      (∀ k ∈ y'.allKeys, ¬ (k.1 = s.id ∧ k.2.1 = t.id)) ∧
      (∀ e ∈ y'.memberships, ∀ m ∈ e.2, ¬ (m.1 = s.id ∧ m.2.1 = t.id)) :=
  deleteTopic_cascades h hs ht

/-- `deleteGroup`: the group is gone, its memberships are dropped and its stored offset is erased from
every partition of the topic — and nothing else: the topic keeps id, name, settings, the other groups
and every partition (only `grpOffs` loses the entry of that group, see `group_offsets_erased`);
sibling topics and other streams are untouched -/
theorem delete_group_cascades {y : Sys} {si ti gi : Ident} {s : Stream} {t : Topic} {g : Group}
    (hs : y.findStream si = .ok s) (ht : s.findTopic ti = .ok t) (hg : t.findGroup gi = .ok g) :
    ∃ y' s' t' effs, step y (.deleteGroup si ti gi) = (y', .ok, effs) ∧
      find? y'.streams s.id = some s' ∧
      (∀ k, k ≠ s.id → find? y'.streams k = find? y.streams k) ∧
      s'.id = s.id ∧ s'.name = s.name ∧ find? s'.topics t.id = some t' ∧
      (∀ k, k ≠ t.id → find? s'.topics k = find? s.topics k) ∧
      t'.id = t.id ∧ t'.name = t.name ∧ t'.expiry = t.expiry ∧ t'.maxSize = t.maxSize ∧ t'.repl = t.repl ∧
      find? t'.groups g.id = none ∧
      (∀ k, k ≠ g.id → find? t'.groups k = find? t.groups k) ∧
      t'.parts = t.parts.map (fun pe => (pe.1, { pe.2 with grpOffs := eraseK pe.2.grpOffs g.id })) ∧
      (∀ e ∈ y'.memberships, ∀ m ∈ e.2, m ≠ (s.id, t.id, g.id)) :=
  deleteGroup_cascades hs ht hg

/-- erasing a group's offset: that group has none afterwards, every other group's offset is intact -/
theorem group_offsets_erased (l : List (Nat × Nat)) (k : Nat) :
    lookup (eraseK l k) k = none ∧ ∀ k', k' ≠ k → lookup (eraseK l k) k' = lookup l k' :=
  eraseK_lookup l k

/-! ## 6. create, then get; no spurious failure -/

/-- a `createStream` with a name no stream has and an explicit id no stream has — or no explicit id —
never fails (the allocator always finds a free id), and an explicit id is the one assigned -/
theorem create_stream_no_spurious_failure {y : Sys} {id : Option Nat} {name : String}
    (hname : ∀ e ∈ y.streams, e.2.name ≠ name) (hid : ∀ i, id = some i → find? y.streams i = none) :
    ∃ sid, (step y (.createStream id name)).2.1 = .okId sid ∧ (∀ i, id = some i → sid = i) :=
  createStream_succeeds hname hid

/-- after a successful `createStream` the (empty) stream is found by the returned id and by its name;
the id was free; no other stream was touched -/
theorem create_stream_then_get {y : Sys} (h : y.CatWF) {id : Option Nat} {name : String} {sid : Nat}
    (hout : (step y (.createStream id name)).2.1 = .okId sid) :
    (step y (.createStream id name)).1.findStream (.num sid) = .ok ⟨sid, name, [], 1⟩ ∧
    (step y (.createStream id name)).1.findStream (.name name) = .ok ⟨sid, name, [], 1⟩ ∧
    (∀ k, k ≠ sid → find? (step y (.createStream id name)).1.streams k = find? y.streams k) ∧
    find? y.streams sid = none :=
  createStream_get h hout

theorem create_topic_no_spurious_failure {y : Sys} {si : Ident} {id : Option Nat} {name : String} {nparts : Nat}
    {e : ExpiryArg} {m : MaxArg} {repl : Option Nat} {s : Stream} {ms : Option Nat}
    (hs : y.findStream si = .ok s) (hmax : resolveMax y.cfg y.scfg m = .ok ms)
    (hname : ∀ te ∈ s.topics, te.2.name ≠ name) (hid : ∀ i, id = some i → find? s.topics i = none) :
    ∃ tid, (step y (.createTopic si id name nparts e m repl)).2.1 = .okId tid ∧ (∀ i, id = some i → tid = i) :=
  createTopic_succeeds hs hmax hname hid

/-- after a successful `createTopic` the stream still resolves (same id and name) and the topic is found
in it by the returned id and by its name, with partitions `1..n` and no groups; sibling topics and
other streams are untouched -/
theorem create_topic_then_get {y : Sys} (h : y.CatWF) {si : Ident} {id : Option Nat} {name : String} {nparts : Nat}
    {e : ExpiryArg} {m : MaxArg} {repl : Option Nat} {s : Stream} {tid : Nat}
    (hs : y.findStream si = .ok s) (hout : (step y (.createTopic si id name nparts e m repl)).2.1 = .okId tid) :
    ∃ s' t', (step y (.createTopic si id name nparts e m repl)).1.findStream si = .ok s' ∧
      (step y (.createTopic si id name nparts e m repl)).1.findStream (.num s.id) = .ok s' ∧
      s'.id = s.id ∧ s'.name = s.name ∧
      s'.findTopic (.num tid) = .ok t' ∧ s'.findTopic (.name name) = .ok t' ∧
      t'.id = tid ∧ t'.name = name ∧ t'.parts.map (·.1) = List.range' 1 nparts ∧ t'.groups = [] ∧
      (∀ k, k ≠ tid → find? s'.topics k = find? s.topics k) ∧
      (∀ k, k ≠ s.id → find? (step y (.createTopic si id name nparts e m repl)).1.streams k = find? y.streams k) :=
  createTopic_get h hs hout

theorem create_group_no_spurious_failure {y : Sys} {si ti : Ident} {id : Option Nat} {name : String} {s : Stream}
    {t : Topic} (hs : y.findStream si = .ok s) (ht : s.findTopic ti = .ok t)
    (hname : ∀ ge ∈ t.groups, ge.2.name ≠ name) (hid : ∀ i, id = some i → find? t.groups i = none) :
    ∃ gid, (step y (.createGroup si ti id name)).2.1 = .okId gid ∧ (∀ i, id = some i → gid = i) :=
  createGroup_succeeds hs ht hname hid

/-- after a successful `createGroup` stream and topic still resolve by the identifiers used, the group is
found by the returned id and by its name, the topic keeps all its partitions and its other groups;
siblings are untouched -/
theorem create_group_then_get {y : Sys} (h : y.CatWF) {si ti : Ident} {id : Option Nat} {name : String} {s : Stream}
    {t : Topic} {gid : Nat} (hs : y.findStream si = .ok s) (ht : s.findTopic ti = .ok t)
    (hout : (step y (.createGroup si ti id name)).2.1 = .okId gid) :
    ∃ s' t', (step y (.createGroup si ti id name)).1.findStream si = .ok s' ∧ s'.findTopic ti = .ok t' ∧
      s'.id = s.id ∧ s'.name = s.name ∧ t'.id = t.id ∧ t'.name = t.name ∧ t'.parts = t.parts ∧
      t'.findGroup (.num gid) = .ok ⟨gid, name, t.parts.length, []⟩ ∧
      t'.findGroup (.name name) = .ok ⟨gid, name, t.parts.length, []⟩ ∧
      (∀ k, k ≠ gid → find? t'.groups k = find? t.groups k) ∧
      (∀ k, k ≠ t.id → find? s'.topics k = find? s.topics k) ∧
      (∀ k, k ≠ s.id → find? (step y (.createGroup si ti id name)).1.streams k = find? y.streams k) :=
  createGroup_get h hs ht hout

/-- the allocator: with one more unit of fuel than there are entries, the allocated id is free -/
theorem alloc_id_fresh {α : Type} (l : List (Nat × α)) (cursor : Nat) :
    find? l (allocId (fun i => (find? l i).isSome) cursor (l.length + 1)).1 = none :=
  allocId_fresh_assoc l cursor

/-- no command sequence makes the model "panic": in every reachable state the journal replays without
hitting a panicking arm, so a restart is never refused -/
theorem never_panics (cfg : Cfg) (scfg : SCfg) (now : Nat) (ops : List Op) (cl : List (PKey × Nat)) :
    let y := ops.foldl (fun y op => (step y op).1) (Sys.init cfg scfg now)
    (replay y.journal).panicked = false ∧ (step y (.restart cl)).2.1 = .ok := by
  have h : (ops.foldl (fun y op => (step y op).1) (Sys.init cfg scfg now)).WF := wf_run (wf_init cfg scfg now) ops
  exact ⟨h.2.1, by rw [restart_eq h]⟩

/-! ## non-vacuity -/

def exCfg : Cfg := ⟨10, 1000, true, true, false⟩
def exSCfg : SCfg := ⟨false, none, some 5000⟩

def exOps : List Op := [
  .createStream (some 3) "s3", .createStream none "s1", .createStream none "s2",
  .createTopic (.name "s3") none "a" 2 .never .default none,
  .createTopic (.num 3) (some 9) "b" 1 .default (.custom 2000) (some 2),
  .createTopic (.num 1) none "a" 1 .never .unlimited none,          -- same topic name in another stream: fine
  .createGroup (.num 3) (.name "a") none "g",
  .createGroup (.num 3) (.name "b") none "g",                         -- same group name in another topic: fine
  .updateStream (.num 3) "s3",                                        -- rename to its own name: fine
  .updateTopic (.num 3) (.name "b") "c" .never .default none]

def exY : Sys := exOps.foldl (fun y op => (step y op).1) (Sys.init exCfg exSCfg 0)

example : viewY exY =
    [(1, ⟨1, "s1", [(1, ⟨1, "a", [1], none, none, 1, []⟩)]⟩), (2, ⟨2, "s2", []⟩),
     (3, ⟨3, "s3", [(1, ⟨1, "a", [1, 2], none, some 5000, 1, [(1, ⟨1, "g", 2⟩)]⟩),
                    (9, ⟨9, "c", [1], none, some 5000, 1, [(1, ⟨1, "g", 1⟩)]⟩)]⟩)] := by decide

/-- refused commands: taken name, taken id, other stream's name on rename, sibling's name on update,
unknown entity, invalid size — the view does not move -/
example : (step exY (.createStream none "s2")).2.1 = .err "stream_name_already_exists" := by decide
example : (step exY (.createStream (some 2) "x")).2.1 = .err "stream_id_already_exists" := by decide
example : (step exY (.updateStream (.num 1) "s2")).2.1 = .err "stream_name_already_exists" := by decide
example : (step exY (.updateTopic (.num 3) (.num 9) "a" .never .default none)).2.1 = .err "topic_name_already_exists" := by
  decide
example : (step exY (.createTopic (.num 2) none "t" 1 .never (.custom 5) none)).2.1 = .err "invalid_topic_size" := by
  decide
example : (step exY (.deleteTopic (.name "s2") (.num 1))).2.1 = .err "topic_id_not_found" := by decide
example : viewY (step exY (.createTopic (.num 3) (some 9) "z" 1 .never .default none)).1 = viewY exY := by decide +kernel

/-- lookup by name = lookup by id -/
example : (exY.findStream (.name "s3")).toOption.map (·.id) = some 3 ∧
    (exY.findStream (.num 3)).toOption.map (·.name) = some "s3" := by decide

/-- delete cascades; sibling streams stay -/
example : viewY (step exY (.deleteStream (.name "s3"))).1 =
    [(1, ⟨1, "s1", [(1, ⟨1, "a", [1], none, none, 1, []⟩)]⟩), (2, ⟨2, "s2", []⟩)] := by decide
example : (step exY (.deleteStream (.name "s3"))).1.allKeys = [(1, 1, 1)] := by decide
example : (step exY (.deleteStream (.name "s3"))).2.2.length = 3 := by decide

/-- create, then get, with an allocated id that skips the taken ones (cursor 3 is taken → 4) -/
example : (step exY (.createStream none "n")).2.1 = .okId 4 := by decide
example : ((step exY (.createStream none "n")).1.findStream (.name "n")).toOption.map (·.id) = some 4 := by decide

end Iggy.Props.C06
