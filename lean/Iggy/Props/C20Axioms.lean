import Iggy.Props.C20
open Iggy.Props.C20
#print axioms chunks_flatten
#print axioms chunks_bounds
#print axioms producer_delivers
#print axioms reach_iff_run
#print axioms yields_in_order_once
#print axioms first_yield_resumes
#print axioms resume_after_committed
#print axioms lastYield_after_drop
#print axioms commit_le_yielded
#print axioms commit_le_fetched
#print axioms polled_stored
#print axioms no_stall
#print axioms no_stall_two_polls
#print axioms no_skip_across_incarnations
#print axioms yields_schedule_independent
