/-
C09 — an authenticated user's request is performed only if the user's global, per-stream or per-topic
permissions grant it under the documented hierarchy; a permission on one stream or topic never opens
another; evaluating permissions never crashes whatever combination of records the user has; granting
a user more permissions never turns an allowed request into a denied one; the root user can do
everything; changes to or deletion of a user's permissions apply to that user's next request.

Model: the rule functions `rule_*` are GENERATED from server/src/streaming/users/permissioner_rules/*.rs
(Iggy/Perm/Generated.lean, re-created on every run); the tables and their maintenance
(`initUser`/`deleteUser`/`updateUser`, `tablesOf`) are Iggy/Perm/Tables.lean; the documented hierarchy
(`Grants`, `needs`) is Iggy/Perm/Spec.lean.  All statements are for ALL permission records
`p : Option Permissions` — unbounded stream and topic maps, repeated keys allowed (map semantics via
`dedupKeys`) — and all user / stream / topic ids.

Every statement about "every rule" is proved for every entry of `allRules` by one tactic per family
(Iggy/Perm/RuleTac.lean, Iggy/Perm/RuleFacts.lean); the per-rule theorems below use the same one-line
tactic `rule_bash`.
-/
import Iggy.Perm.RuleFacts
namespace Iggy.Props.C09
open Iggy.Perm
set_option linter.unusedSimpArgs false
set_option linter.unusedVariables false

/-! ## 0. The tables answer what the record says

`Tables.view t u s` packs the six lookups a rule evaluated for user `u` at stream `s` performs;
`viewOf p s` the same six answers read off the record `p`. -/

theorem lookup_global (u : Nat) (p : Option Permissions) :
    alGet (tablesOf u p).users_permissions u = p.map (·.global) := lk_global u p

theorem lookup_stream (u s : Nat) (p : Option Permissions) :
    alGet (tablesOf u p).users_streams_permissions (u, s) = p.bind (fun p => streamRec p s) :=
  lk_stream u s p

theorem lookup_poll_all (u : Nat) (p : Option Permissions) :
    (tablesOf u p).users_that_can_poll_messages_from_all_streams.contains u =
      (match p with | some p => p.global.poll_messages | none => false) := lk_pollAll u p

theorem lookup_send_all (u : Nat) (p : Option Permissions) :
    (tablesOf u p).users_that_can_send_messages_to_all_streams.contains u =
      (match p with | some p => p.global.send_messages | none => false) := lk_sendAll u p

theorem lookup_poll_stream (u s : Nat) (p : Option Permissions) :
    (tablesOf u p).users_that_can_poll_messages_from_specific_streams.contains (u, s) =
      (match p with | some p => sflag p s (·.poll_messages) | none => false) := lk_pollS u s p

theorem lookup_send_stream (u s : Nat) (p : Option Permissions) :
    (tablesOf u p).users_that_can_send_messages_to_specific_streams.contains (u, s) =
      (match p with | some p => sflag p s (·.send_messages) | none => false) := lk_sendS u s p

/-- `dedupKeys` gives the stream map of a record map semantics: the last binding of a key wins. -/
theorem stream_map_last_wins (l : List (Nat × StreamPermissions)) (s : Nat) :
    alGet (dedupKeys l) s = alGet l.reverse s := alGet_dedupKeys l s

/-- Tables that also hold OTHER users: on tables with nothing of `u` (`Tables.Free`),
`init_permissions_for_user u p` makes all six lookups of `u` answer what `p` says … -/
theorem init_lookup (t0 : Tables) (u s : Nat) (p : Option Permissions) (hf : t0.Free u) :
    (t0.initUser u p).view u s = viewOf p s := initUser_view t0 u s p hf

/-- … and changes no lookup of any other user. -/
theorem init_other (t0 : Tables) (u u' s : Nat) (p : Option Permissions) (h : u' ≠ u) :
    (t0.initUser u p).view u' s = t0.view u' s := initUser_view_other t0 u u' s p h

theorem empty_free (u : Nat) : ({} : Tables).Free u := Tables.free_empty u

/-- `delete_permissions_for_user u` leaves nothing of `u` … -/
theorem delete_free (t0 : Tables) (u : Nat) : (t0.deleteUser u).Free u := deleteUser_free t0 u

/-- … and changes no lookup of any other user. -/
theorem delete_other (t0 : Tables) (u u' s : Nat) (h : u' ≠ u) :
    (t0.deleteUser u).view u' s = t0.view u' s := deleteUser_view_other t0 u u' s h

/-- `update_permissions_for_user u p`, on ANY tables: the lookups of `u` answer what `p` says. -/
theorem update_lookup (t0 : Tables) (u s : Nat) (p : Option Permissions) :
    (t0.updateUser u p).view u s = viewOf p s := updateUser_view t0 u s p

theorem update_other (t0 : Tables) (u u' s : Nat) (p : Option Permissions) (h : u' ≠ u) :
    (t0.updateUser u p).view u' s = t0.view u' s := updateUser_view_other t0 u u' s p h

/-! ## 1. Soundness, rule by rule -/

theorem sound_append_messages (u s tp : Nat) (p : Option Permissions) :
    rule_append_messages (tablesOf u p) u s tp = Res.ok → Grants p (.send s tp) = true := by
  intro h; rule_bash p s tp

theorem sound_change_password (u : Nat) (p : Option Permissions) :
    rule_change_password (tablesOf u p) u = Res.ok → Grants p .manageUsers = true := by
  intro h; rule_bash p

theorem sound_create_consumer_group (u s tp : Nat) (p : Option Permissions) :
    rule_create_consumer_group (tablesOf u p) u s tp = Res.ok → Grants p (.readTopic s tp) = true := by
  intro h; rule_bash p s tp

theorem sound_create_partitions (u s tp : Nat) (p : Option Permissions) :
    rule_create_partitions (tablesOf u p) u s tp = Res.ok → Grants p (.manageTopic s tp) = true := by
  intro h; rule_bash p s tp

theorem sound_create_stream (u : Nat) (p : Option Permissions) :
    rule_create_stream (tablesOf u p) u = Res.ok → Grants p .createStream = true := by
  intro h; rule_bash p

theorem sound_create_topic (u s : Nat) (p : Option Permissions) :
    rule_create_topic (tablesOf u p) u s = Res.ok → Grants p (.createTopic s) = true := by
  intro h; rule_bash p s

theorem sound_create_user (u : Nat) (p : Option Permissions) :
    rule_create_user (tablesOf u p) u = Res.ok → Grants p .manageUsers = true := by
  intro h; rule_bash p

theorem sound_delete_consumer_group (u s tp : Nat) (p : Option Permissions) :
    rule_delete_consumer_group (tablesOf u p) u s tp = Res.ok → Grants p (.readTopic s tp) = true := by
  intro h; rule_bash p s tp

theorem sound_delete_consumer_offset (u s tp : Nat) (p : Option Permissions) :
    rule_delete_consumer_offset (tablesOf u p) u s tp = Res.ok → Grants p (.poll s tp) = true := by
  intro h; rule_bash p s tp

theorem sound_delete_partitions (u s tp : Nat) (p : Option Permissions) :
    rule_delete_partitions (tablesOf u p) u s tp = Res.ok → Grants p (.manageTopic s tp) = true := by
  intro h; rule_bash p s tp

theorem sound_delete_stream (u s : Nat) (p : Option Permissions) :
    rule_delete_stream (tablesOf u p) u s = Res.ok → Grants p (.manageStream s) = true := by
  intro h; rule_bash p s

theorem sound_delete_topic (u s tp : Nat) (p : Option Permissions) :
    rule_delete_topic (tablesOf u p) u s tp = Res.ok → Grants p (.manageTopic s tp) = true := by
  intro h; rule_bash p s tp

theorem sound_delete_user (u : Nat) (p : Option Permissions) :
    rule_delete_user (tablesOf u p) u = Res.ok → Grants p .manageUsers = true := by
  intro h; rule_bash p

theorem sound_get_client (u : Nat) (p : Option Permissions) :
    rule_get_client (tablesOf u p) u = Res.ok → Grants p .readServers = true := by
  intro h; rule_bash p

theorem sound_get_clients (u : Nat) (p : Option Permissions) :
    rule_get_clients (tablesOf u p) u = Res.ok → Grants p .readServers = true := by
  intro h; rule_bash p

theorem sound_get_consumer_group (u s tp : Nat) (p : Option Permissions) :
    rule_get_consumer_group (tablesOf u p) u s tp = Res.ok → Grants p (.readTopic s tp) = true := by
  intro h; rule_bash p s tp

theorem sound_get_consumer_groups (u s tp : Nat) (p : Option Permissions) :
    rule_get_consumer_groups (tablesOf u p) u s tp = Res.ok → Grants p (.readTopic s tp) = true := by
  intro h; rule_bash p s tp

theorem sound_get_consumer_offset (u s tp : Nat) (p : Option Permissions) :
    rule_get_consumer_offset (tablesOf u p) u s tp = Res.ok → Grants p (.poll s tp) = true := by
  intro h; rule_bash p s tp

theorem sound_get_stats (u : Nat) (p : Option Permissions) :
    rule_get_stats (tablesOf u p) u = Res.ok → Grants p .readServers = true := by
  intro h; rule_bash p

theorem sound_get_stream (u s : Nat) (p : Option Permissions) :
    rule_get_stream (tablesOf u p) u s = Res.ok → Grants p (.readStream s) = true := by
  intro h; rule_bash p s

theorem sound_get_streams (u : Nat) (p : Option Permissions) :
    rule_get_streams (tablesOf u p) u = Res.ok → Grants p .listStreams = true := by
  intro h; rule_bash p

theorem sound_get_topic (u s tp : Nat) (p : Option Permissions) :
    rule_get_topic (tablesOf u p) u s tp = Res.ok → Grants p (.readTopic s tp) = true := by
  intro h; rule_bash p s tp

theorem sound_get_topics (u s : Nat) (p : Option Permissions) :
    rule_get_topics (tablesOf u p) u s = Res.ok → Grants p (.listTopics s) = true := by
  intro h; rule_bash p s

theorem sound_get_user (u : Nat) (p : Option Permissions) :
    rule_get_user (tablesOf u p) u = Res.ok → Grants p .readUsers = true := by
  intro h; rule_bash p

theorem sound_get_users (u : Nat) (p : Option Permissions) :
    rule_get_users (tablesOf u p) u = Res.ok → Grants p .readUsers = true := by
  intro h; rule_bash p

theorem sound_join_consumer_group (u s tp : Nat) (p : Option Permissions) :
    rule_join_consumer_group (tablesOf u p) u s tp = Res.ok → Grants p (.readTopic s tp) = true := by
  intro h; rule_bash p s tp

theorem sound_leave_consumer_group (u s tp : Nat) (p : Option Permissions) :
    rule_leave_consumer_group (tablesOf u p) u s tp = Res.ok → Grants p (.readTopic s tp) = true := by
  intro h; rule_bash p s tp

theorem sound_poll_messages (u s tp : Nat) (p : Option Permissions) :
    rule_poll_messages (tablesOf u p) u s tp = Res.ok → Grants p (.poll s tp) = true := by
  intro h; rule_bash p s tp

theorem sound_purge_stream (u s : Nat) (p : Option Permissions) :
    rule_purge_stream (tablesOf u p) u s = Res.ok → Grants p (.manageStream s) = true := by
  intro h; rule_bash p s

theorem sound_purge_topic (u s tp : Nat) (p : Option Permissions) :
    rule_purge_topic (tablesOf u p) u s tp = Res.ok → Grants p (.manageTopic s tp) = true := by
  intro h; rule_bash p s tp

theorem sound_store_consumer_offset (u s tp : Nat) (p : Option Permissions) :
    rule_store_consumer_offset (tablesOf u p) u s tp = Res.ok → Grants p (.poll s tp) = true := by
  intro h; rule_bash p s tp

theorem sound_update_permissions (u : Nat) (p : Option Permissions) :
    rule_update_permissions (tablesOf u p) u = Res.ok → Grants p .manageUsers = true := by
  intro h; rule_bash p

theorem sound_update_stream (u s : Nat) (p : Option Permissions) :
    rule_update_stream (tablesOf u p) u s = Res.ok → Grants p (.manageStream s) = true := by
  intro h; rule_bash p s

theorem sound_update_topic (u s tp : Nat) (p : Option Permissions) :
    rule_update_topic (tablesOf u p) u s tp = Res.ok → Grants p (.manageTopic s tp) = true := by
  intro h; rule_bash p s tp

theorem sound_update_user (u : Nat) (p : Option Permissions) :
    rule_update_user (tablesOf u p) u = Res.ok → Grants p .manageUsers = true := by
  intro h; rule_bash p

/-- **Sound**, uniformly over the rule table: a public rule answers `ok` only if the user's record
grants, under the documented hierarchy, the capability the rule needs. -/
theorem sound (u s tp : Nat) (p : Option Permissions) :
    ∀ name f, (name, f) ∈ allRules → name ∈ publicRules → ∀ c, needs name s tp = some c →
      f (tablesOf u p) u s tp = Res.ok → Grants p c = true :=
  fun name f hm hp c hc h => rules_sound (name, f) hm u s tp hp c hc p h

/-- `sound` says something about every public rule: each has a documented capability … -/
theorem needs_total : ∀ n ∈ publicRules, ∀ s tp : Nat, (needs n s tp).isSome = true := by
  simp only [publicRules, List.forall_mem_cons, List.not_mem_nil, false_imp_iff, implies_true, and_true]
  and_intros <;> (intro s tp; rfl)

/-- … and each is in the rule table. -/
theorem public_in_table : ∀ n ∈ publicRules, n ∈ allRules.map (·.1) := by decide

/-- A user without permission record is refused everything (all 40 rules). -/
theorem no_record_denied (u s tp : Nat) :
    ∀ name f, (name, f) ∈ allRules → f (tablesOf u none) u s tp = Res.unauthorized :=
  fun name f hm => rules_none (name, f) hm u s tp

/-! ## 2. No panic, rule by rule (public and private) -/

theorem no_panic_append_messages (u s tp : Nat) (p : Option Permissions) :
    rule_append_messages (tablesOf u p) u s tp ≠ Res.panic := by
  rule_bash p s tp

theorem no_panic_change_password (u : Nat) (p : Option Permissions) :
    rule_change_password (tablesOf u p) u ≠ Res.panic := by
  rule_bash p

theorem no_panic_create_consumer_group (u s tp : Nat) (p : Option Permissions) :
    rule_create_consumer_group (tablesOf u p) u s tp ≠ Res.panic := by
  rule_bash p s tp

theorem no_panic_create_partitions (u s tp : Nat) (p : Option Permissions) :
    rule_create_partitions (tablesOf u p) u s tp ≠ Res.panic := by
  rule_bash p s tp

theorem no_panic_create_stream (u : Nat) (p : Option Permissions) :
    rule_create_stream (tablesOf u p) u ≠ Res.panic := by
  rule_bash p

theorem no_panic_create_topic (u s : Nat) (p : Option Permissions) :
    rule_create_topic (tablesOf u p) u s ≠ Res.panic := by
  rule_bash p s

theorem no_panic_create_user (u : Nat) (p : Option Permissions) :
    rule_create_user (tablesOf u p) u ≠ Res.panic := by
  rule_bash p

theorem no_panic_delete_consumer_group (u s tp : Nat) (p : Option Permissions) :
    rule_delete_consumer_group (tablesOf u p) u s tp ≠ Res.panic := by
  rule_bash p s tp

theorem no_panic_delete_consumer_offset (u s tp : Nat) (p : Option Permissions) :
    rule_delete_consumer_offset (tablesOf u p) u s tp ≠ Res.panic := by
  rule_bash p s tp

theorem no_panic_delete_partitions (u s tp : Nat) (p : Option Permissions) :
    rule_delete_partitions (tablesOf u p) u s tp ≠ Res.panic := by
  rule_bash p s tp

theorem no_panic_delete_stream (u s : Nat) (p : Option Permissions) :
    rule_delete_stream (tablesOf u p) u s ≠ Res.panic := by
  rule_bash p s

theorem no_panic_delete_topic (u s tp : Nat) (p : Option Permissions) :
    rule_delete_topic (tablesOf u p) u s tp ≠ Res.panic := by
  rule_bash p s tp

theorem no_panic_delete_user (u : Nat) (p : Option Permissions) :
    rule_delete_user (tablesOf u p) u ≠ Res.panic := by
  rule_bash p

theorem no_panic_get_client (u : Nat) (p : Option Permissions) :
    rule_get_client (tablesOf u p) u ≠ Res.panic := by
  rule_bash p

theorem no_panic_get_clients (u : Nat) (p : Option Permissions) :
    rule_get_clients (tablesOf u p) u ≠ Res.panic := by
  rule_bash p

theorem no_panic_get_consumer_group (u s tp : Nat) (p : Option Permissions) :
    rule_get_consumer_group (tablesOf u p) u s tp ≠ Res.panic := by
  rule_bash p s tp

theorem no_panic_get_consumer_groups (u s tp : Nat) (p : Option Permissions) :
    rule_get_consumer_groups (tablesOf u p) u s tp ≠ Res.panic := by
  rule_bash p s tp

theorem no_panic_get_consumer_offset (u s tp : Nat) (p : Option Permissions) :
    rule_get_consumer_offset (tablesOf u p) u s tp ≠ Res.panic := by
  rule_bash p s tp

theorem no_panic_get_server_info (u : Nat) (p : Option Permissions) :
    rule_get_server_info (tablesOf u p) u ≠ Res.panic := by
  rule_bash p

theorem no_panic_get_stats (u : Nat) (p : Option Permissions) :
    rule_get_stats (tablesOf u p) u ≠ Res.panic := by
  rule_bash p

theorem no_panic_get_stream (u s : Nat) (p : Option Permissions) :
    rule_get_stream (tablesOf u p) u s ≠ Res.panic := by
  rule_bash p s

theorem no_panic_get_streams (u : Nat) (p : Option Permissions) :
    rule_get_streams (tablesOf u p) u ≠ Res.panic := by
  rule_bash p

theorem no_panic_get_topic (u s tp : Nat) (p : Option Permissions) :
    rule_get_topic (tablesOf u p) u s tp ≠ Res.panic := by
  rule_bash p s tp

theorem no_panic_get_topics (u s : Nat) (p : Option Permissions) :
    rule_get_topics (tablesOf u p) u s ≠ Res.panic := by
  rule_bash p s

theorem no_panic_get_user (u : Nat) (p : Option Permissions) :
    rule_get_user (tablesOf u p) u ≠ Res.panic := by
  rule_bash p

theorem no_panic_get_users (u : Nat) (p : Option Permissions) :
    rule_get_users (tablesOf u p) u ≠ Res.panic := by
  rule_bash p

theorem no_panic_join_consumer_group (u s tp : Nat) (p : Option Permissions) :
    rule_join_consumer_group (tablesOf u p) u s tp ≠ Res.panic := by
  rule_bash p s tp

theorem no_panic_leave_consumer_group (u s tp : Nat) (p : Option Permissions) :
    rule_leave_consumer_group (tablesOf u p) u s tp ≠ Res.panic := by
  rule_bash p s tp

theorem no_panic_manage_stream (u s : Nat) (p : Option Permissions) :
    rule_manage_stream (tablesOf u p) u s ≠ Res.panic := by
  rule_bash p s

theorem no_panic_manage_topic (u s tp : Nat) (p : Option Permissions) :
    rule_manage_topic (tablesOf u p) u s tp ≠ Res.panic := by
  rule_bash p s tp

theorem no_panic_manager_users (u : Nat) (p : Option Permissions) :
    rule_manager_users (tablesOf u p) u ≠ Res.panic := by
  rule_bash p

theorem no_panic_poll_messages (u s tp : Nat) (p : Option Permissions) :
    rule_poll_messages (tablesOf u p) u s tp ≠ Res.panic := by
  rule_bash p s tp

theorem no_panic_purge_stream (u s : Nat) (p : Option Permissions) :
    rule_purge_stream (tablesOf u p) u s ≠ Res.panic := by
  rule_bash p s

theorem no_panic_purge_topic (u s tp : Nat) (p : Option Permissions) :
    rule_purge_topic (tablesOf u p) u s tp ≠ Res.panic := by
  rule_bash p s tp

theorem no_panic_read_users (u : Nat) (p : Option Permissions) :
    rule_read_users (tablesOf u p) u ≠ Res.panic := by
  rule_bash p

theorem no_panic_store_consumer_offset (u s tp : Nat) (p : Option Permissions) :
    rule_store_consumer_offset (tablesOf u p) u s tp ≠ Res.panic := by
  rule_bash p s tp

theorem no_panic_update_permissions (u : Nat) (p : Option Permissions) :
    rule_update_permissions (tablesOf u p) u ≠ Res.panic := by
  rule_bash p

theorem no_panic_update_stream (u s : Nat) (p : Option Permissions) :
    rule_update_stream (tablesOf u p) u s ≠ Res.panic := by
  rule_bash p s

theorem no_panic_update_topic (u s tp : Nat) (p : Option Permissions) :
    rule_update_topic (tablesOf u p) u s tp ≠ Res.panic := by
  rule_bash p s tp

theorem no_panic_update_user (u : Nat) (p : Option Permissions) :
    rule_update_user (tablesOf u p) u ≠ Res.panic := by
  rule_bash p

/-- **No panic**, uniformly: no rule (public or private) panics, for every record — in particular
for records with a stream entry without topic table. -/
theorem no_panic (u s tp : Nat) (p : Option Permissions) :
    ∀ name f, (name, f) ∈ allRules → f (tablesOf u p) u s tp ≠ Res.panic :=
  fun name f hm => rules_no_panic (name, f) hm u s tp p

/-! ## 3. A permission on one stream or topic never opens another -/

/-- A rule evaluated for `(u, s, tp)` reads the tables only through the six lookups keyed by `u`
and `(u, s)`. -/
theorem reads_only_view (t t' : Tables) (u s tp : Nat) :
    ∀ name f, (name, f) ∈ allRules → t.view u s = t'.view u s → f t u s tp = f t' u s tp :=
  fun name f hm h => rules_read_view (name, f) hm t t' u s tp h

/-- **Local**: the outcome at `(u, s, tp)` depends only on the global record and the record of
stream `s`. -/
theorem rule_local (u s tp : Nat) (p p' : Option Permissions) :
    ∀ name f, (name, f) ∈ allRules →
      p.map (·.global) = p'.map (·.global) →
      p.bind (fun p => streamRec p s) = p'.bind (fun p => streamRec p s) →
      f (tablesOf u p) u s tp = f (tablesOf u p') u s tp := by
  intro name f hm hg hs
  exact rules_read_view (name, f) hm _ _ u s tp
    (by rw [tablesOf_view, tablesOf_view]; exact viewOf_congr p p' s hg hs)

/-- **Local, topic level**: of the record of stream `s` only the stream-level flags and the entry
of topic `tp` matter (`topicSight tp sp = ({sp with topics := none}, topicRec sp tp)`). -/
theorem rule_local_topic (u s tp : Nat) (p p' : Option Permissions) :
    ∀ name f, (name, f) ∈ allRules →
      p.map (·.global) = p'.map (·.global) →
      (p.bind (fun p => streamRec p s)).map (topicSight tp) =
        (p'.bind (fun p => streamRec p s)).map (topicSight tp) →
      f (tablesOf u p) u s tp = f (tablesOf u p') u s tp :=
  fun name f hm hg hs => rules_local (name, f) hm u s tp p p' hg hs

/-- `Local` (the name Iggy/Perm/Tables.lean and Iggy/Perm/Enum.lean refer to): the topic-level
statement — it is what makes the enumerated record space of Iggy/Perm/Enum.lean (one stream entry,
one topic entry) exhaustive. -/
theorem Local (u s tp : Nat) (p p' : Option Permissions) :
    ∀ name f, (name, f) ∈ allRules →
      p.map (·.global) = p'.map (·.global) →
      (p.bind (fun p => streamRec p s)).map (topicSight tp) =
        (p'.bind (fun p => streamRec p s)).map (topicSight tp) →
      f (tablesOf u p) u s tp = f (tablesOf u p') u s tp := rule_local_topic u s tp p p'

/-- Writing (adding or replacing) the record of ANOTHER stream `s' ≠ s` changes no outcome at
`(s, tp)`. -/
theorem other_stream_irrelevant (u s s' tp : Nat) (p : Permissions) (sp' : StreamPermissions)
    (hne : s' ≠ s) :
    ∀ name f, (name, f) ∈ allRules →
      f (tablesOf u (some (p.setStream s' sp'))) u s tp = f (tablesOf u (some p)) u s tp := by
  intro name f hm
  apply rule_local u s tp _ _ name f hm
  · rfl
  · simp only [Option.bind_some, streamRec_setStream, if_neg hne]

/-- Writing the entry of ANOTHER topic `tp' ≠ tp` inside the record of stream `s` changes no
outcome at `(s, tp)`. -/
theorem other_topic_irrelevant (u s tp tp' : Nat) (p : Permissions) (sp : StreamPermissions)
    (t' : TopicPermissions) (hsp : streamRec p s = some sp) (hne : tp' ≠ tp) :
    ∀ name f, (name, f) ∈ allRules →
      f (tablesOf u (some (p.setStream s (sp.setTopic tp' t')))) u s tp =
        f (tablesOf u (some p)) u s tp := by
  intro name f hm
  apply rule_local_topic u s tp _ _ name f hm
  · rfl
  · simp only [Option.bind_some, streamRec_setStream, if_true, hsp, Option.map_some,
      topicSight_setTopic _ _ _ _ hne]

/-- In particular a record that has nothing but entries for OTHER streams is refused whatever the
global record refuses: the outcome is that of the record without stream map. -/
theorem only_other_streams (u s tp : Nat) (p : Permissions) (h : streamRec p s = none) :
    ∀ name f, (name, f) ∈ allRules →
      f (tablesOf u (some p)) u s tp = f (tablesOf u (some { p with streams := none })) u s tp := by
  intro name f hm
  apply rule_local u s tp _ _ name f hm
  · rfl
  · simp only [Option.bind_some, h]; rfl

/-! ## 4. More permissions never deny -/

/-- **Monotone**: if `p'` has every flag `p` has on every level (`Permissions.le`), every request
`p` allows is allowed under `p'` (all 40 rules). -/
theorem monotone (u s tp : Nat) (p p' : Permissions) (hle : p.le p') :
    ∀ name f, (name, f) ∈ allRules →
      f (tablesOf u (some p)) u s tp = Res.ok → f (tablesOf u (some p')) u s tp = Res.ok :=
  fun name f hm h => rules_mono (name, f) hm u s tp p p' (hle.at s tp) h

/-- `Permissions.le` is not empty: it is reflexive … -/
theorem le_refl (p : Permissions) : p.le p := Permissions.le_refl p

/-- … and giving a user without any record one is "more" too: nothing is allowed before. -/
theorem monotone_from_none (u s tp : Nat) (p' : Option Permissions) :
    ∀ name f, (name, f) ∈ allRules →
      f (tablesOf u none) u s tp = Res.ok → f (tablesOf u p') u s tp = Res.ok := by
  intro name f hm h
  rw [no_record_denied u s tp name f hm] at h
  cases h

/-! ## 5. Root can do everything -/

/-- **Root**: the root record passes every rule, at every stream and topic. -/
theorem root_all (u s tp : Nat) :
    ∀ name f, (name, f) ∈ allRules → f (tablesOf u (some Permissions.root)) u s tp = Res.ok :=
  fun name f hm => rules_root (name, f) hm u s tp

/-! ## 6. Updates and deletion apply to the next request -/

/-- **Update applies next**: after `update_permissions_for_user u p` on ANY tables, every rule
evaluated for `u` answers exactly as on the tables of the new record alone — the old record has no
influence. -/
theorem update_applies_next (t0 : Tables) (u s tp : Nat) (p : Option Permissions) :
    ∀ name f, (name, f) ∈ allRules → f (t0.updateUser u p) u s tp = f (tablesOf u p) u s tp :=
  fun name f hm => rules_read_view (name, f) hm _ _ u s tp (by rw [updateUser_view, tablesOf_view])

/-- The same for the first `init_permissions_for_user` of a user the tables hold nothing of. -/
theorem init_applies_next (t0 : Tables) (u s tp : Nat) (p : Option Permissions) (hf : t0.Free u) :
    ∀ name f, (name, f) ∈ allRules → f (t0.initUser u p) u s tp = f (tablesOf u p) u s tp :=
  fun name f hm => rules_read_view (name, f) hm _ _ u s tp (by rw [initUser_view _ _ _ _ hf, tablesOf_view])

/-- Deletion applies next: after `delete_permissions_for_user u`, as a user without record. -/
theorem delete_applies_next (t0 : Tables) (u s tp : Nat) :
    ∀ name f, (name, f) ∈ allRules → f (t0.deleteUser u) u s tp = f (tablesOf u none) u s tp :=
  fun name f hm => rules_read_view (name, f) hm _ _ u s tp
    (by rw [deleteUser_free t0 u s, tablesOf_view])

/-- **Deleted user denied**: every rule refuses a deleted user. -/
theorem deleted_user_denied (t0 : Tables) (u s tp : Nat) :
    ∀ name f, (name, f) ∈ allRules → f (t0.deleteUser u) u s tp = Res.unauthorized := by
  intro name f hm
  rw [delete_applies_next t0 u s tp name f hm]
  exact no_record_denied u s tp name f hm

/-- Updating `u` changes nothing for any other user `u'`. -/
theorem update_other_user_unaffected (t0 : Tables) (u u' s tp : Nat) (p : Option Permissions)
    (h : u' ≠ u) :
    ∀ name f, (name, f) ∈ allRules → f (t0.updateUser u p) u' s tp = f t0 u' s tp :=
  fun name f hm => rules_read_view (name, f) hm _ _ u' s tp (updateUser_view_other t0 u u' s p h)

/-- Deleting `u` changes nothing for any other user `u'`. -/
theorem delete_other_user_unaffected (t0 : Tables) (u u' s tp : Nat) (h : u' ≠ u) :
    ∀ name f, (name, f) ∈ allRules → f (t0.deleteUser u) u' s tp = f t0 u' s tp :=
  fun name f hm => rules_read_view (name, f) hm _ _ u' s tp (deleteUser_view_other t0 u u' s h)

/-- Sound on live tables: after `update_permissions_for_user u p` on any tables, a public rule
answers `ok` for `u` only if `p` grants what it needs. -/
theorem sound_after_update (t0 : Tables) (u s tp : Nat) (p : Option Permissions) :
    ∀ name f, (name, f) ∈ allRules → name ∈ publicRules → ∀ c, needs name s tp = some c →
      f (t0.updateUser u p) u s tp = Res.ok → Grants p c = true := by
  intro name f hm hp c hc h
  rw [update_applies_next t0 u s tp p name f hm] at h
  exact sound u s tp p name f hm hp c hc h

/-- No panic on live tables: after `update_permissions_for_user u p` on any tables. -/
theorem no_panic_after_update (t0 : Tables) (u s tp : Nat) (p : Option Permissions) :
    ∀ name f, (name, f) ∈ allRules → f (t0.updateUser u p) u s tp ≠ Res.panic := by
  intro name f hm
  rw [update_applies_next t0 u s tp p name f hm]
  exact no_panic u s tp p name f hm

/-! ## 7. Non-vacuity -/

/-- the uniform statements instantiate to a named rule by `rule_mem` -/
example (t0 : Tables) (u s tp : Nat) (p : Option Permissions) :
    rule_poll_messages (t0.updateUser u p) u s tp = rule_poll_messages (tablesOf u p) u s tp :=
  update_applies_next t0 u s tp p "poll_messages" (fun t u s tp => rule_poll_messages t u s tp) (by rule_mem)

example (u s tp : Nat) : rule_append_messages (tablesOf u (some Permissions.root)) u s tp = Res.ok :=
  root_all u s tp "append_messages" (fun t u s tp => rule_append_messages t u s tp) (by rule_mem)

/-- a record with a stream entry WITHOUT topic table and without any useful flag -/
def exNoTopics : Permissions :=
  { global := ⟨false, false, false, false, false, false, false, false, false, false⟩
    streams := some [(3, ⟨false, false, false, false, false, false, none⟩)] }

/-- … is refused, not a panic — by the rules that `unwrap` in the Rust source too -/
example : rule_get_topic (tablesOf 7 (some exNoTopics)) 7 3 5 = Res.unauthorized := by decide
example : rule_poll_messages (tablesOf 7 (some exNoTopics)) 7 3 5 = Res.unauthorized := by decide
example : rule_append_messages (tablesOf 7 (some exNoTopics)) 7 3 5 = Res.unauthorized := by decide

/-- a record whose only permission is `read_topic` on topic 5 of stream 3 -/
def exTopic : Permissions :=
  { global := ⟨false, false, false, false, false, false, false, false, false, false⟩
    streams := some [(3, ⟨false, false, false, false, false, false,
      some [(5, ⟨false, true, false, false⟩)]⟩)] }

/-- … opens `get_topic` at (3, 5), and neither (3, 6) nor (4, 5); nor `update_topic` at (3, 5) -/
example : rule_get_topic (tablesOf 7 (some exTopic)) 7 3 5 = Res.ok := by decide
example : rule_get_topic (tablesOf 7 (some exTopic)) 7 3 6 = Res.unauthorized := by decide
example : rule_get_topic (tablesOf 7 (some exTopic)) 7 4 5 = Res.unauthorized := by decide
example : rule_update_topic (tablesOf 7 (some exTopic)) 7 3 5 = Res.unauthorized := by decide
example : Grants (some exTopic) (.readTopic 3 5) = true := by decide
example : Grants (some exTopic) (.readTopic 3 6) = false := by decide
/-- another user sees nothing of it, on the same tables -/
example : rule_get_topic (tablesOf 7 (some exTopic)) 8 3 5 = Res.unauthorized := by decide

/-- a repeated stream key: the last binding wins (map semantics), in the tables and in the spec -/
def exDup : Permissions :=
  { global := ⟨false, false, false, false, false, false, false, false, false, false⟩
    streams := some [(3, ⟨true, true, true, true, true, true, none⟩),
                     (3, ⟨false, false, false, false, false, false, none⟩)] }
example : rule_get_stream (tablesOf 7 (some exDup)) 7 3 = Res.unauthorized := by decide
example : Grants (some exDup) (.readStream 3) = false := by decide

/-- root, and the update/delete cycle on tables that hold two users -/
example : rule_append_messages (tablesOf 1 (some Permissions.root)) 1 3 5 = Res.ok := by decide
example : rule_create_user (tablesOf 1 (some Permissions.root)) 1 = Res.ok := by decide
example :
    let t := ((tablesOf 1 (some Permissions.root)).updateUser 7 (some exTopic))
    rule_get_topic t 7 3 5 = Res.ok ∧
    rule_get_topic (t.updateUser 7 (some exNoTopics)) 7 3 5 = Res.unauthorized ∧
    rule_get_topic (t.deleteUser 7) 7 3 5 = Res.unauthorized ∧
    rule_get_topic (t.deleteUser 7) 1 3 5 = Res.ok := by decide

/-- `Permissions.le` holds between different records: `exNoTopics ≤ exDup'` … -/
example : exNoTopics.le { exNoTopics with global := Permissions.root.global } := by
  refine ⟨by decide, fun s sp hs => ⟨sp, hs, ?_, fun tp t ht => ⟨t, ht, ?_⟩⟩⟩
  · cases sp; simp [spLe]
  · cases t; simp [tpLe]

end Iggy.Props.C09

