/-
C11 — the state journal is always loadable, and the loader accepts nothing but a prefix of the true
history.

Model: Iggy/Journal/Model.lean (entry layout, the loader `load`, one journal append `FState.apply`),
validated byte for byte against the server by differential testing. The checksum `ck` and the command
check `valid` are parameters of every statement. Definitions used below (Iggy/Journal/Lemmas.lean):
`Entry.WF` (every fixed-width field in range), `Consecutive es` (the entry at position `i` carries
index `i`), `Good ck valid e` (in range, stored checksum = `ck` of the content, valid command),
`WFJournal ck valid es` (`Consecutive` and every entry `Good`), `Apply` (one request: timestamp, user,
command code, payload, and whether its write fails), `run` (a sequence of requests), `written` (the
entries they write), `offsetOf es j` (byte offset at which entry `j` starts), `Entry.lenFieldPos`
(offsets of the two length fields inside an entry), `Burst ck` (the checksum detects every single-byte
change — an assumption about CRC-32, always stated as an explicit hypothesis).
-/
import Iggy.Journal.Lemmas
namespace Iggy.Props.C11
open Iggy.Journal

/-! ## 0. bytes and the one-entry round trip -/

/-- `k` little-endian bytes of `n` are `k` bytes -/
theorem leBytes_length (k n : Nat) : (leBytes k n).length = k := Iggy.Journal.leBytes_length k n

/-- reading back `k` little-endian bytes of `n` gives `n` modulo `256^k` -/
theorem leVal_leBytes (k n : Nat) : leVal (leBytes k n) = n % 256 ^ k := Iggy.Journal.leVal_leBytes k n

/-- a 32-bit value survives its 4-byte encoding -/
theorem leVal_le32 {n : Nat} (h : n < 2 ^ 32) : leVal (le32 n) = n := Iggy.Journal.leVal_le32 h

/-- a 64-bit value survives its 8-byte encoding -/
theorem leVal_le64 {n : Nat} (h : n < 2 ^ 64) : leVal (le64 n) = n := Iggy.Journal.leVal_le64 h

/-- Reading one entry back from its encoding, whatever bytes follow it, returns exactly that entry and
leaves exactly the following bytes. -/
theorem parseOne_encode {e : Entry} (h : e.WF) (rest : Bytes) :
    parseOne (e.encode ++ rest) = some (e, rest) := Iggy.Journal.parseOne_encode h rest

/-- Conversely, whatever the reader accepts as one entry is an in-range entry whose encoding is exactly
the bytes consumed. -/
theorem parseOne_sound {b rest : Bytes} {e : Entry} (h : parseOne b = some (e, rest)) :
    b = e.encode ++ rest ∧ e.WF := Iggy.Journal.parseOne_sound h

/-! ## 1. round trip of a whole journal -/

/-- A file made of in-range entries with indices 0, 1, 2, … in order, each with a matching checksum and
a valid command, loads to exactly those entries. -/
theorem load_roundtrip {ck : Bytes → Nat} {valid : Bytes → Bool} {es : List Entry}
    (h : ∀ e ∈ es, e.WF ∧ valid e.cmd = true ∧ e.checksum = ck e.ckInput) (hc : Consecutive es) :
    load ck valid (encodeAll es) = .ok es :=
  load_encodeAll ⟨hc, fun e he => ⟨(h e he).1, (h e he).2.2, (h e he).2.1⟩⟩

/-! ## 3. whatever loads is a well-formed journal -/

/-- the loader always answers: an error or a list of entries (it is a total function; in particular its
iteration bound, the file length, is never exhausted with input left over — see `load_sound`: an
accepted file is accounted for to the last byte) -/
theorem load_err_or_ok (ck : Bytes → Nat) (valid : Bytes → Bool) (b : Bytes) :
    (∃ err, load ck valid b = .error err) ∨ ∃ es, load ck valid b = .ok es := by
  cases h : load ck valid b with
  | error err => exact .inl ⟨err, rfl⟩
  | ok es => exact .inr ⟨es, rfl⟩

/-- If a byte string loads, it is — to the last byte — the encoding of the entries returned, their
indices are 0, 1, 2, … in order, and each of them has a checksum that matches its content, a valid
command and in-range fields. No byte string is ever accepted as anything other than the journal it
literally encodes. -/
theorem load_sound {ck : Bytes → Nat} {valid : Bytes → Bool} {b : Bytes} {es : List Entry}
    (h : load ck valid b = .ok es) :
    b = encodeAll es ∧ Consecutive es ∧
      ∀ e ∈ es, e.checksum = ck e.ckInput ∧ valid e.cmd = true ∧ e.WF := by
  obtain ⟨hb, hc, hg⟩ := load_sound' h
  exact ⟨hb, hc, fun e he => ⟨(hg e he).ck, (hg e he).valid, (hg e he).wf⟩⟩

/-- exact characterisation of the loader: it accepts a byte string with result `es` if and only if the
string is the encoding of `es` and `es` is a well-formed journal -/
theorem load_ok_iff {ck : Bytes → Nat} {valid : Bytes → Bool} {b : Bytes} {es : List Entry} :
    load ck valid b = .ok es ↔ b = encodeAll es ∧ WFJournal ck valid es := Iggy.Journal.load_ok_iff

/-- two in-range entry lists with the same bytes are the same list: a file has at most one reading -/
theorem encodeAll_injective {es es' : List Entry} (h : ∀ e ∈ es, e.WF) (h' : ∀ e ∈ es', e.WF)
    (heq : encodeAll es = encodeAll es') : es = es' := encodeAll_inj h h' heq

/-! ## 2. every sequence of applies leaves a well-formed, loadable journal -/

/-- Starting from an empty journal, after any sequence of requests with an arbitrary pattern of failed
writes (the `fail` flags), the file is the encoding of a list of entries with indices 0, 1, 2, … in
file order, each carrying the checksum of its content; the entry counter equals their number; and
the commands recorded are exactly those of the requests whose write succeeded, in order.

Concurrency: index allocation and the append happen under one lock (fix aac4330) and a failed append
gives its index back, so every concurrent execution is equivalent to the sequence of `apply` calls in
lock-acquisition order. The theorem quantifies over all lists, hence over all such orders and all
failure patterns. -/
theorem applies_wellformed (ck : Bytes → Nat) (version : Nat) (as : List Apply) :
    ∃ es, (run ck version {} as).file = encodeAll es ∧ Consecutive es ∧
      (∀ e ∈ es, e.checksum = ck e.ckInput) ∧ es.length = (run ck version {} as).entriesCount ∧
      es.map Entry.cmd = (as.filter (fun a => !a.fail)).map Apply.cmd := by
  obtain ⟨hh, hc, hk⟩ := run_wellformed ck version holds_init (fun i hi => absurd hi (by simp))
    (fun e he => absurd he (by simp)) as
  simp only [List.nil_append, List.length_nil] at hh hc hk
  exact ⟨_, hh.file, hc, hk, hh.count.symm, written_cmds ck version 0 as⟩

/-- If moreover the checksum is a 32-bit value, the version and every successfully written request fit
their fields and carry a command the loader considers valid (and fewer than 2^64 requests were made),
the file loads, and loads to exactly the entries written: the server can start from it. -/
theorem applies_loadable {ck : Bytes → Nat} {valid : Bytes → Bool} {version : Nat} (as : List Apply)
    (hck : ∀ b, ck b < 2 ^ 32) (hv : version < 2 ^ 32)
    (hin : ∀ a ∈ as, a.fail = false → a.InRange ∧ valid a.cmd = true) (hn : as.length ≤ 2 ^ 64) :
    load ck valid (run ck version {} as).file = .ok (written ck version 0 as) := by
  have hw := run_loadable (ck := ck) (valid := valid) (version := version) holds_init
    (wfJournal_nil ck valid) as hck hv hin (by simpa using hn)
  have hh := holds_run ck version as holds_init
  simp only [List.nil_append, List.length_nil] at hw hh
  rw [hh.file]
  exact load_encodeAll hw

/-- Under the same hypotheses the entries written form a journal in the sense of the tampering theorems
below (`WFJournal`), and the file is its encoding: sections 4–6 apply to every file the server can
produce. -/
theorem applies_wfjournal {ck : Bytes → Nat} {valid : Bytes → Bool} {version : Nat} (as : List Apply)
    (hck : ∀ b, ck b < 2 ^ 32) (hv : version < 2 ^ 32)
    (hin : ∀ a ∈ as, a.fail = false → a.InRange ∧ valid a.cmd = true) (hn : as.length ≤ 2 ^ 64) :
    WFJournal ck valid (written ck version 0 as) ∧
      (run ck version {} as).file = encodeAll (written ck version 0 as) := by
  have hw := run_loadable (ck := ck) (valid := valid) (version := version) holds_init
    (wfJournal_nil ck valid) as hck hv hin (by simpa using hn)
  have hh := holds_run ck version as holds_init
  simp only [List.nil_append, List.length_nil] at hw hh
  exact ⟨hw, hh.file⟩

/-- The same after a restart: from any state that holds a loaded journal `es0` (file, counter and
current index as the loader leaves them), any further sequence of requests leaves a file that loads
to `es0` followed by the newly written entries — nothing already in the journal is ever altered. -/
theorem applies_loadable_from {ck : Bytes → Nat} {valid : Bytes → Bool} {version : Nat} {s : FState}
    {es0 : List Entry} (hs : Holds s es0) (hw : WFJournal ck valid es0) (as : List Apply)
    (hck : ∀ b, ck b < 2 ^ 32) (hv : version < 2 ^ 32)
    (hin : ∀ a ∈ as, a.fail = false → a.InRange ∧ valid a.cmd = true)
    (hn : es0.length + as.length ≤ 2 ^ 64) :
    load ck valid (run ck version s as).file = .ok (es0 ++ written ck version es0.length as) := by
  rw [(holds_run ck version as hs).file]
  exact load_encodeAll (run_loadable hs hw as hck hv hin hn)

/-- a failed write changes nothing at all -/
theorem failed_apply_no_change (ck : Bytes → Nat) (s : FState) (ts user code : Nat) (payload : Bytes)
    (version : Nat) : s.apply ck ts user code payload version true = (s, false) := rfl

/-! ## 4. truncation -/

/-- If the first `k` bytes of a well-formed journal file load at all, the result is a prefix of the true
history and the cut fell exactly on an entry boundary (or beyond the end of the file). -/
theorem load_prefix {ck : Bytes → Nat} {valid : Bytes → Bool} {es es' : List Entry}
    (h : WFJournal ck valid es) {k : Nat} (hl : load ck valid ((encodeAll es).take k) = .ok es') :
    es' <+: es ∧ min k (encodeAll es).length = offsetOf es es'.length := load_take_ok h hl

/-- A cut strictly inside entry `j` is reported — as a short read. -/
theorem cut_inside_entry_reported {ck : Bytes → Nat} {valid : Bytes → Bool} {es : List Entry}
    (h : WFJournal ck valid es) {j k : Nat} (hj : j < es.length) (h1 : offsetOf es j < k)
    (h2 : k < offsetOf es (j + 1)) : load ck valid ((encodeAll es).take k) = .error .short :=
  load_cut_inside h hj h1 h2

/-- A cut exactly at an entry boundary — the loss of a whole suffix of entries — goes unnoticed and
yields the corresponding prefix of the history: the one undetectable change. -/
theorem cut_at_boundary_is_prefix {ck : Bytes → Nat} {valid : Bytes → Bool} {es : List Entry}
    (h : WFJournal ck valid es) (j : Nat) :
    load ck valid ((encodeAll es).take (offsetOf es j)) = .ok (es.take j) := by
  have hsplit : encodeAll es = encodeAll (es.take j) ++ encodeAll (es.drop j) := by
    rw [← encodeAll_append, List.take_append_drop]
  have : (encodeAll es).take (offsetOf es j) = encodeAll (es.take j) := by
    conv => lhs; rw [hsplit]
    exact List.take_left' rfl
  rw [this]
  refine load_encodeAll ⟨?_, fun e he => h.2 e (List.mem_of_mem_take he)⟩
  intro i hi
  rw [List.getElem_take]
  exact h.1 i (by simp at hi; omega)

/-! ## 5. whole-entry tampering (no assumption on the checksum) -/

/-- Any file assembled from whole entries of the true journal — entries removed from the middle,
duplicated, reordered, a suffix dropped — either fails to load or is a prefix of the true history,
and then loads to exactly that prefix. -/
theorem whole_entry_tamper {ck : Bytes → Nat} {valid : Bytes → Bool} {es l l' : List Entry}
    (h : WFJournal ck valid es) (hsub : ∀ e ∈ l, e ∈ es) (hl : load ck valid (encodeAll l) = .ok l') :
    l' = l ∧ l <+: es := load_whole_entries h hsub hl

/-- hence such a file that is not a prefix of the history is reported as an error -/
theorem whole_entry_tamper_reported {ck : Bytes → Nat} {valid : Bytes → Bool} {es l : List Entry}
    (h : WFJournal ck valid es) (hsub : ∀ e ∈ l, e ∈ es) (hnp : ¬ l <+: es) :
    ∃ err, load ck valid (encodeAll l) = .error err := by
  cases hl : load ck valid (encodeAll l) with
  | error err => exact ⟨err, rfl⟩
  | ok l' => exact absurd (load_whole_entries h hsub hl).2 hnp

/-- in a journal with consecutive indices an entry is determined by its index -/
theorem entry_determined_by_index {es : List Entry} (h : Consecutive es) {e : Entry} (he : e ∈ es) :
    ∃ hi : e.index < es.length, es[e.index] = e := getElem_index_of_mem h he

/-- every outcome covered by 4 and 5 is classified by the test judge's `verdict` as an error or a
prefix, never as a different history -/
theorem verdict_prefix {ck : Bytes → Nat} {valid : Bytes → Bool} {orig es : List Entry} {b : Bytes}
    (hl : load ck valid b = .ok es) (hp : es <+: orig) :
    verdict ck valid orig b = .prefix' es.length := verdict_of_prefix hl hp

/-! ## 6. a single changed byte -/

/-- Entry level, every position (length fields included): if one byte of an encoded entry is changed
and the reader still frames an entry of the same total length at that place, the entry it reads fails
its checksum — provided the checksum detects single-byte changes (`Burst`). -/
theorem entry_byte_change_detected {ck : Bytes → Nat} (hb : Burst ck) {e e' : Entry} (h : e.WF)
    (hk : e.checksum = ck e.ckInput) {i : Nat} {v : UInt8} (hne : e.encode.set i v ≠ e.encode)
    {rest rest' : Bytes} (hp : parseOne (e.encode.set i v ++ rest) = some (e', rest'))
    (hlen : rest'.length = rest.length) : e'.checksum ≠ ck e'.ckInput :=
  entry_tamper_detected hb h hk hne hp hlen

/-- File level (partial: every position except the two length fields). In a well-formed journal file,
changing the byte at offset `o` of entry `j` to a different value makes the load fail — at entry `j`,
with a non-consecutive-index error or a checksum error, never accepting a different entry `j` —
provided `o` is not inside the context-length or payload-length field of that entry. Covered are:
index, term, leader, version, flags, timestamp, user, the stored checksum itself, the context bytes,
the command code and the payload bytes.

Not covered: the eight bytes of the two length fields. Changing one of them re-frames the rest of the
file, so the entry read there has a different length and `Burst` says nothing about its checksum; see
`length_field_tamper_counterexample` for a checksum satisfying `Burst` that lets such a change through.
For the real CRC-32 these positions are covered by the exhaustive single-byte mutation sweep of the
differential test, not by this theorem. -/
theorem byte_tamper_partial {ck : Bytes → Nat} {valid : Bytes → Bool} (hb : Burst ck) {es : List Entry}
    (h : WFJournal ck valid es) {j o : Nat} (hj : j < es.length) (ho : o < es[j].encode.length)
    (hl : ¬ es[j].lenFieldPos o) {v : UInt8}
    (hne : (encodeAll es).set (offsetOf es j + o) v ≠ encodeAll es) :
    load ck valid ((encodeAll es).set (offsetOf es j + o) v) = .error .corrupted ∨
    load ck valid ((encodeAll es).set (offsetOf es j + o) v) = .error .badChecksum :=
  load_byte_tamper hb h hj ho hl hne

/-- every byte position of the file is some offset `o` of some entry `j` (so the positions excluded
from `byte_tamper_partial` are exactly the length fields) -/
theorem position_in_entry (es : List Entry) {i : Nat} (hi : i < (encodeAll es).length) :
    ∃ j o, ∃ hj : j < es.length, o < es[j].encode.length ∧ i = offsetOf es j + o := by
  induction es generalizing i with
  | nil => simp at hi
  | cons e es ih =>
    by_cases hlt : i < e.encode.length
    · exact ⟨0, i, by simp, by simpa using hlt, by simp [offsetOf]⟩
    · have hi' : i - e.encode.length < (encodeAll es).length := by
        simp only [encodeAll_cons, List.length_append] at hi; omega
      obtain ⟨j, o, hj, ho, heq⟩ := ih hi'
      refine ⟨j + 1, o, by simp; omega, by simpa using ho, ?_⟩
      simp only [offsetOf, List.take_succ_cons, encodeAll_cons, List.length_append] at heq ⊢
      omega

/-! ## counterexample: the length fields need more than `Burst` -/

set_option maxRecDepth 100000

/-- The byte sum modulo 256 detects every single-byte change (`Burst`), yet with it a one-byte change
of a payload-length field is accepted as a DIFFERENT history: the first entry swallows the head of
the second, whose payload contains a forged entry that is then read as entry 1. So the exclusion of
the length fields in `byte_tamper_partial` cannot be lifted under `Burst` alone; for CRC-32 the same
construction needs a 32-bit collision (the checksum is not cryptographic). -/
theorem length_field_tamper_counterexample :
    Burst Ex.ckSum ∧
    load Ex.ckSum (fun _ => true) Ex.cxFile = .ok Ex.cxEntries ∧
    Ex.cxEntries = [Ex.cxE0, Ex.cxE1] ∧ Ex.cxE0.lenFieldPos 56 ∧
    load Ex.ckSum (fun _ => true) (Ex.cxFile.set 56 62) = .ok Ex.cxAccepted ∧
    ¬ Ex.cxAccepted <+: Ex.cxEntries ∧
    verdict Ex.ckSum (fun _ => true) Ex.cxEntries (Ex.cxFile.set 56 62) = .different := by
  refine ⟨Ex.ckSum_burst, by decide, by decide, .inr ⟨by decide, by decide⟩, by decide, by decide, by decide⟩

/-! ## 7. non-vacuity: a concrete journal with the real CRC-32

`Ex.ops`: four requests, the second of which fails; `Ex.state` the resulting journal state (version 5),
`Ex.entries = [Ex.e0, Ex.e1, Ex.e2]` the three entries written. All checked by kernel evaluation. -/

/-- the failed write left no trace: three entries, indices 0, 1, 2 -/
example : Ex.entries = [Ex.e0, Ex.e1, Ex.e2] ∧ Ex.state.entriesCount = 3 ∧ Ex.state.currentIndex = 2 ∧
    Ex.state.file = encodeAll Ex.entries ∧ Ex.state.file.length = 186 := by decide

/-- the file loads to exactly these entries -/
example : load crc32 (fun _ => true) Ex.state.file = .ok Ex.entries := by decide

/-- the hypotheses of `byte_tamper_partial`, `load_prefix`, `whole_entry_tamper` are satisfiable -/
example : WFJournal crc32 (fun _ => true) Ex.entries := (load_ok_iff.mp (by decide : load crc32 (fun _ => true) Ex.state.file = .ok Ex.entries)).2

/-- cut inside the second entry: short read -/
example : load crc32 (fun _ => true) (Ex.state.file.take 100) = .error .short := by decide

/-- cut at the boundary after the second entry: the two-entry prefix -/
example : load crc32 (fun _ => true) (Ex.state.file.take 124) = .ok [Ex.e0, Ex.e1] := by decide

/-- reordered -/
example : load crc32 (fun _ => true) (encodeAll [Ex.e1, Ex.e0, Ex.e2]) = .error .corrupted := by decide

/-- an entry removed from the middle -/
example : load crc32 (fun _ => true) (encodeAll [Ex.e0, Ex.e2]) = .error .corrupted := by decide

/-- an entry duplicated -/
example : load crc32 (fun _ => true) (encodeAll [Ex.e0, Ex.e1, Ex.e1, Ex.e2]) = .error .corrupted := by decide

/-- the first entry removed -/
example : load crc32 (fun _ => true) (encodeAll [Ex.e1, Ex.e2]) = .error .corrupted := by decide

/-- one payload byte changed -/
example : load crc32 (fun _ => true) (Ex.state.file.set 61 0xFF) = .error .badChecksum := by decide

/-- one byte of an index changed -/
example : load crc32 (fun _ => true) (Ex.state.file.set 63 2) = .error .corrupted := by decide

/-- one byte of a stored checksum changed -/
example : load crc32 (fun _ => true) (Ex.state.file.set 107 0) = .error .badChecksum := by decide

end Iggy.Props.C11
