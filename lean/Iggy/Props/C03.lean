/-
C03 — a clean restart preserves every message, offset and the append position.
`Part.restart` = graceful shutdown (every buffer persisted: `Part.save`) followed by `Part.load` on the
durable files only (log files, index files, offset files); everything else is rebuilt.
-/
import Iggy.Log.RefineRun
namespace Iggy.Props.C03
open Iggy.Log

/-- After a restart every partition holds the same messages at the same offsets with identical
content, reports the same append position, the same stored consumer offsets and the same message and
segment counts; its reported size is that of the state saved at shutdown. -/
theorem restart_same {cfg : Cfg} {p : Part} (hseg : 0 < cfg.segSize) (r : Reach cfg p) {now : Nat}
    (hnow : ∀ m ∈ p.msgs, m.ts ≤ now) (n : Nat) :
    (p.restart cfg now n).msgs = p.msgs ∧ (p.restart cfg now n).next = p.next ∧
      (p.restart cfg now n).consOffs = p.consOffs ∧ (p.restart cfg now n).grpOffs = p.grpOffs ∧
      (p.restart cfg now n).expiry = p.expiry ∧
      (p.restart cfg now n).cnt.msgs = p.cnt.msgs ∧
      (p.restart cfg now n).cnt.size = (p.save cfg).cnt.size ∧
      (p.restart cfg now n).cnt.segs = p.cnt.segs := reach_restart_same hseg r hnow n

/-- No restart makes a previously readable message unreadable or alters it: every poll gives the same
answer after the restart. -/
theorem restart_same_polls {cfg : Cfg} {p : Part} (hseg : 0 < cfg.segSize) (r : Reach cfg p) {now : Nat}
    (hnow : ∀ m ∈ p.msgs, m.ts ≤ now) (n : Nat) {off count : Nat} (hc : 0 < count) :
    (p.restart cfg now n).getByOffset off count = p.getByOffset off count :=
  reach_restart_poll hseg r hnow n hc

/-- The restarted state is again reachable and satisfies the storage invariant, so traffic continues
after the reload exactly as before: the next accepted message receives the next offset (C01 applies
to every later operation, including further restarts — any number, by induction over `Reach`). -/
theorem restart_reachable {cfg : Cfg} {p : Part} (hseg : 0 < cfg.segSize) (r : Reach cfg p) {now : Nat}
    (hnow : ∀ m ∈ p.msgs, m.ts ≤ now) (n : Nat) :
    Reach cfg (p.restart cfg now n) ∧ (p.restart cfg now n).Inv cfg :=
  ⟨Reach.restart now n r hnow, (Reach.restart now n r hnow).inv hseg⟩

/-- no offset is used twice across a restart: the first append after it starts at the old `next` -/
theorem next_after_restart {cfg : Cfg} {p : Part} (hseg : 0 < cfg.segSize) (r : Reach cfg p) {now now' : Nat}
    (hnow : ∀ m ∈ p.msgs, m.ts ≤ now) (n : Nat) {msgs : List InMsg} (hsz : ∀ m ∈ msgs, 0 < m.size)
    (hts : ∀ m ∈ (p.restart cfg now n).msgs, m.ts ≤ now') :
    ∃ p', (p.restart cfg now n).append cfg now' msgs = .ok p' ∧
      (abs p').msgs = p.msgs ++ (number (p.restart cfg now n).dedup p.next now' msgs 0 []).2 := by
  obtain ⟨p', hok, _, habs⟩ := (Reach.restart now n r hnow).append_ok hseg hsz hts
  refine ⟨p', hok, ?_⟩
  rw [habs]
  have h := reach_restart_same hseg r hnow n
  show (abs (p.restart cfg now n)).msgs ++ _ = _
  simp only [abs]
  rw [h.1, h.2.1]

/-! non-vacuity: `rxOps` (Iggy/Log/RefineRun.lean) is an admissible nine-operation history containing
a restart; its final state is reachable -/
example : Reach rxCfg ((Part.create rxCfg none 0).runOps rxCfg rxOps) := reach_of_run none 0 rxOps (by decide)

end Iggy.Props.C03
