/-
C01 — partition offsets are gap-free, duplicate-free and assigned in send order.
Stated on the abstract partition `SPart` (Iggy/Log/Spec.lean) for every history of abstract operations
(`SOp`: append / purge / retention drop / restart / offset ops), unbounded; the judge checks the real
server against exactly this specification on every run, and Iggy/Log/Refine.lean relates the
storage model L1 to it.
-/
import Iggy.Log.SpecRun
import Iggy.Log.RefineRun
namespace Iggy.Props.C01
open Iggy.Log

/-- In every reachable state the retained offsets are exactly `lo, lo+1, …, next-1`: no gap, no
duplicate, ascending — whatever mix of batch sizes, dedup drops, purges, retention deletions and
restarts led there. -/
theorem offsets_consecutive (cfg : Cfg) (e : Option Nat) (ops : List SOp) :
    ∃ lo, (SPart.run cfg e ops).msgs.map (·.off) = List.range' lo (SPart.run cfg e ops).msgs.length ∧
      lo + (SPart.run cfg e ops).msgs.length = (SPart.run cfg e ops).next :=
  SPart.offsets_range _ (SPart.run_inv cfg e ops)

/-- The reported current offset is the offset of the last accepted message: when anything is
retained, `cur` is the last retained offset. -/
theorem cur_is_last (cfg : Cfg) (e : Option Nat) (ops : List SOp) (m : Msg)
    (h : (SPart.run cfg e ops).msgs.getLast? = some m) : (SPart.run cfg e ops).cur = m.off := by
  obtain ⟨lo, hr, hn⟩ := offsets_consecutive cfg e ops
  have hl : ((SPart.run cfg e ops).msgs.map (·.off)).getLast? = some m.off := by
    rw [List.getLast?_map, h]; rfl
  rw [hr] at hl
  have hne : (SPart.run cfg e ops).msgs ≠ [] := by intro h0; rw [h0] at h; cases h
  have hpos : 0 < (SPart.run cfg e ops).msgs.length := List.length_pos_iff.mpr hne
  rw [List.getLast?_range'] at hl
  simp only [Nat.pos_iff_ne_zero.mp hpos, if_false, Option.some.injEq] at hl
  unfold SPart.cur; omega

/-- Every batch receives consecutive offsets starting at `next`, in the order its messages were given
(the k-th accepted message of the batch gets `next + k`). -/
theorem batch_contiguous_in_order (p : SPart) (now : Nat) (msgs : List InMsg) :
    ∃ acc, (p.append now msgs).msgs = p.msgs ++ acc ∧ consecutiveFrom p.next acc ∧
      (p.append now msgs).next = p.next + acc.length :=
  ⟨(number p.ids p.next now msgs 0 []).2, rfl, by simpa using number_consecutive p.ids p.next now msgs 0, rfl⟩

/-- with deduplication off every message of the batch is accepted, in the order given -/
theorem dedup_off_all_accepted (p : SPart) (now : Nat) (msgs : List InMsg) (h : p.ids = none) :
    ((p.append now msgs).msgs.drop p.msgs.length).map (fun m => (m.id, m.size, m.tag)) =
      msgs.map (fun m => (m.id, m.size, m.tag)) := by
  unfold SPart.append; simp only [h, List.drop_left']; exact number_none_all p.next now msgs 0

/-- A message dropped as a duplicate consumes no offset: a batch made only of duplicates leaves
`next` and the retained messages unchanged. -/
theorem duplicate_consumes_nothing (p : SPart) (now : Nat) (msgs : List InMsg)
    (h : (number p.ids p.next now msgs 0 []).2 = []) :
    (p.append now msgs).next = p.next ∧ (p.append now msgs).msgs = p.msgs :=
  SPart.append_all_dropped p now msgs h

/-- purge restarts the numbering at 0; retention and restart never move `next` -/
theorem next_after_purge_drop_restart (p : SPart) (n : Nat) :
    p.purge.next = 0 ∧ (p.dropPrefix n).next = p.next ∧ p.restart.next = p.next := ⟨rfl, rfl, rfl⟩

/-! non-vacuity: a concrete history (two batches, a dedup drop, a retention drop, a restart) -/
example : (SPart.run exCfg none exHist).msgs.map (·.off) = [1, 2] ∧ (SPart.run exCfg none exHist).next = 3 := by decide


/-! ## the same on the storage model L1 (segments, accumulator, index files, cache)
`Reach cfg p`: `p` is reachable from `Part.create` by any number of append / flush / save / restart /
purge / expire / delete-oldest / evict / offset operations (Iggy/Log/Refine.lean). -/

/-- C01 on L1: in every reachable storage state the retained offsets are `lo..next-1`, gap-free and
duplicate-free, across roll-overs, flushes, saves, retention and restarts -/
theorem l1_offsets_consecutive {cfg : Cfg} {p : Part} (hseg : 0 < cfg.segSize) (r : Reach cfg p) :
    ∃ lo, p.msgs.map (·.off) = List.range' lo p.msgs.length ∧ lo + p.msgs.length = p.next :=
  reach_offsets_consecutive hseg r

/-- C01 on L1: a send is never rejected by the storage layer in a reachable state, and it does to the
abstract log exactly what the specification's append does (consecutive offsets from `next`) -/
theorem l1_append_refines {cfg : Cfg} {p : Part} (hseg : 0 < cfg.segSize) (r : Reach cfg p) {now : Nat}
    {msgs : List InMsg} (hsz : ∀ m ∈ msgs, 0 < m.size) (hts : ∀ m ∈ p.msgs, m.ts ≤ now) :
    ∃ p', p.append cfg now msgs = .ok p' ∧ Reach cfg p' ∧ abs p' = (abs p).append now msgs :=
  r.append_ok hseg hsz hts

/-- every reachable L1 state abstracts to a reachable L2 state: all statements above about
`SPart.run` hold of the storage model -/
theorem l1_simulates {cfg : Cfg} {p : Part} (hseg : 0 < cfg.segSize) (r : Reach cfg p) :
    ∃ e0 sops, abs p = SPart.run cfg e0 sops := r.simulates hseg

end Iggy.Props.C01
