/-
C10 — credentials.

A login succeeds only for an existing active user presenting that user's current password, or a
personal access token that exists, belongs to an existing active user and has not expired or been
deleted; after a password change the old password stops working and a change requires the current
password.  Logging out de-authenticates the connection, deleting the user or the token ends that
credential's validity, the same credentials behave identically before and after a restart.

The theorems are about `stepA0` (Iggy/Sys/Auth.lean), the request handler of the authentication layer.
`stepA` — what a client observes — is `stepA0` except that the single-entity reads answer a failure
with an empty response (`stepA_differs_only_on_reads`); none of the requests below is such a read.

Modelling assumptions (named in Auth.lean): a stored password hash is modelled by the password itself,
`u.pw = pw` stands for `verify pw (hash …)` under the scheme law `verify p (hash q) ↔ p = q` (an
assumption about bcrypt); a raw token is modelled by its index `idx` (the digest is injective and the
random tokens are pairwise distinct).

`ASys.UWF` is the invariant of the user table (ids strictly ascending, every user stored under its
id, names pairwise distinct, raw tokens pairwise distinct across all users and below the token counter,
root present, id cursor beyond every id in use); it holds initially and every request preserves it
(`uwf_init`, `uwf_step`, `uwf_reachable`).
-/
import Iggy.Sys.AuthLemmas
namespace Iggy.Props.C10
open Iggy.Sys Iggy.Log Iggy.Perm

/-! ## 0. the invariant; `stepA` versus `stepA0` -/

/-- the initial user table (root only) is well-formed -/
theorem uwf_init (y : Sys) (patMax : Nat) : (ASys.init y patMax).UWF := Iggy.Sys.uwf_init y patMax

/-- every request preserves the invariant of the user table. (For a core request the inner `step` is
opaque: only `restart` touches the users — it drops the tokens that have expired — and the cursor.) -/
theorem uwf_step {a : ASys} (h : a.UWF) (op : AOp) : (stepA0 a op).1.UWF := Iggy.Sys.uwf_step h op

/-- the invariant holds in every state reachable from the initial one -/
theorem uwf_reachable (y : Sys) (patMax : Nat) (ops : List AOp) : (runA (ASys.init y patMax) ops).UWF :=
  uwf_run (Iggy.Sys.uwf_init y patMax) ops

/-- what the invariant says -/
theorem uwf_unfold {a : ASys} (h : a.UWF) :
    a.users.Pairwise (fun x y => x.1 < y.1) ∧
    (∀ e ∈ a.users, e.2.id = e.1) ∧
    (∀ e₁ ∈ a.users, ∀ e₂ ∈ a.users, e₁.2.name = e₂.2.name → e₁ = e₂) ∧
    (∀ e₁ ∈ a.users, ∀ e₂ ∈ a.users, ∀ t₁ ∈ e₁.2.tokens, ∀ t₂ ∈ e₂.2.tokens, t₁.idx = t₂.idx → e₁ = e₂ ∧ t₁ = t₂) ∧
    (∀ e ∈ a.users, e.2.tokens.Pairwise (fun s t => s.idx ≠ t.idx)) ∧
    (∀ e ∈ a.users, ∀ t ∈ e.2.tokens, t.idx < a.tokenCount) ∧
    (∃ r, find? a.users 1 = some r) ∧
    (∀ e ∈ a.users, e.1 < a.userCursor) :=
  ⟨h.asc, h.key, fun _ h1 _ h2 hn => h.eq_of_name h1 h2 hn,
   fun _ h1 _ h2 _ ht1 _ ht2 hi => h.eq_of_tok h1 h2 ht1 ht2 hi, h.tokNodup, h.tokLt,
   Option.isSome_iff_exists.1 h.root, h.fresh⟩

/-- `stepA` (what the client sees) and `stepA0` reach the same state, and give the same answer to every
request that is not one of the single-entity reads (`get_user`, `get_stream`, `get_topic`,
`get_consumer_group`, `get_consumer_offset`) -/
theorem stepA_differs_only_on_reads (a : ASys) (op : AOp) :
    (stepA a op).1 = (stepA0 a op).1 ∧ (emptyOnError op = false → stepA a op = stepA0 a op) :=
  ⟨stepA_fst a op, stepA_eq a⟩

/-! ## 1. a password login succeeds only with the current password of an existing active user -/

/-- a successful login names an existing user, that user is active and the password presented is that
user's current password; the connection is then authenticated as that user -/
theorem login_only_if {a : ASys} {c : Nat} {name pw : String} {uid : Nat}
    (h : (stepA0 a (.login c name pw)).2.1 = .okId uid) :
    (∃ u, a.findUser (.name name) = some u ∧ u.id = uid ∧ u.active = true ∧ u.pw = pw) ∧
    (stepA0 a (.login c name pw)).1.userOf c = uid := by
  cases hf : a.findUser (.name name) with
  | none => rw [stepA0_login_none hf] at h; simp at h
  | some u =>
    rw [stepA0_login_some hf] at h ⊢
    rcases loginAs_cases a c u pw with ⟨_, hr⟩ | ⟨_, _, hr⟩ | ⟨_, _, _, hr⟩ | ⟨ha, hp, _, hr⟩
    all_goals rw [hr] at h ⊢
    · simp at h
    · simp at h
    · simp at h
    · simp only [Out.okId.injEq] at h
      subst h
      exact ⟨⟨u, rfl, rfl, ha, hp⟩, ASys.userOf_set a c u.id⟩

/-- a login answers with a user id or with an error, nothing else -/
theorem login_answers (a : ASys) (c : Nat) (name pw : String) :
    (∃ uid, (stepA0 a (.login c name pw)).2.1 = .okId uid) ∨ (∃ e, (stepA0 a (.login c name pw)).2.1 = .err e) := by
  cases hf : a.findUser (.name name) with
  | none => rw [stepA0_login_none hf]; exact Or.inr ⟨_, rfl⟩
  | some u =>
    rw [stepA0_login_some hf]
    rcases loginAs_cases a c u pw with ⟨_, hr⟩ | ⟨_, _, hr⟩ | ⟨_, _, _, hr⟩ | ⟨_, _, _, hr⟩
    all_goals rw [hr]
    · exact Or.inr ⟨_, rfl⟩
    · exact Or.inr ⟨_, rfl⟩
    · exact Or.inr ⟨_, rfl⟩
    · exact Or.inl ⟨_, rfl⟩

/-- a refused login changes nothing; in particular the connection keeps whatever session it had -/
theorem login_fail_keeps_session {a : ASys} {c : Nat} {name pw e : String}
    (h : (stepA0 a (.login c name pw)).2.1 = .err e) : (stepA0 a (.login c name pw)).1 = a := by
  cases hf : a.findUser (.name name) with
  | none => rw [stepA0_login_none hf]
  | some u =>
    rw [stepA0_login_some hf] at h ⊢
    rcases loginAs_cases a c u pw with ⟨_, hr⟩ | ⟨_, _, hr⟩ | ⟨_, _, _, hr⟩ | ⟨_, _, _, hr⟩
    all_goals rw [hr] at h ⊢
    simp at h

/-- the reasons for refusing a password login, exactly -/
theorem login_refusals {a : ASys} {c : Nat} {name pw e : String}
    (h : (stepA0 a (.login c name pw)).2.1 = .err e) :
    (e = "invalid_credentials" ∧ (a.findUser (.name name) = none ∨ ∃ u, a.findUser (.name name) = some u ∧ u.pw ≠ pw)) ∨
    (e = "user_inactive" ∧ ∃ u, a.findUser (.name name) = some u ∧ u.active = false) ∨
    (e = "resource_not_found" ∧ ¬ a.sessOK c) := by
  cases hf : a.findUser (.name name) with
  | none =>
    rw [stepA0_login_none hf] at h
    simp only [Out.err.injEq] at h
    exact Or.inl ⟨h.symm, Or.inl rfl⟩
  | some u =>
    rw [stepA0_login_some hf] at h
    rcases loginAs_cases a c u pw with ⟨ha, hr⟩ | ⟨_, hp, hr⟩ | ⟨_, _, hs, hr⟩ | ⟨_, _, _, hr⟩
    all_goals rw [hr] at h
    · simp only [Out.err.injEq] at h
      exact Or.inr (Or.inl ⟨h.symm, u, rfl, ha⟩)
    · simp only [Out.err.injEq] at h
      exact Or.inl ⟨h.symm, Or.inr ⟨u, rfl, hp⟩⟩
    · simp only [Out.err.injEq] at h
      exact Or.inr (Or.inr ⟨h.symm, hs⟩)
    · simp at h

/-! ## 2. … and with them it does succeed -/

/-- an existing active user presenting the current password is logged in, on a connection that is
unauthenticated or whose user still exists (`sessOK`: a login first logs the connection out, and that
fails for a connection whose user has been deleted) -/
theorem login_if {a : ASys} {c : Nat} {name pw : String} {u : User}
    (hf : a.findUser (.name name) = some u) (ha : u.active = true) (hp : u.pw = pw) (hs : a.sessOK c) :
    stepA0 a (.login c name pw) = ({ a with sessions := insertAsc a.sessions c u.id }, .okId u.id, []) := by
  rw [stepA0_login_some hf]
  rcases loginAs_cases a c u pw with ⟨ha', _⟩ | ⟨_, hp', _⟩ | ⟨_, _, hs', _⟩ | ⟨_, _, _, hr⟩
  · rw [ha] at ha'; cases ha'
  · exact absurd hp hp'
  · exact absurd hs hs'
  · exact hr

/-- under the invariant every stored active user can log in by its own name and password -/
theorem login_if_stored {a : ASys} (h : a.UWF) {c k : Nat} {u : User} (hm : (k, u) ∈ a.users)
    (ha : u.active = true) (hs : a.sessOK c) :
    (stepA0 a (.login c u.name u.pw)).2.1 = .okId u.id := by
  rw [login_if (ASys.findUser_name h hm) ha rfl hs]

/-! ## 3. a token login succeeds only with an existing, unexpired token of an existing active user -/

/-- a successful token login: some stored user owns a token with that raw value, the user is active,
the token has not expired; the connection is then authenticated as that user -/
theorem token_only_if {a : ASys} {c k uid : Nat} (h : (stepA0 a (.loginPat c k)).2.1 = .okId uid) :
    (∃ e ∈ a.users, ∃ tk ∈ e.2.tokens, tk.idx = k ∧ e.2.id = uid ∧ e.2.active = true ∧
      ∀ x, tk.expiry = some x → a.sys.now < x) ∧
    (stepA0 a (.loginPat c k)).1.userOf c = uid := by
  rcases stepA0_loginPat_cases a c k with hr | ⟨e, he, tk, ht, hk, hr⟩
  · rw [hr] at h; simp at h
  · rw [hr] at h ⊢
    rcases loginTokAs_cases a c e.2 tk with ⟨_, hr'⟩ | ⟨_, _, hr'⟩ | ⟨_, _, _, hr'⟩ | ⟨hv, ha, _, hr'⟩
    all_goals rw [hr'] at h ⊢
    · simp at h
    · simp at h
    · simp at h
    · simp only [Out.okId.injEq] at h
      subst h
      exact ⟨⟨e, he, tk, ht, hk, rfl, ha, Tok.validAt_iff.1 hv⟩, ASys.userOf_set a c e.2.id⟩

/-- … under the invariant that user and that token are the only ones with this raw value -/
theorem token_only_if_unique {a : ASys} (hw : a.UWF) {c k uid : Nat}
    (h : (stepA0 a (.loginPat c k)).2.1 = .okId uid) :
    ∃ u tk, (u.id, u) ∈ a.users ∧ tk ∈ u.tokens ∧ tk.idx = k ∧ u.id = uid ∧ u.active = true ∧
      (∀ x, tk.expiry = some x → a.sys.now < x) ∧
      ∀ k' u' tk', (k', u') ∈ a.users → tk' ∈ u'.tokens → tk'.idx = k → k' = u.id ∧ u' = u ∧ tk' = tk := by
  obtain ⟨⟨e, he, tk, ht, hk, hid, ha, hv⟩, _⟩ := token_only_if h
  have hkey := hw.key e he
  have he' : (e.2.id, e.2) ∈ a.users := by rw [hkey]; exact he
  refine ⟨e.2, tk, he', ht, hk, hid, ha, hv, ?_⟩
  intro k' u' tk' hm' ht' hk'
  obtain ⟨h1, h2⟩ := hw.eq_of_tok hm' he' ht' ht (by rw [hk', hk])
  simp only [Prod.mk.injEq] at h1
  exact ⟨h1.1, h1.2, h2⟩

/-- a refused token login changes nothing -/
theorem token_fail_keeps_session {a : ASys} {c k : Nat} {e : String}
    (h : (stepA0 a (.loginPat c k)).2.1 = .err e) : (stepA0 a (.loginPat c k)).1 = a := by
  rcases stepA0_loginPat_cases a c k with hr | ⟨e', _, tk, _, _, hr⟩
  · rw [hr]
  · rw [hr] at h ⊢
    rcases loginTokAs_cases a c e'.2 tk with ⟨_, hr'⟩ | ⟨_, _, hr'⟩ | ⟨_, _, _, hr'⟩ | ⟨_, _, _, hr'⟩
    all_goals rw [hr'] at h ⊢
    simp at h

/-- conversely (under the invariant): an unexpired token of a stored active user logs that user in -/
theorem token_if {a : ASys} (hw : a.UWF) {c k : Nat} {u : User} {tk : Tok} (hm : (k, u) ∈ a.users)
    (ht : tk ∈ u.tokens) (hv : ∀ x, tk.expiry = some x → a.sys.now < x) (ha : u.active = true)
    (hs : a.sessOK c) :
    stepA0 a (.loginPat c tk.idx) = ({ a with sessions := insertAsc a.sessions c u.id }, .okId u.id, []) := by
  rw [stepA0_loginPat_some hw hm ht]
  rcases loginTokAs_cases a c u tk with ⟨hv', _⟩ | ⟨_, ha', _⟩ | ⟨_, _, hs', _⟩ | ⟨_, _, _, hr⟩
  · rw [Tok.validAt_iff.2 hv] at hv'; cases hv'
  · rw [ha] at ha'; cases ha'
  · exact absurd hs hs'
  · exact hr

/-- a raw value that no stored token carries (never issued, or deleted since) is refused -/
theorem unknown_token_refused {a : ASys} {c k : Nat} (hn : ∀ e ∈ a.users, ∀ t ∈ e.2.tokens, t.idx ≠ k) :
    stepA0 a (.loginPat c k) = (a, .err "resource_not_found", []) := stepA0_loginPat_none hn

/-- a token of an inactive user is refused (under the invariant, so that the raw value resolves to it) -/
theorem token_of_inactive_user_refused {a : ASys} (hw : a.UWF) {c k : Nat} {u : User} {tk : Tok}
    (hm : (k, u) ∈ a.users) (ht : tk ∈ u.tokens) (ha : u.active = false) :
    ∃ e, stepA0 a (.loginPat c tk.idx) = (a, .err e, []) := by
  rw [stepA0_loginPat_some hw hm ht]
  rcases loginTokAs_cases a c u tk with ⟨_, hr⟩ | ⟨_, _, hr⟩ | ⟨_, _, _, hr⟩ | ⟨_, ha', _, _⟩
  · exact ⟨_, hr⟩
  · exact ⟨_, hr⟩
  · exact ⟨_, hr⟩
  · rw [ha] at ha'; cases ha'

/-! ## 4. changing a password -/

/-- a password change succeeds only if the password presented as current is the target user's current
password (and only on an authenticated connection: one's own, or with the permission to manage users) -/
theorem change_requires_current {a : ASys} {c : Nat} {ui : Ident} {cur new : String}
    (h : (stepA0 a (.changePw c ui cur new)).2.1 = .ok) :
    ∃ u, a.findUser ui = some u ∧ u.pw = cur ∧ a.userOf c ≠ 0 ∧
      (u.id = a.userOf c ∨ okR (rule_change_password a.tables (a.userOf c)) = true) ∧
      (stepA0 a (.changePw c ui cur new)).1 = a.putUser { u with pw := new } := by
  obtain ⟨u, hf, hp, hc, hr, he⟩ := stepA0_changePw_ok h
  exact ⟨u, hf, hp, hc, hr, by rw [he]⟩

/-- with a wrong current password the change is refused and nothing changes -/
theorem change_with_wrong_password_refused {a : ASys} {c : Nat} {ui : Ident} {cur new : String} {u : User}
    (hf : a.findUser ui = some u) (hp : u.pw ≠ cur) :
    (stepA0 a (.changePw c ui cur new)).2.1 ≠ .ok ∧ (stepA0 a (.changePw c ui cur new)).1 = a := by
  constructor
  · intro h
    obtain ⟨u', hf', hp', _⟩ := stepA0_changePw_ok h
    rw [hf] at hf'; cases hf'
    exact hp hp'
  · simp only [stepA0, hf]
    repeat' split
    all_goals first | rfl | exact absurd ‹_› (by simpa using hp)

/-- after a password change the old password no longer logs the user in, on any connection -/
theorem old_password_dead {a : ASys} (hw : a.UWF) {c : Nat} {ui : Ident} {cur new : String} {u : User}
    (h : (stepA0 a (.changePw c ui cur new)).2.1 = .ok) (hne : new ≠ cur) (hf : a.findUser ui = some u)
    (c' : Nat) :
    stepA0 (stepA0 a (.changePw c ui cur new)).1 (.login c' u.name cur) =
      ((stepA0 a (.changePw c ui cur new)).1,
        .err (if u.active then "invalid_credentials" else "user_inactive"), []) := by
  obtain ⟨u', hf', _, _, _, he⟩ := stepA0_changePw_ok h
  rw [hf] at hf'; cases hf'
  have hw' : (stepA0 a (.changePw c ui cur new)).1.UWF := Iggy.Sys.uwf_step hw _
  rw [he] at hw' ⊢
  have hm : (u.id, ({ u with pw := new } : User)) ∈ (a.putUser { u with pw := new }).users :=
    mem_insertAsc_self _ _ _
  have hfn := ASys.findUser_name hw' hm
  rw [stepA0_login_some hfn]
  rcases loginAs_cases (a.putUser { u with pw := new }) c' { u with pw := new } cur with
    ⟨ha, hr⟩ | ⟨ha, _, hr⟩ | ⟨_, hp, _⟩ | ⟨_, hp, _⟩
  · rw [hr]; simp only at ha; simp [ha]
  · rw [hr]; simp only at ha; simp [ha]
  · exact absurd hp hne
  · exact absurd hp hne

/-- … in particular it is never answered with a user id -/
theorem old_password_dead' {a : ASys} (hw : a.UWF) {c : Nat} {ui : Ident} {cur new : String} {u : User}
    (h : (stepA0 a (.changePw c ui cur new)).2.1 = .ok) (hne : new ≠ cur) (hf : a.findUser ui = some u)
    (c' uid : Nat) :
    (stepA0 (stepA0 a (.changePw c ui cur new)).1 (.login c' u.name cur)).2.1 ≠ .okId uid := by
  rw [old_password_dead hw h hne hf c']
  simp

/-- … while the new password does log the (active) user in, e.g. on a fresh connection -/
theorem new_password_works {a : ASys} (hw : a.UWF) {c : Nat} {ui : Ident} {cur new : String} {u : User}
    (h : (stepA0 a (.changePw c ui cur new)).2.1 = .ok) (hf : a.findUser ui = some u)
    (ha : u.active = true) {c' : Nat} (hc' : a.userOf c' = 0) :
    (stepA0 (stepA0 a (.changePw c ui cur new)).1 (.login c' u.name new)).2.1 = .okId u.id := by
  obtain ⟨u', hf', _, _, _, he⟩ := stepA0_changePw_ok h
  rw [hf] at hf'; cases hf'
  have hw' : (stepA0 a (.changePw c ui cur new)).1.UWF := Iggy.Sys.uwf_step hw _
  rw [he] at hw' ⊢
  have hm : (u.id, ({ u with pw := new } : User)) ∈ (a.putUser { u with pw := new }).users :=
    mem_insertAsc_self _ _ _
  rw [login_if (ASys.findUser_name hw' hm) ha rfl (Or.inl hc')]

/-- a password change touches nobody else: every other user's record is what it was -/
theorem change_password_is_local {a : ASys} {c : Nat} {ui : Ident} {cur new : String} {u : User}
    (h : (stepA0 a (.changePw c ui cur new)).2.1 = .ok) (hf : a.findUser ui = some u) {k : Nat}
    (hk : k ≠ u.id) :
    find? (stepA0 a (.changePw c ui cur new)).1.users k = find? a.users k ∧
    find? (stepA0 a (.changePw c ui cur new)).1.users u.id = some { u with pw := new } := by
  obtain ⟨u', hf', _, _, _, he⟩ := stepA0_changePw_ok h
  rw [hf] at hf'; cases hf'
  rw [he]
  exact ⟨find?_insertAsc_ne _ _ hk, find?_insertAsc_self _ _ _⟩

/-! ## 5. logging out; unauthenticated connections -/

/-- a successful logout leaves the connection unauthenticated -/
theorem logout_deauthenticates {a : ASys} {c : Nat} (h : (stepA0 a (.logout c)).2.1 = .ok) :
    (stepA0 a (.logout c)).1.userOf c = 0 := by
  rw [(stepA0_logout_ok h).2]
  simp [ASys.userOf, find?_erase_self]

/-- every request that demands authentication (`AOp.guardedBy`: logout, the user and token management
commands, and every core command that calls `ensure_authenticated`) is refused on an unauthenticated
connection, and changes nothing -/
theorem unauthenticated_refused {a : ASys} {c : Nat} {op : AOp} (hu : a.userOf c = 0) (hg : op.guardedBy c) :
    stepA0 a op = (a, .err "unauthenticated", []) := stepA0_unauth hu hg

/-- the core commands: every command of the core system that does not skip the authentication check
(that is every wire command except `get_stats`) is refused on an unauthenticated connection -/
theorem unauthenticated_core_refused {a : ASys} {c : Nat} {op : Op} (hu : a.userOf c = 0)
    (hs : skipsAuthCheck op = false) :
    (stepA0 a (.core c op)).2.1 = .err "unauthenticated" ∧ (stepA0 a (.core c op)).1 = a := by
  rw [stepA0_core_unauth hu hs]; exact ⟨rfl, rfl⟩

/-- hence after a logout the connection's next guarded request is refused -/
theorem after_logout_refused {a : ASys} {c : Nat} (h : (stepA0 a (.logout c)).2.1 = .ok) {op : AOp}
    (hg : op.guardedBy c) :
    (stepA0 (stepA0 a (.logout c)).1 op).2.1 = .err "unauthenticated" := by
  rw [stepA0_unauth (logout_deauthenticates h) hg]

/-- what `guardedBy` covers: the user and token management commands and logout of that connection -/
theorem guardedBy_covers (c : Nat) (name pw cur new : String) (act : Bool) (perms : Option Permissions)
    (ui : Ident) (nm : Option String) (st : Option Bool) (ex : Option Nat) :
    (AOp.logout c).guardedBy c ∧ (AOp.createUser c name pw act perms).guardedBy c ∧
    (AOp.deleteUser c ui).guardedBy c ∧ (AOp.updateUser c ui nm st).guardedBy c ∧
    (AOp.updatePerms c ui perms).guardedBy c ∧ (AOp.changePw c ui cur new).guardedBy c ∧
    (AOp.userInfo c ui).guardedBy c ∧ (AOp.users c).guardedBy c ∧ (AOp.createPat c name ex).guardedBy c ∧
    (AOp.deletePat c name).guardedBy c ∧ (AOp.pats c).guardedBy c :=
  ⟨rfl, rfl, rfl, rfl, rfl, rfl, rfl, rfl, rfl, rfl, rfl⟩

/-! ## 6. deleting a user -/

/-- once a user is deleted neither its name with any password nor any of its tokens logs in -/
theorem delete_user_kills_credentials {a : ASys} (hw : a.UWF) {c : Nat} {ui : Ident} {u : User}
    (h : (stepA0 a (.deleteUser c ui)).2.1 = .ok) (hf : a.findUser ui = some u) :
    (∀ c' pw, stepA0 (stepA0 a (.deleteUser c ui)).1 (.login c' u.name pw) =
        ((stepA0 a (.deleteUser c ui)).1, .err "invalid_credentials", [])) ∧
    (∀ c' tk, tk ∈ u.tokens → stepA0 (stepA0 a (.deleteUser c ui)).1 (.loginPat c' tk.idx) =
        ((stepA0 a (.deleteUser c ui)).1, .err "resource_not_found", [])) := by
  obtain ⟨u', hf', _, _, _, he⟩ := stepA0_deleteUser_ok h
  rw [hf] at hf'; cases hf'
  have hm := ASys.findUser_mem hw hf
  rw [he]
  constructor
  · intro c' pw
    apply stepA0_login_none
    apply ASys.findUser_name_none
    intro e he' hn
    obtain ⟨he1, he2⟩ := mem_erase.1 he'
    exact he2 (hw.names e he1 (u.id, u) hm hn)
  · intro c' tk ht
    apply stepA0_loginPat_none
    intro e he' t ht' hi
    obtain ⟨he1, he2⟩ := mem_erase.1 he'
    exact he2 (hw.tokOwner e he1 (u.id, u) hm t ht' tk ht hi)

/-- the deleted user is gone from the table, everybody else stays as they were -/
theorem delete_user_is_local {a : ASys} {c : Nat} {ui : Ident} {u : User}
    (h : (stepA0 a (.deleteUser c ui)).2.1 = .ok) (hf : a.findUser ui = some u) :
    find? (stepA0 a (.deleteUser c ui)).1.users u.id = none ∧
    ∀ k, k ≠ u.id → find? (stepA0 a (.deleteUser c ui)).1.users k = find? a.users k := by
  obtain ⟨u', hf', _, _, _, he⟩ := stepA0_deleteUser_ok h
  rw [hf] at hf'; cases hf'
  rw [he]
  exact ⟨find?_erase_self _ _, fun k hk => find?_erase_ne _ hk⟩

/-- the root user cannot be deleted -/
theorem root_protected {a : ASys} {c : Nat} {ui : Ident} (h : (stepA0 a (.deleteUser c ui)).2.1 = .ok) :
    ∃ u, a.findUser ui = some u ∧ u.id ≠ 1 ∧
      find? (stepA0 a (.deleteUser c ui)).1.users 1 = find? a.users 1 := by
  obtain ⟨u, hf, hne, _, _, he⟩ := stepA0_deleteUser_ok h
  refine ⟨u, hf, hne, ?_⟩
  rw [he]
  exact find?_erase_ne _ (Ne.symm hne)

/-- an attempt to delete root is refused -/
theorem delete_root_refused {a : ASys} {c : Nat} {ui : Ident} {u : User} (hf : a.findUser ui = some u)
    (hid : u.id = 1) : (stepA0 a (.deleteUser c ui)).2.1 ≠ .ok := by
  intro h
  obtain ⟨u', hf', hne, _⟩ := stepA0_deleteUser_ok h
  rw [hf] at hf'; cases hf'
  exact hne hid

/-- root's permissions cannot be changed: a successful `updatePerms` targets another user and leaves
root's record alone; one that targets root is refused -/
theorem cannot_change_permissions {a : ASys} {c : Nat} {ui : Ident} {perms : Option Permissions} :
    ((stepA0 a (.updatePerms c ui perms)).2.1 = .ok →
      ∃ u, a.findUser ui = some u ∧ u.id ≠ 1) ∧
    find? (stepA0 a (.updatePerms c ui perms)).1.users 1 = find? a.users 1 := by
  constructor
  · intro h
    obtain ⟨u, hf, hne, _⟩ := stepA0_updatePerms_ok h
    exact ⟨u, hf, hne⟩
  · simp only [stepA0]
    repeat' split
    all_goals first | rfl | exact find?_insertAsc_ne _ _ (Ne.symm ‹_›)

/-- more generally no request whatsoever changes root's permissions … -/
theorem root_permissions_fixed {a : ASys} (hw : a.UWF) (op : AOp) :
    (find? (stepA0 a op).1.users 1).map (·.perms) = (find? a.users 1).map (·.perms) :=
  root_perms_step hw op

/-- … so in every reachable state root exists and has the root permissions -/
theorem root_permissions_reachable (y : Sys) (patMax : Nat) (ops : List AOp) :
    (find? (runA (ASys.init y patMax) ops).users 1).map (·.perms) = some (some Permissions.root) := by
  rw [root_perms_run (Iggy.Sys.uwf_init y patMax) ops]
  rfl

/-- what deleting a user does NOT do: the sessions are left alone, so a connection authenticated as the
deleted user keeps that user id (it is not "unauthenticated"; its requests are then judged by the
permission tables, from which the user is gone, and its own `logout` / token commands answer
`resource_not_found` — see the last lines of the example history in section 9) -/
theorem delete_user_keeps_sessions (a : ASys) (c : Nat) (ui : Ident) :
    (stepA0 a (.deleteUser c ui)).1.sessions = a.sessions := by
  simp only [stepA0]
  repeat' split
  all_goals rfl

/-! ## 7. deleting a token; expiry -/

/-- a token that is created is a new raw value (no stored token carries it), and — if its owner is
active and the requested life time is not zero — it logs its owner in, e.g. on a fresh connection -/
theorem created_token_logs_in {a : ASys} (hw : a.UWF) {c : Nat} {name : String} {expiry : Option Nat} {k : Nat}
    (h : (stepA0 a (.createPat c name expiry)).2.1 = .okId k) :
    ∃ u, find? a.users (a.userOf c) = some u ∧ a.userOf c ≠ 0 ∧
      (∀ e ∈ a.users, ∀ t ∈ e.2.tokens, t.idx ≠ k) ∧
      (u.active = true → (∀ x, expiry = some x → 0 < x) → ∀ c', a.userOf c' = 0 →
        (stepA0 (stepA0 a (.createPat c name expiry)).1 (.loginPat c' k)).2.1 = .okId (a.userOf c)) := by
  obtain ⟨u, hf, hc, hk, he⟩ := stepA0_createPat_ok h
  subst hk
  refine ⟨u, hf, hc, fun e he' t ht hi => ?_, fun ha hx c' hc' => ?_⟩
  · have := hw.tokLt e he' t ht; omega
  · have hw' : (stepA0 a (.createPat c name expiry)).1.UWF := Iggy.Sys.uwf_step hw _
    have hid := hw.id_of_find? hf
    rw [he] at hw' ⊢
    let tk : Tok := { name := name, idx := a.tokenCount, expiry := expiry.map (· + a.sys.now) }
    have hm : (u.id, ({ u with tokens := u.tokens ++ [tk] } : User)) ∈
        (a.putUser { u with tokens := u.tokens ++ [tk] }).users := mem_insertAsc_self _ _ _
    have ht : tk ∈ ({ u with tokens := u.tokens ++ [tk] } : User).tokens :=
      List.mem_append_right _ (List.mem_singleton.2 rfl)
    have hv : ∀ x, tk.expiry = some x → a.sys.now < x := by
      intro x hx'
      cases expiry with
      | none => simp [tk] at hx'
      | some e =>
        have := hx e rfl
        simp [tk] at hx'
        omega
    have := token_if (a := { (a.putUser { u with tokens := u.tokens ++ [tk] }) with tokenCount := a.tokenCount + 1 })
      hw' (c := c') hm ht hv ha (Or.inl hc')
    rw [show a.tokenCount = tk.idx from rfl, this, ← hid]

/-- once a token is deleted it no longer logs in: every token of the session's user with the deleted
name is refused afterwards, on any connection -/
theorem delete_token_kills {a : ASys} (hw : a.UWF) {c : Nat} {name : String}
    (h : (stepA0 a (.deletePat c name)).2.1 = .ok) :
    ∃ u, find? a.users (a.userOf c) = some u ∧ (∃ tk ∈ u.tokens, tk.name = name) ∧
      ∀ tk ∈ u.tokens, tk.name = name → ∀ c',
        stepA0 (stepA0 a (.deletePat c name)).1 (.loginPat c' tk.idx) =
          ((stepA0 a (.deletePat c name)).1, .err "resource_not_found", []) := by
  obtain ⟨u, hf, _, hex, he⟩ := stepA0_deletePat_ok h
  refine ⟨u, hf, hex, ?_⟩
  intro tk ht hn c'
  have hm := mem_of_find? hf
  have hid := hw.id_of_find? hf
  rw [he]
  apply stepA0_loginPat_none
  intro e he' t ht' hi
  rcases mem_insertAsc he' with rfl | ⟨he1, he2⟩
  · obtain ⟨ht1, ht2⟩ := List.mem_filter.1 ht'
    have := pairwise_idx_inj (hw.tokNodup _ hm) ht1 ht hi
    subst this
    simp at ht2
    exact ht2 hn
  · have := hw.tokOwner e he1 _ hm t ht' tk ht hi
    exact he2 hw.asc (by simpa [hid] using this)

/-- … and the user's other tokens are untouched, as is everybody else -/
theorem delete_token_is_local {a : ASys} (hw : a.UWF) {c : Nat} {name : String}
    (h : (stepA0 a (.deletePat c name)).2.1 = .ok) :
    ∃ u, find? a.users (a.userOf c) = some u ∧
      find? (stepA0 a (.deletePat c name)).1.users (a.userOf c) =
        some { u with tokens := u.tokens.filter (fun tk => decide (tk.name ≠ name)) } ∧
      ∀ k, k ≠ a.userOf c → find? (stepA0 a (.deletePat c name)).1.users k = find? a.users k := by
  obtain ⟨u, hf, _, _, he⟩ := stepA0_deletePat_ok h
  have hid := hw.id_of_find? hf
  refine ⟨u, hf, ?_, ?_⟩
  · rw [he]
    show find? (insertAsc a.users u.id _) (a.userOf c) = _
    rw [hid]; exact find?_insertAsc_self _ _ _
  · intro k hk
    rw [he]
    show find? (insertAsc a.users u.id _) k = _
    rw [hid]; exact find?_insertAsc_ne _ _ hk

/-- an expired token is refused (under the invariant, so that the raw value resolves to this token) -/
theorem expired_token_refused {a : ASys} (hw : a.UWF) {c k : Nat} {u : User} {tk : Tok} {x : Nat}
    (hm : (k, u) ∈ a.users) (ht : tk ∈ u.tokens) (hx : tk.expiry = some x) (hle : x ≤ a.sys.now) :
    stepA0 a (.loginPat c tk.idx) = (a, .err "personal_access_token_expired", []) := by
  rw [stepA0_loginPat_some hw hm ht]
  have hv : tk.validAt a.sys.now = false := by
    cases hv : tk.validAt a.sys.now
    · rfl
    · have := Tok.validAt_iff.1 hv x hx; omega
  rcases loginTokAs_cases a c u tk with ⟨_, hr⟩ | ⟨hv', _⟩ | ⟨hv', _⟩ | ⟨hv', _⟩
  · exact hr
  all_goals rw [hv] at hv'; cases hv'

/-- the clean-up of expired tokens removes exactly the expired tokens: every user keeps its id, name,
password, status, permissions and precisely the tokens that have not expired -/
theorem clean_keeps_valid (a : ASys) :
    (stepA0 a .cleanPats).1.users = keepToks (Tok.validAt a.sys.now) a.users ∧
    (∀ k, find? (stepA0 a .cleanPats).1.users k =
      (find? a.users k).map (fun u => { u with tokens := u.tokens.filter (Tok.validAt a.sys.now) })) ∧
    (∀ (u : User) (tk : Tok), tk ∈ u.tokens.filter (Tok.validAt a.sys.now) ↔
      tk ∈ u.tokens ∧ ∀ x, tk.expiry = some x → a.sys.now < x) := by
  refine ⟨rfl, fun k => ?_, fun u tk => ?_⟩
  · exact find?_mapE (fun _ u => u.keepToks (Tok.validAt a.sys.now)) a.users k
  · rw [List.mem_filter, Tok.validAt_iff]

/-- the clean-up changes no answer to a login: password logins are answered identically; token logins
too, except that an expired token — refused as expired before — is now refused as unknown -/
theorem clean_same_answers {a : ASys} (hw : a.UWF) (c : Nat) :
    (∀ name pw, (stepA0 (stepA0 a .cleanPats).1 (.login c name pw)).2.1 = (stepA0 a (.login c name pw)).2.1) ∧
    (∀ k, (stepA0 (stepA0 a .cleanPats).1 (.loginPat c k)).2.1 =
      if (stepA0 a (.loginPat c k)).2.1 = .err "personal_access_token_expired" then .err "resource_not_found"
      else (stepA0 a (.loginPat c k)).2.1) :=
  ⟨fun name pw => login_keepToks (a' := (stepA0 a .cleanPats).1) rfl rfl c name pw,
   fun k => loginPat_keepToks (a' := (stepA0 a .cleanPats).1) hw rfl rfl rfl c k⟩

/-! ## 8. restart -/

/-- the restart of the core system keeps the clock (token expiry is judged against the same time
before and after) -/
theorem restart_keeps_clock (a : ASys) (c : Nat) (cl : List (PKey × Nat)) :
    (stepA0 a (.core c (.restart cl))).1.sys.now = a.sys.now := by
  rw [stepA0_restart_sys]; exact step_restart_now _ _

/-- what a restart does to the authentication state (whether or not the inner replay panics): no
session survives; every user survives with the same id, name, password, status and permissions, and
with exactly the tokens that had not expired at the time of the restart -/
theorem restart_users (a : ASys) (c : Nat) (cl : List (PKey × Nat)) :
    (stepA0 a (.core c (.restart cl))).1.sessions = [] ∧
    (stepA0 a (.core c (.restart cl))).1.users = keepToks (Tok.validAt a.sys.now) a.users ∧
    (∀ k, find? (stepA0 a (.core c (.restart cl))).1.users k =
      (find? a.users k).map (fun u => { u with tokens := u.tokens.filter (Tok.validAt a.sys.now) })) ∧
    (∀ c', (stepA0 a (.core c (.restart cl))).1.userOf c' = 0) := by
  refine ⟨rfl, rfl, fun k => ?_, fun c' => rfl⟩
  exact find?_mapE (fun _ u => u.keepToks (Tok.validAt a.sys.now)) a.users k

/-- the same credentials are answered identically before and after a restart. `a₀` is the state before
the restart seen from a fresh connection (no sessions). A password login gets the same answer. A token
login gets the same answer — a valid token is accepted both before and after, an unknown one refused
both before and after — except that a token that had expired, refused as expired before, is refused as
unknown after (start-up drops it) -/
theorem restart_same_answers {a : ASys} (hw : a.UWF) (c : Nat) (cl : List (PKey × Nat)) (c0 : Nat) :
    (∀ name pw, (stepA0 (stepA0 a (.core c (.restart cl))).1 (.login c0 name pw)).2.1 =
      (stepA0 { a with sessions := [] } (.login c0 name pw)).2.1) ∧
    (∀ k, (stepA0 (stepA0 a (.core c (.restart cl))).1 (.loginPat c0 k)).2.1 =
      if (stepA0 { a with sessions := [] } (.loginPat c0 k)).2.1 = .err "personal_access_token_expired"
      then .err "resource_not_found"
      else (stepA0 { a with sessions := [] } (.loginPat c0 k)).2.1) :=
  ⟨fun name pw => login_keepToks (a := { a with sessions := [] }) (a' := (stepA0 a (.core c (.restart cl))).1)
      rfl rfl c0 name pw,
   fun k => loginPat_keepToks (a := { a with sessions := [] }) (a' := (stepA0 a (.core c (.restart cl))).1)
      hw rfl (restart_keeps_clock a c cl) rfl c0 k⟩

/-- in particular a credential is accepted after the restart iff it was accepted before, and as the
same user -/
theorem restart_accepts_same {a : ASys} (hw : a.UWF) (c : Nat) (cl : List (PKey × Nat)) (c0 uid : Nat) :
    (∀ name pw, (stepA0 (stepA0 a (.core c (.restart cl))).1 (.login c0 name pw)).2.1 = .okId uid ↔
      (stepA0 { a with sessions := [] } (.login c0 name pw)).2.1 = .okId uid) ∧
    (∀ k, (stepA0 (stepA0 a (.core c (.restart cl))).1 (.loginPat c0 k)).2.1 = .okId uid ↔
      (stepA0 { a with sessions := [] } (.loginPat c0 k)).2.1 = .okId uid) := by
  obtain ⟨h1, h2⟩ := restart_same_answers hw c cl c0
  refine ⟨fun name pw => by rw [h1], fun k => ?_⟩
  rw [h2]
  split
  · next he => rw [he]; simp
  · exact Iff.rfl

/-! ## 9. non-vacuity: a concrete history -/

/-- a history on the demo server (`demoInit`: root only, time 0) exercising every clause -/
example : outsA demoInit [
    .login 1 "iggy" "iggy",                    -- root logs in on connection 1
    .createUser 1 "bob" "pw1" true none,       -- creates bob (id 2)
    .login 2 "bob" "pw1",                      -- right password
    .login 3 "bob" "bad",                      -- wrong password
    .changePw 2 (.name "bob") "bad" "pw2",     -- change without the current password
    .changePw 2 (.name "bob") "pw1" "pw2",     -- change with it
    .login 3 "bob" "pw1",                      -- old password is dead
    .login 3 "bob" "pw2",                      -- new one works
    .logout 3,
    .pats 3,                                   -- the logged-out connection is refused …
    .core 3 .streams,                          -- … also by the core commands
    .createPat 2 "t" (some 100),               -- bob's token 0, expires at 100
    .loginPat 4 0,                             -- accepted
    .loginPat 4 7,                             -- a token never issued
    .createPat 2 "t2" none,                    -- bob's token 1, never expires
    .loginPat 4 1,
    .deletePat 2 "t2",
    .loginPat 4 1,                             -- deleted token refused
    .core 0 (.clock 100),                      -- time passes
    .loginPat 5 0,                             -- expired token refused
    .core 0 (.restart []),
    .loginPat 5 0,                             -- still refused after the restart (now as unknown)
    .login 5 "bob" "pw1",                      -- same answers after the restart: old password dead,
    .login 5 "bob" "pw2",                      -- current one accepted
    .login 1 "iggy" "iggy",
    .deleteUser 1 (.num 1),                    -- root is protected
    .updatePerms 1 (.num 1) none,
    .deleteUser 1 (.num 2),                    -- bob is deleted
    .login 6 "bob" "pw2",                      -- and can no longer log in
    .pats 5,                                   -- bob's open connection 5 is of no use any more
    .logout 5,
    .core 5 .streams]
  = [.okId 1, .okId 2, .okId 2, .err "invalid_credentials", .err "invalid_credentials", .ok,
     .err "invalid_credentials", .okId 2, .ok, .err "unauthenticated", .err "unauthenticated",
     .okId 0, .okId 2, .err "resource_not_found", .okId 1, .okId 2, .ok, .err "resource_not_found",
     .ok, .err "personal_access_token_expired", .ok, .err "resource_not_found",
     .err "invalid_credentials", .okId 2, .okId 1, .err "cannot_delete_user",
     .err "cannot_change_permissions", .ok, .err "invalid_credentials", .err "resource_not_found",
     .err "resource_not_found", .err "unauthorized"] := by decide

/-- the state in which bob exists, is logged in on connection 2 and owns token 0 (expiring at 100) -/
example :
    let a := runA demoInit [.login 1 "iggy" "iggy", .createUser 1 "bob" "pw1" true none, .login 2 "bob" "pw1",
      .createPat 2 "t" (some 100)]
    -- the invariant holds (`uwf_reachable`), and the hypotheses of the theorems above are satisfiable:
    a.UWF ∧
    ((a.findUser (.name "bob")).map (fun u => (u.id, u.name, u.pw, u.active, u.tokens.map (·.idx)))
      = some (2, "bob", "pw1", true, [0])) ∧
    (stepA0 a (.changePw 2 (.name "bob") "pw1" "pw2")).2.1 = .ok ∧          -- `old_password_dead`
    (stepA0 a (.deleteUser 1 (.name "bob"))).2.1 = .ok ∧                     -- `delete_user_kills_credentials`
    (stepA0 a (.deletePat 2 "t")).2.1 = .ok ∧                                -- `delete_token_kills`
    (stepA0 a (.loginPat 7 0)).2.1 = .okId 2 ∧                               -- `token_only_if`
    (stepA0 a (.logout 2)).2.1 = .ok ∧                                       -- `logout_deauthenticates`
    a.userOf 9 = 0 ∧ a.sessOK 9 :=                                           -- a fresh connection
  ⟨uwf_reachable _ _ _, by decide, by decide, by decide, by decide, by decide, by decide, by decide, by decide⟩

/-- a session whose user has been deleted cannot log in again as anybody (`sessOK` fails): the implicit
logout fails. The hypothesis `sessOK` of `login_if` / `token_if` cannot be dropped. -/
example :
    let a := runA demoInit [.login 1 "iggy" "iggy", .createUser 1 "bob" "pw1" true none, .login 2 "bob" "pw1",
      .deleteUser 1 (.num 2)]
    ¬ a.sessOK 2 ∧ (stepA0 a (.login 2 "iggy" "iggy")).2.1 = .err "resource_not_found" ∧
    (stepA0 a (.login 3 "iggy" "iggy")).2.1 = .okId 1 := by decide

end Iggy.Props.C10
