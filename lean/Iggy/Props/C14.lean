/-
C14 — retention removes only expired, closed segments and never rewinds offsets.
`Part.expire` = channels/commands/maintain_messages.rs handle_expired_segments → delete_segments for one
partition; `Part.getByOffset` includes the clamp to the earliest retained offset (fix 9561552).
-/
import Iggy.Log.RefineRun
namespace Iggy.Props.C14
open Iggy.Log

/-- A maintenance pass deletes a message only as part of a closed segment and only if the message is
older than the topic's expiry; what remains is a suffix of what was there (every message that was not
deleted is still there, in place) and the append position does not move. -/
theorem expire_deletes_only {cfg : Cfg} {p : Part} (hseg : 0 < cfg.segSize) (r : Reach cfg p) (now : Nat) :
    ∃ n, abs (p.expire cfg now) = (abs p).dropPrefix n ∧ (p.expire cfg now).next = p.next ∧
      ∀ m ∈ p.msgs.take n, (∃ e, p.expiry = some e ∧ m.ts + e ≤ now) ∧
        ∃ s ∈ p.segs, s.closed = true ∧ m ∈ s.msgs := by
  obtain ⟨n, _, h2, h3, h4⟩ := expire_refines (r.inv hseg) now
  exact ⟨n, h2, h3, h4⟩

/-- topics that never expire lose nothing -/
theorem never_expire_loses_nothing {cfg : Cfg} (p : Part) (now : Nat) (h : p.expiry = none) :
    p.expire cfg now = p := by
  unfold Part.expire; simp [h]

/-- the state after a pass is reachable again: new messages continue at the next offset, also after a
restart (C01 / C03 apply to every later operation) -/
theorem expire_reachable {cfg : Cfg} {p : Part} (r : Reach cfg p) (now : Nat) :
    Reach cfg (p.expire cfg now) := Reach.expire now r

/-- a poll that reaches below the earliest retained offset starts from the earliest message still
available: the answer is the slice starting at `max off firstStart` -/
theorem poll_below_earliest {cfg : Cfg} {p : Part} (hseg : 0 < cfg.segSize) (r : Reach cfg p) {off count : Nat}
    (hc : 0 < count) : p.getByOffset off count =
      p.msgs.filter (fun m => max off p.firstStart ≤ m.off ∧ m.off < max off p.firstStart + count) :=
  reach_poll_exact hseg r hc

theorem consecutiveFrom_mem_lt (lo : Nat) (l : List Msg) (h : consecutiveFrom lo l) :
    ∀ x ∈ l, x.off < lo + l.length := by
  induction l generalizing lo with
  | nil => intro x hx; cases hx
  | cons y ys ih =>
    intro x hx
    simp only [List.mem_cons] at hx
    simp only [List.length_cons]
    rcases hx with rfl | hx
    · have := h.1; omega
    · have := ih (lo + 1) h.2 x hx; omega

/-- every message that was not deleted is still served exactly as before: a poll entirely above the
new earliest offset gives the same answer before and after the pass -/
theorem survivors_served_as_before {cfg : Cfg} {p : Part} (hseg : 0 < cfg.segSize) (r : Reach cfg p) (now : Nat)
    {off count : Nat} (hc : 0 < count) (hoff : (p.expire cfg now).firstStart ≤ off)
    (hoff' : p.firstStart ≤ off) :
    (p.expire cfg now).getByOffset off count = p.getByOffset off count := by
  obtain ⟨n, h2, _, _⟩ := expire_deletes_only hseg r now
  rw [reach_poll_exact hseg (Reach.expire now r) hc, reach_poll_exact hseg r hc]
  rw [Nat.max_eq_left hoff, Nat.max_eq_left hoff']
  have hm : (p.expire cfg now).msgs = p.msgs.drop n := congrArg SPart.msgs h2
  rw [hm]
  -- the dropped prefix lies entirely below `off`
  have hlo := (reach_offsets_firstStart hseg (Reach.expire now r))
  have hlo0 := (reach_offsets_firstStart hseg r)
  rw [hm] at hlo
  conv => rhs; rw [← List.take_append_drop n p.msgs]
  rw [List.filter_append]
  have : (p.msgs.take n).filter (fun m => off ≤ m.off ∧ m.off < off + count) = [] := by
    rw [List.filter_eq_nil_iff]
    intro m hm'
    simp only [decide_eq_true_eq, not_and, Nat.not_lt]
    intro hge
    exfalso
    -- offsets of `take n` are below firstStart of the rest
    have hlen := hlo.2
    have hlen0 := hlo0.2
    simp only [List.length_drop] at hlen
    have hmo : m.off < p.firstStart + min n p.msgs.length := by
      have hcons := (r.inv hseg).msgs_consecutive
      rw [← List.take_append_drop n p.msgs, consecutiveFrom_append] at hcons
      have := consecutiveFrom_mem_lt _ _ hcons.1 m hm'
      simpa [List.length_take] using this
    omega
  rw [this, List.nil_append]

/-! non-vacuity: the regression state `rx5` (four appends, then size-based retention) -/
example : (rx5.getByOffset 0 1).map (·.off) = [5] := by decide

end Iggy.Props.C14
