/-
C15 — a topic's size limit is enforced as configured.
Model: `Topic.send` (topics/messages.rs append_messages: the gate, after fix d64acc2), `Topic.isFull`,
`resolveMax` (Topic::get_max_topic_size), `Part.deleteOldest` (maintain_messages.rs get_oldest_segments +
delete_segments).
-/
import Iggy.Sys.Model
import Iggy.Log.RefineRun
namespace Iggy.Props.C15
open Iggy.Sys Iggy.Log

theorem errOf_ne_full (e : Log.Err) : errOf e ≠ "topic_full" := by cases e <;> decide

/-- A send is refused with topic-full exactly when the topic has partitions, is at or above its limit
and deletion of oldest segments is disabled. -/
theorem gate (t : Topic) (cfg : Cfg) (sc : SCfg) (sid now : Nat) (part : Partitioning) (msgs : List InMsg) :
    (t.send cfg sc sid now part msgs).2.1 = .err "topic_full" ↔
      (t.parts.isEmpty = false ∧ t.isFull = true ∧ sc.deleteOldest = false) := by
  unfold Topic.send
  by_cases hp : t.parts.isEmpty = true
  · simp [hp]
  · simp only [hp, Bool.false_eq_true, if_false]
    by_cases hf : (t.isFull && !sc.deleteOldest) = true
    · simp only [hf, if_true]
      simp only [Bool.and_eq_true, Bool.not_eq_true'] at hf
      simp [hf.1, hf.2]
    · simp only [hf, Bool.false_eq_true, if_false]
      have hne : ¬ (t.isFull = true ∧ sc.deleteOldest = false) := by
        intro h; apply hf; simp [h.1, h.2]
      constructor
      · intro h
        exfalso
        split at h
        · simp at h
        · cases part <;> simp only at h <;> split at h <;> first
            | (simp at h; done)
            | (split at h
               · simp only [Out.err.injEq] at h; exact errOf_ne_full _ h
               · simp at h)
      · intro h; exact absurd ⟨h.2.1, h.2.2⟩ hne

/-- a refused send changes nothing: the topic is unchanged and no partition is touched -/
theorem refused_changes_nothing (t : Topic) (cfg : Cfg) (sc : SCfg) (sid now : Nat) (part : Partitioning)
    (msgs : List InMsg) (hp : t.parts.isEmpty = false) (hf : t.isFull = true) (hd : sc.deleteOldest = false) :
    t.send cfg sc sid now part msgs = (t, .err "topic_full", []) := by
  unfold Topic.send; simp [hp, hf, hd]

/-- `isFull` is the configured comparison: unlimited topics are never full, a limited topic is full
exactly when its size is at or above the limit -/
theorem isFull_iff (t : Topic) : t.isFull = true ↔ ∃ m, t.maxSize = some m ∧ m ≤ t.size := by
  unfold Topic.isFull
  cases t.maxSize with
  | none => simp
  | some m => simp

/-- below the limit, for unlimited topics, and when oldest-segment deletion is enabled, a send is never
refused with topic-full -/
theorem below_or_unlimited_or_deleting_accepts (t : Topic) (cfg : Cfg) (sc : SCfg) (sid now : Nat)
    (part : Partitioning) (msgs : List InMsg)
    (h : t.maxSize = none ∨ (∃ m, t.maxSize = some m ∧ t.size < m) ∨ sc.deleteOldest = true) :
    (t.send cfg sc sid now part msgs).2.1 ≠ .err "topic_full" := by
  intro hc
  have := (gate t cfg sc sid now part msgs).mp hc
  rcases h with h | ⟨m, hm, hlt⟩ | h
  · obtain ⟨m, hm, _⟩ := (isFull_iff t).mp this.2.1; rw [h] at hm; cases hm
  · obtain ⟨m', hm', hle⟩ := (isFull_iff t).mp this.2.1; rw [hm] at hm'; cases hm'; omega
  · rw [h] at this; exact absurd this.2.2 (by simp)

/-- a limit smaller than one segment is rejected when the topic is created or updated (both go through
`resolveMax`) -/
theorem small_limit_rejected (cfg : Cfg) (sc : SCfg) (b : Nat) (h : b < cfg.segSize) :
    resolveMax cfg sc (.custom b) = .error "invalid_topic_size" := by
  unfold resolveMax; simp; omega

theorem valid_limit_accepted (cfg : Cfg) (sc : SCfg) (b : Nat) (h : cfg.segSize ≤ b) :
    resolveMax cfg sc (.custom b) = .ok (some b) := by
  unfold resolveMax; simp [h]

/-- With deletion enabled a maintenance pass on an almost-full topic removes only the oldest closed
segment of a partition — never the newest data — and offsets keep increasing (`next` unchanged). -/
theorem oldest_only {cfg : Cfg} {p : Part} (hseg : 0 < cfg.segSize) (r : Reach cfg p) (now : Nat) :
    ∃ n, abs (p.deleteOldest cfg now) = (abs p).dropPrefix n ∧ (p.deleteOldest cfg now).next = p.next ∧
      ∀ m ∈ p.msgs.take n, ∃ s, p.segs.head? = some s ∧ s.closed = true ∧ m ∈ s.msgs := by
  obtain ⟨n, _, h2, h3, h4⟩ := deleteOldest_refines (r.inv hseg) now
  exact ⟨n, h2, h3, h4⟩

/-- the open (last) segment is never removed by size clean-up when it is the only one -/
theorem open_segment_kept {cfg : Cfg} (p : Part) (now : Nat) (s : Seg) (h : p.segs.head? = some s)
    (ho : s.closed = false) : p.deleteOldest cfg now = p := by
  unfold Part.deleteOldest; simp [h, ho]

/-! non-vacuity -/
def t0 : Topic := { id := 1, name := "t", parts := [(1, Part.create rxCfg none 0)], expiry := none,
                    maxSize := some 0, repl := 1, cursor := 1 }
example : (t0.send rxCfg ⟨false, none, none⟩ 1 5 (.pid 1) [⟨1, 50, 1⟩]).2.1 = .err "topic_full" := by decide
example : (t0.send rxCfg ⟨true, none, none⟩ 1 5 (.pid 1) [⟨1, 50, 1⟩]).2.1 = .ok := by decide

end Iggy.Props.C15
