/-
C12 — concurrent producers and consumers observe one totally ordered log per partition.

Model of concurrency (lock granularity): `Partition::append_messages` runs entirely under the
partition's write lock (topics/messages.rs: `partition.write().await.append_messages`), polls under
the read lock, background save / flush / eviction under the write lock.  Hence every concurrent
execution is a sequential history of these atoms in SOME order — the order in which the lock was
granted — and that order respects each client's program order (a client issues its next request
after the previous one returned).  The theorems quantify over ALL such orders (all lists of events).
Under no-wait confirmation the persister task writes the log later; until then the batch is not
visible (fix 5922a8c): a poll then returns a contiguous PREFIX of what this model says — checked by
the correspondence with scheduled (hook H3) and free-running interleavings.
PARTIAL: behaviour below this granularity (tokio file buffering, spawn_blocking order, atomics' memory
ordering) is not exhibited by the model.
-/
import Iggy.Log.RefineRun
namespace Iggy.Props.C12
open Iggy.Log

/-- one send as it reaches the partition: which producer, the clock, the batch -/
structure Ev where
  producer : Nat
  now : Nat
  msgs : List InMsg
deriving Repr

/-- what batch `e` contributes when it is executed in state `p` -/
def accepted (p : SPart) (e : Ev) : List Msg := (number p.ids p.next e.now e.msgs 0 []).2

/-- execute a schedule; returns the final state and, per event, what it stored -/
def exec : SPart → List Ev → SPart × List (List Msg)
  | p, [] => (p, [])
  | p, e :: rest =>
    let r := exec (p.append e.now e.msgs) rest
    (r.1, accepted p e :: r.2)

theorem append_msgs (p : SPart) (e : Ev) :
    (p.append e.now e.msgs).msgs = p.msgs ++ accepted p e ∧
    (p.append e.now e.msgs).next = p.next + (accepted p e).length := ⟨rfl, rfl⟩

/-- The partition's content equals the interleaving of the sent batches in the order the lock was
granted: nothing lost, nothing duplicated, each batch contiguous. -/
theorem final_is_interleaving (p : SPart) (evs : List Ev) :
    (exec p evs).1.msgs = p.msgs ++ (exec p evs).2.flatten := by
  induction evs generalizing p with
  | nil => simp [exec]
  | cons e rest ih =>
    simp only [exec, List.flatten_cons]
    rw [ih, (append_msgs p e).1, List.append_assoc]

/-- every batch occupies consecutive offsets, starting at the append position it found -/
theorem batch_contiguous (p : SPart) (e : Ev) : consecutiveFrom p.next (accepted p e) := by
  simpa [accepted] using number_consecutive p.ids p.next e.now e.msgs 0

theorem exec_next_ge (p : SPart) (evs : List Ev) : p.next ≤ (exec p evs).1.next := by
  induction evs generalizing p with
  | nil => simp [exec]
  | cons e rest ih =>
    simp only [exec]
    have := ih (p.append e.now e.msgs)
    have := (append_msgs p e).2
    omega

/-- all offsets a schedule hands out, from state `p`, are ≥ `p.next` -/
theorem exec_offsets_ge (p : SPart) (evs : List Ev) : ∀ l ∈ (exec p evs).2, ∀ m ∈ l, p.next ≤ m.off := by
  induction evs generalizing p with
  | nil => simp [exec]
  | cons e rest ih =>
    intro l hl m hm
    simp only [exec, List.mem_cons] at hl
    rcases hl with rfl | hl
    · exact consecutiveFrom_mem_ge _ _ (batch_contiguous p e) m hm
    · have := ih (p.append e.now e.msgs) l hl m hm
      have := (append_msgs p e).2
      omega

theorem consecutiveFrom_mem_lt' (lo : Nat) (l : List Msg) (h : consecutiveFrom lo l) :
    ∀ x ∈ l, x.off < lo + l.length := by
  induction l generalizing lo with
  | nil => intro x hx; cases hx
  | cons y ys ih =>
    intro x hx
    simp only [List.mem_cons] at hx
    simp only [List.length_cons]
    rcases hx with rfl | hx
    · have := h.1; omega
    · have := ih (lo + 1) h.2 x hx; omega

/-- No shared offsets and total order between batches: everything stored by an earlier-executed batch
lies strictly below everything stored by a later-executed one.  In particular every producer's
batches keep their order (program order is contained in execution order). -/
theorem batches_totally_ordered (p : SPart) (e : Ev) (rest : List Ev) :
    ∀ a ∈ accepted p e, ∀ l ∈ (exec (p.append e.now e.msgs) rest).2, ∀ b ∈ l, a.off < b.off := by
  intro a ha l hl b hb
  have h1 := consecutiveFrom_mem_lt' _ _ (batch_contiguous p e) a ha
  have h2 := exec_offsets_ge (p.append e.now e.msgs) rest l hl b hb
  have := (append_msgs p e).2
  omega

/-- the whole log stays gap-free and duplicate-free under any schedule -/
theorem schedule_keeps_invariant (p : SPart) (evs : List Ev) (h : p.Inv) : (exec p evs).1.Inv := by
  induction evs generalizing p with
  | nil => simpa [exec]
  | cons e rest ih => exact ih _ (SPart.append_inv p e.now e.msgs h)

/-- Every poll returns a contiguous run of fully accepted messages — never a torn or partial batch
state: a poll executes between two atoms, on a state of the sequential history. -/
theorem poll_contiguous_genuine (p : SPart) (evs : List Ev) (h : p.Inv) (off count : Nat) :
    (∃ lo, consecutiveFrom lo ((exec p evs).1.pollOffset off count)) ∧
    ∀ m ∈ (exec p evs).1.pollOffset off count, m ∈ (exec p evs).1.msgs :=
  ⟨SPart.pollOffset_consecutive _ off count (schedule_keeps_invariant p evs h),
   fun m hm => SPart.pollOffset_genuine _ off count m hm⟩

/-- Once a send has been acknowledged under wait-confirmation (its append atom has executed) every
later poll of that range includes it: later states only append, and a poll returns every retained
message of its window. -/
theorem ack_visible (p : SPart) (e : Ev) (later : List Ev) (m : Msg) (hm : m ∈ accepted p e)
    (off count : Nat) (h1 : off ≤ m.off) (h2 : m.off < off + count)
    (hlo : ∀ f, (exec (p.append e.now e.msgs) later).1.msgs.head? = some f → f.off ≤ off) :
    m ∈ (exec (p.append e.now e.msgs) later).1.pollOffset off count := by
  apply SPart.pollOffset_complete _ off count m _ h1 h2 hlo
  rw [final_is_interleaving, (append_msgs p e).1]
  simp [hm]

/-- the storage model L1 executes an append atom exactly like the specification (any reachable
state, any batch): the atoms of the schedule are `Part.append` steps -/
theorem l1_atom_refines {cfg : Cfg} {p : Part} (hseg : 0 < cfg.segSize) (r : Reach cfg p) (e : Ev)
    (hsz : ∀ m ∈ e.msgs, 0 < m.size) (hts : ∀ m ∈ p.msgs, m.ts ≤ e.now) :
    ∃ p', p.append cfg e.now e.msgs = .ok p' ∧ Reach cfg p' ∧ abs p' = (abs p).append e.now e.msgs :=
  r.append_ok hseg hsz hts

/-! non-vacuity: two producers, three batches, one interleaving -/
def p0 : SPart := SPart.create exCfg none
def sched : List Ev := [⟨1, 10, [⟨11, 50, 1⟩, ⟨12, 50, 2⟩]⟩, ⟨2, 11, [⟨21, 50, 3⟩]⟩, ⟨1, 12, [⟨13, 50, 4⟩, ⟨14, 50, 5⟩]⟩]
example : (exec p0 sched).1.msgs.map (fun m => (m.off, m.id)) = [(0, 11), (1, 12), (2, 21), (3, 13), (4, 14)] := by decide
example : (exec p0 sched).2.map (fun l => l.map (·.off)) = [[0, 1], [2], [3, 4]] := by decide

end Iggy.Props.C12
