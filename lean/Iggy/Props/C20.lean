/-
C20 — the SDK's producer and consumer deliver every message once, in partition order.
(First instalment: the full development over the consumer state machine is merged when proved.)
-/
import Iggy.Sdk.Model
namespace Iggy.Props.C20
open Iggy.Sdk

variable {Id Part M : Type}

/-- an empty input produces no request, whatever the call -/
theorem empty_sends_nothing (c : PCfg Id Part) (s t : Id) (p : Option Part) :
    c.path s t ([] : List M) p = [] := by simp [PCfg.path]

/-- `send_to` addresses every request to the stream and topic it is given (fix 446fd4b) -/
theorem sendTo_addressed (c : PCfg Id Part) (s t : Id) (msgs : List M) (p : Option Part) :
    ∀ r ∈ c.requests (.sendTo s t msgs p), r.stream = s ∧ r.topic = t := by
  intro r hr
  simp only [PCfg.requests, PCfg.path] at hr
  split at hr
  · cases hr
  · simp only [List.mem_map] at hr
    obtain ⟨_, _, rfl⟩ := hr
    exact ⟨rfl, rfl⟩

example : (⟨1, 1, some 2, false, none, 0⟩ : PCfg Nat Nat).path 5 6 ([] : List Nat) (some 7) = [] := by decide

end Iggy.Props.C20
