/-
C20 — "Messages handed to the high-level producer - whatever its batching, interval and partitioning
settings, and whichever of its send calls is used - all reach the stream, topic and partition they were
addressed to and no other, and a high-level consumer (single or group member) yields every message of its
partitions exactly once and in offset order as long as replay is not requested. The offset it commits never
exceeds the last message it has fetched and, in the modes that commit on consumption, never exceeds the
last message it has yielded; a consumer re-created with the same identity resumes right after its last
committed offset instead of skipping or re-reading acknowledged work."

Model: `Iggy/Sdk/Model.lean` (sdk/src/clients/producer.rs, consumer.rs; tied to the real code by the
judge's differential runs). Specification side: `Iggy/Sdk/Spec.lean`.

Reading the consumer statements:
* `Srv` is the abstract server for the one partition `pid` the server serves this consumer from and the
  one consumer identity (C02 / C07 are the properties that tie the real server to it): messages
  `msgAt 0 .. msgAt (len-1)`, the stored offset `stored`.
* `step cfg pid strat0 sys e` is one event of the composition consumer + server: `pop` (a buffered message
  is yielded), `poll` (only with an empty buffer: server poll, `onReply`, the synchronous commit if any,
  `onPolled`), `deliver` (the background task takes one entry of the store-offset channel), `tick` (the
  interval task stores the consumed offsets), `append n` (producers), `drop` (the consumer is dropped and
  re-created with the same identity; enabled once the channel is drained - the real background task
  drains it after the drop, which is any number of `deliver`s before). Events that are not enabled are
  no-ops, so every `List Ev` is a schedule; `Reach cfg pid strat0 srv0 sys tr` = some schedule leads from
  a fresh consumer and the server `srv0` to `sys` with the trace `tr` (`reach_iff_run`).
* The trace lists, in order, `yield y`, `polled b r` (a poll reached the server, which had `b` stored and
  returned `r`), `store off ok` (a store-offset request reached the server), `dropped`.
  `Always P tr`: every observation of the trace satisfies `P` given the trace before it.
  `lastYield pre`: the last offset yielded by the incarnation current at the end of `pre`.
* `Good cfg strat0`: `allow_replay = false`, batch size ≥ 1, strategy `next` or `offset k`.
  All modes (disabled, polling, each, nth n, all; with or without the interval task), all schedules.
-/
import Iggy.Sdk.Lemmas
namespace Iggy.Props.C20
open Iggy.Sdk

variable {Id Part M : Type}

/-! ## A. producer -/

/-- cutting into chunks loses nothing and keeps the order (also for `n = 0`, which `batch_size(0)` cannot
produce: it is stored as `None`) -/
theorem chunks_flatten {α : Type} (n : Nat) (l : List α) : (chunks n l).flatten = l :=
  Iggy.Sdk.chunks_flatten n l

/-- no chunk is empty, none exceeds `n` -/
theorem chunks_bounds {α : Type} {n : Nat} (l : List α) (hn : 0 < n) :
    ∀ c ∈ chunks n l, c ≠ [] ∧ c.length ≤ n :=
  Iggy.Sdk.chunks_bounds l hn

/-- whatever the configuration (batch size, send interval, builder partitioning) and whichever call:
the requests carry exactly the messages handed in, in order; every request goes to the stream and topic
the call addresses (the producer's own for `send` / `send_one` / `send_with_partitioning`, the given ones
for `send_to`) with the partitioning the call resolves to (argument, else the builder's, else balanced);
no request is empty or larger than the batch size; no messages, no request. -/
theorem producer_delivers (c : PCfg Id Part) (hb : c.batch ≠ some 0) (call : Call Id Part M) :
    ((c.requests call).map (·.msgs)).flatten = call.msgs ∧
    (∀ r ∈ c.requests call, r.stream = (call.addr c).1 ∧ r.topic = (call.addr c).2 ∧ r.part = call.part c ∧
      r.msgs ≠ [] ∧ r.msgs.length ≤ c.batch.getD MAX_BATCH_SIZE) ∧
    (call.msgs = [] → c.requests call = []) :=
  Iggy.Sdk.producer_delivers c hb call

/-! ## B. consumer -/

variable {cfg : CCfg} {pid : Nat} {strat0 : Strat} {srv0 : Srv} {sys : Sys} {tr : List Obs}

/-- `Reach` is "some schedule": every run is reachable, every reachable state is a run -/
theorem reach_iff_run : Reach cfg pid strat0 srv0 sys tr ↔
    ∃ evs, run cfg pid strat0 (Cons.new strat0, srv0) evs = (sys, tr) := by
  constructor
  · exact reach_run
  · rintro ⟨evs, h⟩
    have := run_reach (Reach.init (cfg := cfg) (pid := pid) (strat0 := strat0) (srv0 := srv0)) evs
    rw [h] at this; simpa using this

/-- Every yield comes from the consumer's partition, is the server's message at its offset, and is the
successor of the previous yield of the same incarnation: strictly increasing, no repeats, no gaps.
Every yielded offset exists on the server. Said per incarnation: its yields are a run `a, a+1, ..`. -/
theorem yields_in_order_once (hg : Good cfg strat0) (hr : Reach cfg pid strat0 srv0 sys tr) :
    Always (fun pre x => ∀ y, x = .yield y →
      y.pid = pid ∧ y.msg = msgAt y.msg.off ∧ ∀ l, lastYield pre = some l → y.msg.off = l + 1) tr ∧
    (∀ y ∈ yieldsOf tr, y.msg.off < sys.2.len) ∧
    (∀ inc ∈ incarnations tr, ∃ a, offsOf inc = List.range' a (offsOf inc).length) :=
  Iggy.Sdk.yields_in_order_once hg hr

/-- The first yield of an incarnation directly follows the poll that fetched it and is the first message
that poll asked for: with `next` the offset right after the one the server had stored when the poll
arrived (offset 0 if none), with `offset k` the offset `k` (`firstOff`). -/
theorem first_yield_resumes (hg : Good cfg strat0) (hr : Reach cfg pid strat0 srv0 sys tr) :
    Always (fun pre x => ∀ y, x = .yield y → lastYield pre = none →
      ∃ pre' b r, pre = pre' ++ [.polled b r] ∧ y.msg.off = firstOff strat0 b) tr :=
  Iggy.Sdk.first_yield_resumes hg hr

/-- The same on states: in a reachable state whose incarnation has not yielded yet - in particular right
after a re-creation, `lastYield_after_drop` - the only event that yields is a poll, and what it yields is
the server's message right after the offset stored for the identity at that moment: nothing at or below
the committed offset is read again, nothing after it is skipped. -/
theorem resume_after_committed (hg : Good cfg .next) (hr : Reach cfg pid .next srv0 sys tr)
    (hl : lastYield tr = none) (e : Ev) (y : Yield) (hy : Obs.yield y ∈ (step cfg pid .next sys e).2) :
    e = .poll ∧ y = ⟨pid, msgAt (resume sys.2.stored)⟩ :=
  first_yield_state hg hr hl e y hy

/-- a re-created consumer has not yielded -/
theorem lastYield_after_drop (tr : List Obs) : lastYield (tr ++ [.dropped]) = none := by
  simp [lastYield]

/-- Every store-offset request that reaches the server (from the channel, the interval task or the
synchronous commit inside a poll; ALL modes) carries an offset yielded before, and the server accepts
it. Outside polling mode the offset stored on the server is therefore the one it started with or one
the consumer (this or an earlier incarnation) has yielded. -/
theorem commit_le_yielded (hg : Good cfg strat0) (hr : Reach cfg pid strat0 srv0 sys tr) :
    Always (fun pre x => ∀ off ok, x = .store off ok → ok = true ∧ off ∈ offsOf pre) tr ∧
    (cfg.polling = false → sys.2.stored = srv0.stored ∨ ∃ o ∈ offsOf tr, sys.2.stored = some o) :=
  Iggy.Sdk.commit_le_yielded hg hr

/-- In every mode - polling mode is the one where it says something new - the offset stored on the server
is the one it started with or an offset the server has returned to this consumer; and what was yielded was
fetched. -/
theorem commit_le_fetched (hg : Good cfg strat0) (hr : Reach cfg pid strat0 srv0 sys tr) :
    (sys.2.stored = srv0.stored ∨ ∃ o ∈ fetchedOf tr, sys.2.stored = some o) ∧
    (∀ o ∈ offsOf tr, o ∈ fetchedOf tr) :=
  Iggy.Sdk.commit_le_fetched hg hr

/-- the offset a poll finds stored on the server is the initial one or a committed one (`PolledOK`):
with `first_yield_resumes`, an incarnation starts right after an offset that was fetched and, outside
polling mode, yielded -/
theorem polled_stored (hg : Good cfg strat0) (hr : Reach cfg pid strat0 srv0 sys tr) :
    Always (PolledOK cfg srv0) tr :=
  Iggy.Sdk.polled_stored hg hr

/-- Progress. Modes each / all / nth n (n ≥ 1) / polling, strategy `next`, with or without the interval
task: in a reachable state with an empty buffer and an empty store-offset channel in which the server has
the message the stream has to yield next (`wanted`: right after the last one this incarnation consumed,
else right after the stored offset), two polls yield it. The second poll is needed when the stored
offset lags behind the consumed one by a batch or more (nth n with batch < n): the first poll stores the
consumed offset. This is the statement that was false before 47819f3. -/
theorem no_stall (hg : Good cfg .next) (hm : ConsumeMode cfg ∨ cfg.polling = true)
    (hr : Reach cfg pid .next srv0 sys tr)
    (hp : sys.1.pending = []) (hb : sys.1.buffered = []) (hw : wanted pid sys < sys.2.len) :
    Obs.yield ⟨pid, msgAt (wanted pid sys)⟩ ∈ (run cfg pid .next sys [.poll, .poll]).2 :=
  no_stall_reach hg hm hr hp hb hw

/-- More precisely: the first poll yields it, or the first poll stores the consumed offset (nothing else)
and the second yields it. -/
theorem no_stall_two_polls (hg : Good cfg .next) (hm : ConsumeMode cfg ∨ cfg.polling = true)
    (hr : Reach cfg pid .next srv0 sys tr)
    (hp : sys.1.pending = []) (hb : sys.1.buffered = []) (hw : wanted pid sys < sys.2.len) :
    (∃ r, (step cfg pid .next sys .poll).2 = [.polled sys.2.stored r, .yield ⟨pid, msgAt (wanted pid sys)⟩]) ∨
    (∃ r b' r', (step cfg pid .next sys .poll).2 = [.polled sys.2.stored r, .store (wanted pid sys - 1) true] ∧
      (step cfg pid .next (step cfg pid .next sys .poll).1 .poll).2 =
        [.polled b' r', .yield ⟨pid, msgAt (wanted pid sys)⟩]) :=
  no_stall_inv hg hm (hr.inv hg) hp hb hw

/-- Across re-creations nothing is lost (strategy `next`, every mode but polling, whose commits run ahead
of the yields by design): the offsets yielded so far by all incarnations together are exactly an interval
starting right after the offset the server held at the beginning. -/
theorem no_skip_across_incarnations (hg : Good cfg .next) (hpol : cfg.polling = false)
    (hr : Reach cfg pid .next srv0 sys tr) :
    (∀ o ∈ offsOf tr, resume srv0.stored ≤ o) ∧
    (∀ o o', o' ∈ offsOf tr → resume srv0.stored ≤ o → o ≤ o' → o ∈ offsOf tr) :=
  Iggy.Sdk.no_skip_across_incarnations hg hpol hr

/-- What an incarnation yields does not depend on the schedule (when the background tasks run, when the
application polls, when producers append): two incarnations, of any two schedules from any two servers,
that start with the same message yield the same sequence as far as both go. -/
theorem yields_schedule_independent (hg : Good cfg strat0) {sys₁ sys₂ : Sys} {tr₁ tr₂ : List Obs}
    {srv₁ srv₂ : Srv}
    (h₁ : Reach cfg pid strat0 srv₁ sys₁ tr₁) (h₂ : Reach cfg pid strat0 srv₂ sys₂ tr₂)
    (inc₁ inc₂ : List Obs) (hi₁ : inc₁ ∈ incarnations tr₁) (hi₂ : inc₂ ∈ incarnations tr₂)
    (hhead : (yieldsOf inc₁).head? = (yieldsOf inc₂).head?)
    (hlen : (yieldsOf inc₁).length ≤ (yieldsOf inc₂).length) :
    yieldsOf inc₁ = (yieldsOf inc₂).take (yieldsOf inc₁).length :=
  Iggy.Sdk.yields_schedule_independent hg h₁ h₂ inc₁ inc₂ hi₁ hi₂ hhead hlen

/-! ## non-vacuity and witnesses -/

/-- the hypotheses are satisfiable -/
example : Good { batch := 3, mode := .nth 5 } .next := ⟨rfl, by decide, Or.inl rfl⟩
example : ConsumeMode { batch := 3, mode := .nth 5 } := Or.inr (Or.inr ⟨5, by decide, rfl⟩)

/-- a run with yields, a lagging stored offset (nth 5, batch 3: the second poll returns 0..2 again and
commits 2, the third fetches 3..5), a re-creation and a resumption -/
example : (run { batch := 3, mode := .nth 5 } 1 .next (Cons.new .next, ⟨10, none⟩)
    [.poll, .pop, .pop, .poll, .poll, .deliver, .drop, .poll]).2 =
    [.polled none [msgAt 0, msgAt 1, msgAt 2], .yield ⟨1, msgAt 0⟩, .yield ⟨1, msgAt 1⟩, .yield ⟨1, msgAt 2⟩,
     .polled none [msgAt 0, msgAt 1, msgAt 2], .store 2 true,
     .polled (some 2) [msgAt 3, msgAt 4, msgAt 5], .yield ⟨1, msgAt 3⟩,
     .store 0 true, .dropped,
     .polled (some 0) [msgAt 1, msgAt 2, msgAt 3], .yield ⟨1, msgAt 1⟩] := by decide

/-- a state as in `no_stall` where the second poll is needed -/
example : let sys := (run { batch := 2, mode := .nth 5 } 1 .next (Cons.new .next, ⟨10, none⟩)
      [.poll, .pop, .deliver, .poll]).1
    sys.1.pending = [] ∧ sys.1.buffered = [] ∧ wanted 1 sys = 3 ∧ sys.2.stored = some 0 ∧
    offsOf (step { batch := 2, mode := .nth 5 } 1 .next sys .poll).2 = [] ∧
    offsOf (run { batch := 2, mode := .nth 5 } 1 .next sys [.poll, .poll]).2 = [3] := by decide

/-- polling mode: the commit runs ahead of the yields (offset 2 stored, 0 yielded); a re-created consumer
skips what was fetched but not yielded -/
example : (run { batch := 3, mode := .polling } 1 .next (Cons.new .next, ⟨10, none⟩) [.poll]).1.2.stored = some 2 ∧
    offsOf (run { batch := 3, mode := .polling } 1 .next (Cons.new .next, ⟨10, none⟩) [.poll, .drop, .poll]).2 =
      [0, 3] := by decide

/-- WITNESS (not a C20 clause, but worth knowing): the offset stored on the server can go BACK. `store_consumer_offset`
never skips offset 0 (`offset <= stored && offset >= 1`), so a stale `(partition, 0)` still waiting in the
channel overwrites a later commit - here the synchronous commit of 2. With nth n nothing repairs it until
the next multiple of n is consumed: a consumer re-created in between re-reads 1 and 2 (third example above). -/
example : (run { batch := 3, mode := .each } 1 .next (Cons.new .next, ⟨3, none⟩)
      [.poll, .pop, .pop, .poll]).1.2.stored = some 2 ∧
    (run { batch := 3, mode := .each } 1 .next (Cons.new .next, ⟨3, none⟩)
      [.poll, .pop, .pop, .poll, .deliver]).1.2.stored = some 0 := by decide

/-- `no_stall` needs a committing mode: with `AutoCommit::Disabled` and `next` the application has to
store offsets itself, otherwise every poll returns the same messages (by design) -/
example : offsOf (run { batch := 1, mode := .disabled } 1 .next (Cons.new .next, ⟨5, none⟩)
    [.poll, .poll, .poll, .poll, .poll]).2 = [0] := by decide

/-- **the stored offset was moved back behind this consumer's back** (another member of the group committed
an older offset of a partition it no longer owns - its background task stores whatever it consumed last):
under `next` the server then answers with messages this consumer has consumed already. Whatever the client
believes to be stored (`c.stored` is arbitrary here), the poll stores the consumed offset `l` again and the
next poll yields `l + 1`: the consumer does not stall. Before the fix the first poll stored nothing when
`c.stored` already said `l`, and every later poll returned the same consumed messages for ever. -/
theorem rewound_offset_recovers (cfg : CCfg) (hrep : cfg.replay = false) (hbatch : 1 ≤ cfg.batch)
    (hauto : cfg.autoCommitEnabled = true) (hpol : cfg.polling = false)
    (pid : Nat) (c : Cons) (s : Srv) (l : Nat)
    (hstrat : c.strat = .next) (hc : c.consumed = [(pid, l)]) (hb : c.buffered = [])
    (hmore : l + 1 < s.len)
    -- the stored offset lags so far behind that the whole reply is old
    (hback : min (resume s.stored + cfg.batch) s.len ≤ l + 1) :
    ∃ r r', (run cfg pid .next (c, s) [.poll, .poll]).2 =
      [.polled s.stored r, .store l true, .polled (some l) r', .yield ⟨pid, msgAt (l + 1)⟩] := by
  have hstart : s.start c.strat cfg.batch = resume s.stored := by rw [hstrat]; rfl
  obtain ⟨r, h1⟩ := poll_going_sync cfg hrep pid .next c s l hc hb (by omega) hbatch
    (by rw [hstart]; omega) (by rw [hstart]; exact hback) hauto hpol (Or.inr hstrat)
  obtain ⟨r', h2⟩ := poll_going_obs_yield cfg hrep pid .next
    { c with curPart := pid, stored := c.stored.set pid l } { s with stored := some l } l hc hb
    (by simp [hstrat, Srv.start, resume]) (by simp [hstrat, Srv.start, resume]; omega)
  refine ⟨r, r', ?_⟩
  simp only [run, h1, h2, List.append_nil, List.cons_append, List.nil_append]

/-- the hypotheses of `rewound_offset_recovers` are met by the history found by the correspondence run
(`corpus/C20/stale-member-commit.ops`): consumed up to 7, believed stored 7, server moved back to 5 -/
example : let cfg : CCfg := { batch := 1, mode := .disabled, interval := true }
    let c : Cons := { strat := .next, consumed := [(2, 7)], stored := [(2, 7)] }
    let s : Srv := ⟨10, some 5⟩
    cfg.autoCommitEnabled = true ∧ cfg.polling = false ∧ min (resume s.stored + cfg.batch) s.len ≤ 7 + 1 ∧
    offsOf (run cfg 2 .next (c, s) [.poll, .poll]).2 = [8] := by decide

/-- a producer call (`chunks` is defined by well-founded recursion, which `decide` does not unfold) -/
example : ((({ stream := 1, topic := 2, batch := some 2, interval := true, partitioning := none, dflt := 0 } :
    PCfg Nat Nat).requests (.sendTo 7 8 [10, 11, 12] (some 5))).map
      (fun r => (r.stream, r.topic, r.part, r.msgs))) =
    [(7, 8, 5, [10, 11]), (7, 8, 5, [12])] := by
  simp [PCfg.requests, PCfg.path, chunks]

end Iggy.Props.C20
