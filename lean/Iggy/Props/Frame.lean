/-
FRAME ("sibling isolation") — an operation changes only what it names.

Reading the state by key (Iggy/Sys/FrameLemmas.lean):
  `y.stream? sid`      the whole stream entry under a numeric id (name, topics, partitions, groups, cursors),
  `y.topic? sid tid`   the whole topic entry (settings, partitions, groups, cursors),
  `y.part? (sid,tid,pid)`  the partition as a `Part` value (segments, cache, offsets, counters, expiry).
What an operation names: `Op.stream?`, `Op.topic?`, `Op.part?` (identifiers as sent: numeric or name);
they are resolved with the model's own `findStream` / `findTopic`.

Hypotheses.  Target 1 needs none.  Targets 2–4 assume `y.CatWF` (structural well-formedness: every
entity stored under its own id, ids ascending, names unique, partitions `1..n`), which holds in every
reachable state (`C05.wf_reachable`) and is preserved by every step; `frame_needs_keyed` shows that
without it isolation is false (in an unreachable, mis-keyed state).  Target 5 needs the user-table
invariant `UWF` for `createUser` only.

Documented exceptions, stated exactly below:
* `close c` leaves groups in every stream (`close_changes_only_members`, `close_groups_exact`);
* `purgeStream` / `deleteStream` name a stream and act on all its topics (`purgeStream_exact`,
  `deleteStream_removes_only_named`);
* `save`, `maintain`, `restart` are global (`save_exact`, `maintain_topic_local`, C05 for restart);
* `flush`, `evict`, `save` change partitions without reporting an effect — where a message is held
  (buffer / disk / cache), never which messages or offsets exist (`flush_exact`, `evict_exact`,
  `evict_only_cache`, `save_exact`; `quiet_flush_unreported` shows the exception is necessary);
  `maintain` reports `dropped` per partition only when the retained count shrinks: that it changes
  nothing else needs the storage invariant of every partition and is NOT proved here (it is excluded
  from target 4 together with the three above: `Op.quiet`); it is shown local to each topic;
* group rotation cursors and the round-robin send cursor are topic-level fields, not part of any
  `Part`; they are covered by targets 1–2 (only the named topic's entry may change).
-/
import Iggy.Sys.FrameLemmas
namespace Iggy.Props.Frame
open Iggy.Sys Iggy.Log Iggy.Perm

/-! ## the concrete states used by the non-vacuity examples

two streams (`a` = 1, `b` = 2); stream 1 has topics `t` = 1 (two partitions, group `g` = 1 with members 70
and 80) and `u` = 2; stream 2 has topic `v` = 1 (group `h` = 1 with member 70); one message in every
partition (still in the write buffer and in the cache), one stored consumer offset -/

def exCfg : Cfg := ⟨10, 1000, true, true, false⟩
def exSCfg : SCfg := ⟨false, some 7, none⟩

def exOps : List Op := [
  .createStream (some 1) "a", .createStream (some 2) "b",
  .createTopic (.num 1) (some 1) "t" 2 .never .unlimited none,
  .createTopic (.num 1) (some 2) "u" 1 .never .unlimited none,
  .createTopic (.num 2) (some 1) "v" 1 .never .unlimited none,
  .createGroup (.num 1) (.num 1) (some 1) "g",
  .createGroup (.num 2) (.num 1) (some 1) "h",
  .me 7 70, .me 8 80,
  .join 7 (.num 1) (.num 1) (.num 1), .join 8 (.num 1) (.num 1) (.num 1), .join 7 (.num 2) (.num 1) (.num 1),
  .send (.num 1) (.num 1) (.pid 1) [⟨1, 50, 1⟩],
  .send (.num 1) (.num 1) (.pid 2) [⟨2, 50, 2⟩],
  .send (.num 1) (.num 2) (.pid 1) [⟨3, 50, 3⟩],
  .send (.num 2) (.num 1) (.pid 1) [⟨4, 50, 4⟩],
  .storeOffset 7 (.num 1) (.num 1) (some 2) ⟨false, 5⟩ 0]

def ex : Sys := exOps.foldl (fun y op => (step y op).1) (Sys.init exCfg exSCfg 0)

/-- the example state satisfies the hypothesis of targets 2–4 -/
theorem ex_wf : ex.CatWF := (wf_run (wf_init exCfg exSCfg 0) exOps).1

example : ex.allKeys = [(1, 1, 1), (1, 1, 2), (1, 2, 1), (2, 1, 1)] := by decide
example : (ex.findStream (.name "a")).toOption.map (·.id) = some 1 := by decide
example : ((ex.findStream (.name "a")).toOption.bind (fun s => (s.findTopic (.name "t")).toOption)).map (·.id) = some 1 := by
  decide

/-- root (1) logged in on connection 1, users `bob` = 2 (logged in on connection 2) and `eve` = 3 -/
def exA : ASys := runA (ASys.init ex 100)
  [.login 1 "iggy" "iggy", .createUser 1 "bob" "pw" true none, .createUser 1 "eve" "pw" true none, .login 2 "bob" "pw"]

example : exA.sessions = [(1, 1), (2, 2)] ∧ exA.users.map (·.1) = [1, 2, 3] := by decide

/-- a mis-keyed (unreachable) state: the entry under key 1 carries id 2 -/
def exBad : Sys :=
  { Sys.init exCfg exSCfg 0 with
    streams := [(1, { id := 2, name := "a", topicCursor := 1, topics :=
      [(5, { id := 5, name := "t", parts := [], expiry := none, maxSize := none, repl := 1, cursor := 1 }),
       (6, { id := 6, name := "u", parts := [], expiry := none, maxSize := none, repl := 1, cursor := 1 })] })] }

def opSend : Op := .send (.name "a") (.name "t") (.pid 1) [⟨9, 50, 9⟩]
def opBal : Op := .send (.num 1) (.num 1) .balanced [⟨9, 50, 9⟩]
def opPoll : Op := .poll 7 (.num 1) (.name "t") (some 2) ⟨false, 6⟩ .first 1 true
def opDelTopic : Op := .deleteTopic (.num 1) (.name "t")
def opDelUser : AOp := .deleteUser 1 (.name "bob")

/-! ## 1. streams -/

/-- **other_stream_untouched** — every operation that names a stream (by id or by name) which resolves
to `s` leaves the whole entry of every other stream id as it was: topics, partitions, consumer groups,
cursors, everything.  Holds for every state `y`, no invariant needed. -/
theorem other_stream_untouched (y : Sys) (op : Op) {si : Ident} {s : Stream} (hop : op.stream? = some si)
    (hs : y.findStream si = .ok s) {sid' : Nat} (hne : sid' ≠ s.id) :
    (step y op).1.stream? sid' = y.stream? sid' :=
  step_streams_agreeOff y op si s hop hs sid' hne

example : (step ex opSend).1.stream? 2 = ex.stream? 2 ∧ (step ex opSend).1.stream? 1 ≠ ex.stream? 1 := by decide
example : (step ex (.purgeStream (.name "b"))).1.stream? 1 = ex.stream? 1 ∧
    (step ex (.purgeStream (.name "b"))).1.stream? 2 ≠ ex.stream? 2 := by decide

/-- in a well-formed catalogue the resolved stream *is* the entry under its id (so "`sid' ≠ s.id`" above
means "another stream") -/
theorem named_stream_is_entry {y : Sys} (h : y.CatWF) {si : Ident} {s : Stream} (hs : y.findStream si = .ok s) :
    y.stream? s.id = some s := h.find_stream hs

example : (ex.stream? 1).map (·.name) = some "a" := by decide
/-- … which fails in the mis-keyed state: the stream found under key 1 is not the entry under its id -/
example : (exBad.findStream (.num 1)).toOption.map (·.id) = some 2 ∧ exBad.stream? 2 = none := by decide

/-- a stream identifier that does not resolve: the state is unchanged (all of it) -/
theorem unresolved_stream_changes_nothing (y : Sys) (op : Op) {si : Ident} {e : String} (hop : op.stream? = some si)
    (hs : y.findStream si = .error e) : (step y op).1 = y := step_unresolved_stream y op si e hop hs

example : (step ex (.deleteStream (.name "zz"))).1.streams = ex.streams ∧
    (step ex (.deleteStream (.name "zz"))).2.1 = .err "stream_name_not_found" := by decide

/-- … likewise a topic identifier that does not resolve -/
theorem unresolved_topic_changes_nothing (y : Sys) (op : Op) {si ti : Ident} {s : Stream} {e : String}
    (hop : op.stream? = some si) (hop' : op.topic? = some ti) (hs : y.findStream si = .ok s)
    (ht : s.findTopic ti = .error e) : (step y op).1 = y := step_unresolved_topic y op si ti s e hop hop' hs ht

example : (step ex (.purgeTopic (.num 1) (.num 9))).1.streams = ex.streams ∧
    (step ex (.purgeTopic (.num 1) (.num 9))).2.1 = .err "topic_id_not_found" := by decide

/-- operations that name no stream, other than `createStream`, `close` and the global `save` /
`maintain` / `restart` (i.e. `clock`, `me`, `streams`, `stats`): the stream table is unchanged -/
theorem no_stream_op_keeps_streams (y : Sys) (op : Op) (hop : op.stream? = none)
    (h1 : ∀ i n, op ≠ .createStream i n) (h2 : ∀ c, op ≠ .close c) (h3 : op ≠ .save) (h4 : op ≠ .maintain)
    (h5 : ∀ cl, op ≠ .restart cl) : (step y op).1.streams = y.streams :=
  step_local_streams y op hop h1 h2 h3 h4 h5

example : (step ex (.me 9 90)).1.streams = ex.streams ∧ (step ex (.me 9 90)).1.clients ≠ ex.clients := by decide

/-- `createStream` only adds an entry: every existing stream entry stays exactly as it was (also when
the command is refused) -/
theorem createStream_keeps_existing (y : Sys) (id : Option Nat) (name : String) {sid : Nat} {s : Stream}
    (h : y.stream? sid = some s) : (step y (.createStream id name)).1.stream? sid = some s :=
  step_createStream_keeps y id name sid s h

example : (step ex (.createStream none "c")).1.stream? 1 = ex.stream? 1 ∧
    (step ex (.createStream none "c")).1.stream? 2 = ex.stream? 2 ∧
    ((step ex (.createStream none "c")).1.stream? 3).map (·.name) = some "c" := by decide

/-- `deleteStream s` removes the entry of `s` and no other -/
theorem deleteStream_removes_only_named (y : Sys) {si : Ident} {s : Stream} (hs : y.findStream si = .ok s) :
    (step y (.deleteStream si)).1.stream? s.id = none ∧
    ∀ sid', sid' ≠ s.id → (step y (.deleteStream si)).1.stream? sid' = y.stream? sid' :=
  ⟨step_deleteStream_gone y si s hs, fun _ hne => other_stream_untouched y _ rfl hs hne⟩

example : (step ex (.deleteStream (.name "a"))).1.stream? 1 = none ∧
    (step ex (.deleteStream (.name "a"))).1.stream? 2 = ex.stream? 2 ∧ ex.stream? 1 ≠ none := by decide

/-- **close** — `close c` (the client of connection `c` leaves every group it had joined, in every
stream) changes nothing but member lists of consumer groups: with all member lists blanked
(`noMembers`), the stream table after equals the stream table before — every name, setting, cursor,
group id / name / partition count and every `Part` (messages, cache, consumer and group offsets) is
untouched -/
theorem close_changes_only_members {y : Sys} (h : y.CatWF) (c : Nat) :
    noMembers (step y (.close c)).1.streams = noMembers y.streams := close_noMembers h c

/-- connection 7 (client 70) is a member of groups in both streams; closing it changes both entries -/
example : noMembers (step ex (.close 7)).1.streams = noMembers ex.streams ∧
    (step ex (.close 7)).1.stream? 1 ≠ ex.stream? 1 ∧ (step ex (.close 7)).1.stream? 2 ≠ ex.stream? 2 := by
  decide +kernel

/-- … in particular every partition, with its stored offsets, is untouched -/
theorem close_partitions_untouched {y : Sys} (h : y.CatWF) (c : Nat) (k : PKey) :
    (step y (.close c)).1.part? k = y.part? k := by
  show partOf _ k = partOf _ k
  rw [← partOf_noMembers, close_noMembers h, partOf_noMembers]

example : ∀ k ∈ ex.allKeys, (step ex (.close 7)).1.part? k = ex.part? k ∧ ex.part? k ≠ none := by decide

/-- … and the groups, exactly: a group the client had joined (its key is in the client's membership
list) becomes `deleteMember client` of itself (the remaining members are re-balanced); every other
group is untouched, members included -/
theorem close_groups_exact {y : Sys} (h : y.CatWF) (c : Nat) (k : Nat × Nat × Nat) :
    groupOf (step y (.close c)).1.streams k =
      (groupOf y.streams k).map (fun g =>
        if k ∈ (find? y.memberships (y.clientOf c)).getD [] then g.deleteMember (y.clientOf c) else g) :=
  close_groupOf h c k

example : (groupOf ex.streams (1, 1, 1)).map (fun g => g.members.map (·.id)) = some [70, 80] ∧
    (groupOf (step ex (.close 7)).1.streams (1, 1, 1)).map (fun g => g.members.map (fun m => (m.id, m.share))) =
      some [(80, [1, 2])] ∧
    (groupOf (step ex (.close 7)).1.streams (2, 1, 1)).map (fun g => g.members.map (·.id)) = some [] ∧
    groupOf (step ex (.close 8)).1.streams (2, 1, 1) = groupOf ex.streams (2, 1, 1) := by decide

/-! ## 2. topics -/

/-- **other_topic_untouched** — every operation that names topic `t` of stream `s` leaves every other
topic entry of `s` as it was (settings, size limit, expiry, partitions, groups, cursors) -/
theorem other_topic_untouched {y : Sys} (h : y.CatWF) (op : Op) {si ti : Ident} {s : Stream} {t : Topic}
    (hop : op.stream? = some si) (hop' : op.topic? = some ti) (hs : y.findStream si = .ok s)
    (ht : s.findTopic ti = .ok t) {tid' : Nat} (hne : tid' ≠ t.id) :
    (step y op).1.topic? s.id tid' = y.topic? s.id tid' := by
  have hk := h.find_stream hs
  show topicOf _ _ _ = topicOf _ _ _
  rw [step_topics_agreeOff y op si ti s t hop hop' hs ht hk tid' hne]
  simp [topicOf, hk]

example : (step ex opDelTopic).1.topic? 1 2 = ex.topic? 1 2 ∧ (step ex opDelTopic).1.topic? 1 1 = none ∧
    ex.topic? 1 1 ≠ none := by decide
example : (step ex opSend).1.topic? 1 2 = ex.topic? 1 2 ∧ (step ex opSend).1.topic? 1 1 ≠ ex.topic? 1 1 := by decide
example : (step ex (.updateTopic (.num 1) (.num 2) "w" (.dur 5) .unlimited none)).1.topic? 1 1 = ex.topic? 1 1 ∧
    ((step ex (.updateTopic (.num 1) (.num 2) "w" (.dur 5) .unlimited none)).1.topic? 1 2).map (·.expiry) = some (some 5) := by
  decide

/-- … and, with target 1, every topic entry anywhere other than the named one -/
theorem other_topic_untouched_anywhere {y : Sys} (h : y.CatWF) (op : Op) {si ti : Ident} {s : Stream} {t : Topic}
    (hop : op.stream? = some si) (hop' : op.topic? = some ti) (hs : y.findStream si = .ok s)
    (ht : s.findTopic ti = .ok t) {sid' tid' : Nat} (hne : (sid', tid') ≠ (s.id, t.id)) :
    (step y op).1.topic? sid' tid' = y.topic? sid' tid' := by
  by_cases h1 : sid' = s.id
  · subst h1
    exact other_topic_untouched h op hop hop' hs ht (fun h2 => hne (by rw [h2]))
  · show topicOf _ _ _ = topicOf _ _ _
    simp only [topicOf]
    rw [show find? (step y op).1.streams sid' = find? y.streams sid' from other_stream_untouched y op hop hs h1]

example : (step ex opDelTopic).1.topic? 2 1 = ex.topic? 2 1 ∧ ex.topic? 2 1 ≠ none := by decide

/-- the named topic is the entry under its id -/
theorem named_topic_is_entry {y : Sys} (h : y.CatWF) {si ti : Ident} {s : Stream} {t : Topic}
    (hs : y.findStream si = .ok s) (ht : s.findTopic ti = .ok t) : y.topic? s.id t.id = some t := by
  show topicOf _ _ _ = _
  simp [topicOf, h.find_stream hs, h.find_topic hs ht]

example : (ex.topic? 1 1).map (·.name) = some "t" := by decide

/-- **the hypothesis is needed**: without "every entity is stored under its own id" isolation fails.  In
the mis-keyed state `exBad` (the entry under key 1 carries id 2) `createGroup` on topic 5 of "stream 1"
writes a copy of the stream under key 2, so topic 6 appears under a stream id where there was none.
Such states are unreachable (`C05.wf_reachable`); this is not a defect of the model. -/
theorem frame_needs_keyed : ¬ ∀ (y : Sys) (op : Op) (si ti : Ident) (s : Stream) (t : Topic),
    op.stream? = some si → op.topic? = some ti → y.findStream si = .ok s → s.findTopic ti = .ok t →
    ∀ tid', tid' ≠ t.id → (step y op).1.topic? s.id tid' = y.topic? s.id tid' := by
  intro h
  have := h exBad (.createGroup (.num 1) (.num 5) none "g") (.num 1) (.num 5) _ _ rfl rfl rfl rfl 6 (by decide)
  revert this; decide

/-- operations that name a stream but no topic, other than purge / delete stream (`updateStream`,
`createTopic`, `topics`, `streamInfo`): every existing topic entry of the stream stays exactly as it
was (`createTopic` only adds one) -/
theorem stream_op_keeps_topics {y : Sys} (h : y.CatWF) (op : Op) {si : Ident} {s : Stream}
    (hop : op.stream? = some si) (hop' : op.topic? = none) (h1 : op ≠ .purgeStream si) (h2 : op ≠ .deleteStream si)
    (hs : y.findStream si = .ok s) {tid : Nat} {t : Topic} (ht : y.topic? s.id tid = some t) :
    (step y op).1.topic? s.id tid = some t := by
  have hk := h.find_stream hs
  have ht' : find? s.topics tid = some t := by
    have : topicOf y.streams s.id tid = some t := ht
    simpa [topicOf, hk] using this
  exact step_stream_op_keeps_topics y op si s hop hop' h1 h2 hs hk tid t ht'

example : (step ex (.createTopic (.num 1) none "w" 1 .never .unlimited none)).1.topic? 1 1 = ex.topic? 1 1 ∧
    (step ex (.createTopic (.num 1) none "w" 1 .never .unlimited none)).1.topic? 1 2 = ex.topic? 1 2 ∧
    ((step ex (.createTopic (.num 1) none "w" 1 .never .unlimited none)).1.topic? 1 3).map (·.name) = some "w" := by
  decide

/-- `purgeStream` names the stream and acts on all its topics, exactly so: every topic entry keeps its
settings, groups and cursors and has each partition purged -/
theorem purgeStream_exact (y : Sys) {si : Ident} {s : Stream} (hs : y.findStream si = .ok s) (tid : Nat) :
    (step y (.purgeStream si)).1.topic? s.id tid =
      (find? s.topics tid).map (fun t => mapParts t (fun p => p.purge y.cfg y.now)) :=
  step_purgeStream_topics y si s hs tid

example : (step ex (.purgeStream (.num 1))).1.topic? 1 1 ≠ ex.topic? 1 1 ∧
    (step ex (.purgeStream (.num 1))).1.topic? 1 2 ≠ ex.topic? 1 2 ∧
    (step ex (.purgeStream (.num 1))).1.topic? 2 1 = ex.topic? 2 1 := by decide

/-- the outcome of a `send` — result, effects, and the topic entry left behind — is a function of the
named topic alone (and the configuration and clock): the size gate (`topic_full`), the partition
choice and the append see no other topic -/
theorem send_topic_local (y : Sys) (si ti : Ident) (p : Partitioning) (msgs : List InMsg) {s : Stream} {t : Topic}
    (hs : y.findStream si = .ok s) (ht : s.findTopic ti = .ok t) :
    (step y (.send si ti p msgs)).2 = (t.send y.cfg y.scfg s.id y.now p msgs).2 ∧
    (step y (.send si ti p msgs)).1.topic? s.id t.id = some (t.send y.cfg y.scfg s.id y.now p msgs).1 :=
  step_send_local y si ti p msgs s t hs ht

/-- the same send, before and after another topic of the same stream has grown: same result -/
example : (step (step ex (.send (.num 1) (.name "u") (.pid 1) [⟨8, 500, 8⟩])).1 opSend).2.1 = (step ex opSend).2.1 ∧
    (step (step ex (.send (.num 1) (.name "u") (.pid 1) [⟨8, 500, 8⟩])).1 opSend).1.topic? 1 1 =
      (step ex opSend).1.topic? 1 1 := by decide +kernel

/-- retention (`maintain`: expiry and size-based deletion) handles every topic on its own: what it
leaves under (stream id, topic id) is `Topic.maintain` of what was there — a function of that topic,
the configuration and the clock only; no other topic's size, limit or expiry enters -/
theorem maintain_topic_local (y : Sys) (sid tid : Nat) :
    (step y .maintain).1.topic? sid tid =
      (y.topic? sid tid).map (fun t => (t.maintain y.cfg y.scfg sid y.now).1) :=
  step_maintain_topic y sid tid

example : (step ex .maintain).1.topic? 1 1 = (ex.topic? 1 1).map (fun t => (t.maintain exCfg exSCfg 1 0).1) := by decide

/-! ## 3. partitions -/

/-- **other_partition_untouched** — `send … (pid k)`, `poll / storeOffset / getOffset / deleteOffset …
(some k)`, `flush … k`, `evict … k`: every partition `k' ≠ k` of the named topic is unchanged as a `Part`
value (messages, cache, consumer offsets, group offsets, counters) -/
theorem other_partition_untouched {y : Sys} (h : y.CatWF) (op : Op) {si ti : Ident} {k : Nat} {s : Stream} {t : Topic}
    (hop : op.stream? = some si) (hop' : op.topic? = some ti) (hp : op.part? = some k)
    (hs : y.findStream si = .ok s) (ht : s.findTopic ti = .ok t) {k' : Nat} (hne : k' ≠ k) :
    (step y op).1.part? (s.id, t.id, k') = y.part? (s.id, t.id, k') := by
  have hk := h.find_stream hs
  have hkt := h.find_topic hs ht
  show partOf _ _ = partOf _ _
  rw [step_parts_agreeOff y op si ti s t k hop hop' hp hs ht hk hkt k' hne]
  simp [partOf, topicOf, hk, hkt]

example : (step ex opSend).1.part? (1, 1, 2) = ex.part? (1, 1, 2) ∧ (step ex opSend).1.part? (1, 1, 1) ≠ ex.part? (1, 1, 1) := by
  decide
/-- an auto-committing poll of partition 2 stores an offset there and nowhere else -/
example : (step ex opPoll).1.part? (1, 1, 1) = ex.part? (1, 1, 1) ∧ (step ex opPoll).1.part? (1, 1, 2) ≠ ex.part? (1, 1, 2) ∧
    ((step ex opPoll).1.part? (1, 1, 2)).map (·.consOffs) = some [(6, 0), (5, 0)] := by decide
example : (step ex (.deleteOffset 7 (.num 1) (.num 1) (some 2) ⟨false, 5⟩)).1.part? (1, 1, 1) = ex.part? (1, 1, 1) ∧
    ((step ex (.deleteOffset 7 (.num 1) (.num 1) (some 2) ⟨false, 5⟩)).1.part? (1, 1, 2)).map (·.consOffs) = some [] ∧
    (ex.part? (1, 1, 2)).map (·.consOffs) = some [(5, 0)] := by decide
example : (step ex (.flush (.num 1) (.num 1) 1)).1.part? (1, 1, 2) = ex.part? (1, 1, 2) ∧
    (step ex (.evict (.num 1) (.num 1) 1 0)).1.part? (1, 1, 2) = ex.part? (1, 1, 2) := by decide

/-- a `send` with any partitioning (`balanced`, `pid`, `key`) either changes no partition and reports
nothing, or appends to exactly one partition of the named topic — the one its single effect names (for
`pid k`: `k`) — and leaves every other partition of the topic alone -/
theorem send_changes_one_partition {y : Sys} (h : y.CatWF) (si ti : Ident) (pt : Partitioning) (msgs : List InMsg)
    {s : Stream} {t : Topic} (hs : y.findStream si = .ok s) (ht : s.findTopic ti = .ok t) :
    ((step y (.send si ti pt msgs)).2.2 = [] ∧
      ∀ c, (step y (.send si ti pt msgs)).1.part? (s.id, t.id, c) = y.part? (s.id, t.id, c)) ∨
    (∃ pid pOld pNew, (step y (.send si ti pt msgs)).2.2 = [.appended (s.id, t.id, pid) y.now msgs] ∧
      (∀ k, pt = .pid k → pid = k) ∧
      y.part? (s.id, t.id, pid) = some pOld ∧ pOld.append y.cfg y.now msgs = .ok pNew ∧
      (step y (.send si ti pt msgs)).1.part? (s.id, t.id, pid) = some pNew ∧
      ∀ c, c ≠ pid → (step y (.send si ti pt msgs)).1.part? (s.id, t.id, c) = y.part? (s.id, t.id, c)) := by
  have hk := h.find_stream hs
  have hkt := h.find_topic hs ht
  have hy : ∀ c, y.part? (s.id, t.id, c) = find? t.parts c := fun c => by
    show partOf _ _ = _; simp [partOf, topicOf, hk, hkt]
  simp only [hy]
  exact step_send_one_partition y si ti pt msgs s t hs ht

/-- a balanced send: one effect, it names partition 1, partition 2 is untouched -/
example : (step ex opBal).2.2.map Effect.key = [(1, 1, 1)] ∧ (step ex opBal).1.part? (1, 1, 1) ≠ ex.part? (1, 1, 1) ∧
    (step ex opBal).1.part? (1, 1, 2) = ex.part? (1, 1, 2) := by decide
/-- by key: hash 4 over two partitions is partition 2 -/
example : (step ex (.send (.num 1) (.num 1) (.key 4) [⟨9, 50, 9⟩])).2.2.map Effect.key = [(1, 1, 2)] ∧
    (step ex (.send (.num 1) (.num 1) (.key 4) [⟨9, 50, 9⟩])).1.part? (1, 1, 1) = ex.part? (1, 1, 1) := by decide

/-- the data-plane operations report at most one effect -/
theorem data_ops_one_effect (y : Sys) (op : Op)
    (hop : (∃ si ti p m, op = .send si ti p m) ∨ (∃ c si ti pid cons k n a, op = .poll c si ti pid cons k n a) ∨
      (∃ c si ti pid cons o, op = .storeOffset c si ti pid cons o) ∨
      (∃ c si ti pid cons, op = .deleteOffset c si ti pid cons) ∨ (∃ c si ti pid cons, op = .getOffset c si ti pid cons)) :
    (step y op).2.2.length ≤ 1 := step_data_effects_le_one y op hop

example : (step ex opPoll).2.2.length = 1 ∧ (step ex opSend).2.2.length = 1 := by decide

/-! ## 4. effects name what changed -/

/-- **effects_name_what_changed** — for every operation other than the four quiet ones (`flush`,
`evict`, `save`, `maintain`), `restart` included: a partition key that no effect of the step names
holds the same `Part` value — or is absent — before and after.  (So a specification state evolved
from the effects alone misses no change of any partition.) -/
theorem effects_name_what_changed {y : Sys} (h : y.CatWF) (op : Op) (hq : op.quiet = false) (k : PKey)
    (hc : ∀ e ∈ (step y op).2.2, e.key ≠ k) : (step y op).1.part? k = y.part? k :=
  step_effects_name_changes h op hq k hc

/-- deleting topic 1 of stream 1 names exactly its two partitions; the two others are untouched -/
example : (step ex opDelTopic).2.2.map Effect.key = [(1, 1, 1), (1, 1, 2)] ∧
    (step ex opDelTopic).1.part? (1, 2, 1) = ex.part? (1, 2, 1) ∧ (step ex opDelTopic).1.part? (2, 1, 1) = ex.part? (2, 1, 1) ∧
    (step ex opDelTopic).1.part? (1, 1, 1) = none := by decide
example : (step ex (.restart [])).2.2.map Effect.key = ex.allKeys := by decide

/-- the same, read the other way: a partition that differs, appears or disappears is named by an effect -/
theorem changed_partition_is_named {y : Sys} (h : y.CatWF) (op : Op) (hq : op.quiet = false) (k : PKey)
    (hd : (step y op).1.part? k ≠ y.part? k) : ∃ e ∈ (step y op).2.2, e.key = k := by
  apply Classical.byContradiction
  intro hn
  exact hd (effects_name_what_changed h op hq k (fun e he hk => hn ⟨e, he, hk⟩))

example : (step ex (.purgeStream (.num 1))).2.2.map Effect.key = [(1, 1, 1), (1, 1, 2), (1, 2, 1)] ∧
    (step ex (.purgeStream (.num 1))).1.part? (2, 1, 1) = ex.part? (2, 1, 1) := by decide

/-- the exceptions, exactly.  `flush` rewrites the named partition by `Part.flush` (buffer to disk) … -/
theorem flush_exact {y : Sys} (h : y.CatWF) (si ti : Ident) (k : Nat) {s : Stream} {t : Topic}
    (hs : y.findStream si = .ok s) (ht : s.findTopic ti = .ok t) :
    (step y (.flush si ti k)).1.part? (s.id, t.id, k) = (y.part? (s.id, t.id, k)).map (fun p => p.flush y.cfg) ∧
    (step y (.flush si ti k)).2.2 = [] := by
  have hk := h.find_stream hs
  have hkt := h.find_topic hs ht
  refine ⟨?_, ?_⟩
  · have hy : y.part? (s.id, t.id, k) = find? t.parts k := by show partOf _ _ = _; simp [partOf, topicOf, hk, hkt]
    rw [hy]; exact step_flush_part y si ti k s t hs ht hk hkt
  · simp only [step, Sys.withPart, Sys.withTopic, hs, ht]; split <;> rfl

/-- the exception is necessary: `flush` changes a partition and reports nothing -/
theorem quiet_flush_unreported : ¬ ∀ (y : Sys), y.CatWF → ∀ (op : Op) (k : PKey),
    (∀ e ∈ (step y op).2.2, e.key ≠ k) → (step y op).1.part? k = y.part? k := by
  intro h
  have := h ex ex_wf (.flush (.num 1) (.num 1) 1) (1, 1, 1) (by decide)
  revert this; decide

/-- … `evict` rewrites it by `Part.evict` … -/
theorem evict_exact {y : Sys} (h : y.CatWF) (si ti : Ident) (k keep : Nat) {s : Stream} {t : Topic}
    (hs : y.findStream si = .ok s) (ht : s.findTopic ti = .ok t) :
    (step y (.evict si ti k keep)).1.part? (s.id, t.id, k) = (y.part? (s.id, t.id, k)).map (fun p => p.evict keep) ∧
    (step y (.evict si ti k keep)).2.2 = [] := by
  have hk := h.find_stream hs
  have hkt := h.find_topic hs ht
  refine ⟨?_, ?_⟩
  · have hy : y.part? (s.id, t.id, k) = find? t.parts k := by show partOf _ _ = _; simp [partOf, topicOf, hk, hkt]
    rw [hy]; exact step_evict_part y si ti k keep s t hs ht hk hkt
  · simp only [step, Sys.withPart, Sys.withTopic, hs, ht]; split <;> rfl

/-- … and so does `evict` (the cache held one message) -/
example : (step ex (.evict (.num 1) (.num 1) 1 0)).1.part? (1, 1, 1) ≠ ex.part? (1, 1, 1) ∧
    (step ex (.evict (.num 1) (.num 1) 1 0)).2.2.length = 0 ∧
    ((step ex (.evict (.num 1) (.num 1) 1 0)).1.part? (1, 1, 1)).map (·.cache) = some (some []) ∧
    (ex.part? (1, 1, 1)).map (fun p => p.cache.map (·.length)) = some (some 1) := by decide

/-- … which changes the `cache` field and nothing else … -/
theorem evict_only_cache (p : Part) (keep : Nat) : p.evict keep = { p with cache := (p.evict keep).cache } := rfl

/-- … and `save` rewrites every partition by `Part.save` (all buffers to disk).  Together with
targets 1–3 (`flush` / `evict` touch only the partition they name) this is all a quiet operation does;
`maintain` reports a `dropped` effect for a partition exactly when its retained message count shrinks
(`Topic.maintain`) and is local to each topic (`maintain_topic_local`). -/
theorem save_exact (y : Sys) (k : PKey) :
    (step y .save).1.part? k = (y.part? k).map (fun p => p.save y.cfg) ∧ (step y .save).2.2 = [] :=
  ⟨step_save_part y k, rfl⟩

example : (step ex .save).1.part? (2, 1, 1) ≠ ex.part? (2, 1, 1) ∧ (step ex .save).2.2.length = 0 := by decide

/-! ## 4b. other consumers, other groups, memberships -/

/-- **offsets of other consumers** — `storeOffset`, `deleteOffset` and an (auto-committing) `poll` for
consumer `cons` change, in any partition of the named topic, at most the stored offset of `cons`
itself: the partition's messages, cache and counters, and the stored offset of every other consumer
and every other group, are as before (`OffsetOnly`); partitions outside the named topic are covered
by targets 1–2 -/
theorem other_consumer_offsets_untouched {y : Sys} (h : y.CatWF) (op : Op) (cons : Consumer) {si ti : Ident}
    {s : Stream} {t : Topic}
    (hop : (∃ c pid k n a, op = .poll c si ti pid cons k n a) ∨ (∃ c pid o, op = .storeOffset c si ti pid cons o) ∨
      (∃ c pid, op = .deleteOffset c si ti pid cons))
    (hs : y.findStream si = .ok s) (ht : s.findTopic ti = .ok t) (c : Nat) :
    OffsetOnlyOpt cons.grp cons.id (y.part? (s.id, t.id, c)) ((step y op).1.part? (s.id, t.id, c)) := by
  have hk := h.find_stream hs
  have hkt := h.find_topic hs ht
  have hy : y.part? (s.id, t.id, c) = find? t.parts c := by show partOf _ _ = _; simp [partOf, topicOf, hk, hkt]
  rw [hy]; exact step_offset_only y op cons si ti s t hop hs ht hk hkt c

/-- consumer 6 stores an offset in partition 2: consumer 5's offset there stays -/
example : ((step ex (.storeOffset 7 (.num 1) (.num 1) (some 2) ⟨false, 6⟩ 0)).1.part? (1, 1, 2)).map (·.consOffs) =
      some [(6, 0), (5, 0)] ∧
    ((step ex (.storeOffset 7 (.num 1) (.num 1) (some 2) ⟨false, 6⟩ 0)).1.part? (1, 1, 2)).bind (·.getOffset false 5) =
      (ex.part? (1, 1, 2)).bind (·.getOffset false 5) ∧
    (ex.part? (1, 1, 2)).bind (·.getOffset false 5) = some 0 := by decide

/-- **other_group_untouched** — `deleteGroup`, `join`, `leave`, `groupInfo` on group `g` of topic `t`
leave every other consumer group of `t` as it was (members, shares, rotation cursors) -/
theorem other_group_untouched {y : Sys} (h : y.CatWF) (op : Op) {si ti gi : Ident} {s : Stream} {t : Topic} {g : Group}
    (hop : op.stream? = some si) (hop' : op.topic? = some ti) (hop'' : op.group? = some gi)
    (hs : y.findStream si = .ok s) (ht : s.findTopic ti = .ok t) (hg : t.findGroup gi = .ok g)
    {gid' : Nat} (hne : gid' ≠ g.id) :
    groupOf (step y op).1.streams (s.id, t.id, gid') = groupOf y.streams (s.id, t.id, gid') := by
  rw [step_groups_agreeOff y op si ti gi s t g hop hop' hop'' hs ht hg gid' hne]
  simp [groupOf, topicOf, h.find_stream hs, h.find_topic hs ht]

example : groupOf (step (step ex (.createGroup (.num 1) (.num 1) (some 2) "g2")).1 (.leave 7 (.num 1) (.num 1) (.num 1))).1.streams (1, 1, 2) =
      groupOf (step ex (.createGroup (.num 1) (.num 1) (some 2) "g2")).1.streams (1, 1, 2) ∧
    (groupOf (step ex (.leave 7 (.num 1) (.num 1) (.num 1))).1.streams (1, 1, 1)).map (fun g => g.members.map (·.id)) =
      some [80] := by decide

/-- an operation (other than the quiet four) that reports no effect changes no partition: in particular
`join`, `leave`, `groupInfo`, `groups`, `createGroup`, `me`, `close`, every refused command and every query -/
theorem no_effect_no_partition_change {y : Sys} (h : y.CatWF) (op : Op) (hq : op.quiet = false)
    (he : (step y op).2.2 = []) (k : PKey) : (step y op).1.part? k = y.part? k :=
  effects_name_what_changed h op hq k (by rw [he]; intro e he'; cases he')

example : (step ex (.join 8 (.num 2) (.num 1) (.num 1))).2.2.length = 0 ∧
    (step ex (.join 8 (.num 2) (.num 1) (.num 1))).1.stream? 2 ≠ ex.stream? 2 ∧
    ∀ k ∈ ex.allKeys, (step ex (.join 8 (.num 2) (.num 1) (.num 1))).1.part? k = ex.part? k := by decide

/-- `join` / `leave` on connection `c` change, outside the stream table, only the membership list of
`c`'s own client -/
theorem join_leave_own_memberships (y : Sys) (op : Op) (c : Nat)
    (hop : (∃ si ti gi, op = .join c si ti gi) ∨ (∃ si ti gi, op = .leave c si ti gi)) :
    (∀ cl, cl ≠ y.clientOf c → find? (step y op).1.memberships cl = find? y.memberships cl) ∧
    (step y op).1.clients = y.clients := step_join_leave_memberships y op c hop

example : find? (step ex (.leave 7 (.num 1) (.num 1) (.num 1))).1.memberships 80 = find? ex.memberships 80 ∧
    find? (step ex (.leave 7 (.num 1) (.num 1) (.num 1))).1.memberships 70 = some [(2, 1, 1)] ∧
    find? ex.memberships 70 = some [(1, 1, 1), (2, 1, 1)] := by decide

/-! ## 5. the authentication layer -/

/-- **other_user_untouched** — an operation that names user `u` (`deleteUser`, `updateUser`,
`updatePerms`, `changePw`, `userInfo`; by id or by name) leaves every other user's record as it was,
touches no session of any connection — `deleteUser` included: open sessions of the deleted user keep
their user id — and nothing of the core system.  Holds for every state. -/
theorem other_user_untouched (a : ASys) (op : AOp) {ui : Ident} {u : User} (hop : op.user? = some ui)
    (hu : a.findUser ui = some u) :
    (∀ u', u' ≠ u.id → find? (stepA a op).1.users u' = find? a.users u') ∧
    (stepA a op).1.sessions = a.sessions ∧ (stepA a op).1.sys = a.sys := by
  rw [stepA_fst]; exact stepA0_user_frame a op ui u hop hu

/-- deleting `bob` (2): `eve` (3) and root keep their records; `bob`'s open session on connection 2 stays -/
example : find? (stepA exA opDelUser).1.users 3 = find? exA.users 3 ∧ find? (stepA exA opDelUser).1.users 1 = find? exA.users 1 ∧
    find? (stepA exA opDelUser).1.users 2 = none ∧ (stepA exA opDelUser).1.sessions = [(1, 1), (2, 2)] ∧
    (stepA exA opDelUser).2.1 = .ok := by decide
example : find? (stepA exA (.changePw 2 (.num 2) "pw" "new")).1.users 3 = find? exA.users 3 ∧
    (find? (stepA exA (.changePw 2 (.num 2) "pw" "new")).1.users 2).map (·.pw) = some "new" := by decide

/-- in a well-formed user table the resolved user is the entry under its id -/
theorem named_user_is_entry {a : ASys} (h : a.UWF) {ui : Ident} {u : User} (hu : a.findUser ui = some u) :
    find? a.users u.id = some u := ASys.findUser_find? h hu

example : (exA.findUser (.name "bob")).map (·.id) = some 2 ∧ (find? exA.users 2).map (·.name) = some "bob" := by decide

/-- a user identifier that does not resolve: nothing changes -/
theorem unresolved_user_changes_nothing (a : ASys) (op : AOp) {ui : Ident} (hop : op.user? = some ui)
    (hu : a.findUser ui = none) : (stepA a op).1 = a := by
  rw [stepA_fst]; exact stepA0_user_unresolved a op ui hop hu

example : (stepA exA (.deleteUser 1 (.name "zz"))).1.users = exA.users ∧
    (stepA exA (.deleteUser 1 (.name "zz"))).2.1 = .err "resource_not_found" := by decide

/-- `createUser` only adds a record: every existing user's record stays, no session and nothing of the
core system is touched -/
theorem createUser_keeps_existing {a : ASys} (h : a.UWF) (c : Nat) (name pw : String) (active : Bool)
    (perms : Option Permissions) :
    (∀ k u, find? a.users k = some u → find? (stepA a (.createUser c name pw active perms)).1.users k = some u) ∧
    (stepA a (.createUser c name pw active perms)).1.sessions = a.sessions ∧
    (stepA a (.createUser c name pw active perms)).1.sys = a.sys := by
  rw [stepA_fst]; exact stepA0_createUser_frame h c name pw active perms

example : (∀ k ∈ [1, 2, 3], find? (stepA exA (.createUser 1 "dan" "pw" true none)).1.users k = find? exA.users k) ∧
    (find? (stepA exA (.createUser 1 "dan" "pw" true none)).1.users 4).map (·.name) = some "dan" := by decide

/-- personal-access-token operations on connection `c` act on the record of `c`'s own user only -/
theorem token_ops_own_user (a : ASys) (op : AOp) (c : Nat) {u : User}
    (hop : (∃ n e, op = .createPat c n e) ∨ (∃ n, op = .deletePat c n) ∨ op = .pats c)
    (hu : find? a.users (a.userOf c) = some u) :
    (∀ u', u' ≠ u.id → find? (stepA a op).1.users u' = find? a.users u') ∧
    (stepA a op).1.sessions = a.sessions ∧ (stepA a op).1.sys = a.sys := by
  rw [stepA_fst]; exact stepA0_pat_frame a op c u hop hu

example : find? (stepA exA (.createPat 2 "tk" none)).1.users 1 = find? exA.users 1 ∧
    find? (stepA exA (.createPat 2 "tk" none)).1.users 3 = find? exA.users 3 ∧
    (find? (stepA exA (.createPat 2 "tk" none)).1.users 2).map (·.tokens.length) = some 1 := by decide

/-- `login` / `loginPat` / `logout` on connection `c` change only `sessions`, and there only the
entry of `c` -/
theorem login_logout_only_own_session (a : ASys) (op : AOp) (c : Nat)
    (hop : (∃ n p, op = .login c n p) ∨ (∃ k, op = .loginPat c k) ∨ op = .logout c) :
    (stepA a op).1 = { a with sessions := (stepA a op).1.sessions } ∧
    ∀ c', c' ≠ c → find? (stepA a op).1.sessions c' = find? a.sessions c' := by
  rw [stepA_fst]; exact stepA0_login_frame a op c hop

example : (stepA exA (.logout 2)).1.sessions = [(1, 1)] ∧ (stepA exA (.login 3 "eve" "pw")).1.sessions = [(1, 1), (2, 2), (3, 3)] ∧
    (stepA exA (.login 3 "eve" "pw")).1.users = exA.users := by decide

/-- no operation except a restart of the core system (which drops all sessions) touches the session
of a connection other than the one it is issued on -/
theorem other_sessions_untouched (a : ASys) (op : AOp) (hop : ∀ c cl, op ≠ .core c (.restart cl)) {c' : Nat}
    (hc : op.conn? ≠ some c') : find? (stepA a op).1.sessions c' = find? a.sessions c' := by
  rw [stepA_fst]; exact stepA0_sessions_frame a op hop c' hc

example : find? (stepA exA (.core 2 (.close 2))).1.sessions 1 = some 1 ∧
    find? (stepA exA (.core 2 (.close 2))).1.sessions 2 = none := by decide

/-- only `login`, `loginPat`, `logout`, `close` and `restart` touch sessions at all -/
theorem sessions_touched_only_by (a : ASys) (op : AOp)
    (h1 : ∀ c n p, op ≠ .login c n p) (h2 : ∀ c k, op ≠ .loginPat c k) (h3 : ∀ c, op ≠ .logout c)
    (h4 : ∀ c cc, op ≠ .core c (.close cc)) (h5 : ∀ c cl, op ≠ .core c (.restart cl)) :
    (stepA a op).1.sessions = a.sessions := by
  rw [stepA_fst]; exact stepA0_sessions_same a op h1 h2 h3 h4 h5

example : (stepA exA (.updatePerms 1 (.num 2) (some Permissions.root))).1.sessions = exA.sessions ∧
    (find? (stepA exA (.updatePerms 1 (.num 2) (some Permissions.root))).1.users 2).map (·.perms) ≠
      (find? exA.users 2).map (·.perms) := by decide

/-- a core operation issued through the authentication layer acts on the core system exactly as
`step` does, or is refused and changes nothing: targets 1–4 lift to `stepA` -/
theorem core_op_on_sys (a : ASys) (c : Nat) (op : Op) :
    (stepA a (.core c op)).1.sys = (step a.sys op).1 ∨ (stepA a (.core c op)).1 = a := by
  rw [stepA_fst]; exact stepA0_core_sys a c op

example : (stepA exA (.core 1 opSend)).1.sys.streams = (step exA.sys opSend).1.streams ∧
    (stepA exA (.core 9 opSend)).2.1 = .err "unauthenticated" ∧
    (stepA exA (.core 9 opSend)).1.sys.streams = exA.sys.streams := by decide

end Iggy.Props.Frame
