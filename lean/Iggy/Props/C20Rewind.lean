/-
C20 in a world where the stored offset can be moved BACK behind the consumer's back.

`Iggy/Props/C20.lean` composes the consumer with a server on which this consumer is the only one who stores
its offset. In a consumer GROUP that is not so: the stored offset of a partition belongs to the group, and a
member that no longer owns the partition can still store an older offset of it (its background commit
stores whatever it consumed last). `Iggy/Sdk/Rewind.lean` adds this as an event of the environment on top
of the unchanged composition:

* `EvR` = `base e` (an event `e` of `Spec.lean`: pop, poll, deliver, tick, append n, drop) or `rewind o`:
  the stored offset becomes `o`, enabled when an offset `so ≥ o` is stored, a no-op otherwise. A rewind
  leaves no observation in the trace (the consumer's side does not see it happen).
* `stepR` / `runR` / `ReachR`: `step` / `run` / `Reach` over `EvR`. Every `List EvR` is a schedule;
  `ReachR cfg pid strat0 srv0 sys tr` = some schedule with rewinds leads from a fresh consumer and the
  server `srv0` to `sys` with the trace `tr` (`reachR_iff_runR`). `Reach` implies `ReachR` (`reach_reachR`).

What survives rewinds (sections A, B): everything C20 says about ONE incarnation of the consumer - yields
in offset order, exactly once, no gaps; the first yield resumes right after the stored offset; commits
carry yielded offsets; no stall. The model of the consumer (`Iggy/Sdk/Model.lean`) is unchanged.

What does not survive (witnesses at the end): the statements that read the server's stored offset as "the
initial one or one this consumer committed" (`commit_le_yielded` second half, `commit_le_fetched` first
half, `polled_stored`) - false by the very definition of a rewind; their rewind-proof form is
`stored_le_yielded_rewind` (not BEYOND the initial or a yielded offset) - and the first half of
`no_skip_across_incarnations`: a consumer re-created after a rewind starts right after the rewound offset
and re-reads what the rewind un-acknowledged (at least once, not exactly once, across re-creations). Its
second half - no gap - survives: `no_gap_across_incarnations_rewind`.

Proof: the invariant `Inv` of `Iggy/Sdk/Lemmas/Inv.lean` carries a flag `rew`; with `rew = true` it leaves
out the facts that tie the server's stored offset to the client's belief (`CInv`, `PInv`, ...). Every
event preserves it for both values of the flag, a rewind preserves `Inv true`, and progress no longer
needs `CInv`: with `next` the consumer stores the consumed offset whenever a reply holds nothing new.
-/
import Iggy.Sdk.Lemmas.Rewind
namespace Iggy.Props.C20Rewind
open Iggy.Sdk

variable {cfg : CCfg} {pid : Nat} {strat0 : Strat} {srv0 : Srv} {sys : Sys} {tr : List Obs}

/-- `ReachR` is "some schedule with rewinds": every run is reachable, every reachable state is a run -/
theorem reachR_iff_runR : ReachR cfg pid strat0 srv0 sys tr ↔
    ∃ evs, runR cfg pid strat0 (Cons.new strat0, srv0) evs = (sys, tr) := by
  constructor
  · exact reachR_runR
  · rintro ⟨evs, h⟩
    have := runR_reachR (ReachR.init (cfg := cfg) (pid := pid) (strat0 := strat0) (srv0 := srv0)) evs
    rw [h] at this; simpa using this

/-- the world with rewinds contains the world of `Props/C20.lean` -/
theorem reach_reachR (h : Reach cfg pid strat0 srv0 sys tr) : ReachR cfg pid strat0 srv0 sys tr :=
  h.reachR

/-- a schedule without rewinds runs as in `Spec.lean` -/
theorem runR_base (sys : Sys) (evs : List Ev) :
    runR cfg pid strat0 sys (evs.map .base) = run cfg pid strat0 sys evs :=
  Iggy.Sdk.runR_base sys evs

/-- a rewind that is enabled sets the stored offset, one that is not changes nothing -/
theorem rewind_spec (s : Srv) (o : Nat) :
    (∀ so, s.stored = some so → o ≤ so → s.rewind o = { s with stored := some o }) ∧
    ((∀ so, s.stored = some so → so < o) → s.rewind o = s) := by
  refine ⟨fun so hs h => s.rewind_enabled o so hs h, fun h => ?_⟩
  unfold Srv.rewind
  cases hs : s.stored with
  | none => rfl
  | some so => have := h so hs; simp; omega

/-! ## A. safety under rewinds (all modes, `next` and `offset k`) -/

/-- **Exactly once, in offset order, whatever the rewinds.** In every state reachable by a schedule with
rewinds: every yield comes from the consumer's partition, is the server's message at its offset, and is the
successor of the previous yield of the same incarnation (strictly increasing, no repeats, no gaps); every
yielded offset exists on the server; said per incarnation, its yields are a run `a, a+1, ..`.
This is `C20.yields_in_order_once` with `ReachR` for `Reach`. -/
theorem yields_in_order_once_rewind (hg : Good cfg strat0) (hr : ReachR cfg pid strat0 srv0 sys tr) :
    Always (fun pre x => ∀ y, x = .yield y →
      y.pid = pid ∧ y.msg = msgAt y.msg.off ∧ ∀ l, lastYield pre = some l → y.msg.off = l + 1) tr ∧
    (∀ y ∈ yieldsOf tr, y.msg.off < sys.2.len) ∧
    (∀ inc ∈ incarnations tr, ∃ a, offsOf inc = List.range' a (offsOf inc).length) :=
  yields_in_order_onceR hg hr

/-- The same said on schedules: for EVERY list of events over the extended alphabet, from a fresh consumer
and any server, the offsets each incarnation yields are consecutive and increasing: `a, a+1, a+2, ..`. -/
theorem yields_consecutive_any_schedule (hg : Good cfg strat0) (pid : Nat) (srv0 : Srv) (evs : List EvR) :
    ∀ inc ∈ incarnations (runR cfg pid strat0 (Cons.new strat0, srv0) evs).2,
      ∃ a, offsOf inc = List.range' a (offsOf inc).length := by
  have hr : ReachR cfg pid strat0 srv0 (runR cfg pid strat0 (Cons.new strat0, srv0) evs).1
      (runR cfg pid strat0 (Cons.new strat0, srv0) evs).2 := reachR_iff_runR.mpr ⟨evs, rfl⟩
  exact (yields_in_order_onceR hg hr).2.2

/-- The first yield of an incarnation directly follows the poll that fetched it and is the first message
that poll asked for: with `next` the offset right after the one the server had stored when the poll
arrived - which may be a rewound one -, with `offset k` the offset `k`. -/
theorem first_yield_resumes_rewind (hg : Good cfg strat0) (hr : ReachR cfg pid strat0 srv0 sys tr) :
    Always (fun pre x => ∀ y, x = .yield y → lastYield pre = none →
      ∃ pre' b r, pre = pre' ++ [.polled b r] ∧ y.msg.off = firstOff strat0 b) tr :=
  first_yield_resumesR hg hr

/-- The same on states: while the incarnation has not yielded yet (in particular right after a
re-creation) the only event that yields is a poll, and it yields the server's message right after the
offset stored at that moment: after a rewind the re-created consumer re-reads from the rewound offset,
it never skips. -/
theorem resume_after_committed_rewind (hg : Good cfg .next) (hr : ReachR cfg pid .next srv0 sys tr)
    (hl : lastYield tr = none) (e : EvR) (y : Yield) (hy : Obs.yield y ∈ (stepR cfg pid .next sys e).2) :
    e = .base .poll ∧ y = ⟨pid, msgAt (resume sys.2.stored)⟩ :=
  first_yield_stateR hg hr hl e y hy

/-- Every store-offset request that reaches the server (channel, interval task, synchronous commit inside
a poll; all modes) carries an offset yielded before and is accepted; what was yielded was fetched. -/
theorem commits_yielded_rewind (hg : Good cfg strat0) (hr : ReachR cfg pid strat0 srv0 sys tr) :
    Always (fun pre x => ∀ off ok, x = .store off ok → ok = true ∧ off ∈ offsOf pre) tr ∧
    (∀ o ∈ offsOf tr, o ∈ fetchedOf tr) :=
  commits_yieldedR hg hr

/-- With `next` the stored offset is never ahead of what the current incarnation has consumed and still
buffers (the reason nothing is skipped: the next poll starts at or before the wanted message). -/
theorem stored_le_consumed_rewind (hg : Good cfg .next) (hr : ReachR cfg pid .next srv0 sys tr)
    (l so : Nat) (hl : sys.1.consumed.get? pid = some l) (hs : sys.2.stored = some so) :
    so ≤ l + sys.1.buffered.length :=
  stored_le_consumedR hg hr l so hl hs

/-- What an incarnation yields does not depend on the schedule, rewinds included: two incarnations, of
any two schedules from any two servers, that start with the same message yield the same sequence as far
as both go. -/
theorem yields_schedule_independent_rewind (hg : Good cfg strat0) {sys₁ sys₂ : Sys} {tr₁ tr₂ : List Obs}
    {srv₁ srv₂ : Srv}
    (h₁ : ReachR cfg pid strat0 srv₁ sys₁ tr₁) (h₂ : ReachR cfg pid strat0 srv₂ sys₂ tr₂)
    (inc₁ inc₂ : List Obs) (hi₁ : inc₁ ∈ incarnations tr₁) (hi₂ : inc₂ ∈ incarnations tr₂)
    (hhead : (yieldsOf inc₁).head? = (yieldsOf inc₂).head?)
    (hlen : (yieldsOf inc₁).length ≤ (yieldsOf inc₂).length) :
    yieldsOf inc₁ = (yieldsOf inc₂).take (yieldsOf inc₁).length :=
  yields_schedule_independentR hg h₁ h₂ inc₁ inc₂ hi₁ hi₂ hhead hlen

/-- Outside polling mode the offset stored on the server is never beyond the one the server started with
or never beyond one the consumer (this or an earlier incarnation) has yielded - said with `resume`, the
point a `next` poll would start at: commits and rewinds never acknowledge a message that was not yielded.
(`C20.commit_le_yielded` says "is the initial one or a yielded one", which a rewind falsifies.) -/
theorem stored_le_yielded_rewind (hg : Good cfg strat0) (hpol : cfg.polling = false)
    (hr : ReachR cfg pid strat0 srv0 sys tr) :
    resume sys.2.stored ≤ resume srv0.stored ∨ ∃ o ∈ offsOf tr, resume sys.2.stored ≤ o + 1 :=
  stored_le_yieldedR hg hpol hr

/-- Across re-creations nothing is skipped, rewinds or not (strategy `next`, every mode but polling):
from the point the first incarnation resumed at, the offsets yielded so far by all incarnations together
have no gap. (With rewinds they can repeat, and a rewind below the initial offset makes a later
incarnation yield offsets before that point: the first half of `C20.no_skip_across_incarnations` is gone.) -/
theorem no_gap_across_incarnations_rewind (hg : Good cfg .next) (hpol : cfg.polling = false)
    (hr : ReachR cfg pid .next srv0 sys tr) :
    ∀ o o', o' ∈ offsOf tr → resume srv0.stored ≤ o → o ≤ o' → o ∈ offsOf tr :=
  no_gap_across_incarnationsR hg hpol hr

/-! ## B. no stall under rewinds (`next`, auto-commit, not polling mode) -/

/-- **Progress, whatever the rewinds.** Strategy `next`, auto-commit enabled, not polling mode (this covers
each / all / nth n / the interval task with any mode but polling). In a state reachable by a schedule with
rewinds, with an empty buffer, in which the server has the message the stream has to yield next (`wanted`:
right after the last one this incarnation consumed, else right after the stored offset): two polls yield
it. Nothing is assumed about the store-offset channel (it need not be empty) nor about what the client
believes the server has stored - `C20.no_stall` needed both. -/
theorem no_stall_rewind (hg : Good cfg .next) (hauto : cfg.autoCommitEnabled = true) (hpol : cfg.polling = false)
    (hr : ReachR cfg pid .next srv0 sys tr)
    (hb : sys.1.buffered = []) (hw : wanted pid sys < sys.2.len) :
    Obs.yield ⟨pid, msgAt (wanted pid sys)⟩ ∈ (runR cfg pid .next sys [.base .poll, .base .poll]).2 :=
  no_stall_reachR hg hauto hpol hr hb hw

/-- the modes of `C20.no_stall` other than polling qualify -/
theorem no_stall_rewind_consume (hg : Good cfg .next) (hm : ConsumeMode cfg)
    (hr : ReachR cfg pid .next srv0 sys tr)
    (hb : sys.1.buffered = []) (hw : wanted pid sys < sys.2.len) :
    Obs.yield ⟨pid, msgAt (wanted pid sys)⟩ ∈ (runR cfg pid .next sys [.base .poll, .base .poll]).2 :=
  no_stall_reachR hg hm.auto hm.not_polling hr hb hw

/-- More precisely: the first poll yields the wanted message, or the first poll stores the consumed offset
(nothing else) and the second poll, which finds exactly that offset stored, yields it. The second case is
the one a rewind (or a lagging commit, nth n with batch < n) produces: the whole reply was consumed
already. A rewind BETWEEN the two polls leads to a state this theorem applies to again. -/
theorem no_stall_two_polls_rewind (hg : Good cfg .next) (hauto : cfg.autoCommitEnabled = true)
    (hpol : cfg.polling = false) (hr : ReachR cfg pid .next srv0 sys tr)
    (hb : sys.1.buffered = []) (hw : wanted pid sys < sys.2.len) :
    (∃ r, (step cfg pid .next sys .poll).2 = [.polled sys.2.stored r, .yield ⟨pid, msgAt (wanted pid sys)⟩]) ∨
    (∃ r r', (step cfg pid .next sys .poll).2 = [.polled sys.2.stored r, .store (wanted pid sys - 1) true] ∧
      (step cfg pid .next (step cfg pid .next sys .poll).1 .poll).2 =
        [.polled (some (wanted pid sys - 1)) r', .yield ⟨pid, msgAt (wanted pid sys)⟩]) :=
  no_stall_invR hg hauto hpol (hr.inv hg) hb hw

/-! ## non-vacuity and witnesses -/

/-- the hypotheses are satisfiable -/
example : Good { batch := 1, mode := .each } .next := ⟨rfl, by decide, Or.inl rfl⟩
example : ConsumeMode { batch := 1, mode := .each } := Or.inl rfl
example : ({ batch := 1, mode := .disabled, interval := true } : CCfg).autoCommitEnabled = true ∧
    ({ batch := 1, mode := .disabled, interval := true } : CCfg).polling = false := by decide

/-- a run with a rewind (mode each, batch 1): 0, 1, 2 are yielded and committed - the client believes 2 is
stored, and it is -, then the stored offset is moved back to 0. The next poll gets message 1 again, yields
nothing and stores 2; the poll after it yields 3. (Before the fix nothing was stored here, the client's
belief being up to date, and every further poll returned message 1.) -/
example : (runR { batch := 1, mode := .each } 1 .next (Cons.new .next, ⟨10, none⟩)
    [.base .poll, .base .deliver, .base .poll, .base .deliver, .base .poll, .base .deliver,
     .rewind 0, .base .poll, .base .poll]).2 =
    [.polled none [msgAt 0], .yield ⟨1, msgAt 0⟩, .store 0 true,
     .polled (some 0) [msgAt 1], .yield ⟨1, msgAt 1⟩, .store 1 true,
     .polled (some 1) [msgAt 2], .yield ⟨1, msgAt 2⟩, .store 2 true,
     .polled (some 0) [msgAt 1], .store 2 true,
     .polled (some 2) [msgAt 3], .yield ⟨1, msgAt 3⟩] := by decide

/-- a state as in `no_stall_rewind` that only a rewind produces: buffer empty, client belief = consumed = 2,
server at 0; the channel is not empty (the commit of 2 is still waiting); one poll yields nothing, two
polls yield 3 -/
example : let cfg : CCfg := { batch := 1, mode := .each }
    let sys := (runR cfg 1 .next (Cons.new .next, ⟨10, none⟩)
      [.base .poll, .base .deliver, .base .poll, .base .deliver, .base .poll, .rewind 0]).1
    sys.1.buffered = [] ∧ sys.1.pending = [(1, 2)] ∧ sys.1.stored = [(1, 1)] ∧ sys.2.stored = some 0 ∧
    wanted 1 sys = 3 ∧
    offsOf (runR cfg 1 .next sys [.base .poll]).2 = [] ∧
    offsOf (runR cfg 1 .next sys [.base .poll, .base .poll]).2 = [3] := by decide

/-- the configuration of the history found by the correspondence run (`corpus/C20/stale-member-commit.ops`:
no per-message commit, the interval task only), batch 2, a rewind while a message is still buffered: the
buffered 3 is yielded, the next poll gets 1 and 2 again and stores 3, the poll after it yields 4 -/
example : (runR { batch := 2, mode := .disabled, interval := true } 2 .next (Cons.new .next, ⟨10, none⟩)
    [.base .poll, .base .tick, .base .pop, .base .tick, .base .poll, .base .tick, .rewind 0, .base .pop,
     .base .poll, .base .poll]).2 =
    [.polled none [msgAt 0, msgAt 1], .yield ⟨2, msgAt 0⟩, .store 0 true, .yield ⟨2, msgAt 1⟩, .store 1 true,
     .polled (some 1) [msgAt 2, msgAt 3], .yield ⟨2, msgAt 2⟩, .store 2 true, .yield ⟨2, msgAt 3⟩,
     .polled (some 0) [msgAt 1, msgAt 2], .store 3 true,
     .polled (some 3) [msgAt 4, msgAt 5], .yield ⟨2, msgAt 4⟩] := by decide

/-- WITNESS: across re-creations a rewind means re-reading. A consumer re-created after a rewind starts
right after the rewound offset (`resume_after_committed_rewind`) and yields again what the rewind
un-acknowledged: at least once, not exactly once, across incarnations. Each incarnation on its own is still
a run (`[0,1,2]`, then `[1]`). -/
example : offsOf (runR { batch := 1, mode := .each } 1 .next (Cons.new .next, ⟨10, none⟩)
    [.base .poll, .base .deliver, .base .poll, .base .deliver, .base .poll, .base .deliver,
     .rewind 0, .base .drop, .base .poll]).2 = [0, 1, 2, 1] := by decide

/-- WITNESS: the first half of `C20.no_skip_across_incarnations` (all yields lie at or after the point the
first incarnation resumed from) and `C20.commit_le_yielded` (the stored offset is the initial one or a
yielded one) are false with rewinds: the server starts at 5, 6 is yielded and committed, the offset is moved back to 2, the
re-created consumer yields 3. -/
example : let evs : List EvR := [.base .poll, .base .deliver, .rewind 2, .base .drop, .base .poll]
    let r := runR { batch := 1, mode := .each } 1 .next (Cons.new .next, ⟨10, some 5⟩) evs
    offsOf r.2 = [6, 3] ∧ r.1.2.stored = some 2 := by decide

/-- WITNESS: `no_stall_rewind` needs a non-polling mode. In polling mode the server commits what it
returns and the consumer never commits in a poll; after a rewind by `k` batches it takes `k` polls that
yield nothing (here 3) before the stream moves on - it does move on, but not within two polls. -/
example : let cfg : CCfg := { batch := 1, mode := .polling }
    let sys := (runR cfg 1 .next (Cons.new .next, ⟨10, none⟩)
      [.base .poll, .base .poll, .base .poll, .base .poll, .rewind 0]).1
    sys.1.buffered = [] ∧ wanted 1 sys = 4 ∧
    offsOf (runR cfg 1 .next sys [.base .poll, .base .poll, .base .poll]).2 = [] ∧
    offsOf (runR cfg 1 .next sys [.base .poll, .base .poll, .base .poll, .base .poll]).2 = [4] := by decide

end Iggy.Props.C20Rewind
