/-
C13 — every request the SDK can build is decoded by the server to the same request; the journal and
on-disk encodings of the same values round-trip too.

Model: `Iggy/Codec/{Basic,Types,Encode,Decode,Frame,Storage}.lean` — encoders and decoders written
SEPARATELY, each mirroring its Rust source (`to_bytes` / `from_bytes` in sdk/src/**, server/src/command.rs,
server/src/streaming/models/messages.rs, batching/message_batch.rs, segments/indexes/*), including the
minimum-length guards with the constants as they are in the source. The model is tied to the real code
byte for byte by the `codec` harness mode and the `codecjudge` executable (valid values of all 45 commands
and the storage records; and mutated / truncated frames, on which model and real decoder agree on
accept/refuse and on the decoded value).

Reading the statements:
* bytes are `List UInt8`; integers are `Nat`, `X.Valid` bounds them by their wire width and mirrors the
  SDK's `validate()`; a decoder returns `none` where the Rust decoder returns `Err` OR panics;
* N1: an optional map (headers, stream / topic permissions) is a list, `[]` standing for both `None` and
  `Some(empty)` (a single wire encoding, fix ed23352);
* N2: message id 0 means "server, assign one": `decodeMessage fresh` returns the fresh id, so the
  statements speak of `c.withIds fresh` (the identity on everything but `SendMessages` with a 0 id);
* names are byte lists with the side predicate `validUtf8` (executable, mirrors `str::from_utf8`).
Section 7 lists what is FALSE of the current source (values `validate()` accepts that do not survive the
wire), each with its machine-checked witness; the round-trip theorems exclude exactly those through `Valid`.
Section 7b lists the findings CLOSED by fixes d573560, 824bdc5, bbd23c0, 5413855: the value is now either
carried (short token) or refused by `validate()` (`¬ Valid`), no longer accepted and then lost.
-/
import Iggy.Codec.Lemmas
namespace Iggy.Props.C13
open Iggy.Codec

/-! ## 1. integers -/

/-- `k` little-endian bytes are `k` bytes -/
theorem leBytes_length (k n : Nat) : (leBytes k n).length = k := Iggy.Codec.leBytes_length k n

/-- an integer that fits `k` bytes survives `put_uN_le` / `uN::from_le_bytes` -/
theorem le_roundtrip {k n : Nat} (h : n < 256 ^ k) : leVal (leBytes k n) = n :=
  Iggy.Codec.leVal_leBytes_of_lt h

/-! ## 2. building blocks -/

/-- `Identifier` (numeric, or named with 1..255 bytes): kind, length, value -/
theorem identifier_roundtrip (i : Identifier) (rest : Bytes) (h : i.Valid) :
    decodeIdentifier (encodeIdentifier i ++ rest) = some (i, rest) :=
  Iggy.Codec.identifier_roundtrip i rest h

/-- `Consumer` (consumer or consumer group) -/
theorem consumer_roundtrip (c : Consumer) (rest : Bytes) (h : c.Valid) :
    decodeConsumer (encodeConsumer c ++ rest) = some (c, rest) :=
  Iggy.Codec.consumer_roundtrip c rest h

/-- `Partitioning` (balanced, partition id, messages key of 1..255 bytes). PARTIAL: the balanced
partitioning is 2 bytes and `Partitioning::from_bytes` refuses buffers shorter than 3, so something must
follow (inside `SendMessages` a message always does); see `partitioning_balanced_alone_refused`. -/
theorem partitioning_roundtrip_partial (p : Partitioning) (rest : Bytes) (h : p.Valid)
    (hrest : p.kind = .balanced → p.value = [] → rest ≠ []) :
    decodePartitioning (encodePartitioning p ++ rest) = some (p, rest) :=
  Iggy.Codec.partitioning_roundtrip p rest h hrest

/-- `PollingStrategy` (all five kinds), exactly 9 bytes -/
theorem pollingStrategy_roundtrip (s : PollingStrategy) (h : s.Valid) :
    decodeStrategy (encodeStrategy s) = some s := Iggy.Codec.strategy_roundtrip s h

/-- an optional id (`Option<u32>`, `None` as 0) — for every value but `Some(0)` -/
theorem optId_roundtrip (o : Option Nat) (rest : Bytes) (h : OptId.Valid o) :
    decodeOptId (encodeOptId o ++ rest) = some (o, rest) := Iggy.Codec.optId_roundtrip o rest h

/-- a name with a one-byte length -/
theorem name_roundtrip (s rest : Bytes) (hl : s.length < 256) (hu : validUtf8 s = true) :
    decodeStr8 (encodeStr8 s ++ rest) = some (s, rest) := Iggy.Codec.str8_roundtrip s rest hl hu

/-- all 15 header value kinds: the kind byte decodes to the kind -/
theorem headerKind_roundtrip (k : HeaderKind) : HeaderKind.ofCode k.code.toNat = some k :=
  Iggy.Codec.headerKind_roundtrip k

/-- one header entry: key (1..255 bytes), kind, value (1..255 bytes) -/
theorem header_roundtrip (h : Header) (rest : Bytes) (hv : h.Valid) :
    decodeHeader (encodeHeader h ++ rest) = some (h, rest) := Iggy.Codec.header_roundtrip h rest hv

/-- a header map of ANY size with pairwise distinct keys, in any iteration order -/
theorem headers_roundtrip (hs : List Header) (h : HeadersValid hs) :
    decodeHeaders (encodeHeaders hs) = some hs := Iggy.Codec.headers_roundtrip hs h

/-- a message (send side): id, optional headers, payload of 1..2^32-1 bytes; id 0 comes back fresh (N2) -/
theorem message_roundtrip (fresh : Nat) (m : Message) (rest : Bytes) (h : m.Valid) :
    decodeMessage fresh (encodeMessage m ++ rest) = some (m.withId fresh, rest) :=
  Iggy.Codec.message_roundtrip fresh m rest h

/-- a message with a non-zero id comes back unchanged -/
theorem message_roundtrip_exact (fresh : Nat) (m : Message) (rest : Bytes) (h : m.Valid) (hid : m.id ≠ 0) :
    decodeMessage fresh (encodeMessage m ++ rest) = some (m, rest) := by
  rw [Iggy.Codec.message_roundtrip fresh m rest h]
  simp [Message.withId, hid]

/-- `Permissions`: global flags, optional stream map, optional topic maps, of ANY size (N1) -/
theorem permissions_roundtrip (p : Permissions) (rest : Bytes) (hv : p.Valid) :
    decodePermissions (encodePermissions p ++ rest) = some p :=
  Iggy.Codec.permissions_roundtrip p rest hv

/-- `IggyExpiry` through its `u64` (server default, never, 1 ≤ µs < 2^64-1) -/
theorem expiry_roundtrip (e : Expiry) (h : e.Valid) : Expiry.ofNat e.toNat = e :=
  Iggy.Codec.expiry_roundtrip e h

/-- `MaxTopicSize` through its `u64` -/
theorem maxTopicSize_roundtrip (e : MaxTopicSize) (h : e.Valid) : MaxTopicSize.ofNat e.toNat = e :=
  Iggy.Codec.maxTopicSize_roundtrip e h

/-! ## 3. the commands, one by one (the decoder ignores whatever follows the payload, hence `rest`) -/

theorem sendMessages_roundtrip (fresh : Nat) (c : SendMessages) (h : c.Valid) :
    decodeSendMessages fresh (encodeSendMessages c) = some (c.withIds fresh) :=
  Iggy.Codec.sendMessages_roundtrip fresh c h

theorem pollMessages_roundtrip (c : PollMessages) (rest : Bytes) (h : c.Valid) :
    decodePollMessages (encodePollMessages c ++ rest) = some c :=
  Iggy.Codec.pollMessages_roundtrip c rest h

theorem flushUnsavedBuffer_roundtrip (c : FlushUnsavedBuffer) (rest : Bytes) (h : c.Valid) :
    decodeFlushUnsavedBuffer (encodeFlushUnsavedBuffer c ++ rest) = some c :=
  Iggy.Codec.flushUnsavedBuffer_roundtrip c rest h

/-- GetConsumerOffset, DeleteConsumerOffset -/
theorem consumerOffset_roundtrip (c : ConsumerOffsetRef) (rest : Bytes) (h : c.Valid) :
    decodeConsumerOffsetRef (encodeConsumerOffsetRef c ++ rest) = some c :=
  Iggy.Codec.consumerOffsetRef_roundtrip c rest h

theorem storeConsumerOffset_roundtrip (c : StoreConsumerOffset) (rest : Bytes) (h : c.Valid) :
    decodeStoreConsumerOffset (encodeStoreConsumerOffset c ++ rest) = some c :=
  Iggy.Codec.storeConsumerOffset_roundtrip c rest h

theorem createStream_roundtrip (c : CreateStream) (rest : Bytes) (h : c.Valid) :
    decodeCreateStream (encodeCreateStream c ++ rest) = some c :=
  Iggy.Codec.createStream_roundtrip c rest h

theorem updateStream_roundtrip (c : UpdateStream) (rest : Bytes) (h : c.Valid) :
    decodeUpdateStream (encodeUpdateStream c ++ rest) = some c :=
  Iggy.Codec.updateStream_roundtrip c rest h

/-- GetStream, DeleteStream, PurgeStream, GetTopics, GetUser, DeleteUser -/
theorem singleIdentifier_roundtrip (i : Identifier) (rest : Bytes) (h : i.Valid) :
    decodeSingleId (encodeIdentifier i ++ rest) = some i := Iggy.Codec.singleId_roundtrip i rest h

/-- GetTopic, DeleteTopic, PurgeTopic, GetConsumerGroups -/
theorem topicRef_roundtrip (c : TopicRef) (rest : Bytes) (h : c.Valid) :
    decodeTopicRef (encodeTopicRef c ++ rest) = some c := Iggy.Codec.topicRef_roundtrip c rest h

theorem createTopic_roundtrip (c : CreateTopic) (rest : Bytes) (h : c.Valid) :
    decodeCreateTopic (encodeCreateTopic c ++ rest) = some c :=
  Iggy.Codec.createTopic_roundtrip c rest h

theorem updateTopic_roundtrip (c : UpdateTopic) (rest : Bytes) (h : c.Valid) :
    decodeUpdateTopic (encodeUpdateTopic c ++ rest) = some c :=
  Iggy.Codec.updateTopic_roundtrip c rest h

/-- CreatePartitions, DeletePartitions -/
theorem partitions_roundtrip (c : Partitions) (rest : Bytes) (h : c.Valid) :
    decodePartitions (encodePartitions c ++ rest) = some c := Iggy.Codec.partitions_roundtrip c rest h

theorem createConsumerGroup_roundtrip (c : CreateConsumerGroup) (rest : Bytes) (h : c.Valid) :
    decodeCreateConsumerGroup (encodeCreateConsumerGroup c ++ rest) = some c :=
  Iggy.Codec.createConsumerGroup_roundtrip c rest h

/-- GetConsumerGroup, DeleteConsumerGroup, JoinConsumerGroup, LeaveConsumerGroup -/
theorem consumerGroupRef_roundtrip (c : GroupRef) (rest : Bytes) (h : c.Valid) :
    decodeGroupRef (encodeGroupRef c ++ rest) = some c := Iggy.Codec.groupRef_roundtrip c rest h

theorem loginUser_roundtrip (c : LoginUser) (rest : Bytes) (h : c.Valid) :
    decodeLoginUser (encodeLoginUser c ++ rest) = some c := Iggy.Codec.loginUser_roundtrip c rest h

theorem createUser_roundtrip (c : CreateUser) (rest : Bytes) (h : c.Valid) :
    decodeCreateUser (encodeCreateUser c ++ rest) = some c := Iggy.Codec.createUser_roundtrip c rest h

theorem updateUser_roundtrip (c : UpdateUser) (rest : Bytes) (h : c.Valid) :
    decodeUpdateUser (encodeUpdateUser c ++ rest) = some c := Iggy.Codec.updateUser_roundtrip c rest h

theorem updatePermissions_roundtrip (c : UpdatePermissions) (rest : Bytes) (h : c.Valid) :
    decodeUpdatePermissions (encodeUpdatePermissions c ++ rest) = some c :=
  Iggy.Codec.updatePermissions_roundtrip c rest h

theorem changePassword_roundtrip (c : ChangePassword) (rest : Bytes) (h : c.Valid) :
    decodeChangePassword (encodeChangePassword c ++ rest) = some c :=
  Iggy.Codec.changePassword_roundtrip c rest h

theorem createPersonalAccessToken_roundtrip (c : CreatePat) (rest : Bytes) (h : c.Valid) :
    decodeCreatePat (encodeCreatePat c ++ rest) = some c := Iggy.Codec.createPat_roundtrip c rest h

/-- DeletePersonalAccessToken: every name `validate()` accepts (3..30 bytes); decoder guard 4 -/
theorem deletePersonalAccessToken_roundtrip (n rest : Bytes)
    (h : NameOk MIN_PAT_NAME_LENGTH MAX_PAT_NAME_LENGTH n) :
    decodePatString (encodeStr8 n ++ rest) = some n :=
  Iggy.Codec.patString_roundtrip n rest h (by decide)

/-- LoginWithPersonalAccessToken: EVERY token `validate()` accepts (1..100 bytes); decoder guard 2 since
fix d573560 (with the former guard 4 this held only from 3 bytes on) -/
theorem loginWithPersonalAccessToken_roundtrip (t rest : Bytes) (h : NameOk 1 MAX_PAT_LENGTH t) :
    decodeLoginPat (encodeStr8 t ++ rest) = some t :=
  Iggy.Codec.loginPat_roundtrip t rest h (by decide)

theorem getClient_roundtrip (id : Nat) (h : id < 2 ^ 32) : decodeGetClient (le32 id) = some id :=
  Iggy.Codec.getClient_roundtrip id h

/-- GetSnapshotFile: every command `validate()` accepts (at most 255 snapshot types since fix 5413855;
see `snapshot_256_types_lost`, `snapshot_over_255_types_invalid`) -/
theorem getSnapshot_roundtrip (c : GetSnapshot) (rest : Bytes) (h : c.Valid) :
    decodeGetSnapshot (encodeGetSnapshot c ++ rest) = some c :=
  Iggy.Codec.getSnapshot_roundtrip c rest h

/-! ## 4. `ServerCommand`, the code table, the TCP frames -/

/-- distinct commands have distinct codes (sdk/src/command.rs) -/
theorem code_table_injective (a b : CommandKind) (h : a.code = b.code) : a = b :=
  Iggy.Codec.code_injective a b h

/-- the table lists all 45 commands -/
theorem code_table_complete (k : CommandKind) : k ∈ CommandKind.all := Iggy.Codec.mem_all k

/-- there are 45 of them -/
theorem code_table_size : CommandKind.all.length = 45 := by decide

/-- the server's `match code` sends every command's code to that command's own decoder -/
theorem dispatch_total (k : CommandKind) : CommandKind.ofCode k.code = some k :=
  Iggy.Codec.kind_roundtrip k

/-- ... so a frame `code ++ payload` is decoded by the payload decoder of the command with that code -/
theorem dispatch_payload (fresh : Nat) (k : CommandKind) (payload : Bytes) :
    decodeCommand fresh (le32 k.code ++ payload) = decodePayload fresh k payload := by
  simp [decodeCommand, Iggy.Codec.readLE4 _ (Iggy.Codec.code_lt k), Iggy.Codec.kind_roundtrip]

/-- ALL 45 commands: `ServerCommand::from_bytes(cmd.to_bytes())` is the command (with N2 for ids) -/
theorem command_roundtrip (fresh : Nat) (c : Command) (h : c.Valid) :
    decodeCommand fresh (encodeCommand c) = some (c.withIds fresh) :=
  Iggy.Codec.command_roundtrip fresh c h

/-- a command without zero message ids comes back exactly -/
theorem command_roundtrip_exact (fresh : Nat) (c : Command) (h : c.Valid)
    (hid : ∀ s, c = .sendMessages s → ∀ m ∈ s.messages, m.id ≠ 0) :
    decodeCommand fresh (encodeCommand c) = some c := by
  rw [Iggy.Codec.command_roundtrip fresh c h]
  cases c with
  | sendMessages s =>
    have key : ∀ ms : List Message, (∀ m ∈ ms, m.id ≠ 0) →
        ms.map (fun m => { m with id := if m.id = 0 then fresh else m.id }) = ms := by
      intro ms
      induction ms with
      | nil => intro _; rfl
      | cons m ms ih =>
        intro hh
        have h0 : m.id ≠ 0 := hh m (List.mem_cons_self)
        simp [h0, ih (fun x hx => hh x (List.mem_cons_of_mem _ hx))]
    have := key s.messages (hid s rfl)
    simp [Command.withIds, this]
  | _ => rfl

/-- the request frame (length, code, payload) written by the SDK is read back by the server's loop as
the same command, leaving the following frames untouched -/
theorem frame_roundtrip (fresh : Nat) (c : Command) (rest : Bytes) (h : c.Valid)
    (hl : (encodeCommand c).length < 2 ^ 32) :
    decodeFrame fresh (encodeFrame c ++ rest) = some (c.withIds fresh, rest) :=
  Iggy.Codec.frame_roundtrip fresh c rest h hl

/-- the response frame (status, length, payload) -/
theorem response_roundtrip (r : Response) (rest : Bytes) (h : r.Valid) :
    decodeResponse (encodeResponse r ++ rest) = some (r, rest) :=
  Iggy.Codec.response_roundtrip r rest h

/-! ## 5. the minimum-length guards never refuse a valid encoding -/

/-- every payload decoder's `if bytes.len() < N` (N as in the source now, `CommandKind.minLen`) lets every
valid command through. (False before fix 8c97924, whose constants assumed identifiers of at least 3+
bytes more; see `pollMessages_guard_tight`. False for `LoginWithPersonalAccessToken` before fix d573560,
whose guard 4 refused the tokens of 1 and 2 bytes; see `loginWithPersonalAccessToken_guard_tight`.) -/
theorem min_length_ok (c : Command) (h : c.Valid) : c.kind.minLen ≤ (encodePayload c).length :=
  Iggy.Codec.payload_min_length c h

theorem min_length_ok_identifier (i : Identifier) (h : i.Valid) :
    IDENTIFIER_MIN_LEN ≤ (encodeIdentifier i).length := Iggy.Codec.identifier_min_length i h

theorem min_length_ok_consumer (c : Consumer) (h : c.Valid) :
    CONSUMER_MIN_LEN ≤ (encodeConsumer c).length := Iggy.Codec.consumer_min_length c h

theorem min_length_ok_message (m : Message) : MESSAGE_MIN_LEN ≤ (encodeMessage m).length :=
  Iggy.Codec.message_min_length m

/-- PARTIAL: every partitioning but the balanced one (2 bytes) reaches the guard of 3 on its own -/
theorem min_length_ok_partitioning_partial (p : Partitioning) (h : p.Valid) (hk : p.kind ≠ .balanced) :
    PARTITIONING_MIN_LEN ≤ (encodePartitioning p).length := by
  have := h.2 hk
  rw [Iggy.Codec.partitioning_length]; simp [PARTITIONING_MIN_LEN]; omega

/-- the guard of `PollMessages` (28) is attained: three one-byte names. The pre-fix constant 29 refused it. -/
theorem pollMessages_guard_tight :
    ∃ c : PollMessages, c.Valid ∧ (encodePollMessages c).length = POLL_MESSAGES_MIN_LEN :=
  ⟨⟨⟨.consumer, .named [0x61]⟩, .named [0x62], .named [0x63], some 1, ⟨.offset, 0⟩, 10, true⟩,
    by decide, by decide⟩

/-- so is the guard of `CreateUser` (10): 3-byte user name and password, no permissions -/
theorem createUser_guard_tight :
    ∃ c : CreateUser, c.Valid ∧ (encodeCreateUser c).length = CREATE_USER_MIN_LEN :=
  ⟨⟨[0x61, 0x62, 0x63], [0x61, 0x62, 0x63], .active, none⟩, by decide, by decide⟩

/-- the guard of `LoginWithPersonalAccessToken` (2) is attained: a one-byte token. The pre-fix guard 4
refused it (and the two-byte tokens). -/
theorem loginWithPersonalAccessToken_guard_tight :
    ∃ t : Bytes, (Command.loginWithPersonalAccessToken t).Valid ∧
      (encodePayload (.loginWithPersonalAccessToken t)).length = LOGIN_PAT_MIN_LEN :=
  ⟨[0x61], by decide, by decide⟩

/-! ## 6. storage: retained messages, batches, index records -/

/-- `RetainedMessage::extend` then the batch iterator's step (`u32` length, `try_from_bytes`) -/
theorem retainedMessage_roundtrip (m : RetainedMessage) (rest : Bytes) (h : m.Valid) :
    decodeRetained (encodeRetained m ++ rest) = some (m, rest) :=
  Iggy.Codec.retained_roundtrip m rest h

/-- `try_from_bytes` on exactly one record -/
theorem retainedMessage_body_roundtrip (m : RetainedMessage) (h : m.Valid) :
    decodeRetainedBody (encodeRetainedBody m) = some m := Iggy.Codec.retainedBody_roundtrip m h

/-- the 24-byte batch header -/
theorem batchHeader_roundtrip (h : BatchHeader) (rest : Bytes) (hv : h.Valid) :
    decodeBatchHeader (encodeBatchHeader h ++ rest) = some (h, rest) :=
  Iggy.Codec.batchHeader_roundtrip h rest hv

theorem batchHeader_length (h : BatchHeader) : (encodeBatchHeader h).length = 24 :=
  Iggy.Codec.encodeBatchHeader_length h

/-- a whole batch of ANY number of records (header carrying the body length) reads back record by record -/
theorem batch_roundtrip (h : BatchHeader) (ms : List RetainedMessage) (rest : Bytes) (hv : h.Valid)
    (hms : ∀ m ∈ ms, m.Valid) (hlen : h.length = (encodeRetainedAll ms).length) :
    decodeBatch (encodeBatch h ms ++ rest) = some (h, ms, rest) :=
  Iggy.Codec.batch_roundtrip h ms rest hv hms hlen

/-- the 16-byte index record -/
theorem index_roundtrip (i : IndexRecord) (rest : Bytes) (h : i.Valid) :
    decodeIndex (encodeIndex i ++ rest) = some (i, rest) := Iggy.Codec.index_roundtrip i rest h

theorem index_length (i : IndexRecord) : (encodeIndex i).length = 16 := Iggy.Codec.encodeIndex_length i

/-- an index file of ANY number of records reads back as written; a torn last record is ignored -/
theorem indexFile_roundtrip (is : List IndexRecord) (junk : Bytes) (fuel : Nat) (hf : is.length ≤ fuel)
    (hv : ∀ i ∈ is, i.Valid) (hj : junk.length < INDEX_SIZE) :
    decodeIndexes fuel (encodeIndexes is ++ junk) = is :=
  Iggy.Codec.indexes_roundtrip is junk fuel hf hv hj

/-! ## 6b. the journal: state entries and entry commands -/

/-- `StateEntry::to_bytes` / `from_bytes`: the nine fixed fields, the context, the command bytes -/
theorem stateEntry_roundtrip (e : StateEntry) (h : e.Valid) :
    decodeStateEntry (encodeStateEntry e) = some e := Iggy.Codec.stateEntry_roundtrip e h

/-- `EntryCommand::to_bytes` / `from_bytes` for all 19 journaled commands (18 carrying their wire payload,
`CreatePersonalAccessToken` carrying the token hash too); what follows the entry is ignored -/
theorem entryCommand_roundtrip (e : EntryCommand) (rest : Bytes) (h : e.Valid) :
    decodeEntryCommand (encodeEntryCommand e ++ rest) = some e :=
  Iggy.Codec.entryCommand_roundtrip e rest h

/-- a command written into a state entry and read back: entry and command both survive -/
theorem journal_roundtrip (e : StateEntry) (c : EntryCommand) (he : e.Valid) (hc : c.Valid)
    (hcmd : e.command = encodeEntryCommand c) :
    (decodeStateEntry (encodeStateEntry e)).bind (fun e' => decodeEntryCommand e'.command) = some c := by
  rw [Iggy.Codec.stateEntry_roundtrip e he]
  have := Iggy.Codec.entryCommand_roundtrip c [] hc
  simp only [List.append_nil] at this
  simp [hcmd, this]

/-! ## 7. findings: values `validate()` accepts that the wire does not carry (all reproduced on the
real code by the harness' edge probes) -/

/-- the balanced partitioning on its own (2 bytes) is refused by `Partitioning::from_bytes` (guard 3) -/
theorem partitioning_balanced_alone_refused :
    decodePartitioning (encodePartitioning ⟨.balanced, []⟩) = none := by decide

/-- E1. `partition_id: Some(0)` (accepted by every `validate()`) is decoded as `None` -/
theorem optId_some_zero_lost (rest : Bytes) :
    decodeOptId (encodeOptId (some 0) ++ rest) = some (none, rest) := by
  simp [decodeOptId, encodeOptId, Iggy.Codec.readLE4 rest (n := 0) (by decide)]

/-- E2. `LoginUser { version: Some(""), .. }` is decoded with `version: None` -/
theorem optMeta_some_empty_lost (rest : Bytes) :
    decodeOptMeta (encodeOptMeta (some []) ++ rest) = some (none, rest) := by
  simp [decodeOptMeta, encodeOptMeta, Iggy.Codec.readLE4 rest (n := 0) (by decide)]

/-- E3. an expiry of 0 µs is decoded as "server default", one of 2^64-1 µs as "never" -/
theorem expiry_extremes_lost :
    Expiry.ofNat (Expiry.expireMicros 0).toNat = .serverDefault ∧
    Expiry.ofNat (Expiry.expireMicros (2 ^ 64 - 1)).toNat = .neverExpire := by
  constructor <;> simp [Expiry.ofNat, Expiry.toNat]

/-- E4. `MaxTopicSize::Custom(0)` is decoded as "server default", `Custom(u64::MAX)` as "unlimited" -/
theorem maxTopicSize_extremes_lost :
    MaxTopicSize.ofNat (MaxTopicSize.custom 0).toNat = .serverDefault ∧
    MaxTopicSize.ofNat (MaxTopicSize.custom (2 ^ 64 - 1)).toNat = .unlimited := by
  constructor <;> simp [MaxTopicSize.ofNat, MaxTopicSize.toNat]

/-! ## 7b. findings closed by fixes d573560 (E7), 5413855 (E5), bbd23c0 (E6), 824bdc5 (E20): the wire
facts remain, but `validate()` / the SDK constructor now refuses the value (or the decoder now takes it) -/

/-- E7, closed. `LoginWithPersonalAccessToken::validate` accepts a 1-byte token; its encoding (2 bytes) was
refused by the decoder's guard `bytes.len() < 4`. With the guard 2 it decodes. -/
example : (Command.loginWithPersonalAccessToken [0x61]).Valid := by decide
example : decodeCommand 0 (encodeCommand (.loginWithPersonalAccessToken [0x61])) =
    some (.loginWithPersonalAccessToken [0x61]) := by decide
example : decodeCommand 0 (encodeCommand (.loginWithPersonalAccessToken [0x61, 0x62])) =
    some (.loginWithPersonalAccessToken [0x61, 0x62]) := by decide

/-- the new second guard (`bytes.len() < 1 + token_length`): a length byte promising more than follows is
refused (it used to panic on the slice) -/
theorem login_token_truncated_refused (l : UInt8) (body : Bytes) (h : body.length < l.toNat) :
    decodeLoginPat (l :: body) = none := by
  have h' : ¬ l.toNat ≤ body.length := by omega
  simp [decodeLoginPat, decodeStr8, readU8, takeN, h']

/-- `DeletePersonalAccessToken::from_bytes` keeps its guard 4; its `validate()` asks 3 bytes at least, so
nothing it accepts is lost — but a 2-byte name (refused by `validate()`) is refused by the decoder too -/
example : ¬ (Command.deletePersonalAccessToken [0x61, 0x62]).Valid := by decide
example : decodeCommand 0 (encodeCommand (.deletePersonalAccessToken [0x61, 0x62])) = none := by decide

/-- E5, the wire fact. `GetSnapshot` with 256 snapshot types: the count byte wraps to 0 and the server
decodes NO type at all. (`validate()` put no bound before fix 5413855; now see
`snapshot_over_255_types_invalid`.) -/
theorem snapshot_256_types_lost (c : Nat) (ts : List Nat) (hc : snapshotCompressionCode c = true)
    (hl : ts.length = 256) : decodeGetSnapshot (encodeGetSnapshot ⟨c, ts⟩) = some ⟨c, []⟩ := by
  have hc256 : c < 256 := by simp [snapshotCompressionCode] at hc; omega
  have hok : SnapshotCompression.okCode c = true := by
    simpa [SnapshotCompression.okCode, snapshotCompressionCode] using hc
  simp [decodeGetSnapshot, encodeGetSnapshot, u8, hl, Iggy.Codec.u8_toNat hc256, hok, decodeSnapshotTypes]

/-- E5, closed. `GetSnapshot::validate` now refuses more than 255 snapshot types -/
theorem snapshot_over_255_types_invalid (c : GetSnapshot) (h : 255 < c.types.length) : ¬ c.Valid := by
  intro hv
  have := hv.2.2.1
  omega

example : ¬ (GetSnapshot.mk 1 (List.replicate 256 1)).Valid :=
  snapshot_over_255_types_invalid _ (by
    show 255 < (List.replicate 256 1).length
    rw [List.length_replicate]; omega)

/-- ... and 255 types are accepted and carried (`getSnapshot_roundtrip`) -/
example : (GetSnapshot.mk 1 (List.replicate 255 1)).Valid := by
  refine ⟨by decide, ?_, ?_, ?_⟩
  · intro t ht
    rw [List.eq_of_mem_replicate ht]; decide
  · show (List.replicate 255 1).length ≤ 255
    rw [List.length_replicate]; omega
  · intro h
    have := List.eq_of_mem_replicate h
    omega

/-- E6, the wire fact. A header key longer than 255 bytes is written as is and refused by the decoder.
(The SDK produced one from a 255-byte key while `HeaderKey::new` checked the length BEFORE `to_lowercase`,
which can lengthen it; since fix bbd23c0 the check is on the lower-cased key, the one that travels: see
`header_key_over_255_invalid`.) -/
theorem header_key_over_255_refused (h : Header) (rest : Bytes) (hk : 255 < h.key.length)
    (hk' : h.key.length < 2 ^ 32) : decodeHeader (encodeHeader h ++ rest) = none := by
  simp [decodeHeader, encodeHeader, List.append_assoc, Iggy.Codec.readLE4 _ hk']
  intro h1 h2; omega

/-- E6, closed. `HeaderKey::new` refuses a key whose travelling (lower-cased) form exceeds 255 bytes -/
theorem header_key_over_255_invalid (h : Header) (hk : 255 < h.key.length) : ¬ h.Valid := by
  intro hv
  have := hv.1.2.1
  omega

/-- E20, the wire fact. A message with an EMPTY payload is refused by `Message::from_bytes`. (Before fix
824bdc5 `SendMessages::validate` accepted it as long as another message of the batch had a payload; now see
`sendMessages_empty_payload_invalid`.) -/
theorem empty_payload_message_refused (fresh id : Nat) (rest : Bytes) (hid : id < 2 ^ 128) :
    decodeMessage fresh (encodeMessage ⟨id, [], []⟩ ++ rest) = none := by
  have hg := Iggy.Codec.guard_ok (rest := rest) (Iggy.Codec.message_min_length ⟨id, [], []⟩)
  have t0 : ∀ x : Bytes, takeN 0 x = some ([], x) := by intro x; simp [takeN]
  simp only [decodeMessage, hg, if_false]
  simp [encodeMessage, encodeHeaders, List.append_assoc, Iggy.Codec.readLE16 _ hid,
    Iggy.Codec.readLE4 (n := 0) _ (by decide), t0]

/-- E20, closed. `SendMessages::validate` now refuses a batch holding ANY message with an empty payload -/
theorem sendMessages_empty_payload_invalid (c : SendMessages) (m : Message) (hm : m ∈ c.messages)
    (he : m.payload = []) : ¬ c.Valid := by
  intro hv
  have := (hv.2.2.2.2.1 m hm).2.2.2.1
  simp [he] at this

example : ¬ (SendMessages.mk (.numeric 1) (.numeric 1) ⟨.balanced, []⟩
    [⟨1, [], [0x68]⟩, ⟨2, [], []⟩]).Valid := by decide

/-! ## 8. non-vacuity: the validity predicates are inhabited by ordinary values, on which the executable
model computes the round trip -/

def exPoll : PollMessages :=
  ⟨⟨.group, .numeric 5⟩, .numeric 1, .named [0x61, 0x62], none, ⟨.timestamp, 1700000000⟩, 10, true⟩

example : exPoll.Valid := by decide
example : decodePollMessages (encodePollMessages exPoll) = some exPoll := by decide

def exSend : SendMessages :=
  ⟨.numeric 1, .named [0x74], ⟨.messagesKey, [1, 2, 3]⟩,
   [⟨0, [], [0x68, 0x69]⟩,
    ⟨42, [⟨[0x6b], .uint32, [1, 0, 0, 0]⟩, ⟨[0x6c], .string, [0x61]⟩], [0xff]⟩]⟩

example : exSend.Valid := by decide
example : decodeSendMessages 99 (encodeSendMessages exSend) = some (exSend.withIds 99) := by decide

def exUser : CreateUser :=
  ⟨[0x62, 0x6f, 0x62], [0x70, 0x77, 0x64], .active,
   some ⟨[true, false, true, false, true, false, true, false, true, false],
     [⟨1, [true, true, false, false, true, true], [⟨2, [true, false, false, true]⟩, ⟨3, [false, false, false, false]⟩]⟩,
      ⟨7, [false, false, false, false, false, false], []⟩]⟩⟩

example : exUser.Valid := by decide
example : decodeCreateUser (encodeCreateUser exUser) = some exUser := by decide

def exTopic : CreateTopic :=
  ⟨.named [0x73], some 3, 1000, .gzip, .expireMicros 1000000, .unlimited, some 3, [0x74]⟩

example : exTopic.Valid := by decide
example : (Command.createTopic exTopic).Valid := by decide
example : decodeCommand 0 (encodeCommand (.createTopic exTopic)) = some (.createTopic exTopic) := by decide

def exRetained : RetainedMessage := ⟨5, .available, 1700000000, 42, 123456, [1, 2, 3], [0x68, 0x69]⟩

example : exRetained.Valid := by decide
example : decodeRetained (encodeRetained exRetained) = some (exRetained, []) := by decide
example : (⟨7, 100, 1700000000⟩ : IndexRecord).Valid := by decide

def exEntryCmd : EntryCommand := .cmd (.createTopic exTopic)

example : exEntryCmd.Valid := by decide
example : decodeEntryCommand (encodeEntryCommand exEntryCmd) = some exEntryCmd := by decide
example : (EntryCommand.createPatWithHash ⟨[0x74, 0x6f, 0x6b], .neverExpire⟩ [0x61, 0x62]).Valid := by decide
example : (⟨3, 0, 0, 1, 0, 1700000000, 1, 99, [1], encodeEntryCommand exEntryCmd⟩ : StateEntry).Valid := by
  decide

end Iggy.Props.C13
