/-
C04 — after a crash at any instant, a restart on the surviving files succeeds and exposes a gap-free,
duplicate-free prefix of the accepted messages that contains every message whose write had completed
under wait-confirmation; messages accepted after recovery continue at the next offset; torn trailing
records in a log or index file are ignored.

Crash model (`Iggy/Log/Crash.lean`, tied to the real server by differential testing of crash images):
the only file mutations of the data path are the two appends of `persist_messages` — the batch to the
`.log` file and its 16-byte record to the `.index` file (log first under wait-confirmation, index first
under no-wait confirmation).  `persistImages c d b i` lists what a process death can leave on disk:
the state after each completed append, and the state with the append in flight torn (a partial record at
the end of the file).  Files are modelled at batch granularity — a file is the list of its complete
records plus a flag "a partial record follows"; the codec layer justifies that a reader sees exactly
the complete records.  At start-up the server reconciles log and index of every segment (`reconcile`)
and then loads the partition (`Seg.load`, `Part.load`).

Setting of the theorems: a segment `s` satisfying the representation invariant `s.Inv cfg` whose buffer
is non-empty (`s.accMsgs ≠ []`, i.e. `s.acc = some a` with `a.msgs ≠ []`; the invariant then forces
`s.closed = false`, see `persisting_open`) is being persisted: `b := persistBatch s` is the batch and
`i := persistIdx s` the index record `Seg.persist` writes (`persist_writes`), `s.disk` the clean state
of its files before and `s.diskAfter` the clean state after the operation.  `s.msgs` = stored messages
followed by the buffered ones = the messages accepted so far; `batchesMsgs s.log` = the stored ones.
Helper lemmas: `Iggy/Log/Lemmas/Crash.lean`.

Everything asked for is proved as stated, with one correction: `recoverSeg` alone (`Seg.load` of the
reconciled files) does NOT satisfy `Seg.Inv` when the recovered log fills the segment — `Seg.load` leaves
`endOff = 0` and `Part.load` repairs it afterwards (storage.rs l.183-197).  `recover_inv` is therefore
stated for `recoverLast` = `recoverSeg` followed by that fix-up, `recover_inv_open` for bare `recoverSeg`
when the recovered log does not fill the segment, and `recover_inv_needs_fixup` is the machine-checked
counterexample for the unconditional statement about bare `recoverSeg`.
-/
import Iggy.Log.Lemmas.Crash
import Iggy.Log.Refine
namespace Iggy.Props.C04
open Iggy.Log

variable {cfg : Cfg} {s : Seg} {now : Nat} {c : Confirm} {x : SegDisk}

/-- A crash between operations (every file mutation of the interrupted operation completed, nothing
torn) loses at most the unsaved buffer: what `Part.load` finds in the files is exactly the stored
batches, a prefix of the partition's messages. -/
theorem stored_is_prefix (p : Part) : ∀ s ∈ p.segs, ∃ buf, s.msgs = batchesMsgs s.log ++ buf :=
  fun s _ => ⟨s.accMsgs, rfl⟩

/-! ## the setting -/

/-- a segment with a non-empty buffer is open -/
theorem persisting_open (h : s.Inv cfg) (hne : s.accMsgs ≠ []) : s.closed = false := by
  cases hc : s.closed with
  | false => rfl
  | true => exact absurd (h.accMsgs_nil_of_closed hc) hne

/-- `persistBatch s` and `persistIdx s` are what `Seg.persist` appends to the log and to the index file,
`s.diskAfter` is the clean disk state of the persisted segment, and the batch carries the whole buffer -/
theorem persist_writes (hne : s.accMsgs ≠ []) :
    (s.persist cfg).1.log = s.log ++ [persistBatch s] ∧
    (s.persist cfg).1.idxFile = s.idxFile ++ [persistIdx s] ∧
    (s.persist cfg).1.disk = s.diskAfter ∧ (persistBatch s).msgs = s.accMsgs :=
  ⟨(Seg.persist_files hne).1, (Seg.persist_files hne).2, Seg.persist_disk hne, persistBatch_msgs s⟩

/-! ## 1. clean states are left alone -/

/-- the files of a segment satisfying the invariant are consistent: the index file is exactly the index
of the log, nothing torn, every batch well formed -/
theorem disk_consistent (h : s.Inv cfg) : s.disk.Consistent := Seg.disk_consistent h

/-- `reconcile` does not change a consistent disk state — in particular the state after a clean
shutdown, and every segment other than the one being written -/
theorem reconcile_consistent {d : SegDisk} (h : d.Consistent) : reconcile d = d :=
  Iggy.Log.reconcile_consistent h

/-- `reconcile` never touches the log file's complete batches -/
theorem reconcile_keeps_log (d : SegDisk) : (reconcile d).log = d.log := rfl

/-- **what recovery computes, in general.** If the index file holds the records of the first `k` batches
of the log followed by any number of records that do not point at the start of a complete batch, then
`reconcile` yields the clean state of the same log (`cleanDisk`: the log with exactly its index, nothing
torn): the junk records are dropped, the batches beyond `k` are indexed.  This covers any number of
unindexed batches and stale records, not only the ten images of one interrupted `persist`. -/
theorem reconcile_canonical {d : SegDisk} {k : Nat} {junk : List Idx} (hk : k ≤ d.log.length)
    (hidx : d.idx = mkIdx d.start 0 (d.log.take k) ++ junk)
    (hjunk : ∀ e ∈ junk, idxValid d.log e = false) : reconcile d = cleanDisk d.start d.log :=
  reconcile_of_prefix hk hidx hjunk

/-- instance: any number of complete batches the index does not know yet (the log ran ahead of the
index by more than one batch) are indexed -/
theorem reconcile_log_ahead {d : SegDisk} {k : Nat} (hk : k ≤ d.log.length)
    (hidx : d.idx = mkIdx d.start 0 (d.log.take k)) : reconcile d = cleanDisk d.start d.log :=
  reconcile_of_prefix (junk := []) hk (by simpa using hidx) (by simp)

/-- instance: any number of index records that point at or beyond the end of the log (the index ran
ahead of the log by more than one record, as can happen under no-wait confirmation) are dropped -/
theorem reconcile_index_ahead {d : SegDisk} {junk : List Idx} (hidx : d.idx = mkIdx d.start 0 d.log ++ junk)
    (hjunk : ∀ e ∈ junk, logBytes d.log ≤ e.pos) : reconcile d = cleanDisk d.start d.log :=
  reconcile_of_prefix (k := d.log.length) (Nat.le_refl _) (by simpa using hidx)
    (fun e he => idxValid_beyond (hjunk e he))

/-! ## 2. every crash image reconciles to a clean state -/

/-- wait-confirmation (log append, then index append).  Images in order: untouched; log append torn; log
appended, index not yet; index append torn; both complete.  A batch whose log bytes are complete is
recovered even though its index record is missing or torn (images 3, 4). -/
theorem reconcile_images_wait (h : s.Inv cfg) (hne : s.accMsgs ≠ []) :
    (persistImages .wait s.disk (persistBatch s) (persistIdx s)).map reconcile =
      [s.disk, s.disk, s.diskAfter, s.diskAfter, s.diskAfter] :=
  Iggy.Log.reconcile_images_wait h hne

/-- no-wait confirmation (index append first, the log append later).  Images in order: untouched; index
append torn; index appended, log not yet; log append torn; both complete.  An index record whose batch
never reached the log is dropped (images 3, 4): it points at the end of the log, which is not the start
of a complete batch. -/
theorem reconcile_images_noWait (h : s.Inv cfg) (hne : s.accMsgs ≠ []) :
    (persistImages .noWait s.disk (persistBatch s) (persistIdx s)).map reconcile =
      [s.disk, s.disk, s.disk, s.disk, s.diskAfter] :=
  Iggy.Log.reconcile_images_noWait h hne

/-- For every image, in both confirmation modes: the reconciled state is consistent and its log is the
log before the operation or that log plus the new batch — the latter exactly when the image's log file
holds the complete batch (`reconcile` keeps the log: `reconcile_keeps_log`). -/
theorem reconcile_image (h : s.Inv cfg) (hne : s.accMsgs ≠ [])
    (hx : x ∈ persistImages c s.disk (persistBatch s) (persistIdx s)) :
    (reconcile x).Consistent ∧
      ((reconcile x).log = s.log ∨ (reconcile x).log = s.log ++ [persistBatch s]) ∧
      ((x.log = s.log ∧ reconcile x = s.disk) ∨
        (x.log = s.log ++ [persistBatch s] ∧ reconcile x = s.diskAfter)) := by
  have hc := reconcile_image_cases h hne hx
  refine ⟨?_, ?_, hc⟩
  · rcases hc with ⟨-, hr⟩ | ⟨-, hr⟩
    · rw [hr]; exact Seg.disk_consistent h
    · rw [hr]; exact Seg.diskAfter_consistent h hne
  · rcases hc with ⟨hl, -⟩ | ⟨hl, -⟩
    · exact Or.inl hl
    · exact Or.inr hl

/-! ## 3. the restart succeeds: the recovered segment satisfies the invariant -/

/-- the recovered segment holds exactly the messages of the complete batches of the log file, whatever
the state of the index file (any disk state, not only crash images) -/
theorem recover_msgs (cfg : Cfg) (now : Nat) (d : SegDisk) :
    (recoverSeg cfg now d).msgs = batchesMsgs (reconcile d).log := recoverSeg_msgs d

/-- The segment the restarted server works with (`recoverLast`: `recoverSeg`, then the end-offset
fix-up `Part.load` applies to a full last segment) satisfies the representation invariant: in particular
its messages carry the offsets `start, start+1, …` without gap or duplicate (`Seg.Inv.offsets`), its
index is exactly the index of its log, and `current_offset` is the last recovered offset.
`hnow`: the clock did not go backwards. -/
theorem recover_inv (h : s.Inv cfg) (hne : s.accMsgs ≠ []) (hnow : ∀ m ∈ s.msgs, m.ts ≤ now)
    (hx : x ∈ persistImages c s.disk (persistBatch s) (persistIdx s)) :
    (recoverLast cfg now x).Inv cfg := image_recoverLast_inv h hne hnow hx

/-- as long as the recovered log does not fill the segment no fix-up is involved -/
theorem recover_inv_open (h : s.Inv cfg) (hne : s.accMsgs ≠ []) (hnow : ∀ m ∈ s.msgs, m.ts ≤ now)
    (hx : x ∈ persistImages c s.disk (persistBatch s) (persistIdx s))
    (hopen : logBytes x.log < cfg.segSize) : (recoverSeg cfg now x).Inv cfg := by
  rw [← recoverLast_of_open hopen]
  exact image_recoverLast_inv h hne hnow hx

/-- gap-free and duplicate-free, spelled out -/
theorem recover_offsets (h : s.Inv cfg) (hne : s.accMsgs ≠ []) (hnow : ∀ m ∈ s.msgs, m.ts ≤ now)
    (hx : x ∈ persistImages c s.disk (persistBatch s) (persistIdx s)) :
    consecutiveFrom s.start (recoverSeg cfg now x).msgs := by
  have := (image_recoverLast_inv (now := now) h hne hnow hx).offsets
  rwa [recoverLast_start, image_start h hne hx, recoverLast_msgs, ← recoverSeg_msgs (cfg := cfg) (now := now)]
    at this

/-! ## 4. the recovered messages are a prefix of the accepted ones -/

/-- **C04 for one segment.** After a crash at any point of the persist operation, in either
confirmation mode, the recovered messages are a prefix of the accepted messages `s.msgs` and contain
every message that was stored before the operation began. -/
theorem crash_prefix (h : s.Inv cfg) (hne : s.accMsgs ≠ [])
    (hx : x ∈ persistImages c s.disk (persistBatch s) (persistIdx s)) :
    let r := recoverSeg cfg now x
    (∃ k, r.msgs = s.msgs.take k) ∧ r.msgs <+: s.msgs ∧ batchesMsgs s.log <+: r.msgs := by
  intro r
  have hr : r.msgs = batchesMsgs x.log := recoverSeg_msgs x
  obtain ⟨h1, h2⟩ := image_msgs_prefix h hne hx
  rw [hr]
  refine ⟨⟨(batchesMsgs x.log).length, ?_⟩, h1, h2⟩
  obtain ⟨t, ht⟩ := h1
  rw [← ht, List.take_left' rfl]

/-- more precisely: nothing of the buffer is recovered, or all of it — exactly when the image's log holds
the complete new batch -/
theorem crash_all_or_nothing (h : s.Inv cfg) (hne : s.accMsgs ≠ [])
    (hx : x ∈ persistImages c s.disk (persistBatch s) (persistIdx s)) :
    (x.log = s.log ∧ (recoverSeg cfg now x).msgs = batchesMsgs s.log) ∨
      (x.log = s.log ++ [persistBatch s] ∧ (recoverSeg cfg now x).msgs = s.msgs) := by
  rw [recoverSeg_msgs]
  exact image_msgs h hne hx

/-- **durability under wait-confirmation.** The send is acknowledged only after both appends are
complete, i.e. in the last image; from then on the disk state is `s.diskAfter`, and a restart recovers
every accepted message.  (Already images 3 and 4 — the log append complete — recover all of them.) -/
theorem durable_after_ack (hne : s.accMsgs ≠ []) :
    (persistImages .wait s.disk (persistBatch s) (persistIdx s)).getLast? = some s.diskAfter ∧
    (s.persist cfg).1.disk = s.diskAfter ∧
    (recoverSeg cfg now s.diskAfter).msgs = s.msgs ∧
    ∀ x ∈ (persistImages .wait s.disk (persistBatch s) (persistIdx s)).drop 2,
      (recoverSeg cfg now x).msgs = s.msgs := by
  refine ⟨rfl, Seg.persist_disk hne, ?_, ?_⟩
  · rw [recoverSeg_msgs]; exact batchesMsgs_after s
  · intro x hx
    simp only [persistImages, List.drop_succ_cons, List.drop_zero, List.mem_cons, List.not_mem_nil,
      or_false] at hx
    rw [recoverSeg_msgs]
    rcases hx with rfl | rfl | rfl <;> exact batchesMsgs_after s

/-- **no offset is reused for a recovered message.** `current_offset` of the recovered segment is the
offset of the last recovered message, and that message is followed by offset
`start + number of recovered messages`. -/
theorem no_offset_reuse (h : s.Inv cfg) (hne : s.accMsgs ≠ []) (hnow : ∀ m ∈ s.msgs, m.ts ≤ now)
    (hx : x ∈ persistImages c s.disk (persistBatch s) (persistIdx s)) :
    let r := recoverLast cfg now x
    r.cur = r.start + (r.msgs.length - 1) ∧
      ∀ m, r.msgs.getLast? = some m → m.off = r.cur ∧ m.off + 1 = r.start + r.msgs.length := by
  intro r
  have hi : r.Inv cfg := image_recoverLast_inv h hne hnow hx
  exact ⟨hi.cur, fun m hm => hi.last_off hm⟩

/-- **messages accepted after recovery continue at the next offset.** Appending messages numbered from
`start + number of recovered messages` (one past the last recovered offset) to the recovered segment
keeps the invariant, so recovered and new messages together are again gap-free and duplicate-free. -/
theorem append_after_recovery (h : s.Inv cfg) (hne : s.accMsgs ≠ []) (hnow : ∀ m ∈ s.msgs, m.ts ≤ now)
    (hx : x ∈ persistImages c s.disk (persistBatch s) (persistIdx s))
    (hopen : (recoverLast cfg now x).closed = false) {new : List Msg} {now' : Nat} (hnew : new ≠ [])
    (hnum : consecutiveFrom (s.start + (recoverLast cfg now x).msgs.length) new) (hle : now ≤ now')
    (hts : ∀ m ∈ new, m.ts = now') :
    let r' := (recoverLast cfg now x).appendBatch (sumSizes new) new
    r'.Inv cfg ∧ r'.msgs = (recoverLast cfg now x).msgs ++ new ∧ consecutiveFrom s.start r'.msgs := by
  intro r'
  have hi : (recoverLast cfg now x).Inv cfg := image_recoverLast_inv h hne hnow hx
  have hst : (recoverLast cfg now x).start = s.start := by
    rw [recoverLast_start]; exact image_start h hne hx
  have hold : ∀ m ∈ (recoverLast cfg now x).msgs, m.ts ≤ now' := by
    intro m hm
    have := hi.endTs m hm
    have e : (recoverLast cfg now x).endTs = now := rfl
    omega
  have hr' : r'.Inv cfg := Seg.appendBatch_inv (now := now') hi hopen hnew (by rw [hst]; exact hnum) hold hts
  refine ⟨hr', Seg.appendBatch_msgs hnew, ?_⟩
  have := hr'.offsets
  rwa [Seg.appendBatch_start, hst] at this

/-! ## 5. torn tails are ignored -/

/-- A partially written trailing batch in the log file plays no role in recovery: it is cut, never served
as data.  (By definition of the batch-granularity model: `reconcile` reads the complete records only.) -/
theorem torn_ignored_log (d : SegDisk) :
    reconcile { d with logTorn := true } = reconcile { d with logTorn := false } := rfl

/-- the same for a partially written trailing record of the index file -/
theorem torn_ignored_idx (d : SegDisk) :
    reconcile { d with idxTorn := true } = reconcile { d with idxTorn := false } := rfl

/-- nothing torn is left after recovery -/
theorem recovered_not_torn (d : SegDisk) : (reconcile d).logTorn = false ∧ (reconcile d).idxTorn = false :=
  ⟨rfl, rfl⟩

/-! ## 6. the partition -/

/-- **C04 for a partition.** `p` satisfies the partition invariant and the buffer of its last segment `s`
is being persisted (every other segment is closed and clean).  The process dies leaving the last segment's
files in state `x`; the restart (`Part.recover`: reconcile every segment, then `Part.load`) yields a
partition that satisfies the full invariant `Part.Inv` — so the restart succeeds, offsets are gap-free and
duplicate-free across segments, `current_offset`, the counters and the index agree with the data — whose
messages are a prefix of the accepted messages `p.msgs`, contain every message stored before the
operation, and whose next offset is one past the last recovered message.

`co`, `go`: the consumer offsets found on disk.  The invariant bounds stored consumer offsets by the next
offset, hence the hypotheses `hco`, `hgo`: an offset stored for a message that was only buffered and is
lost by the crash would point past the recovered log (not the subject of C04). -/
theorem part_crash_prefix {p : Part} {init : List Seg} {co go : List (Nat × Nat)}
    (hp : p.Inv cfg) (hs : p.segs = init ++ [s]) (hne : s.accMsgs ≠ [])
    (hx : x ∈ persistImages c s.disk (persistBatch s) (persistIdx s))
    (hnow : ∀ m ∈ p.msgs, m.ts ≤ now)
    (hco : ∀ e ∈ co, e.2 < s.start + (batchesMsgs x.log).length ∨
      (e.2 = 0 ∧ s.start + (batchesMsgs x.log).length = 0))
    (hgo : ∀ e ∈ go, e.2 < s.start + (batchesMsgs x.log).length ∨
      (e.2 = 0 ∧ s.start + (batchesMsgs x.log).length = 0)) (cl : Nat) :
    let q := p.recover cfg now x co go cl
    q.Inv cfg ∧ q.msgs <+: p.msgs ∧ (∃ k, q.msgs = p.msgs.take k) ∧
      segsMsgs init ++ batchesMsgs s.log <+: q.msgs ∧
      q.next = s.start + (batchesMsgs x.log).length ∧ q.next ≤ p.next := by
  intro q
  obtain ⟨hinv, hmsgs, hnext⟩ := Part.recover_spec (now := now) hp hs hne hx hnow hco hgo cl
  have hsi : s.Inv cfg := hp.segs s (by simp [hs])
  obtain ⟨h1, h2⟩ := image_msgs_prefix hsi hne hx
  have hpm : p.msgs = segsMsgs init ++ s.msgs := by rw [Part.msgs_eq, hs]; simp
  have hpre : q.msgs <+: p.msgs := by
    rw [hmsgs, hpm]; exact (List.prefix_append_right_inj _).2 h1
  refine ⟨hinv, hpre, ?_, ?_, hnext, ?_⟩
  · obtain ⟨t, ht⟩ := hpre
    exact ⟨q.msgs.length, by rw [← ht, List.take_left' rfl]⟩
  · rw [hmsgs]; exact (List.prefix_append_right_inj _).2 h2
  · rw [hnext, ← (hp.last_facts hs).2.1]
    have := h1.length_le
    omega

/-- **a crash while no file mutation is in flight** (between operations, or during an append that only
fills the buffer; the last segment may be open with any buffer, or closed): the files are clean, the
restart yields a partition satisfying the invariant that holds exactly the stored messages — all
messages except the unsaved buffer of the last segment. -/
theorem part_crash_idle {p : Part} {init : List Seg} {co go : List (Nat × Nat)}
    (hp : p.Inv cfg) (hs : p.segs = init ++ [s]) (hnow : ∀ m ∈ p.msgs, m.ts ≤ now)
    (hco : ∀ e ∈ co, e.2 < s.start + (batchesMsgs s.log).length ∨
      (e.2 = 0 ∧ s.start + (batchesMsgs s.log).length = 0))
    (hgo : ∀ e ∈ go, e.2 < s.start + (batchesMsgs s.log).length ∨
      (e.2 = 0 ∧ s.start + (batchesMsgs s.log).length = 0)) (cl : Nat) :
    let q := p.recover cfg now s.disk co go cl
    q.Inv cfg ∧ q.msgs = segsMsgs init ++ batchesMsgs s.log ∧ q.msgs ++ s.accMsgs = p.msgs ∧
      q.next = s.start + (batchesMsgs s.log).length := by
  intro q
  obtain ⟨hinv, hmsgs, hnext⟩ := Part.recover_spec_idle (now := now) hp hs hnow hco hgo cl
  refine ⟨hinv, hmsgs, ?_, hnext⟩
  rw [hmsgs, Part.msgs_eq, hs]
  simp [Seg.msgs_def]

/-- **durability under wait-confirmation, for the partition**: once both appends are complete — the only
point at which the send is acknowledged — a crash loses nothing. -/
theorem part_durable_after_ack {p : Part} {init : List Seg} {co go : List (Nat × Nat)}
    (hp : p.Inv cfg) (hs : p.segs = init ++ [s]) (hne : s.accMsgs ≠ [])
    (hnow : ∀ m ∈ p.msgs, m.ts ≤ now)
    (hco : ∀ e ∈ co, e.2 < p.next ∨ (e.2 = 0 ∧ p.next = 0))
    (hgo : ∀ e ∈ go, e.2 < p.next ∨ (e.2 = 0 ∧ p.next = 0)) (cl : Nat) :
    let q := p.recover cfg now s.diskAfter co go cl
    q.Inv cfg ∧ q.msgs = p.msgs ∧ q.next = p.next := by
  intro q
  have hx := diskAfter_mem s .wait
  have hm : batchesMsgs s.diskAfter.log = s.msgs := batchesMsgs_after s
  have hn : s.start + (batchesMsgs s.diskAfter.log).length = p.next := by
    rw [hm]; exact (hp.last_facts hs).2.1
  obtain ⟨hinv, hmsgs, hnext⟩ := Part.recover_spec (now := now) (co := co) (go := go) hp hs hne hx hnow
    (by rw [hn]; exact hco) (by rw [hn]; exact hgo) cl
  refine ⟨hinv, ?_, by rw [hnext, hn]⟩
  rw [hmsgs, hm, Part.msgs_eq, hs]; simp

/-! ## 7. non-vacuity and the counterexample -/

def exCfg : Cfg := { reqToSave := 2, segSize := 1000, cacheOn := false, idxCacheOn := true, dedupOn := false }
def exMsg (o : Nat) : Msg := { off := o, id := o, ts := o, size := 10, tag := o }

/-- offsets 0, 1 stored in one batch, offsets 2, 3 buffered and about to be persisted -/
def exSeg : Seg :=
  ((((Seg.create exCfg 0 0).appendBatch 20 [exMsg 0, exMsg 1]).persist exCfg).1).appendBatch 20 [exMsg 2, exMsg 3]

example : exSeg.Inv exCfg ∧ exSeg.accMsgs ≠ [] ∧ exSeg.closed = false := by decide
example : (batchesMsgs exSeg.log).map (·.off) = [0, 1] ∧ exSeg.msgs.map (·.off) = [0, 1, 2, 3] := by decide
example : (persistBatch exSeg).msgs.map (·.off) = [2, 3] ∧ (persistIdx exSeg) = { rel := 3, pos := 44, ts := 3 } := by
  decide

/-- the ten images are pairwise different states of the files -/
example : (persistImages .wait exSeg.disk (persistBatch exSeg) (persistIdx exSeg)).Nodup ∧
    (persistImages .noWait exSeg.disk (persistBatch exSeg) (persistIdx exSeg)).Nodup := by decide

/-- wait-confirmation: recovered offsets for the five images -/
example : (persistImages .wait exSeg.disk (persistBatch exSeg) (persistIdx exSeg)).map
      (fun x => (recoverSeg exCfg 9 x).msgs.map (·.off)) =
    [[0, 1], [0, 1], [0, 1, 2, 3], [0, 1, 2, 3], [0, 1, 2, 3]] := by decide

/-- no-wait confirmation: recovered offsets for the five images -/
example : (persistImages .noWait exSeg.disk (persistBatch exSeg) (persistIdx exSeg)).map
      (fun x => (recoverSeg exCfg 9 x).msgs.map (·.off)) =
    [[0, 1], [0, 1], [0, 1], [0, 1], [0, 1, 2, 3]] := by decide

/-- `current_offset` and the index file after recovery: the stale record of no-wait image 3 is gone, the
missing record of wait image 3 is back -/
example : (persistImages .wait exSeg.disk (persistBatch exSeg) (persistIdx exSeg)).map
      (fun x => ((recoverSeg exCfg 9 x).cur, (recoverSeg exCfg 9 x).idxFile.map (fun e => (e.rel, e.pos)))) =
    [(1, [(1, 0)]), (1, [(1, 0)]), (3, [(1, 0), (3, 44)]), (3, [(1, 0), (3, 44)]), (3, [(1, 0), (3, 44)])] := by
  decide
example : (persistImages .noWait exSeg.disk (persistBatch exSeg) (persistIdx exSeg)).map
      (fun x => ((recoverSeg exCfg 9 x).cur, (recoverSeg exCfg 9 x).idxFile.map (fun e => (e.rel, e.pos)))) =
    [(1, [(1, 0)]), (1, [(1, 0)]), (1, [(1, 0)]), (1, [(1, 0)]), (3, [(1, 0), (3, 44)])] := by
  decide

/-- every recovered segment satisfies the invariant (here no segment fills up) -/
example : ∀ c ∈ [Confirm.wait, Confirm.noWait],
    ∀ x ∈ persistImages c exSeg.disk (persistBatch exSeg) (persistIdx exSeg), (recoverSeg exCfg 9 x).Inv exCfg := by
  decide

/-- a segment size the persisted batch reaches: 44 + 44 = 88 ≥ 80 -/
def exCfgSmall : Cfg := { exCfg with segSize := 80 }

/-- **counterexample** to "`recoverSeg` alone satisfies the invariant": when the recovered log fills the
segment, `Seg.load` marks it closed with `endOff = 0`; the invariant (`endOff = cur` for a closed
segment) holds only after the fix-up of `Part.load`, i.e. for `recoverLast`. -/
theorem recover_inv_needs_fixup :
    exSeg.Inv exCfgSmall ∧ exSeg.accMsgs ≠ [] ∧
    exSeg.diskAfter ∈ persistImages .wait exSeg.disk (persistBatch exSeg) (persistIdx exSeg) ∧
    ¬ (recoverSeg exCfgSmall 9 exSeg.diskAfter).Inv exCfgSmall ∧
    (recoverLast exCfgSmall 9 exSeg.diskAfter).Inv exCfgSmall := by decide

/-- a partition of two segments (`rx4` of `Iggy/Log/Refine.lean`): offsets 0–4 in a closed first segment,
offset 5 buffered in the second one, whose log is still empty -/
def exLast : Seg := (rx4.segs.getLast?).getD (Seg.create rxCfg 0 0)

example : rx4.Inv rxCfg ∧ rx4.segs = rx4.segs.dropLast ++ [exLast] ∧ exLast.accMsgs ≠ [] ∧
    rx4.msgs.map (·.off) = [0, 1, 2, 3, 4, 5] ∧ rx4.next = 6 := by decide

/-- recovered partition, wait-confirmation: message offsets and next offset for the five images -/
example : (persistImages .wait exLast.disk (persistBatch exLast) (persistIdx exLast)).map
      (fun x => ((rx4.recover rxCfg 9 x [] [] 0).msgs.map (·.off), (rx4.recover rxCfg 9 x [] [] 0).next)) =
    [([0, 1, 2, 3, 4], 5), ([0, 1, 2, 3, 4], 5), ([0, 1, 2, 3, 4, 5], 6), ([0, 1, 2, 3, 4, 5], 6),
      ([0, 1, 2, 3, 4, 5], 6)] := by decide

/-- recovered partition, no-wait confirmation -/
example : (persistImages .noWait exLast.disk (persistBatch exLast) (persistIdx exLast)).map
      (fun x => ((rx4.recover rxCfg 9 x [] [] 0).msgs.map (·.off), (rx4.recover rxCfg 9 x [] [] 0).next)) =
    [([0, 1, 2, 3, 4], 5), ([0, 1, 2, 3, 4], 5), ([0, 1, 2, 3, 4], 5), ([0, 1, 2, 3, 4], 5),
      ([0, 1, 2, 3, 4, 5], 6)] := by decide

/-- every recovered partition satisfies the partition invariant -/
example : ∀ c ∈ [Confirm.wait, Confirm.noWait],
    ∀ x ∈ persistImages c exLast.disk (persistBatch exLast) (persistIdx exLast),
      (rx4.recover rxCfg 9 x [] [] 0).Inv rxCfg := by decide

end Iggy.Props.C04
