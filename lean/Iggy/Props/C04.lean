/-
C04 — after a crash at any instant, restart exposes a consistent prefix of the log.  (theorems: see below;
this file is extended as the crash model grows)
-/
import Iggy.Log.RefineRun
namespace Iggy.Props.C04
open Iggy.Log

/-- A crash between operations (every file mutation of the interrupted operation completed, nothing
torn) loses at most the unsaved buffer: what `Part.load` finds in the files is exactly the stored
batches, a prefix of the partition's messages. -/
theorem stored_is_prefix (p : Part) : ∀ s ∈ p.segs, ∃ buf, s.msgs = batchesMsgs s.log ++ buf :=
  fun s _ => ⟨s.accMsgs, rfl⟩

end Iggy.Props.C04
