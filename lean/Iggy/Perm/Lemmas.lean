/-
Helper lemmas and definitions for property C09 (Iggy/Props/C09.lean): association lists, `dedupKeys`
(map semantics), the six lookups a rule performs (`Tables.view`) on the tables built by `initUser` /
`deleteUser` / `updateUser` and what they answer (`viewOf`), the order `Permissions.le`, writing one
stream / topic record (`setStream`, `setTopic`).
Nothing here mentions a generated rule: see Iggy/Perm/RuleTac.lean for the rule tactics and
Iggy/Perm/RuleFacts.lean for the facts about every rule.
-/
import Iggy.Perm.Tables
import Iggy.Perm.Spec
namespace Iggy.Perm

/-! ## association lists -/
section AL
variable {κ α : Type} [BEq κ] [LawfulBEq κ]
set_option linter.unusedSectionVars false

@[simp] theorem alGet_nil (k : κ) : alGet ([] : List (κ × α)) k = none := rfl

theorem alGet_cons (e : κ × α) (l : List (κ × α)) (k : κ) :
    alGet (e :: l) k = if e.1 == k then some e.2 else alGet l k := by
  unfold alGet
  rw [List.find?_cons]
  cases h : (e.1 == k) <;> simp

/-- filtering with a predicate that keeps every entry of key `k` does not change the lookup of `k` -/
theorem alGet_filter_keep (q : κ × α → Bool) (l : List (κ × α)) (k : κ)
    (hq : ∀ e : κ × α, e.1 = k → q e = true) : alGet (l.filter q) k = alGet l k := by
  induction l with
  | nil => rfl
  | cons e l ih =>
    rw [List.filter_cons]
    by_cases hk : e.1 = k
    · rw [hq e hk]; simp only [if_true, alGet_cons, hk, beq_self_eq_true]
    · cases hqe : q e
      · simp [alGet_cons, hk, ih]
      · simp only [if_true, alGet_cons, ih]

/-- filtering with a predicate that drops every entry of key `k` makes the lookup of `k` fail -/
theorem alGet_filter_drop (q : κ × α → Bool) (l : List (κ × α)) (k : κ)
    (hq : ∀ e : κ × α, e.1 = k → q e = false) : alGet (l.filter q) k = none := by
  induction l with
  | nil => rfl
  | cons e l ih =>
    rw [List.filter_cons]
    by_cases hk : e.1 = k
    · rw [hq e hk]; simpa using ih
    · cases hqe : q e
      · simpa using ih
      · simp only [if_true, alGet_cons, ih, beq_iff_eq, hk, if_false]

theorem alGet_eq_none_of_forall_ne (l : List (κ × α)) (k : κ) (h : ∀ e ∈ l, e.1 ≠ k) : alGet l k = none := by
  induction l with
  | nil => rfl
  | cons e l ih =>
    rw [alGet_cons, ih (fun x hx => h x (List.mem_cons_of_mem _ hx))]
    have := h e (List.mem_cons_self)
    simp [this]

theorem contains_filter {β : Type} [BEq β] [LawfulBEq β] (q : β → Bool) (l : List β) (x : β) :
    (l.filter q).contains x = (l.contains x && q x) := by
  rw [Bool.eq_iff_iff]
  simp [List.mem_filter]

theorem contains_cons' {β : Type} [BEq β] [LawfulBEq β] (a : β) (l : List β) (x : β) :
    (a :: l).contains x = (a == x || l.contains x) := by
  rw [List.contains_cons, show (x == a) = (a == x) from BEq.comm]

theorem contains_ite_cons {β : Type} [BEq β] [LawfulBEq β] (b : Bool) (a : β) (l : List β) (x : β) :
    (if b then a :: l else l).contains x = ((b && a == x) || l.contains x) := by
  cases b
  · simp only [Bool.false_and, Bool.false_or]; rfl
  · simp only [Bool.true_and, if_true, contains_cons']

theorem pair_beq_same (u a b : Nat) : ((u, a) == (u, b)) = (a == b) := by
  rw [Bool.eq_iff_iff]; simp

theorem pair_beq_ne {u u' : Nat} (h : u' ≠ u) (a b : Nat) : ((u, a) == (u', b)) = false := by
  rw [beq_eq_false_iff_ne]; intro hh; exact h (Prod.mk.inj hh).1.symm

theorem nat_beq_ne {u u' : Nat} (h : u' ≠ u) : (u == u') = false := by
  rw [beq_eq_false_iff_ne]; exact Ne.symm h

end AL

/-! ## `dedupKeys`: a list with pairwise distinct keys -/

/-- the keys of a list are pairwise distinct -/
def DistinctKeys {α : Type} : List (Nat × α) → Prop
  | [] => True
  | e :: rest => (∀ x ∈ rest, x.1 ≠ e.1) ∧ DistinctKeys rest

theorem mem_dedupKeys {α : Type} (l : List (Nat × α)) (x : Nat × α) (h : x ∈ dedupKeys l) : x ∈ l := by
  induction l with
  | nil => simp [dedupKeys] at h
  | cons e rest ih =>
    unfold dedupKeys at h
    split at h
    · exact List.mem_cons_of_mem _ (ih h)
    · rcases List.mem_cons.1 h with h | h
      · exact h ▸ List.mem_cons_self
      · exact List.mem_cons_of_mem _ (ih h)

theorem distinct_dedupKeys {α : Type} (l : List (Nat × α)) : DistinctKeys (dedupKeys l) := by
  induction l with
  | nil => simp [dedupKeys, DistinctKeys]
  | cons e rest ih =>
    unfold dedupKeys
    split
    · exact ih
    · rename_i hany
      refine ⟨fun x hx hxe => hany ?_, ih⟩
      exact List.any_eq_true.2 ⟨x, mem_dedupKeys _ _ hx, by simp [hxe]⟩

theorem DistinctKeys.alGet_tail {α : Type} {e : Nat × α} {rest : List (Nat × α)}
    (h : DistinctKeys (e :: rest)) : alGet rest e.1 = none :=
  alGet_eq_none_of_forall_ne _ _ h.1

theorem alGet_eq_none_iff {α : Type} (l : List (Nat × α)) (k : Nat) :
    alGet l k = none ↔ ∀ e ∈ l, e.1 ≠ k := by
  constructor
  · intro h
    induction l with
    | nil => intro e he; cases he
    | cons x l ih =>
      rw [alGet_cons] at h
      by_cases hx : x.1 = k
      · simp [hx] at h
      · have h' : alGet l k = none := by simpa [hx] using h
        intro e he
        rcases List.mem_cons.1 he with rfl | he
        · exact hx
        · exact ih h' e he
  · exact alGet_eq_none_of_forall_ne l k

theorem alGet_append {α : Type} (l1 l2 : List (Nat × α)) (k : Nat) :
    alGet (l1 ++ l2) k = match alGet l1 k with | some v => some v | none => alGet l2 k := by
  induction l1 with
  | nil => rfl
  | cons x l ih =>
    rw [List.cons_append, alGet_cons, alGet_cons, ih]
    by_cases hx : x.1 = k <;> simp [hx]

theorem dedupKeys_cons {α : Type} (e : Nat × α) (rest : List (Nat × α)) :
    dedupKeys (e :: rest) =
      if rest.any (fun x => x.1 == e.1) then dedupKeys rest else e :: dedupKeys rest := by
  rw [dedupKeys]

/-- map semantics of `dedupKeys`: the LAST binding of a key wins -/
theorem alGet_dedupKeys {α : Type} (l : List (Nat × α)) (k : Nat) :
    alGet (dedupKeys l) k = alGet l.reverse k := by
  induction l with
  | nil => rfl
  | cons e rest ih =>
    rw [List.reverse_cons, alGet_append, ← ih, dedupKeys_cons]
    by_cases hany : rest.any (fun x => x.1 == e.1) = true
    · rw [if_pos hany]
      cases hr : alGet (dedupKeys rest) k with
      | some v => rfl
      | none =>
        rw [ih] at hr
        obtain ⟨x, hx, hxe⟩ := List.any_eq_true.1 hany
        have hne := (alGet_eq_none_iff _ _).1 hr x (List.mem_reverse.2 hx)
        have : e.1 ≠ k := fun h => hne (by rw [← h]; simpa using hxe)
        simp [alGet_cons, this]
    · rw [if_neg hany, alGet_cons]
      by_cases hk : e.1 = k
      · have hnone : alGet rest.reverse k = none := by
          apply alGet_eq_none_of_forall_ne
          intro x hx hxk
          exact hany (List.any_eq_true.2 ⟨x, List.mem_reverse.1 hx, by simp [hxk, hk]⟩)
        rw [ih, hnone]
        simp [hk, alGet_cons]
      · cases hr : alGet (dedupKeys rest) k <;> simp [hk, alGet_cons]

/-! ## what a rule can observe of the tables -/

/-- the six lookups a rule evaluated for user `u` at stream `s` performs on the tables -/
structure View where
  g : Option GlobalPermissions
  sr : Option StreamPermissions
  pollAll : Bool
  sendAll : Bool
  pollS : Bool
  sendS : Bool
deriving DecidableEq

def Tables.view (t : Tables) (u s : Nat) : View :=
  { g := alGet t.users_permissions u
    sr := alGet t.users_streams_permissions (u, s)
    pollAll := t.users_that_can_poll_messages_from_all_streams.contains u
    sendAll := t.users_that_can_send_messages_to_all_streams.contains u
    pollS := t.users_that_can_poll_messages_from_specific_streams.contains (u, s)
    sendS := t.users_that_can_send_messages_to_specific_streams.contains (u, s) }

/-- the same six answers computed from the user's permission record -/
def viewOf (p : Option Permissions) (s : Nat) : View :=
  { g := p.map (·.global)
    sr := p.bind (fun p => streamRec p s)
    pollAll := match p with | some p => p.global.poll_messages | none => false
    sendAll := match p with | some p => p.global.send_messages | none => false
    pollS := match p with | some p => sflag p s (·.poll_messages) | none => false
    sendS := match p with | some p => sflag p s (·.send_messages) | none => false }

/-- the tables hold nothing for user `u` -/
def Tables.Free (t : Tables) (u : Nat) : Prop := ∀ s, t.view u s = viewOf none s

theorem Tables.free_empty (u : Nat) : ({} : Tables).Free u := fun _ => rfl

/-- one iteration of the loop of `init_permissions_for_user` over the stream records -/
def initStep (u : Nat) (acc : Tables) (e : Nat × StreamPermissions) : Tables :=
  { acc with
    users_that_can_poll_messages_from_specific_streams :=
      if e.2.poll_messages then (u, e.1) :: acc.users_that_can_poll_messages_from_specific_streams
      else acc.users_that_can_poll_messages_from_specific_streams
    users_that_can_send_messages_to_specific_streams :=
      if e.2.send_messages then (u, e.1) :: acc.users_that_can_send_messages_to_specific_streams
      else acc.users_that_can_send_messages_to_specific_streams
    users_streams_permissions :=
      ((u, e.1), e.2) :: acc.users_streams_permissions.filter (fun x => x.1 != (u, e.1)) }

/-- the part of `init_permissions_for_user` before the loop -/
def initGlobal (t : Tables) (u : Nat) (g : GlobalPermissions) : Tables :=
  { t with
    users_that_can_poll_messages_from_all_streams :=
      if g.poll_messages then u :: t.users_that_can_poll_messages_from_all_streams
      else t.users_that_can_poll_messages_from_all_streams
    users_that_can_send_messages_to_all_streams :=
      if g.send_messages then u :: t.users_that_can_send_messages_to_all_streams
      else t.users_that_can_send_messages_to_all_streams
    users_permissions := (u, g) :: t.users_permissions.filter (fun e => e.1 != u) }

theorem initUser_some (t : Tables) (u : Nat) (p : Permissions) :
    t.initUser u (some p) =
      match p.streams with
      | none => initGlobal t u p.global
      | some streams => (dedupKeys streams).foldl (initStep u) (initGlobal t u p.global) := rfl

theorem initStep_view (u s : Nat) (t : Tables) (e : Nat × StreamPermissions) :
    (initStep u t e).view u s =
      { t.view u s with
        sr := if e.1 == s then some e.2 else (t.view u s).sr
        pollS := (e.1 == s && e.2.poll_messages) || (t.view u s).pollS
        sendS := (e.1 == s && e.2.send_messages) || (t.view u s).sendS } := by
  have hsr : alGet (initStep u t e).users_streams_permissions (u, s) =
      if e.1 == s then some e.2 else alGet t.users_streams_permissions (u, s) := by
    simp only [initStep, alGet_cons]
    by_cases h : e.1 = s
    · simp [h]
    · rw [alGet_filter_keep]
      · simp [h]
      · intro x hx; rw [hx]; simp only [bne_iff_ne, ne_eq, Prod.mk.injEq, true_and]; exact Ne.symm h
  simp only [Tables.view, hsr]
  simp only [initStep, contains_ite_cons, pair_beq_same, Bool.and_comm]

theorem initStep_view_other (u u' s : Nat) (h : u' ≠ u) (t : Tables) (e : Nat × StreamPermissions) :
    (initStep u t e).view u' s = t.view u' s := by
  have hne : ∀ x : Nat, ((u, x) == (u', s)) = false := fun x => pair_beq_ne h x s
  have hsr : alGet (initStep u t e).users_streams_permissions (u', s) =
      alGet t.users_streams_permissions (u', s) := by
    simp only [initStep, alGet_cons, hne]
    rw [alGet_filter_keep]
    · simp
    · intro x hx; simp [hx, h]
  simp only [Tables.view, hsr]
  simp only [initStep, contains_ite_cons, hne, Bool.and_false, Bool.false_or]

theorem foldl_initStep_view (u s : Nat) (d : List (Nat × StreamPermissions)) (hd : DistinctKeys d)
    (t : Tables) :
    (d.foldl (initStep u) t).view u s =
      { t.view u s with
        sr := match alGet d s with | some sp => some sp | none => (t.view u s).sr
        pollS := (match alGet d s with | some sp => sp.poll_messages | none => false) || (t.view u s).pollS
        sendS := (match alGet d s with | some sp => sp.send_messages | none => false) || (t.view u s).sendS } := by
  induction d generalizing t with
  | nil => simp
  | cons e d ih =>
    rw [List.foldl_cons, ih hd.2, initStep_view, alGet_cons]
    by_cases h : e.1 = s
    · have := hd.alGet_tail
      rw [h] at this
      simp [h, this]
    · have h' : (e.1 == s) = false := by simp [h]
      simp [h']

theorem foldl_initStep_view_other (u u' s : Nat) (h : u' ≠ u) (d : List (Nat × StreamPermissions))
    (t : Tables) : (d.foldl (initStep u) t).view u' s = t.view u' s := by
  induction d generalizing t with
  | nil => rfl
  | cons e d ih => rw [List.foldl_cons, ih, initStep_view_other _ _ _ h]

theorem initGlobal_view (t : Tables) (u s : Nat) (g : GlobalPermissions) :
    (initGlobal t u g).view u s =
      { t.view u s with
        g := some g
        pollAll := g.poll_messages || (t.view u s).pollAll
        sendAll := g.send_messages || (t.view u s).sendAll } := by
  simp only [Tables.view, initGlobal, alGet_cons, contains_ite_cons, beq_self_eq_true, if_true,
    Bool.and_true]

theorem initGlobal_view_other (t : Tables) (u u' s : Nat) (h : u' ≠ u) (g : GlobalPermissions) :
    (initGlobal t u g).view u' s = t.view u' s := by
  have hg : alGet (initGlobal t u g).users_permissions u' = alGet t.users_permissions u' := by
    simp only [initGlobal, alGet_cons]
    rw [alGet_filter_keep]
    · simp [Ne.symm h]
    · intro x hx; simp [hx, h]
  simp only [Tables.view, hg]
  simp only [initGlobal, contains_ite_cons, nat_beq_ne h, Bool.and_false, Bool.false_or]

/-- **Lookup lemma**: on tables that hold nothing for `u`, `init_permissions_for_user u p` makes every
lookup of `u` answer what the record `p` says (map semantics for repeated stream keys). -/
theorem initUser_view (t : Tables) (u s : Nat) (p : Option Permissions) (hf : t.Free u) :
    (t.initUser u p).view u s = viewOf p s := by
  cases p with
  | none => exact hf s
  | some p =>
    rw [initUser_some]
    cases hs : p.streams with
    | none =>
      simp only [initGlobal_view, hf s]
      simp [viewOf, streamRec, sflag, hs]
    | some streams =>
      simp only [foldl_initStep_view _ _ _ (distinct_dedupKeys streams), initGlobal_view, hf s]
      simp only [viewOf, streamRec, sflag, hs, Option.bind_some, Option.map_some, Bool.or_false]
      cases alGet (dedupKeys streams) s <;> rfl

/-- … and leaves every lookup of another user unchanged. -/
theorem initUser_view_other (t : Tables) (u u' s : Nat) (p : Option Permissions) (h : u' ≠ u) :
    (t.initUser u p).view u' s = t.view u' s := by
  cases p with
  | none => rfl
  | some p =>
    rw [initUser_some]
    cases p.streams with
    | none => exact initGlobal_view_other _ _ _ _ h _
    | some streams =>
      simp only [foldl_initStep_view_other _ _ _ h, initGlobal_view_other _ _ _ _ h]

/-- `delete_permissions_for_user u` leaves nothing of `u` in the tables … -/
theorem deleteUser_free (t : Tables) (u : Nat) : (t.deleteUser u).Free u := by
  intro s
  simp only [Tables.view, Tables.deleteUser, viewOf, Option.map_none, Option.bind_none, contains_filter]
  rw [alGet_filter_drop, alGet_filter_drop]
  · simp
  · intro e he; simp [he]
  · intro e he; simp [he]

/-- … and does not change what other users see. -/
theorem deleteUser_view_other (t : Tables) (u u' s : Nat) (h : u' ≠ u) :
    (t.deleteUser u).view u' s = t.view u' s := by
  simp only [Tables.view, Tables.deleteUser, contains_filter]
  rw [alGet_filter_keep, alGet_filter_keep]
  · simp [h]
  · intro e he; simp [he, h]
  · intro e he; simp [he, h]

/-- `update_permissions_for_user`: the tables answer for `u` exactly what the new record says,
whatever they held before. -/
theorem updateUser_view (t : Tables) (u s : Nat) (p : Option Permissions) :
    (t.updateUser u p).view u s = viewOf p s :=
  initUser_view _ _ _ _ (deleteUser_free t u)

theorem updateUser_view_other (t : Tables) (u u' s : Nat) (p : Option Permissions) (h : u' ≠ u) :
    (t.updateUser u p).view u' s = t.view u' s := by
  unfold Tables.updateUser
  rw [initUser_view_other _ _ _ _ _ h, deleteUser_view_other _ _ _ _ h]

theorem tablesOf_view (u s : Nat) (p : Option Permissions) : (tablesOf u p).view u s = viewOf p s :=
  initUser_view _ _ _ _ (Tables.free_empty u)

/-! ### the lookup lemmas, one per table (rewrite rules for the rule tactics) -/

theorem lk_global (u : Nat) (p : Option Permissions) :
    alGet (tablesOf u p).users_permissions u = p.map (·.global) :=
  congrArg View.g (tablesOf_view u 0 p)

theorem lk_stream (u s : Nat) (p : Option Permissions) :
    alGet (tablesOf u p).users_streams_permissions (u, s) = p.bind (fun p => streamRec p s) :=
  congrArg View.sr (tablesOf_view u s p)

theorem lk_pollAll (u : Nat) (p : Option Permissions) :
    (tablesOf u p).users_that_can_poll_messages_from_all_streams.contains u =
      (match p with | some p => p.global.poll_messages | none => false) :=
  congrArg View.pollAll (tablesOf_view u 0 p)

theorem lk_sendAll (u : Nat) (p : Option Permissions) :
    (tablesOf u p).users_that_can_send_messages_to_all_streams.contains u =
      (match p with | some p => p.global.send_messages | none => false) :=
  congrArg View.sendAll (tablesOf_view u 0 p)

theorem lk_pollS (u s : Nat) (p : Option Permissions) :
    (tablesOf u p).users_that_can_poll_messages_from_specific_streams.contains (u, s) =
      (match p with | some p => sflag p s (·.poll_messages) | none => false) :=
  congrArg View.pollS (tablesOf_view u s p)

theorem lk_sendS (u s : Nat) (p : Option Permissions) :
    (tablesOf u p).users_that_can_send_messages_to_specific_streams.contains (u, s) =
      (match p with | some p => sflag p s (·.send_messages) | none => false) :=
  congrArg View.sendS (tablesOf_view u s p)

/-! the same for a user with a record / without one: the form used after the case split on the record
(right-hand sides mention `streamRec p s` syntactically, never through `sflag`) -/

theorem lks_global (u : Nat) (p : Permissions) :
    alGet (tablesOf u (some p)).users_permissions u = some p.global := lk_global u (some p)
theorem lks_stream (u s : Nat) (p : Permissions) :
    alGet (tablesOf u (some p)).users_streams_permissions (u, s) = streamRec p s := lk_stream u s (some p)
theorem lks_pollAll (u : Nat) (p : Permissions) :
    (tablesOf u (some p)).users_that_can_poll_messages_from_all_streams.contains u = p.global.poll_messages :=
  lk_pollAll u (some p)
theorem lks_sendAll (u : Nat) (p : Permissions) :
    (tablesOf u (some p)).users_that_can_send_messages_to_all_streams.contains u = p.global.send_messages :=
  lk_sendAll u (some p)
theorem lks_pollS (u s : Nat) (p : Permissions) :
    (tablesOf u (some p)).users_that_can_poll_messages_from_specific_streams.contains (u, s) =
      (match streamRec p s with | some sp => sp.poll_messages | none => false) := lk_pollS u s (some p)
theorem lks_sendS (u s : Nat) (p : Permissions) :
    (tablesOf u (some p)).users_that_can_send_messages_to_specific_streams.contains (u, s) =
      (match streamRec p s with | some sp => sp.send_messages | none => false) := lk_sendS u s (some p)

theorem lkn_global (u : Nat) : alGet (tablesOf u none).users_permissions u = none := rfl
theorem lkn_stream (u s : Nat) : alGet (tablesOf u none).users_streams_permissions (u, s) = none := rfl
theorem lkn_pollAll (u : Nat) :
    (tablesOf u none).users_that_can_poll_messages_from_all_streams.contains u = false := rfl
theorem lkn_sendAll (u : Nat) :
    (tablesOf u none).users_that_can_send_messages_to_all_streams.contains u = false := rfl
theorem lkn_pollS (u s : Nat) :
    (tablesOf u none).users_that_can_poll_messages_from_specific_streams.contains (u, s) = false := rfl
theorem lkn_sendS (u s : Nat) :
    (tablesOf u none).users_that_can_send_messages_to_specific_streams.contains (u, s) = false := rfl

/-! ## more permissions: `Permissions.le` -/

def gLe (a b : GlobalPermissions) : Bool :=
  (!a.manage_servers || b.manage_servers) && (!a.read_servers || b.read_servers) &&
  (!a.manage_users || b.manage_users) && (!a.read_users || b.read_users) &&
  (!a.manage_streams || b.manage_streams) && (!a.read_streams || b.read_streams) &&
  (!a.manage_topics || b.manage_topics) && (!a.read_topics || b.read_topics) &&
  (!a.poll_messages || b.poll_messages) && (!a.send_messages || b.send_messages)

/-- the stream-level flags (the topic table is compared separately) -/
def spLe (a b : StreamPermissions) : Bool :=
  (!a.manage_stream || b.manage_stream) && (!a.read_stream || b.read_stream) &&
  (!a.manage_topics || b.manage_topics) && (!a.read_topics || b.read_topics) &&
  (!a.poll_messages || b.poll_messages) && (!a.send_messages || b.send_messages)

/-- `p ≤ p'`: `p'` has every flag `p` has, on every level — "granting a user more permissions" -/
def Permissions.le (p p' : Permissions) : Prop :=
  gLe p.global p'.global = true ∧
  ∀ s sp, streamRec p s = some sp →
    ∃ sp', streamRec p' s = some sp' ∧ spLe sp sp' = true ∧
      ∀ tp t, topicRec sp tp = some t → ∃ t', topicRec sp' tp = some t' ∧ tpLe t t' = true

/-- `Permissions.le` seen from one `(stream, topic)` -/
def leAt (p p' : Permissions) (s tp : Nat) : Prop :=
  gLe p.global p'.global = true ∧
  match streamRec p s with
  | none => True
  | some sp =>
    match streamRec p' s with
    | none => False
    | some sp' =>
      spLe sp sp' = true ∧
      match topicRec sp tp with
      | none => True
      | some t =>
        match topicRec sp' tp with
        | none => False
        | some t' => tpLe t t' = true

theorem Permissions.le.at {p p' : Permissions} (h : p.le p') (s tp : Nat) : leAt p p' s tp := by
  refine ⟨h.1, ?_⟩
  cases hs : streamRec p s with
  | none => trivial
  | some sp =>
    obtain ⟨sp', hs', hle, ht⟩ := h.2 s sp hs
    simp only [hs']
    refine ⟨hle, ?_⟩
    cases htp : topicRec sp tp with
    | none => trivial
    | some t =>
      obtain ⟨t', ht', hle'⟩ := ht tp t htp
      simp only [ht']
      exact hle'

theorem Permissions.le_refl (p : Permissions) : p.le p := by
  refine ⟨by simp [gLe], fun s sp hs => ⟨sp, hs, by simp [spLe], fun tp t ht => ⟨t, ht, by simp [tpLe]⟩⟩⟩

/-! ## changing one stream record / one topic record -/

/-- `streams.insert(s', sp')` on the record of a user -/
def Permissions.setStream (p : Permissions) (s' : Nat) (sp' : StreamPermissions) : Permissions :=
  { p with streams := some (p.streams.getD [] ++ [(s', sp')]) }

theorem streamRec_setStream (p : Permissions) (s' s : Nat) (sp' : StreamPermissions) :
    streamRec (p.setStream s' sp') s = if s' = s then some sp' else streamRec p s := by
  unfold streamRec Permissions.setStream
  simp only [Option.bind_some, alGet_dedupKeys, List.reverse_append, List.reverse_cons, List.reverse_nil,
    List.nil_append, List.cons_append, alGet_cons]
  by_cases h : s' = s
  · simp [h]
  · cases hs : p.streams <;> simp [h]

theorem setStream_global (p : Permissions) (s' : Nat) (sp' : StreamPermissions) :
    (p.setStream s' sp').global = p.global := rfl

/-- `topics.insert(tp', t')` on a stream record -/
def StreamPermissions.setTopic (sp : StreamPermissions) (tp' : Nat) (t' : TopicPermissions) :
    StreamPermissions :=
  { sp with topics := some ((tp', t') :: sp.topics.getD []) }

theorem topicRec_setTopic (sp : StreamPermissions) (tp' tp : Nat) (t' : TopicPermissions) :
    topicRec (sp.setTopic tp' t') tp = if tp' = tp then some t' else topicRec sp tp := by
  unfold topicRec StreamPermissions.setTopic
  simp only [Option.bind_some, alGet_cons]
  by_cases h : tp' = tp
  · simp [h]
  · cases ht : sp.topics <;> simp [h]

/-! ## what a rule at `(s, tp)` can see of a stream record -/

/-- the stream-level flags of a record and its entry for topic `tp` -/
def topicSight (tp : Nat) (sp : StreamPermissions) : StreamPermissions × Option TopicPermissions :=
  ({ sp with topics := none }, topicRec sp tp)

theorem topicSight_setTopic (sp : StreamPermissions) (tp' tp : Nat) (t' : TopicPermissions) (h : tp' ≠ tp) :
    topicSight tp (sp.setTopic tp' t') = topicSight tp sp := by
  unfold topicSight
  rw [topicRec_setTopic, if_neg h]
  rfl

/-- the six lookups are a function of the global record and the record of stream `s` -/
theorem viewOf_congr (p p' : Option Permissions) (s : Nat)
    (hg : p.map (·.global) = p'.map (·.global))
    (hs : p.bind (fun p => streamRec p s) = p'.bind (fun p => streamRec p s)) :
    viewOf p s = viewOf p' s := by
  cases p with
  | none =>
    cases p' with
    | none => rfl
    | some p' => simp at hg
  | some p =>
    cases p' with
    | none => simp at hg
    | some p' =>
      simp only [Option.map_some, Option.some.injEq, Option.bind_some] at hg hs
      simp only [viewOf, sflag, Option.map_some, Option.bind_some, hg, hs]

end Iggy.Perm
