/-
Enumeration of the permission-record space that `local` (Iggy/Props/C09.lean) shows sufficient, decoded
from indices exactly as the harness does (harness/src/perm.rs).
-/
import Iggy.Perm.Generated
import Iggy.Perm.Spec
namespace Iggy.Perm

def U : Nat := 7
def S : Nat := 3
def T : Nat := 5
def NG : Nat := 1025
def NS : Nat := 1153

def bit (x i : Nat) : Bool := (x >>> i) % 2 == 1

def decode (idx keyStream keyTopic : Nat) : Option Permissions :=
  let g := idx / NS
  let sr := idx % NS
  if g = 0 then none else
  let f := g - 1
  let global : GlobalPermissions :=
    ⟨bit f 0, bit f 1, bit f 2, bit f 3, bit f 4, bit f 5, bit f 6, bit f 7, bit f 8, bit f 9⟩
  let streams : Option (List (Nat × StreamPermissions)) :=
    if sr = 0 then none else
    let x := sr - 1
    let sf := x / 18
    let tc := x % 18
    let topics : Option (List (Nat × TopicPermissions)) :=
      if tc = 0 then none
      else if tc = 1 then some [(keyTopic + 1, ⟨true, true, true, true⟩)]
      else
        let tf := tc - 2
        some [(keyTopic, ⟨bit tf 0, bit tf 1, bit tf 2, bit tf 3⟩)]
    some [(keyStream, ⟨bit sf 0, bit sf 1, bit sf 2, bit sf 3, bit sf 4, bit sf 5, topics⟩)]
  some { global := global, streams := streams }

def resCode : Res → Char
  | .ok => '0' | .unauthorized => '1' | .panic => '2'

def publicFns : List (Tables → Nat → Nat → Nat → Res) :=
  publicRules.filterMap (fun n => (allRules.find? (fun e => e.1 == n)).map (·.2))

/-- one output line: outcome of every public rule at (U, S, T) for the record of index `idx` -/
def evalLine (idx keyStream keyTopic keyUser : Nat) : String :=
  let t := tablesOf keyUser (decode idx keyStream keyTopic)
  String.ofList (publicFns.map (fun f => resCode (f t U S T)))

/-- names of the public rules that are `ok` at index `idx` although the documented hierarchy does not
grant what they need (the enumeration-side search for a failing input of `sound`) -/
def unsoundAt (idx : Nat) : List String :=
  let p := decode idx S T
  let t := tablesOf U p
  publicRules.filter (fun n =>
    match allRules.find? (fun e => e.1 == n), needs n S T with
    | some e, some c => e.2 t U S T == Res.ok && !(Grants p c)
    | some _, none => true          -- a rule without a documented capability
    | none, _ => false)

/-- the same search with the record being ABOUT stream `ks` / topic `kt` while the request is for (S, T):
finds a rule that looks a table up under the wrong key (a permission on one stream or topic opening another) -/
def unsoundAtKeys (idx ks kt : Nat) : List String :=
  let p := decode idx ks kt
  let t := tablesOf U p
  publicRules.filter (fun n =>
    match allRules.find? (fun e => e.1 == n), needs n S T with
    | some e, some c => e.2 t U S T == Res.ok && !(Grants p c)
    | some _, none => true
    | none, _ => false)

end Iggy.Perm
