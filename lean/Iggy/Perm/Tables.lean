/-
The permissioner's denormalised tables and their maintenance (server/src/streaming/users/permissioner.rs),
hand-written; the rule functions over these tables are GENERATED (Iggy/Perm/Generated.lean).
Field names are the Rust field names: the translator emits them verbatim.
-/
namespace Iggy.Perm

structure TopicPermissions where
  manage_topic : Bool
  read_topic : Bool
  poll_messages : Bool
  send_messages : Bool
deriving Repr, DecidableEq

structure StreamPermissions where
  manage_stream : Bool
  read_stream : Bool
  manage_topics : Bool
  read_topics : Bool
  poll_messages : Bool
  send_messages : Bool
  topics : Option (List (Nat × TopicPermissions))
deriving Repr, DecidableEq

structure GlobalPermissions where
  manage_servers : Bool
  read_servers : Bool
  manage_users : Bool
  read_users : Bool
  manage_streams : Bool
  read_streams : Bool
  manage_topics : Bool
  read_topics : Bool
  poll_messages : Bool
  send_messages : Bool
deriving Repr, DecidableEq

structure Permissions where
  global : GlobalPermissions
  streams : Option (List (Nat × StreamPermissions))
deriving Repr, DecidableEq

/-- result of a rule: `Ok(())`, `Err(Unauthorized)`, or a Rust panic (`unwrap` on `None`) -/
inductive Res | ok | unauthorized | panic
deriving Repr, DecidableEq

/-- `AHashMap::get` on an association list (first match; the maintenance functions keep keys unique) -/
def alGet {κ α} [BEq κ] (l : List (κ × α)) (k : κ) : Option α := (l.find? (fun e => e.1 == k)).map (·.2)

structure Tables where
  users_permissions : List (Nat × GlobalPermissions) := []
  users_streams_permissions : List ((Nat × Nat) × StreamPermissions) := []
  users_that_can_poll_messages_from_all_streams : List Nat := []
  users_that_can_send_messages_to_all_streams : List Nat := []
  users_that_can_poll_messages_from_specific_streams : List (Nat × Nat) := []
  users_that_can_send_messages_to_specific_streams : List (Nat × Nat) := []
deriving Repr

/-- delete_permissions_for_user -/
def Tables.deleteUser (t : Tables) (u : Nat) : Tables :=
  { users_permissions := t.users_permissions.filter (fun e => e.1 != u)
    users_streams_permissions := t.users_streams_permissions.filter (fun e => e.1.1 != u)
    users_that_can_poll_messages_from_all_streams := t.users_that_can_poll_messages_from_all_streams.filter (· != u)
    users_that_can_send_messages_to_all_streams := t.users_that_can_send_messages_to_all_streams.filter (· != u)
    users_that_can_poll_messages_from_specific_streams :=
      t.users_that_can_poll_messages_from_specific_streams.filter (fun e => e.1 != u)
    users_that_can_send_messages_to_specific_streams :=
      t.users_that_can_send_messages_to_specific_streams.filter (fun e => e.1 != u) }

/-- the `AHashMap<u32, StreamPermissions>` of a record may list a stream once (it is a map): keep the
last binding of each key, as `insert` in iteration order does -/
def dedupKeys {α} : List (Nat × α) → List (Nat × α)
  | [] => []
  | e :: rest => if rest.any (fun x => x.1 == e.1) then dedupKeys rest else e :: dedupKeys rest

/-- init_permissions_for_user (on tables that hold nothing for `u`) -/
def Tables.initUser (t : Tables) (u : Nat) : Option Permissions → Tables
  | none => t
  | some p =>
    let t1 : Tables :=
      { t with
        users_that_can_poll_messages_from_all_streams :=
          if p.global.poll_messages then u :: t.users_that_can_poll_messages_from_all_streams
          else t.users_that_can_poll_messages_from_all_streams
        users_that_can_send_messages_to_all_streams :=
          if p.global.send_messages then u :: t.users_that_can_send_messages_to_all_streams
          else t.users_that_can_send_messages_to_all_streams
        users_permissions := (u, p.global) :: t.users_permissions.filter (fun e => e.1 != u) }
    match p.streams with
    | none => t1
    | some streams =>
      (dedupKeys streams).foldl (fun (acc : Tables) (e : Nat × StreamPermissions) =>
        { acc with
          users_that_can_poll_messages_from_specific_streams :=
            if e.2.poll_messages then (u, e.1) :: acc.users_that_can_poll_messages_from_specific_streams
            else acc.users_that_can_poll_messages_from_specific_streams
          users_that_can_send_messages_to_specific_streams :=
            if e.2.send_messages then (u, e.1) :: acc.users_that_can_send_messages_to_specific_streams
            else acc.users_that_can_send_messages_to_specific_streams
          users_streams_permissions :=
            ((u, e.1), e.2) :: acc.users_streams_permissions.filter (fun x => x.1 != (u, e.1)) }) t1

/-- update_permissions_for_user = delete, then init -/
def Tables.updateUser (t : Tables) (u : Nat) (p : Option Permissions) : Tables := (t.deleteUser u).initUser u p

/-- the tables of a single user with permission record `p` (what the rules see for that user: rules
only ever look keys of one user up, see `Local` in Iggy/Props/C09.lean) -/
def tablesOf (u : Nat) (p : Option Permissions) : Tables := ({} : Tables).initUser u p

def Permissions.root : Permissions :=
  { global := ⟨true, true, true, true, true, true, true, true, true, true⟩, streams := none }

end Iggy.Perm
