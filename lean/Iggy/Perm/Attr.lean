/-
The simp set used by the rule tactics (Iggy/Perm/RuleTac.lean): every generated rule definition,
the lookup lemmas, and the unfolding of the specification.  (A simp attribute has to be declared in a
file of its own.)
-/
import Lean
/-- unfolding of the generated permission rules and of the specification -/
register_simp_attr perm_unfold
