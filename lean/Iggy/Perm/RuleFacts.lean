/-
The seven families of facts about the generated permission rules, each proved for EVERY entry of
`allRules` by the same tactic (Iggy/Perm/RuleTac.lean) — one auxiliary theorem `<family>_at<i>` per
rule.  Iggy/Props/C09.lean states property C09 from these.
-/
import Iggy.Perm.RuleTac
namespace Iggy.Perm
set_option linter.unusedSimpArgs false
set_option linter.unusedVariables false

/- a rule evaluated for `(u, s, tp)` reads the tables only through the six lookups of `t.view u s` -/
rule_family rules_read_view : (fun e => ∀ t t' u s tp, Tables.view t u s = Tables.view t' u s →
    e.2 t u s tp = e.2 t' u s tp) := by
  rule_congr

/- no rule panics, whatever record the user has -/
rule_family rules_no_panic : (fun e => ∀ u s tp p, e.2 (tablesOf u p) u s tp ≠ Res.panic) := by
  intro u s tp p; rule_bash p s tp

/- a public rule answers `ok` only if the documented hierarchy grants what it needs -/
rule_family rules_sound : (fun e => ∀ u s tp, e.1 ∈ publicRules → ∀ c, needs e.1 s tp = some c →
    ∀ p, e.2 (tablesOf u p) u s tp = Res.ok → Grants p c = true) := by
  first
    | (intro _ _ _ hpub; exact absurd hpub (by decide))
    | (intro u s tp _ c hc p h; cases hc <;> rule_bash p s tp)

/- the root record passes every rule -/
rule_family rules_root : (fun e => ∀ u s tp, e.2 (tablesOf u (some Permissions.root)) u s tp = Res.ok) := by
  intro u s tp
  have hs : streamRec Permissions.root s = none := rfl
  rule_unfold <;> (try simp only [hs, Permissions.root]) <;> perm_close

/- a user without record is refused by every rule -/
rule_family rules_none : (fun e => ∀ u s tp, e.2 (tablesOf u none) u s tp = Res.unauthorized) := by
  intro u s tp; rule_unfold <;> perm_close

/- more permissions (seen from `(s, tp)`) never turn `ok` into something else -/
rule_family rules_mono : (fun e => ∀ u s tp p p', leAt p p' s tp →
    e.2 (tablesOf u (some p)) u s tp = Res.ok → e.2 (tablesOf u (some p')) u s tp = Res.ok) := by
  intro u s tp p p' hle h
  rule_unfold at * <;> perm_cases_rec p s tp <;> perm_cases_rec p' s tp <;> perm_close

/- the outcome at `(s, tp)` depends only on the global record, the flags of the record of stream `s`
and its entry for topic `tp` -/
rule_family rules_local : (fun e => ∀ u s tp p p', Option.map (·.global) p = Option.map (·.global) p' →
    (Option.bind p (fun p => streamRec p s)).map (topicSight tp) =
      (Option.bind p' (fun p => streamRec p s)).map (topicSight tp) →
    e.2 (tablesOf u p) u s tp = e.2 (tablesOf u p') u s tp) := by
  intro u s tp p p' hg hs
  rcases p with _ | p <;> rcases p' with _ | p' <;> (try rule_unfold at *)
  all_goals first
    | done
    | (perm_cases_rec p s tp <;> perm_cases_rec p' s tp <;> perm_close)
    | perm_close

end Iggy.Perm
