/-
Tactics for the generated permission rules (Iggy/Perm/Generated.lean).  The generated file is
re-created from the Rust source on every run, so nothing here mentions a rule by name or a flag by
name: `register_rules` collects every definition of that module from the environment into the simp
set `perm_unfold`, and `rule_family` proves a statement for every entry of `allRules`, whatever they
are.  The tactics, in the order a proof uses them:

  rule_unfold      one `simp only [perm_unfold]` pass: rules, lookups on `tablesOf u p`, specification
  perm_cases_rec   case split on what a rule at `(s, tp)` can see of a record (by rewriting)
  perm_close       `grind`, then fall-backs, on the remaining `if flag …` chains
  rule_bash        = split on the record being there; rule_unfold; perm_cases_rec; perm_close
  rule_congr       "reads the tables only through the six lookups"
  rule_family      run a tactic once per entry of `allRules`, one auxiliary theorem each
-/
import Lean
import Iggy.Perm.Attr
import Iggy.Perm.Generated
import Iggy.Perm.Lemmas
namespace Iggy.Perm
open Lean Elab Tactic Meta Command

/-- the names of all generated definitions to unfold: every definition of the module
Iggy.Perm.Generated directly in the namespace `Iggy.Perm` (the rules `rule_*` and whatever helper the
translator may emit), except the three tables about the rules -/
def ruleNames : CoreM (Array Name) := do
  let env ← getEnv
  let some idx := env.getModuleIdx? `Iggy.Perm.Generated
    | throwError "Iggy.Perm.Generated is not imported"
  let names := env.header.moduleData[idx]!.constNames
  return names.filter fun n =>
    n.getPrefix == `Iggy.Perm && !n.isInternal &&
      !(n == `Iggy.Perm.allRules || n == `Iggy.Perm.ruleArity || n == `Iggy.Perm.publicRules) &&
      (match env.find? n with | some (.defnInfo _) => true | _ => false)

/-- put every generated definition into the simp set `perm_unfold` -/
elab "register_rules" : command => do
  let names ← liftCoreM ruleNames
  if !(names.any fun n => match n with | .str _ s => s.startsWith "rule_" | _ => false) then
    throwError "no rule_* definition found in Iggy.Perm.Generated"
  for n in names do
    try
      elabCommand (← `(attribute [perm_unfold] $(mkIdent n)))
    catch _ => pure ()

register_rules

attribute [perm_unfold]
  lks_global lks_stream lks_pollAll lks_sendAll lks_pollS lks_sendS
  lkn_global lkn_stream lkn_pollAll lkn_sendAll lkn_pollS lkn_sendS
  lk_global lk_stream lk_pollAll lk_sendAll lk_pollS lk_sendS
  Option.map_some Option.map_none Option.bind_some Option.bind_none
  Option.isNone_none Option.isNone_some Option.isSome_none Option.isSome_some Option.some.injEq
  Option.getD_none Option.getD_some Option.any_none Option.any_some Option.all_none Option.all_some
  Grants grantsP gReadTopic gListTopics gManageTopic gCreateTopic sflag tflag topicRec
  leAt gLe spLe tpLe topicSight

/-- `rule_unfold (at loc)?`: ONE `simp only` pass that unfolds every generated rule (and, transitively,
the rules it calls), inlines the `let __k := …` continuations, rewrites the lookups on `tablesOf u p`
with the lookup lemmas, and unfolds the specification (`Grants`, `leAt`, …) down to `streamRec`,
`alGet` and Bool flags -/
macro "rule_unfold" loc:(Lean.Parser.Tactic.location)? : tactic =>
  `(tactic| simp only [perm_unfold, reduceCtorEq] $[$loc]?)

/-- `perm_cases_rec p s tp` (`p : Permissions`, after `rule_unfold`): split on everything a rule at
`(s, tp)` can see of the record: no record of stream `s` / a record without topic table / a topic table
without `tp` / a record of topic `tp`.  Afterwards only Bool flags are left.  (The case equations are
used as rewrite rules — nothing is `generalize`d — so the `Decidable` instances inside the `if`s can
never become type-incorrect.)  `perm_cases_rec p s` stops at the stream record, `perm_cases_rec p`
does nothing (rules without stream argument). -/
syntax "perm_cases_rec" (ppSpace colGt ident)+ : tactic
macro_rules
| `(tactic| perm_cases_rec $_p) => `(tactic| skip)
| `(tactic| perm_cases_rec $p $s) => `(tactic|
  (have hguard := streamRec $p $s
   clear hguard
   obtain ⟨sr, hsr⟩ : ∃ sr, streamRec $p $s = sr := ⟨_, rfl⟩
   rcases sr with _ | ⟨f1, f2, f3, f4, f5, f6, _ | ts⟩
   all_goals try simp only [hsr, perm_unfold, reduceCtorEq] at *))
| `(tactic| perm_cases_rec $p $s $tp) => `(tactic|
  (have hguard := streamRec $p $s
   clear hguard
   obtain ⟨sr, hsr⟩ : ∃ sr, streamRec $p $s = sr := ⟨_, rfl⟩
   rcases sr with _ | ⟨f1, f2, f3, f4, f5, f6, _ | ts⟩
   all_goals try simp only [hsr, perm_unfold, reduceCtorEq] at *
   all_goals try (
     have hguard := alGet ts $tp
     clear hguard
     obtain ⟨tr, htr⟩ : ∃ tr, alGet ts $tp = tr := ⟨_, rfl⟩
     rcases tr with _ | t
     all_goals try simp only [htr, perm_unfold, reduceCtorEq] at *)))

/-- closes a goal in which only `if flag then … else …` chains and Bool connectives are left -/
macro "perm_close" : tactic => `(tactic|
  first
  | done
  | grind (splits := 60)
  | (simp_all; done)
  | ((repeat' split) <;> simp_all <;> done)
  | fail "rule tactic: this case cannot be proved — the goal shows the shape of a permission record \
      for which the statement fails (or the tactic is too weak)")

/-- `rule_bash p s tp` — the uniform proof of a statement about one rule evaluated on `tablesOf u p`
(`p : Option Permissions` a local hypothesis; the statement's other hypotheses in the context):
split on the user having a record, unfold, split on what the rule can see at `(s, tp)`, close.
`rule_bash p s` / `rule_bash p` for rules with fewer arguments. -/
syntax "rule_bash" (ppSpace colGt ident)+ : tactic
macro_rules
| `(tactic| rule_bash $p $args*) => `(tactic|
  (rcases $p:ident with _ | $p:ident
   · (rule_unfold at * <;> perm_close)
   · (rule_unfold at * <;> perm_cases_rec $p $args* <;> perm_close)))

/-- a rule reads the tables only through the six lookups of `Tables.view t u s`:
goal `∀ t t' u s tp, t.view u s = t'.view u s → rule t u … = rule t' u …` -/
macro "rule_congr" : tactic => `(tactic|
  (intro t t' u s tp h
   simp only [Tables.view, View.mk.injEq] at h
   obtain ⟨h1, h2, h3, h4, h5, h6⟩ := h
   rule_unfold <;> simp only [h1, h2, h3, h4, h5, h6]))

/-! ### one auxiliary theorem per entry of `allRules` -/

theorem forall_rules_step {α : Type} {l : List α} {P : α → Prop} (k : Nat)
    (h0 : ∀ e, l[k]? = some e → P e) (hs : ∀ i e, l[i + (k + 1)]? = some e → P e) :
    ∀ i e, l[i + k]? = some e → P e := by
  intro i e he
  cases i with
  | zero => exact h0 e (by simpa using he)
  | succ i => exact hs i e (by rw [← he]; congr 1; omega)

theorem forall_rules_of_index {α : Type} {l : List α} {P : α → Prop}
    (h : ∀ i e, l[i + 0]? = some e → P e) : ∀ e ∈ l, P e := by
  intro e he
  obtain ⟨i, hi⟩ := List.mem_iff_getElem?.1 he
  exact h i e hi

theorem forall_rules_rest {α : Type} {l : List α} {P : α → Prop} (k : Nat) (hk : l.length ≤ k) :
    ∀ i e, l[i + k]? = some e → P e := by
  intro i e he
  rw [List.getElem?_eq_none (by omega)] at he
  cases he

/-- marker hypothesis: which rule an auxiliary theorem of `rule_family` is about (shown in error
messages) -/
def RuleName (_ : String) : Prop := True

/-- the number of per-rule auxiliary theorems `rule_family` generates (an upper bound on the number
of rules; `rule_family` fails with a clear message if `allRules` is longer) -/
def ruleSlots : Nat := 64

theorem allRules_fit : allRules.length ≤ ruleSlots := by decide

/-- `rule_family foo : Q := by tac` proves `foo : ∀ e ∈ allRules, Q e`, running `tac` once per rule
in an auxiliary theorem `foo_at<i>` of its own (so each rule has its own time budget, and the set of
rules is whatever `allRules` contains).  In `tac` the goal is `Q (name, fun t u s tp => rule_… )`,
beta-reduced. -/
syntax "rule_family " ident " : " term " := " "by " tacticSeq : command
macro_rules
| `(rule_family $name : $Q := by $tac) => do
  let n := 64
  let mut cmds : Array (TSyntax `command) := #[]
  let mut chain : TSyntax `term ← `(forall_rules_rest $(quote n) allRules_fit)
  for j in [0:n] do
    let i := n - 1 - j
    let nm := mkIdent (name.getId.appendAfter s!"_at{i}")
    cmds := cmds.push (← `(theorem $nm : ∀ e, allRules[$(quote i)]? = some e → ($Q) e := by
      intro e he
      have hrule : RuleName e.1 := trivial
      cases he <;> (dsimp only at hrule ⊢; ($tac))))
    chain ← `(forall_rules_step $(quote i) $nm $chain)
  cmds := cmds.push (← `(theorem $name : ∀ e ∈ allRules, ($Q) e := forall_rules_of_index $chain))
  return mkNullNode cmds

/-- `(name, fun t u s tp => rule_x …) ∈ allRules` -/
macro "rule_mem" : tactic => `(tactic|
  (unfold allRules; repeat (first | exact List.mem_cons_self | apply List.mem_cons_of_mem)))

end Iggy.Perm
