/-
The documented permission hierarchy (sdk/src/models/permissions.rs doc comments) as a decidable
function `Grants`, and the capability each rule needs.  Hand-written; the rules themselves are generated.

Where the documentation names the operation, `needs` is what it says.  Where it is silent (consumer
offsets, flush, purge, partitions, whether managing implies sending) `needs`/`Grants` record the
weakest permission the *current* rule accepts — so `sound` cannot raise an alarm about today's choice
but does catch a later change that lets a weaker permission through.
-/
import Iggy.Perm.Tables
namespace Iggy.Perm

inductive Cap
  | readServers | manageUsers | readUsers
  | createStream | listStreams
  | manageStream (s : Nat) | readStream (s : Nat)
  | createTopic (s : Nat) | listTopics (s : Nat)
  | manageTopic (s tp : Nat) | readTopic (s tp : Nat)
  | poll (s tp : Nat) | send (s tp : Nat)
deriving Repr, DecidableEq

/-- the stream record of a user for stream `s` (a map: the last binding of a key wins) -/
def streamRec (p : Permissions) (s : Nat) : Option StreamPermissions :=
  p.streams.bind (fun st => alGet (dedupKeys st) s)

def topicRec (sp : StreamPermissions) (tp : Nat) : Option TopicPermissions :=
  sp.topics.bind (fun ts => alGet ts tp)

def sflag (p : Permissions) (s : Nat) (f : StreamPermissions → Bool) : Bool :=
  match streamRec p s with | some sp => f sp | none => false

def tflag (p : Permissions) (s tp : Nat) (f : TopicPermissions → Bool) : Bool :=
  match streamRec p s with
  | some sp => (match topicRec sp tp with | some t => f t | none => false)
  | none => false

def gCreateTopic (p : Permissions) (s : Nat) : Bool :=
  p.global.manage_streams || p.global.manage_topics || sflag p s (·.manage_stream) || sflag p s (·.manage_topics)

def gListTopics (p : Permissions) (s : Nat) : Bool :=
  p.global.manage_streams || p.global.read_streams || p.global.manage_topics ||
    p.global.read_topics || sflag p s (·.manage_stream) || sflag p s (·.read_stream) ||
    sflag p s (·.manage_topics) || sflag p s (·.read_topics)

def gManageTopic (p : Permissions) (s tp : Nat) : Bool := gCreateTopic p s || tflag p s tp (·.manage_topic)

def gReadTopic (p : Permissions) (s tp : Nat) : Bool :=
  gListTopics p s || tflag p s tp (·.manage_topic) || tflag p s tp (·.read_topic)

def grantsP (p : Permissions) : Cap → Bool
  | .readServers => p.global.manage_servers || p.global.read_servers
  | .manageUsers => p.global.manage_users
  | .readUsers => p.global.manage_users || p.global.read_users
  | .createStream => p.global.manage_streams
  | .listStreams => p.global.manage_streams || p.global.read_streams
  | .manageStream s => p.global.manage_streams || sflag p s (·.manage_stream)
  | .readStream s => p.global.manage_streams || p.global.read_streams ||
      sflag p s (·.manage_stream) || sflag p s (·.read_stream)
  | .createTopic s => gCreateTopic p s
  | .listTopics s => gListTopics p s
  | .manageTopic s tp => gManageTopic p s tp
  | .readTopic s tp => gReadTopic p s tp
  | .poll s tp => gReadTopic p s tp || p.global.poll_messages || sflag p s (·.poll_messages) ||
      tflag p s tp (·.poll_messages)
  | .send s tp => p.global.send_messages || sflag p s (·.send_messages) || tflag p s tp (·.send_messages) ||
      gManageTopic p s tp               -- silent in the documentation: today's rule lets managers send

/-- a user without a permission record is granted nothing -/
def Grants : Option Permissions → Cap → Bool
  | none, _ => false
  | some p, c => grantsP p c

/-- the capability a (public) rule needs at (stream s, topic tp) -/
def needs (rule : String) (s tp : Nat) : Option Cap :=
  match rule with
  | "get_stats" | "get_clients" | "get_client" => some .readServers
  | "get_user" | "get_users" => some .readUsers
  | "create_user" | "delete_user" | "update_user" | "update_permissions" | "change_password" => some .manageUsers
  | "create_stream" => some .createStream
  | "get_streams" => some .listStreams
  | "get_stream" => some (.readStream s)
  | "update_stream" | "delete_stream" | "purge_stream" => some (.manageStream s)
  | "create_topic" => some (.createTopic s)
  | "get_topics" => some (.listTopics s)
  | "get_topic" | "get_consumer_group" | "get_consumer_groups" | "join_consumer_group"
  | "leave_consumer_group" | "create_consumer_group" | "delete_consumer_group" => some (.readTopic s tp)
  | "update_topic" | "delete_topic" | "purge_topic" | "create_partitions" | "delete_partitions" =>
      some (.manageTopic s tp)
  | "poll_messages" | "get_consumer_offset" | "store_consumer_offset" | "delete_consumer_offset" =>
      some (.poll s tp)
  | "append_messages" => some (.send s tp)
  | _ => none

/-- `p ≤ p'`: p' has every flag p has, on every level (granting a user more permissions) -/
def tpLe (a b : TopicPermissions) : Bool :=
  (!a.manage_topic || b.manage_topic) && (!a.read_topic || b.read_topic) &&
  (!a.poll_messages || b.poll_messages) && (!a.send_messages || b.send_messages)

end Iggy.Perm
