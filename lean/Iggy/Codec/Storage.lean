/-
C13 codec model, on-disk encodings:
* `RetainedMessage::extend` / `try_from_bytes` (server/src/streaming/models/messages.rs) and the batch
  iterator that splits a batch body into length-prefixed records (streaming/batching/iterator.rs);
* the 24-byte batch header (`RetainedMessageBatch::header_as_bytes`, read back field by field in
  streaming/segments/logs/log_reader.rs);
* the 16-byte index record (segments/indexes/index_writer.rs `save_index`, index_reader.rs `parse_index`).
-/
import Iggy.Codec.Basic
namespace Iggy.Codec

inductive MessageState where
  | available | unavailable | poisoned | markedForDeletion
deriving Repr, DecidableEq

def MessageState.code : MessageState → UInt8
  | .available => 1 | .unavailable => 10 | .poisoned => 20 | .markedForDeletion => 30

def MessageState.ofCode : Nat → Option MessageState
  | 1 => some .available | 10 => some .unavailable | 20 => some .poisoned
  | 30 => some .markedForDeletion | _ => none

/-- `headers`: the raw header bytes, `[]` for "no headers" (`None`, and `Some(empty)` which is written
the same way) -/
structure RetainedMessage where
  offset : Nat
  state : MessageState
  timestamp : Nat
  id : Nat
  checksum : Nat
  headers : Bytes
  payload : Bytes
deriving Repr, DecidableEq

/-- `get_size_bytes`: id 16 + offset 8 + timestamp 8 + checksum 4 + state 1 + headers length 4 + .. -/
def RetainedMessage.size (m : RetainedMessage) : Nat :=
  16 + 8 + 8 + 4 + 1 + 4 + m.headers.length + m.payload.length

def RetainedMessage.Valid (m : RetainedMessage) : Prop :=
  m.offset < 2 ^ 64 ∧ m.timestamp < 2 ^ 64 ∧ m.id < 2 ^ 128 ∧ m.checksum < 2 ^ 32 ∧
  m.headers.length < 2 ^ 32 ∧ m.size < 2 ^ 32
instance RetainedMessage.decValid (m : RetainedMessage) : Decidable m.Valid := by unfold RetainedMessage.Valid; infer_instance

/-- the record without its length prefix -/
def encodeRetainedBody (m : RetainedMessage) : Bytes :=
  le64 m.offset ++ [m.state.code] ++ le64 m.timestamp ++ le128 m.id ++ le32 m.checksum ++
  le32 m.headers.length ++ m.headers ++ m.payload

/-- `RetainedMessage::extend`: u32 length, then the record -/
def encodeRetained (m : RetainedMessage) : Bytes := le32 m.size ++ encodeRetainedBody m

/-- `RetainedMessage::try_from_bytes` (gets exactly one record; the payload is whatever follows the headers) -/
def decodeRetainedBody (bs : Bytes) : Option RetainedMessage := do
  let (offset, r1) ← readLE 8 bs
  let (sc, r2) ← readU8 r1
  let state ← MessageState.ofCode sc
  let (ts, r3) ← readLE 8 r2
  let (id, r4) ← readLE 16 r3
  let (checksum, r5) ← readLE 4 r4
  let (hlen, r6) ← readLE 4 r5
  let (headers, payload) ← takeN hlen r6
  some ⟨offset, state, ts, id, checksum, headers, payload⟩

/-- one step of the batch iterator: u32 length, slice that many bytes, `try_from_bytes` -/
def decodeRetained (bs : Bytes) : Option (RetainedMessage × Bytes) := do
  let (len, r1) ← readLE 4 bs
  let (body, r2) ← takeN len r1
  let m ← decodeRetainedBody body
  some (m, r2)

def encodeRetainedAll : List RetainedMessage → Bytes
  | [] => []
  | m :: ms => encodeRetained m ++ encodeRetainedAll ms

/-- the iterator run to the end of the batch body (`while current_position < length`); the real iterator
stops silently at the first record it cannot parse, which we report as `none` -/
def decodeRetainedAll : Nat → Bytes → Option (List RetainedMessage)
  | 0, bs => if bs.isEmpty then some [] else none
  | fuel + 1, bs =>
    if bs.isEmpty then some [] else
    match decodeRetained bs with
    | none => none
    | some (m, rest) =>
      match decodeRetainedAll fuel rest with
      | none => none
      | some ms => some (m :: ms)

structure BatchHeader where
  baseOffset : Nat
  length : Nat
  lastOffsetDelta : Nat
  maxTimestamp : Nat
deriving Repr, DecidableEq

def BatchHeader.Valid (h : BatchHeader) : Prop :=
  h.baseOffset < 2 ^ 64 ∧ h.length < 2 ^ 32 ∧ h.lastOffsetDelta < 2 ^ 32 ∧ h.maxTimestamp < 2 ^ 64
instance BatchHeader.decValid (h : BatchHeader) : Decidable h.Valid := by unfold BatchHeader.Valid; infer_instance

def RETAINED_BATCH_HEADER_LEN : Nat := 8 + 8 + 4 + 4

/-- `header_as_bytes`: base offset, length, last offset delta, max timestamp -/
def encodeBatchHeader (h : BatchHeader) : Bytes :=
  le64 h.baseOffset ++ le32 h.length ++ le32 h.lastOffsetDelta ++ le64 h.maxTimestamp

def decodeBatchHeader (bs : Bytes) : Option (BatchHeader × Bytes) := do
  let (base, r1) ← readLE 8 bs
  let (len, r2) ← readLE 4 r1
  let (delta, r3) ← readLE 4 r2
  let (ts, r4) ← readLE 8 r3
  some (⟨base, len, delta, ts⟩, r4)

/-- a whole batch as the log stores it: header, then `length` bytes of records -/
def encodeBatch (h : BatchHeader) (ms : List RetainedMessage) : Bytes :=
  encodeBatchHeader h ++ encodeRetainedAll ms

def decodeBatch (bs : Bytes) : Option (BatchHeader × List RetainedMessage × Bytes) := do
  let (h, r1) ← decodeBatchHeader bs
  let (body, r2) ← takeN h.length r1
  let ms ← decodeRetainedAll body.length body
  some (h, ms, r2)

structure IndexRecord where
  offset : Nat
  position : Nat
  timestamp : Nat
deriving Repr, DecidableEq

def IndexRecord.Valid (i : IndexRecord) : Prop :=
  i.offset < 2 ^ 32 ∧ i.position < 2 ^ 32 ∧ i.timestamp < 2 ^ 64
instance IndexRecord.decValid (i : IndexRecord) : Decidable i.Valid := by unfold IndexRecord.Valid; infer_instance

def INDEX_SIZE : Nat := 16

/-- `save_index`: relative offset, position, timestamp -/
def encodeIndex (i : IndexRecord) : Bytes := le32 i.offset ++ le32 i.position ++ le64 i.timestamp

/-- `parse_index` on one 16-byte chunk -/
def decodeIndex (bs : Bytes) : Option (IndexRecord × Bytes) := do
  let (o, r1) ← readLE 4 bs
  let (p, r2) ← readLE 4 r1
  let (t, r3) ← readLE 8 r2
  some (⟨o, p, t⟩, r3)

def encodeIndexes : List IndexRecord → Bytes
  | [] => []
  | i :: is => encodeIndex i ++ encodeIndexes is

/-- `chunks_exact(16).map(parse_index)`: a trailing partial chunk is ignored -/
def decodeIndexes : Nat → Bytes → List IndexRecord
  | 0, _ => []
  | fuel + 1, bs =>
    match decodeIndex bs with
    | none => []
    | some (i, rest) => i :: decodeIndexes fuel rest

end Iggy.Codec
