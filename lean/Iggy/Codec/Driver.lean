/-
C13 judge: ties the Lean codec model to the real code. For every line the harness printed
(`<kind> <outcome> <hex> <desc>`, `verif-harness codec`) the bytes are decoded with the LEAN decoder, described
in the canonical format, re-encoded with the LEAN encoder, and compared with what the real code said.
Lines `<kind> INVALID <error> <hex> <desc>` (an edge probe refused by the SDK's `validate()`) are judged
against the model's `Valid`, which must be false.
-/
import Iggy.Codec.Desc
namespace Iggy.Codec.Driver
open Iggy.Codec

def hexVal (c : Char) : Option Nat :=
  if '0' ≤ c ∧ c ≤ '9' then some (c.toNat - 48)
  else if 'a' ≤ c ∧ c ≤ 'f' then some (c.toNat - 87)
  else if 'A' ≤ c ∧ c ≤ 'F' then some (c.toNat - 55)
  else none

def unhexAux : List Char → List UInt8 → Option Bytes
  | [], acc => some acc.reverse
  | [_], _ => none
  | a :: b :: rest, acc =>
    match hexVal a, hexVal b with
    | some x, some y => unhexAux rest (UInt8.ofNat (16 * x + y) :: acc)
    | _, _ => none

def unhex (s : String) : Option Bytes := unhexAux s.toList []

/-- what the Lean model makes of `bytes` read as a value of kind `kind`:
`(description, re-encoding)`; `none`: the Lean decoder refuses; the outer `none`: kind not modelled -/
def decodeAs (kind : String) (bs : Bytes) : Option (Option (String × Bytes)) :=
  match kind with
  | "StateEntry" =>
    some <| (decodeStateEntry bs).map fun x => (Desc.stateEntry x, encodeStateEntry x)
  | "EntryCommand" =>
    some <| (decodeEntryCommand bs).map fun x => (Desc.entryCommand x, encodeEntryCommand x)
  | "Identifier" =>
    some <| (decodeIdentifier bs).map fun (x, _) => ("Identifier{" ++ Desc.ident x ++ "}", encodeIdentifier x)
  | "Consumer" =>
    some <| (decodeConsumer bs).map fun (x, _) => ("Consumer{" ++ Desc.consumer x ++ "}", encodeConsumer x)
  | "Partitioning" =>
    some <| (decodePartitioning bs).map fun (x, _) =>
      ("Partitioning{" ++ Desc.partitioning x ++ "}", encodePartitioning x)
  | "PollingStrategy" =>
    some <| (decodeStrategy bs).map fun x => ("PollingStrategy{" ++ Desc.strategy x ++ "}", encodeStrategy x)
  | "Headers" =>
    some <| (decodeHeaders bs).map fun x => ("Headers{" ++ Desc.headers x ++ "}", encodeHeaders x)
  | "Message" =>
    some <| (decodeMessage 0 bs).map fun (x, _) => ("Message" ++ Desc.message x, encodeMessage x)
  | "Permissions" =>
    some <| (decodePermissions bs).map fun x =>
      ("Permissions" ++ Desc.permissions (some x), encodePermissions x)
  | "RetainedMessage" =>
    some <| (decodeRetained bs).map fun (x, _) => (Desc.retained x, encodeRetained x)
  | "RetainedBatch" =>
    some <| (decodeBatch bs).map fun (h, ms, _) => (Desc.batch h ms, encodeBatch h ms)
  | _ =>
    -- any command name: full dispatch on the code, as `ServerCommand::from_bytes`
    some <| (decodeCommand 0 bs).map fun c => (Desc.command c, encodeCommand c)

/-! ### `INVALID` lines: an edge probe that the SDK's `validate()` refuses. The bytes are the `to_bytes()` of
the refused value, which the real DECODER may refuse too (empty payload) or read as something else (256
snapshot types), so the value is read back with the decoder first and else with a LAX reader that undoes the
encoder without the decoder's refusals. A candidate is the described value when it has the harness'
description AND the model encoder gives the bytes back; the model's `Valid` must then be FALSE. -/

/-- `Message::to_bytes` undone: as `decodeMessage` but an empty payload is taken -/
def laxMessage (bs : Bytes) : Option (Message × Bytes) := do
  let (id, r1) ← readLE 16 bs
  let (hlen, r2) ← readLE 4 r1
  let (hbytes, r3) ← takeN hlen r2
  let headers ← (if hlen > 0 then decodeHeaders hbytes else some [])
  let (plen, r4) ← readLE 4 r3
  let (payload, r5) ← takeN plen r4
  some (⟨id, headers, payload⟩, r5)

def laxMessages : Nat → Bytes → Option (List Message)
  | 0, bs => if bs.isEmpty then some [] else none
  | fuel + 1, bs =>
    if bs.isEmpty then some [] else
    match laxMessage bs with
    | none => none
    | some (m, r) =>
      match laxMessages fuel r with
      | none => none
      | some ms => some (m :: ms)

/-- `SendMessages` / `GetSnapshot` `to_bytes` undone (the two commands with `INVALID` probes whose bytes the
decoder does not read back as the value) -/
def laxCommand (bs : Bytes) : Option Command := do
  let (code, payload) ← readLE 4 bs
  match CommandKind.ofCode code with
  | some .sendMessages =>
    let (stream, r1) ← decodeIdentifier payload
    let (topic, r2) ← decodeIdentifier r1
    let (part, r3) ← decodePartitioning r2
    let msgs ← laxMessages r3.length r3
    some (.sendMessages ⟨stream, topic, part, msgs⟩)
  | some .getSnapshotFile =>
    match payload with
    | c :: _ :: ts => some (.getSnapshotFile ⟨c.toNat, ts.map (·.toNat)⟩)
    | _ => none
  | _ => none

/-- the model value an `INVALID` line describes, if it can be read back from the bytes -/
def describedCommand (bs : Bytes) (desc : String) : Option Command :=
  let ok (c : Command) : Bool := Desc.command c == desc && encodeCommand c == bs
  match decodeCommand 0 bs with
  | some c => if ok c then some c else (laxCommand bs).filter ok
  | none => (laxCommand bs).filter ok

/-- verdict for an `INVALID` line: `INVALID` (the model refuses the value too), `INVALID?` (the value could
not be read back: not judged), or a `DIFF` (the model's `Valid` accepts what `validate()` refuses) -/
def checkInvalid (hexS desc : String) : String :=
  match unhex hexS with
  | none => "DIFF bad-hex"
  | some bs =>
    match describedCommand bs desc with
    | none => "INVALID?"
    | some c =>
      if decide c.Valid then s!"DIFF model-Valid-but-validate-refuses lean={Desc.command c}"
      else "INVALID"

/-- verdict for one harness line -/
def checkLine (line : String) : String :=
  let toks := line.splitOn " "
  match toks with
  | kind :: outcome :: rest =>
    if kind == "DONE" then "SKIP" else
    if outcome == "INVALID" then checkInvalid (rest.getD 1 "") (rest.getD 2 "") else
    let (hexS, desc) :=
      if outcome == "ERROR" || outcome == "GENBUG" then (rest.getD 1 "", rest.getD 2 "")
      else (rest.getD 0 "", rest.getD 1 "")
    if desc == "-" then "SKIP" else
    match unhex hexS with
    | none => "DIFF bad-hex"
    | some bs =>
      match decodeAs kind bs with
      | none => "SKIP"
      | some none =>
        if outcome == "ERROR" || outcome == "PANIC" then "SAME"
        else s!"DIFF lean-decoder-refuses outcome={outcome}"
      | some (some (d, re)) =>
        if outcome == "OK" then
          if d != desc then s!"DIFF desc lean={d}"
          else if re != bs then s!"DIFF reencode lean={Desc.hex re}"
          else "SAME"
        else if outcome.startsWith "MISMATCH" then
          -- `MISMATCH` / `MISMATCH-SENTINEL:<classes>` (the difference is one of the documented sentinel
          -- collapses E1-E4): the real decoder produced a value different from the original; so must the model
          if d == desc then "DIFF lean-roundtrips-but-real-mismatch" else "SAME"
        else s!"DIFF lean-decoder-accepts outcome={outcome} lean={d}"
  | _ => "SKIP"

/-- `<kind> <hex>` -> `OK <desc>` | `NONE` (to be compared with `verif-harness codec-decode`) -/
def decodeLine (line : String) : String :=
  match line.splitOn " " with
  | kind :: hexS :: _ =>
    match unhex hexS with
    | none => "NONE"
    | some bs =>
      match decodeAs kind bs with
      | none => "SKIP"
      | some none => "NONE"
      | some (some (d, _)) => "OK " ++ d
  | [kind] => if kind == "" then "SKIP" else
    match decodeAs kind [] with
    | none => "SKIP"
    | some none => "NONE"
    | some (some (d, _)) => "OK " ++ d
  | _ => "SKIP"

end Iggy.Codec.Driver
