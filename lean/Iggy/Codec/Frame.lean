/-
C13 codec model: the command sum type (all 45 `ServerCommand` variants), the command code table
(sdk/src/command.rs), `ServerCommand::to_bytes` / `from_bytes` (server/src/command.rs: 4-byte LE code +
payload, dispatch on the code), the TCP request frame (sdk/src/tcp/client.rs `send_raw`: 4-byte LE length
of code+payload, code, payload; server/src/tcp/connection_handler.rs reads the length, then that many
bytes, then `ServerCommand::from_bytes`) and the response frame (status + length + payload).
-/
import Iggy.Codec.Encode
import Iggy.Codec.Decode
namespace Iggy.Codec

inductive CommandKind where
  | ping | getStats | getMe | getClient | getClients | getUser | getUsers | createUser | deleteUser
  | updateUser | updatePermissions | changePassword | loginUser | logoutUser
  | getPersonalAccessTokens | createPersonalAccessToken | deletePersonalAccessToken
  | loginWithPersonalAccessToken | sendMessages | pollMessages | flushUnsavedBuffer
  | getConsumerOffset | storeConsumerOffset | deleteConsumerOffset | getStream | getStreams
  | createStream | deleteStream | updateStream | purgeStream | getTopic | getTopics | createTopic
  | deleteTopic | updateTopic | purgeTopic | createPartitions | deletePartitions | getConsumerGroup
  | getConsumerGroups | createConsumerGroup | deleteConsumerGroup | joinConsumerGroup
  | leaveConsumerGroup | getSnapshotFile
deriving Repr, DecidableEq

/-- sdk/src/command.rs -/
def CommandKind.code : CommandKind → Nat
  | .ping => 1 | .getStats => 10 | .getSnapshotFile => 11 | .getMe => 20 | .getClient => 21
  | .getClients => 22 | .getUser => 31 | .getUsers => 32 | .createUser => 33 | .deleteUser => 34
  | .updateUser => 35 | .updatePermissions => 36 | .changePassword => 37 | .loginUser => 38
  | .logoutUser => 39 | .getPersonalAccessTokens => 41 | .createPersonalAccessToken => 42
  | .deletePersonalAccessToken => 43 | .loginWithPersonalAccessToken => 44 | .pollMessages => 100
  | .sendMessages => 101 | .flushUnsavedBuffer => 102 | .getConsumerOffset => 120
  | .storeConsumerOffset => 121 | .deleteConsumerOffset => 122 | .getStream => 200
  | .getStreams => 201 | .createStream => 202 | .deleteStream => 203 | .updateStream => 204
  | .purgeStream => 205 | .getTopic => 300 | .getTopics => 301 | .createTopic => 302
  | .deleteTopic => 303 | .updateTopic => 304 | .purgeTopic => 305 | .createPartitions => 402
  | .deletePartitions => 403 | .getConsumerGroup => 600 | .getConsumerGroups => 601
  | .createConsumerGroup => 602 | .deleteConsumerGroup => 603 | .joinConsumerGroup => 604
  | .leaveConsumerGroup => 605

/-- the `match code { .. }` of `ServerCommand::from_bytes` -/
def CommandKind.ofCode : Nat → Option CommandKind
  | 1 => some .ping | 10 => some .getStats | 11 => some .getSnapshotFile | 20 => some .getMe
  | 21 => some .getClient | 22 => some .getClients | 31 => some .getUser | 32 => some .getUsers
  | 33 => some .createUser | 34 => some .deleteUser | 35 => some .updateUser
  | 36 => some .updatePermissions | 37 => some .changePassword | 38 => some .loginUser
  | 39 => some .logoutUser | 41 => some .getPersonalAccessTokens
  | 42 => some .createPersonalAccessToken | 43 => some .deletePersonalAccessToken
  | 44 => some .loginWithPersonalAccessToken | 100 => some .pollMessages | 101 => some .sendMessages
  | 102 => some .flushUnsavedBuffer | 120 => some .getConsumerOffset
  | 121 => some .storeConsumerOffset | 122 => some .deleteConsumerOffset | 200 => some .getStream
  | 201 => some .getStreams | 202 => some .createStream | 203 => some .deleteStream
  | 204 => some .updateStream | 205 => some .purgeStream | 300 => some .getTopic
  | 301 => some .getTopics | 302 => some .createTopic | 303 => some .deleteTopic
  | 304 => some .updateTopic | 305 => some .purgeTopic | 402 => some .createPartitions
  | 403 => some .deletePartitions | 600 => some .getConsumerGroup | 601 => some .getConsumerGroups
  | 602 => some .createConsumerGroup | 603 => some .deleteConsumerGroup
  | 604 => some .joinConsumerGroup | 605 => some .leaveConsumerGroup | _ => none

def CommandKind.all : List CommandKind :=
  [.ping, .getStats, .getMe, .getClient, .getClients, .getUser, .getUsers, .createUser, .deleteUser,
   .updateUser, .updatePermissions, .changePassword, .loginUser, .logoutUser,
   .getPersonalAccessTokens, .createPersonalAccessToken, .deletePersonalAccessToken,
   .loginWithPersonalAccessToken, .sendMessages, .pollMessages, .flushUnsavedBuffer,
   .getConsumerOffset, .storeConsumerOffset, .deleteConsumerOffset, .getStream, .getStreams,
   .createStream, .deleteStream, .updateStream, .purgeStream, .getTopic, .getTopics, .createTopic,
   .deleteTopic, .updateTopic, .purgeTopic, .createPartitions, .deletePartitions, .getConsumerGroup,
   .getConsumerGroups, .createConsumerGroup, .deleteConsumerGroup, .joinConsumerGroup,
   .leaveConsumerGroup, .getSnapshotFile]

/-- all 45 `ServerCommand` variants with their payloads -/
inductive Command where
  | ping | getStats | getMe | getClients | getUsers | logoutUser | getPersonalAccessTokens | getStreams
  | getClient (id : Nat)
  | getUser (user : Identifier)
  | deleteUser (user : Identifier)
  | createUser (c : CreateUser)
  | updateUser (c : UpdateUser)
  | updatePermissions (c : UpdatePermissions)
  | changePassword (c : ChangePassword)
  | loginUser (c : LoginUser)
  | createPersonalAccessToken (c : CreatePat)
  | deletePersonalAccessToken (name : Bytes)
  | loginWithPersonalAccessToken (token : Bytes)
  | sendMessages (c : SendMessages)
  | pollMessages (c : PollMessages)
  | flushUnsavedBuffer (c : FlushUnsavedBuffer)
  | getConsumerOffset (c : ConsumerOffsetRef)
  | storeConsumerOffset (c : StoreConsumerOffset)
  | deleteConsumerOffset (c : ConsumerOffsetRef)
  | getStream (stream : Identifier)
  | createStream (c : CreateStream)
  | deleteStream (stream : Identifier)
  | updateStream (c : UpdateStream)
  | purgeStream (stream : Identifier)
  | getTopic (c : TopicRef)
  | getTopics (stream : Identifier)
  | createTopic (c : CreateTopic)
  | deleteTopic (c : TopicRef)
  | updateTopic (c : UpdateTopic)
  | purgeTopic (c : TopicRef)
  | createPartitions (c : Partitions)
  | deletePartitions (c : Partitions)
  | getConsumerGroup (c : GroupRef)
  | getConsumerGroups (c : TopicRef)
  | createConsumerGroup (c : CreateConsumerGroup)
  | deleteConsumerGroup (c : GroupRef)
  | joinConsumerGroup (c : GroupRef)
  | leaveConsumerGroup (c : GroupRef)
  | getSnapshotFile (c : GetSnapshot)
deriving Repr, DecidableEq

def Command.kind : Command → CommandKind
  | .ping => .ping | .getStats => .getStats | .getMe => .getMe | .getClients => .getClients
  | .getUsers => .getUsers | .logoutUser => .logoutUser
  | .getPersonalAccessTokens => .getPersonalAccessTokens | .getStreams => .getStreams
  | .getClient _ => .getClient | .getUser _ => .getUser | .deleteUser _ => .deleteUser
  | .createUser _ => .createUser | .updateUser _ => .updateUser
  | .updatePermissions _ => .updatePermissions | .changePassword _ => .changePassword
  | .loginUser _ => .loginUser | .createPersonalAccessToken _ => .createPersonalAccessToken
  | .deletePersonalAccessToken _ => .deletePersonalAccessToken
  | .loginWithPersonalAccessToken _ => .loginWithPersonalAccessToken
  | .sendMessages _ => .sendMessages | .pollMessages _ => .pollMessages
  | .flushUnsavedBuffer _ => .flushUnsavedBuffer | .getConsumerOffset _ => .getConsumerOffset
  | .storeConsumerOffset _ => .storeConsumerOffset | .deleteConsumerOffset _ => .deleteConsumerOffset
  | .getStream _ => .getStream | .createStream _ => .createStream | .deleteStream _ => .deleteStream
  | .updateStream _ => .updateStream | .purgeStream _ => .purgeStream | .getTopic _ => .getTopic
  | .getTopics _ => .getTopics | .createTopic _ => .createTopic | .deleteTopic _ => .deleteTopic
  | .updateTopic _ => .updateTopic | .purgeTopic _ => .purgeTopic
  | .createPartitions _ => .createPartitions | .deletePartitions _ => .deletePartitions
  | .getConsumerGroup _ => .getConsumerGroup | .getConsumerGroups _ => .getConsumerGroups
  | .createConsumerGroup _ => .createConsumerGroup | .deleteConsumerGroup _ => .deleteConsumerGroup
  | .joinConsumerGroup _ => .joinConsumerGroup | .leaveConsumerGroup _ => .leaveConsumerGroup
  | .getSnapshotFile _ => .getSnapshotFile

/-- `validate()` of the variant + representability -/
def Command.Valid : Command → Prop
  | .getClient id => 0 < id ∧ id < 2 ^ 32
  | .getUser u | .deleteUser u => u.Valid
  | .createUser c => c.Valid
  | .updateUser c => c.Valid
  | .updatePermissions c => c.Valid
  | .changePassword c => c.Valid
  | .loginUser c => c.Valid
  | .createPersonalAccessToken c => c.Valid
  | .deletePersonalAccessToken n => NameOk MIN_PAT_NAME_LENGTH MAX_PAT_NAME_LENGTH n
  -- `validate`: 1..=100 bytes (all of them decodable since fix d573560: guard 2)
  | .loginWithPersonalAccessToken t => NameOk 1 MAX_PAT_LENGTH t
  | .sendMessages c => c.Valid
  | .pollMessages c => c.Valid
  | .flushUnsavedBuffer c => c.Valid
  | .getConsumerOffset c | .deleteConsumerOffset c => c.Valid
  | .storeConsumerOffset c => c.Valid
  | .getStream s | .deleteStream s | .purgeStream s | .getTopics s => s.Valid
  | .createStream c => c.Valid
  | .updateStream c => c.Valid
  | .getTopic c | .deleteTopic c | .purgeTopic c | .getConsumerGroups c => c.Valid
  | .createTopic c => c.Valid
  | .updateTopic c => c.Valid
  | .createPartitions c | .deletePartitions c => c.Valid
  | .getConsumerGroup c | .deleteConsumerGroup c | .joinConsumerGroup c | .leaveConsumerGroup c =>
    c.Valid
  | .createConsumerGroup c => c.Valid
  | .getSnapshotFile c => c.Valid
  | _ => True

instance (c : Command) : Decidable c.Valid := by
  cases c <;> unfold Command.Valid <;> infer_instance

/-- the payload: `Command::to_bytes` of the variant -/
def encodePayload : Command → Bytes
  | .ping | .getStats | .getMe | .getClients | .getUsers | .logoutUser | .getPersonalAccessTokens
  | .getStreams => []
  | .getClient id => le32 id
  | .getUser u | .deleteUser u => encodeIdentifier u
  | .createUser c => encodeCreateUser c
  | .updateUser c => encodeUpdateUser c
  | .updatePermissions c => encodeUpdatePermissions c
  | .changePassword c => encodeChangePassword c
  | .loginUser c => encodeLoginUser c
  | .createPersonalAccessToken c => encodeCreatePat c
  | .deletePersonalAccessToken n => encodeStr8 n
  | .loginWithPersonalAccessToken t => encodeStr8 t
  | .sendMessages c => encodeSendMessages c
  | .pollMessages c => encodePollMessages c
  | .flushUnsavedBuffer c => encodeFlushUnsavedBuffer c
  | .getConsumerOffset c | .deleteConsumerOffset c => encodeConsumerOffsetRef c
  | .storeConsumerOffset c => encodeStoreConsumerOffset c
  | .getStream s | .deleteStream s | .purgeStream s | .getTopics s => encodeIdentifier s
  | .createStream c => encodeCreateStream c
  | .updateStream c => encodeUpdateStream c
  | .getTopic c | .deleteTopic c | .purgeTopic c | .getConsumerGroups c => encodeTopicRef c
  | .createTopic c => encodeCreateTopic c
  | .updateTopic c => encodeUpdateTopic c
  | .createPartitions c | .deletePartitions c => encodePartitions c
  | .getConsumerGroup c | .deleteConsumerGroup c | .joinConsumerGroup c | .leaveConsumerGroup c =>
    encodeGroupRef c
  | .createConsumerGroup c => encodeCreateConsumerGroup c
  | .getSnapshotFile c => encodeGetSnapshot c

/-- `ServerCommand::to_bytes` (`as_bytes`): code, payload -/
def encodeCommand (c : Command) : Bytes := le32 c.kind.code ++ encodePayload c

/-- the payload decoder `ServerCommand::from_bytes` dispatches to for a kind -/
def decodePayload (fresh : Nat) : CommandKind → Bytes → Option Command
  | .ping, bs => (decodeEmpty bs).map fun _ => .ping
  | .getStats, bs => (decodeEmpty bs).map fun _ => .getStats
  | .getMe, bs => (decodeEmpty bs).map fun _ => .getMe
  | .getClients, bs => (decodeEmpty bs).map fun _ => .getClients
  | .getUsers, bs => (decodeEmpty bs).map fun _ => .getUsers
  | .logoutUser, bs => (decodeEmpty bs).map fun _ => .logoutUser
  | .getPersonalAccessTokens, bs => (decodeEmpty bs).map fun _ => .getPersonalAccessTokens
  | .getStreams, bs => (decodeEmpty bs).map fun _ => .getStreams
  | .getClient, bs => (decodeGetClient bs).map .getClient
  | .getUser, bs => (decodeSingleId bs).map .getUser
  | .deleteUser, bs => (decodeSingleId bs).map .deleteUser
  | .createUser, bs => (decodeCreateUser bs).map .createUser
  | .updateUser, bs => (decodeUpdateUser bs).map .updateUser
  | .updatePermissions, bs => (decodeUpdatePermissions bs).map .updatePermissions
  | .changePassword, bs => (decodeChangePassword bs).map .changePassword
  | .loginUser, bs => (decodeLoginUser bs).map .loginUser
  | .createPersonalAccessToken, bs => (decodeCreatePat bs).map .createPersonalAccessToken
  | .deletePersonalAccessToken, bs => (decodePatString bs).map .deletePersonalAccessToken
  | .loginWithPersonalAccessToken, bs => (decodeLoginPat bs).map .loginWithPersonalAccessToken
  | .sendMessages, bs => (decodeSendMessages fresh bs).map .sendMessages
  | .pollMessages, bs => (decodePollMessages bs).map .pollMessages
  | .flushUnsavedBuffer, bs => (decodeFlushUnsavedBuffer bs).map .flushUnsavedBuffer
  | .getConsumerOffset, bs => (decodeConsumerOffsetRef bs).map .getConsumerOffset
  | .storeConsumerOffset, bs => (decodeStoreConsumerOffset bs).map .storeConsumerOffset
  | .deleteConsumerOffset, bs => (decodeConsumerOffsetRef bs).map .deleteConsumerOffset
  | .getStream, bs => (decodeSingleId bs).map .getStream
  | .createStream, bs => (decodeCreateStream bs).map .createStream
  | .deleteStream, bs => (decodeSingleId bs).map .deleteStream
  | .updateStream, bs => (decodeUpdateStream bs).map .updateStream
  | .purgeStream, bs => (decodeSingleId bs).map .purgeStream
  | .getTopic, bs => (decodeTopicRef bs).map .getTopic
  | .getTopics, bs => (decodeSingleId bs).map .getTopics
  | .createTopic, bs => (decodeCreateTopic bs).map .createTopic
  | .deleteTopic, bs => (decodeTopicRef bs).map .deleteTopic
  | .updateTopic, bs => (decodeUpdateTopic bs).map .updateTopic
  | .purgeTopic, bs => (decodeTopicRef bs).map .purgeTopic
  | .createPartitions, bs => (decodePartitions bs).map .createPartitions
  | .deletePartitions, bs => (decodePartitions bs).map .deletePartitions
  | .getConsumerGroup, bs => (decodeGroupRef bs).map .getConsumerGroup
  | .getConsumerGroups, bs => (decodeTopicRef bs).map .getConsumerGroups
  | .createConsumerGroup, bs => (decodeCreateConsumerGroup bs).map .createConsumerGroup
  | .deleteConsumerGroup, bs => (decodeGroupRef bs).map .deleteConsumerGroup
  | .joinConsumerGroup, bs => (decodeGroupRef bs).map .joinConsumerGroup
  | .leaveConsumerGroup, bs => (decodeGroupRef bs).map .leaveConsumerGroup
  | .getSnapshotFile, bs => (decodeGetSnapshot bs).map .getSnapshotFile

/-- `ServerCommand::from_bytes`: `bytes[..4]` (panics on a shorter buffer), dispatch, unknown code refused -/
def decodeCommand (fresh : Nat) (bs : Bytes) : Option Command :=
  match readLE 4 bs with
  | none => none
  | some (code, payload) =>
    match CommandKind.ofCode code with
    | none => none
    | some k => decodePayload fresh k payload

/-- the minimum-length guard (`if bytes.len() < N`) at the top of each payload decoder, constants as they
are in the source; 0 where the decoder has no such guard (empty payloads are checked with `is_empty`,
`GetClient` with `len() != 4`, `FlushUnsavedBuffer` and `GetSnapshot` not at all) -/
def CommandKind.minLen : CommandKind → Nat
  | .getUser | .deleteUser | .getStream | .deleteStream | .purgeStream | .getTopics => SINGLE_ID_MIN_LEN
  | .createUser => CREATE_USER_MIN_LEN
  | .updateUser => UPDATE_USER_MIN_LEN
  | .updatePermissions => UPDATE_PERMISSIONS_MIN_LEN
  | .changePassword => CHANGE_PASSWORD_MIN_LEN
  | .loginUser => LOGIN_USER_MIN_LEN
  | .createPersonalAccessToken => CREATE_PAT_MIN_LEN
  | .deletePersonalAccessToken => PAT_NAME_MIN_LEN
  | .loginWithPersonalAccessToken => LOGIN_PAT_MIN_LEN
  | .sendMessages => SEND_MESSAGES_MIN_LEN
  | .pollMessages => POLL_MESSAGES_MIN_LEN
  | .getConsumerOffset | .deleteConsumerOffset => CONSUMER_OFFSET_MIN_LEN
  | .storeConsumerOffset => STORE_CONSUMER_OFFSET_MIN_LEN
  | .createStream => CREATE_STREAM_MIN_LEN
  | .updateStream => UPDATE_STREAM_MIN_LEN
  | .getTopic | .deleteTopic | .purgeTopic | .getConsumerGroups => TOPIC_REF_MIN_LEN
  | .createTopic => CREATE_TOPIC_MIN_LEN
  | .updateTopic => UPDATE_TOPIC_MIN_LEN
  | .createPartitions | .deletePartitions => PARTITIONS_MIN_LEN
  | .getConsumerGroup | .deleteConsumerGroup | .joinConsumerGroup | .leaveConsumerGroup =>
    GROUP_REF_MIN_LEN
  | .createConsumerGroup => CREATE_CONSUMER_GROUP_MIN_LEN
  | _ => 0

/-- what the decoder returns for a command whose messages carry id 0: the fresh id -/
def Command.withIds (fresh : Nat) : Command → Command
  | .sendMessages c =>
    .sendMessages { c with messages := c.messages.map fun m => { m with id := if m.id = 0 then fresh else m.id } }
  | c => c

/-! ## TCP frames -/

/-- request frame written by the SDK: length of (code + payload), code, payload -/
def encodeFrame (c : Command) : Bytes := le32 (encodeCommand c).length ++ encodeCommand c

/-- the server's read loop for one request: 4-byte length, that many bytes, `ServerCommand::from_bytes` -/
def decodeFrame (fresh : Nat) (bs : Bytes) : Option (Command × Bytes) := do
  let (len, r1) ← readLE 4 bs
  let (body, r2) ← takeN len r1
  let c ← decodeCommand fresh body
  some (c, r2)

structure Response where
  status : Nat
  payload : Bytes
deriving Repr, DecidableEq

def Response.Valid (r : Response) : Prop := r.status < 2 ^ 32 ∧ r.payload.length < 2 ^ 32
instance (r : Response) : Decidable r.Valid := by unfold Response.Valid; infer_instance

/-- server/src/tcp/sender.rs `send_response`: status, payload length, payload -/
def encodeResponse (r : Response) : Bytes := le32 r.status ++ le32 r.payload.length ++ r.payload

/-- sdk/src/tcp/client.rs: 8 initial bytes (status, length), then `length` bytes -/
def decodeResponse (bs : Bytes) : Option (Response × Bytes) := do
  let (status, r1) ← readLE 4 bs
  let (len, r2) ← readLE 4 r1
  let (payload, r3) ← takeN len r2
  some (⟨status, payload⟩, r3)

end Iggy.Codec
