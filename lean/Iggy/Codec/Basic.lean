/-
C13 codec model, basics: bytes, little-endian integers, the primitive readers every decoder is written
with, and a UTF-8 validator (Rust `std::str::from_utf8`, Unicode table 3-7).

Conventions used by every decoder of the model:
* a decoder is a function `Bytes → Option (α × Bytes)` (value and the unread rest) or `Bytes → Option α`
  when the Rust `from_bytes` ignores what follows;
* `none` stands for BOTH ways the Rust decoder can refuse: returning `Err(..)` and panicking on an
  out-of-range slice (`bytes[a..b]`, `Bytes::slice`, `get_u8` on an empty buffer);
* integers are `Nat`; that they fit their wire width is part of each type's `Valid`.
No imports outside core (linked into the judge executable).
-/
namespace Iggy.Codec

abbrev Bytes := List UInt8

/-- `k` little-endian bytes of `n` (`put_uN_le`) -/
def leBytes : Nat → Nat → Bytes
  | 0, _ => []
  | k + 1, n => UInt8.ofNat (n % 256) :: leBytes k (n / 256)

/-- little-endian value of a byte list (`uN::from_le_bytes`) -/
def leVal : Bytes → Nat
  | [] => 0
  | b :: rest => b.toNat + 256 * leVal rest

def le16 (n : Nat) : Bytes := leBytes 2 n
def le32 (n : Nat) : Bytes := leBytes 4 n
def le64 (n : Nat) : Bytes := leBytes 8 n
def le128 (n : Nat) : Bytes := leBytes 16 n

/-- one byte holding `n` (`put_u8(n as u8)`) -/
def u8 (n : Nat) : Bytes := [UInt8.ofNat n]

/-- `bytes[0..n]` and `bytes[n..]`; `none` where Rust panics (slice out of range) -/
def takeN (n : Nat) (bs : Bytes) : Option (Bytes × Bytes) :=
  if n ≤ bs.length then some (bs.take n, bs.drop n) else none

/-- read a `k`-byte little-endian integer -/
def readLE (k : Nat) (bs : Bytes) : Option (Nat × Bytes) :=
  match takeN k bs with
  | some (a, r) => some (leVal a, r)
  | none => none

/-- read one byte (`bytes[pos]`, `get_u8`) -/
def readU8 : Bytes → Option (Nat × Bytes)
  | [] => none
  | b :: r => some (b.toNat, r)

def boolByte (b : Bool) : UInt8 := if b then 1 else 0

/-! ### UTF-8 (what `std::str::from_utf8` accepts) -/

def isCont (b : UInt8) : Bool := 0x80 ≤ b && b ≤ 0xBF

/-- fuel-driven so that it is structurally recursive (and tail recursive); `fuel = length` suffices -/
def validUtf8Aux : Nat → Bytes → Bool
  | _, [] => true
  | 0, _ :: _ => false
  | fuel + 1, b0 :: rest =>
    if b0 < 0x80 then validUtf8Aux fuel rest
    else if 0xC2 ≤ b0 && b0 ≤ 0xDF then
      match rest with
      | b1 :: r => if isCont b1 then validUtf8Aux fuel r else false
      | _ => false
    else if 0xE0 ≤ b0 && b0 ≤ 0xEF then
      match rest with
      | b1 :: b2 :: r =>
        let ok1 :=
          if b0 == 0xE0 then 0xA0 ≤ b1 && b1 ≤ 0xBF
          else if b0 == 0xED then 0x80 ≤ b1 && b1 ≤ 0x9F
          else isCont b1
        if ok1 && isCont b2 then validUtf8Aux fuel r else false
      | _ => false
    else if 0xF0 ≤ b0 && b0 ≤ 0xF4 then
      match rest with
      | b1 :: b2 :: b3 :: r =>
        let ok1 :=
          if b0 == 0xF0 then 0x90 ≤ b1 && b1 ≤ 0xBF
          else if b0 == 0xF4 then 0x80 ≤ b1 && b1 ≤ 0x8F
          else isCont b1
        if ok1 && isCont b2 && isCont b3 then validUtf8Aux fuel r else false
      | _ => false
    else false

def validUtf8 (bs : Bytes) : Bool := validUtf8Aux bs.length bs

/-- a string with a one-byte length prefix (`put_u8(len as u8); put_slice(..)`) -/
def encodeStr8 (s : Bytes) : Bytes := u8 s.length ++ s

/-- `len = bytes[pos]; from_utf8(&bytes[pos+1..pos+1+len])` -/
def decodeStr8 (bs : Bytes) : Option (Bytes × Bytes) :=
  match readU8 bs with
  | none => none
  | some (l, r) =>
    match takeN l r with
    | none => none
    | some (s, r') => if validUtf8 s then some (s, r') else none

end Iggy.Codec
