/-
C13 codec model, the wire values and their validity predicates.

Each `X.Valid` mirrors the SDK's `validate()` for `X` plus *representability* (every integer fits its
wire width, every length fits its length field). Modelling decisions (all stated again where used):
* names / strings are byte lists; "is valid UTF-8" is the executable predicate `validUtf8`;
* an `Identifier` is `numeric n` (kind 1, length 4) or `named s` (kind 2); the redundant `length`
  field of the Rust struct is `value.len()` for every value the SDK constructors build;
* Rust hash maps are key-distinct lists in encounter order;
* N1: an `Option<map>` is a list, `[]` standing for BOTH `None` and `Some(empty)` (the wire format has a
  single encoding for the two: fix ed23352 for permissions, `headers_length = 0` for headers);
* a duration is its number of whole microseconds.
-/
import Iggy.Codec.Basic
namespace Iggy.Codec

/-! ## identifiers, consumers, partitioning, polling strategy -/

inductive Identifier where
  | numeric (n : Nat)
  | named (name : Bytes)
deriving Repr, DecidableEq

/-- `Identifier::validate` + representability. (The decoder does not check UTF-8 of a name.) -/
def Identifier.Valid : Identifier → Prop
  | .numeric n => n < 2 ^ 32
  | .named s => 1 ≤ s.length ∧ s.length ≤ 255

instance (i : Identifier) : Decidable i.Valid := by
  cases i <;> unfold Identifier.Valid <;> infer_instance

inductive ConsumerKind where
  | consumer | group
deriving Repr, DecidableEq

structure Consumer where
  kind : ConsumerKind
  id : Identifier
deriving Repr, DecidableEq

def Consumer.Valid (c : Consumer) : Prop := c.id.Valid
instance (c : Consumer) : Decidable c.Valid := by unfold Consumer.Valid; infer_instance

inductive PartKind where
  | balanced | partitionId | messagesKey
deriving Repr, DecidableEq

structure Partitioning where
  kind : PartKind
  value : Bytes
deriving Repr, DecidableEq

/-- the partitioning clause of `SendMessages::validate` (the length byte is `value.len()`) -/
def Partitioning.Valid (p : Partitioning) : Prop :=
  p.value.length ≤ 255 ∧ (p.kind ≠ .balanced → 1 ≤ p.value.length)
instance (p : Partitioning) : Decidable p.Valid := by unfold Partitioning.Valid; infer_instance

inductive PollingKind where
  | offset | timestamp | first | last | next
deriving Repr, DecidableEq

structure PollingStrategy where
  kind : PollingKind
  value : Nat
deriving Repr, DecidableEq

def PollingStrategy.Valid (s : PollingStrategy) : Prop := s.value < 2 ^ 64
instance (s : PollingStrategy) : Decidable s.Valid := by unfold PollingStrategy.Valid; infer_instance

/-- `Option<u32>` travelling as a `u32` with 0 for `None` -/
def OptId.Valid (o : Option Nat) : Prop :=
  match o with
  | none => True
  | some n => 0 < n ∧ n < 2 ^ 32
instance (o : Option Nat) : Decidable (OptId.Valid o) := by
  cases o <;> unfold OptId.Valid <;> infer_instance

/-- a name of `min..max` bytes of valid UTF-8 -/
def NameOk (min max : Nat) (s : Bytes) : Prop :=
  min ≤ s.length ∧ s.length ≤ max ∧ validUtf8 s = true
instance (min max : Nat) (s : Bytes) : Decidable (NameOk min max s) := by
  unfold NameOk; infer_instance

/-! ## message headers -/

inductive HeaderKind where
  | raw | string | bool | int8 | int16 | int32 | int64 | int128
  | uint8 | uint16 | uint32 | uint64 | uint128 | float32 | float64
deriving Repr, DecidableEq

/-- value length the SDK constructors produce for a kind (`none`: 1..255) -/
def HeaderKind.fixedLen : HeaderKind → Option Nat
  | .raw | .string => none
  | .bool | .int8 | .uint8 => some 1
  | .int16 | .uint16 => some 2
  | .int32 | .uint32 | .float32 => some 4
  | .int64 | .uint64 | .float64 => some 8
  | .int128 | .uint128 => some 16

structure Header where
  key : Bytes
  kind : HeaderKind
  value : Bytes
deriving Repr, DecidableEq

/-- `HeaderKey::new` (1..255 bytes of UTF-8, measured on the lower-cased key, which is the one stored and
sent - `key` here: fix bbd23c0) and `HeaderValue::from` (1..255 bytes) + the per-kind length -/
def Header.Valid (h : Header) : Prop :=
  NameOk 1 255 h.key ∧ 1 ≤ h.value.length ∧ h.value.length ≤ 255 ∧
  (match h.kind.fixedLen with | none => True | some n => h.value.length = n)
instance (h : Header) : Decidable h.Valid := by
  unfold Header.Valid
  cases h.kind.fixedLen <;> infer_instance

def keysDistinct (hs : List Header) : Prop := (hs.map (·.key)).Nodup

/-- a header map: valid entries with pairwise distinct keys -/
def HeadersValid (hs : List Header) : Prop := (∀ h ∈ hs, h.Valid) ∧ keysDistinct hs
instance (hs : List Header) : Decidable (HeadersValid hs) := by
  unfold HeadersValid keysDistinct; infer_instance

/-! ## messages -/

/-- send-side message; `headers = []` is "no headers" (N1); `id = 0` is "server, assign one" (N2) -/
structure Message where
  id : Nat
  headers : List Header
  payload : Bytes
deriving Repr, DecidableEq

/-- bytes of one encoded header -/
def Header.size (h : Header) : Nat := 4 + h.key.length + 1 + 4 + h.value.length

def headersSize (hs : List Header) : Nat := (hs.map Header.size).sum

def Message.Valid (m : Message) : Prop :=
  m.id < 2 ^ 128 ∧ HeadersValid m.headers ∧ headersSize m.headers < 2 ^ 32 ∧
  1 ≤ m.payload.length ∧ m.payload.length < 2 ^ 32
instance (m : Message) : Decidable m.Valid := by unfold Message.Valid; infer_instance

structure SendMessages where
  stream : Identifier
  topic : Identifier
  partitioning : Partitioning
  messages : List Message
deriving Repr, DecidableEq

def MAX_HEADERS_SIZE : Nat := 100 * 1000
def MAX_PAYLOAD_SIZE : Nat := 10 * 1000 * 1000

/-- `SendMessages::validate` (non-empty batch, EVERY message payload non-empty - `1 ≤ m.payload.length` in
`Message.Valid`, fix 824bdc5, as the decoder asks - size limits) + every message representable. -/
def SendMessages.Valid (c : SendMessages) : Prop :=
  c.stream.Valid ∧ c.topic.Valid ∧ c.partitioning.Valid ∧ c.messages ≠ [] ∧
  (∀ m ∈ c.messages, m.Valid) ∧
  ((c.messages.map (fun m => (m.headers.map (·.value.length)).sum)).sum ≤ MAX_HEADERS_SIZE) ∧
  ((c.messages.map (·.payload.length)).sum ≤ MAX_PAYLOAD_SIZE)
instance (c : SendMessages) : Decidable c.Valid := by unfold SendMessages.Valid; infer_instance

structure PollMessages where
  consumer : Consumer
  stream : Identifier
  topic : Identifier
  partition : Option Nat
  strategy : PollingStrategy
  count : Nat
  autoCommit : Bool
deriving Repr, DecidableEq

/-- `validate()` is `Ok(())`; representability asks `partition ≠ Some(0)` (finding E1) -/
def PollMessages.Valid (c : PollMessages) : Prop :=
  c.consumer.Valid ∧ c.stream.Valid ∧ c.topic.Valid ∧ OptId.Valid c.partition ∧ c.strategy.Valid ∧
  c.count < 2 ^ 32
instance (c : PollMessages) : Decidable c.Valid := by unfold PollMessages.Valid; infer_instance

structure FlushUnsavedBuffer where
  stream : Identifier
  topic : Identifier
  partition : Nat
  fsync : Bool
deriving Repr, DecidableEq

def FlushUnsavedBuffer.Valid (c : FlushUnsavedBuffer) : Prop :=
  c.stream.Valid ∧ c.topic.Valid ∧ c.partition < 2 ^ 32
instance (c : FlushUnsavedBuffer) : Decidable c.Valid := by
  unfold FlushUnsavedBuffer.Valid; infer_instance

/-- `GetConsumerOffset` / `DeleteConsumerOffset` -/
structure ConsumerOffsetRef where
  consumer : Consumer
  stream : Identifier
  topic : Identifier
  partition : Option Nat
deriving Repr, DecidableEq

def ConsumerOffsetRef.Valid (c : ConsumerOffsetRef) : Prop :=
  c.consumer.Valid ∧ c.stream.Valid ∧ c.topic.Valid ∧ OptId.Valid c.partition
instance (c : ConsumerOffsetRef) : Decidable c.Valid := by
  unfold ConsumerOffsetRef.Valid; infer_instance

structure StoreConsumerOffset where
  consumer : Consumer
  stream : Identifier
  topic : Identifier
  partition : Option Nat
  offset : Nat
deriving Repr, DecidableEq

def StoreConsumerOffset.Valid (c : StoreConsumerOffset) : Prop :=
  c.consumer.Valid ∧ c.stream.Valid ∧ c.topic.Valid ∧ OptId.Valid c.partition ∧ c.offset < 2 ^ 64
instance (c : StoreConsumerOffset) : Decidable c.Valid := by
  unfold StoreConsumerOffset.Valid; infer_instance

/-! ## streams, topics, partitions, consumer groups -/

structure CreateStream where
  id : Option Nat
  name : Bytes
deriving Repr, DecidableEq

def CreateStream.Valid (c : CreateStream) : Prop := OptId.Valid c.id ∧ NameOk 1 255 c.name
instance (c : CreateStream) : Decidable c.Valid := by unfold CreateStream.Valid; infer_instance

structure UpdateStream where
  stream : Identifier
  name : Bytes
deriving Repr, DecidableEq

def UpdateStream.Valid (c : UpdateStream) : Prop := c.stream.Valid ∧ NameOk 1 255 c.name
instance (c : UpdateStream) : Decidable c.Valid := by unfold UpdateStream.Valid; infer_instance

/-- commands addressing a topic: Get/Delete/PurgeTopic, GetConsumerGroups -/
structure TopicRef where
  stream : Identifier
  topic : Identifier
deriving Repr, DecidableEq

def TopicRef.Valid (c : TopicRef) : Prop := c.stream.Valid ∧ c.topic.Valid
instance (c : TopicRef) : Decidable c.Valid := by unfold TopicRef.Valid; infer_instance

inductive Compression where
  | uncompressed | gzip
deriving Repr, DecidableEq

/-- `IggyExpiry`; a duration is its number of whole microseconds (findings E3: 0 µs, sub-µs, ≥ 2^64-1 µs) -/
inductive Expiry where
  | serverDefault
  | expireMicros (n : Nat)
  | neverExpire
deriving Repr, DecidableEq

def Expiry.Valid : Expiry → Prop
  | .expireMicros n => 0 < n ∧ n < 2 ^ 64 - 1
  | _ => True
instance (e : Expiry) : Decidable e.Valid := by cases e <;> unfold Expiry.Valid <;> infer_instance

/-- `MaxTopicSize` (findings E4: `Custom(0)`, `Custom(u64::MAX)`) -/
inductive MaxTopicSize where
  | serverDefault
  | custom (n : Nat)
  | unlimited
deriving Repr, DecidableEq

def MaxTopicSize.Valid : MaxTopicSize → Prop
  | .custom n => 0 < n ∧ n < 2 ^ 64 - 1
  | _ => True
instance (e : MaxTopicSize) : Decidable e.Valid := by
  cases e <;> unfold MaxTopicSize.Valid <;> infer_instance

/-- `Option<u8>` replication factor, 0 on the wire for `None`; `validate` refuses `Some(0)` -/
def OptRf.Valid (o : Option Nat) : Prop :=
  match o with
  | none => True
  | some n => 0 < n ∧ n < 256
instance (o : Option Nat) : Decidable (OptRf.Valid o) := by
  cases o <;> unfold OptRf.Valid <;> infer_instance

def MAX_PARTITIONS_COUNT : Nat := 1000

structure CreateTopic where
  stream : Identifier
  id : Option Nat
  partitions : Nat
  compression : Compression
  expiry : Expiry
  maxSize : MaxTopicSize
  replication : Option Nat
  name : Bytes
deriving Repr, DecidableEq

def CreateTopic.Valid (c : CreateTopic) : Prop :=
  c.stream.Valid ∧ OptId.Valid c.id ∧ c.partitions ≤ MAX_PARTITIONS_COUNT ∧ c.expiry.Valid ∧
  c.maxSize.Valid ∧ OptRf.Valid c.replication ∧ NameOk 1 255 c.name
instance (c : CreateTopic) : Decidable c.Valid := by unfold CreateTopic.Valid; infer_instance

structure UpdateTopic where
  stream : Identifier
  topic : Identifier
  compression : Compression
  expiry : Expiry
  maxSize : MaxTopicSize
  replication : Option Nat
  name : Bytes
deriving Repr, DecidableEq

def UpdateTopic.Valid (c : UpdateTopic) : Prop :=
  c.stream.Valid ∧ c.topic.Valid ∧ c.expiry.Valid ∧ c.maxSize.Valid ∧ OptRf.Valid c.replication ∧
  NameOk 1 255 c.name
instance (c : UpdateTopic) : Decidable c.Valid := by unfold UpdateTopic.Valid; infer_instance

/-- Create/DeletePartitions -/
structure Partitions where
  stream : Identifier
  topic : Identifier
  count : Nat
deriving Repr, DecidableEq

def Partitions.Valid (c : Partitions) : Prop :=
  c.stream.Valid ∧ c.topic.Valid ∧ 1 ≤ c.count ∧ c.count ≤ MAX_PARTITIONS_COUNT
instance (c : Partitions) : Decidable c.Valid := by unfold Partitions.Valid; infer_instance

structure CreateConsumerGroup where
  stream : Identifier
  topic : Identifier
  id : Option Nat
  name : Bytes
deriving Repr, DecidableEq

def CreateConsumerGroup.Valid (c : CreateConsumerGroup) : Prop :=
  c.stream.Valid ∧ c.topic.Valid ∧ OptId.Valid c.id ∧ NameOk 1 255 c.name
instance (c : CreateConsumerGroup) : Decidable c.Valid := by
  unfold CreateConsumerGroup.Valid; infer_instance

/-- Get/Delete/Join/LeaveConsumerGroup -/
structure GroupRef where
  stream : Identifier
  topic : Identifier
  group : Identifier
deriving Repr, DecidableEq

def GroupRef.Valid (c : GroupRef) : Prop := c.stream.Valid ∧ c.topic.Valid ∧ c.group.Valid
instance (c : GroupRef) : Decidable c.Valid := by unfold GroupRef.Valid; infer_instance

/-! ## users, permissions, personal access tokens -/

inductive UserStatus where
  | active | inactive
deriving Repr, DecidableEq

structure TopicPerm where
  id : Nat
  flags : List Bool
deriving Repr, DecidableEq

def TopicPerm.Valid (t : TopicPerm) : Prop := t.id < 2 ^ 32 ∧ t.flags.length = 4
instance (t : TopicPerm) : Decidable t.Valid := by unfold TopicPerm.Valid; infer_instance

/-- `topics = []`: no topic map (N1) -/
structure StreamPerm where
  id : Nat
  flags : List Bool
  topics : List TopicPerm
deriving Repr, DecidableEq

def StreamPerm.Valid (s : StreamPerm) : Prop :=
  s.id < 2 ^ 32 ∧ s.flags.length = 6 ∧ (∀ t ∈ s.topics, t.Valid) ∧ (s.topics.map (·.id)).Nodup
instance (s : StreamPerm) : Decidable s.Valid := by unfold StreamPerm.Valid; infer_instance

/-- `global`: the ten global flags in wire order; `streams = []`: no stream map (N1) -/
structure Permissions where
  global : List Bool
  streams : List StreamPerm
deriving Repr, DecidableEq

def Permissions.Valid (p : Permissions) : Prop :=
  p.global.length = 10 ∧ (∀ s ∈ p.streams, s.Valid) ∧ (p.streams.map (·.id)).Nodup
instance (p : Permissions) : Decidable p.Valid := by unfold Permissions.Valid; infer_instance

def MIN_USERNAME_LENGTH : Nat := 3
def MAX_USERNAME_LENGTH : Nat := 50
def MIN_PASSWORD_LENGTH : Nat := 3
def MAX_PASSWORD_LENGTH : Nat := 100
def MAX_PAT_LENGTH : Nat := 100
def MIN_PAT_NAME_LENGTH : Nat := 3
def MAX_PAT_NAME_LENGTH : Nat := 30

/-- encoded size of a permission record -/
def StreamPerm.size (s : StreamPerm) : Nat := 4 + 6 + 1 + 9 * s.topics.length + 1
def Permissions.size (p : Permissions) : Nat := 10 + 1 + (p.streams.map StreamPerm.size).sum

def OptPerm.Valid (o : Option Permissions) : Prop :=
  match o with
  | none => True
  | some p => p.Valid ∧ p.size < 2 ^ 32
instance (o : Option Permissions) : Decidable (OptPerm.Valid o) := by
  cases o <;> unfold OptPerm.Valid <;> infer_instance

structure CreateUser where
  username : Bytes
  password : Bytes
  status : UserStatus
  permissions : Option Permissions
deriving Repr, DecidableEq

def CreateUser.Valid (c : CreateUser) : Prop :=
  NameOk MIN_USERNAME_LENGTH MAX_USERNAME_LENGTH c.username ∧
  NameOk MIN_PASSWORD_LENGTH MAX_PASSWORD_LENGTH c.password ∧ OptPerm.Valid c.permissions
instance (c : CreateUser) : Decidable c.Valid := by unfold CreateUser.Valid; infer_instance

structure UpdateUser where
  user : Identifier
  username : Option Bytes
  status : Option UserStatus
deriving Repr, DecidableEq

def UpdateUser.Valid (c : UpdateUser) : Prop :=
  c.user.Valid ∧
  (match c.username with
   | none => True
   | some n => NameOk MIN_USERNAME_LENGTH MAX_USERNAME_LENGTH n)
instance (c : UpdateUser) : Decidable c.Valid := by
  unfold UpdateUser.Valid; cases c.username <;> infer_instance

structure UpdatePermissions where
  user : Identifier
  permissions : Option Permissions
deriving Repr, DecidableEq

def UpdatePermissions.Valid (c : UpdatePermissions) : Prop := c.user.Valid ∧ OptPerm.Valid c.permissions
instance (c : UpdatePermissions) : Decidable c.Valid := by
  unfold UpdatePermissions.Valid; infer_instance

structure ChangePassword where
  user : Identifier
  current : Bytes
  new : Bytes
deriving Repr, DecidableEq

def ChangePassword.Valid (c : ChangePassword) : Prop :=
  c.user.Valid ∧ NameOk MIN_PASSWORD_LENGTH MAX_PASSWORD_LENGTH c.current ∧
  NameOk MIN_PASSWORD_LENGTH MAX_PASSWORD_LENGTH c.new
instance (c : ChangePassword) : Decidable c.Valid := by unfold ChangePassword.Valid; infer_instance

/-- optional SDK metadata string with a u32 length, 0 for `None` (finding E2: `Some("")`) -/
def OptMeta.Valid (o : Option Bytes) : Prop :=
  match o with
  | none => True
  | some s => 1 ≤ s.length ∧ s.length < 2 ^ 32 ∧ validUtf8 s = true
instance (o : Option Bytes) : Decidable (OptMeta.Valid o) := by
  cases o <;> unfold OptMeta.Valid <;> infer_instance

structure LoginUser where
  username : Bytes
  password : Bytes
  version : Option Bytes
  context : Option Bytes
deriving Repr, DecidableEq

def LoginUser.Valid (c : LoginUser) : Prop :=
  NameOk MIN_USERNAME_LENGTH MAX_USERNAME_LENGTH c.username ∧
  NameOk MIN_PASSWORD_LENGTH MAX_PASSWORD_LENGTH c.password ∧
  OptMeta.Valid c.version ∧ OptMeta.Valid c.context
instance (c : LoginUser) : Decidable c.Valid := by unfold LoginUser.Valid; infer_instance

structure CreatePat where
  name : Bytes
  expiry : Expiry
deriving Repr, DecidableEq

def CreatePat.Valid (c : CreatePat) : Prop :=
  NameOk MIN_PAT_NAME_LENGTH MAX_PAT_NAME_LENGTH c.name ∧ c.expiry.Valid
instance (c : CreatePat) : Decidable c.Valid := by unfold CreatePat.Valid; infer_instance

/-! ## system -/

/-- snapshot compression / type codes are kept as numbers restricted by `Valid` -/
def snapshotCompressionCode (n : Nat) : Bool := 1 ≤ n && n ≤ 6
def snapshotTypeCode (n : Nat) : Bool := (1 ≤ n && n ≤ 6) || n == 100

structure GetSnapshot where
  compression : Nat
  types : List Nat
deriving Repr, DecidableEq

/-- `validate` (`All` = 100 only alone; at most 255 types, the count travelling in one byte: fix 5413855)
+ representability of the codes -/
def GetSnapshot.Valid (c : GetSnapshot) : Prop :=
  snapshotCompressionCode c.compression = true ∧ (∀ t ∈ c.types, snapshotTypeCode t = true) ∧
  c.types.length ≤ 255 ∧ (100 ∈ c.types → c.types.length ≤ 1)
instance (c : GetSnapshot) : Decidable c.Valid := by unfold GetSnapshot.Valid; infer_instance

end Iggy.Codec
