/-
C13 codec model, ENCODERS: each mirrors the `to_bytes` of its Rust source (sdk/src/**), field by field in
wire order. Decoders are written separately in `Iggy/Codec/Decode.lean`.
-/
import Iggy.Codec.Types
namespace Iggy.Codec

/-! ## sdk/src/identifier.rs, consumer.rs, messages/send_messages.rs (Partitioning), poll_messages.rs -/

/-- `Identifier::to_bytes`: kind, length, value -/
def encodeIdentifier : Identifier → Bytes
  | .numeric n => [1, 4] ++ le32 n
  | .named s => [2] ++ u8 s.length ++ s

def ConsumerKind.code : ConsumerKind → UInt8
  | .consumer => 1 | .group => 2

/-- `Consumer::to_bytes` -/
def encodeConsumer (c : Consumer) : Bytes := [c.kind.code] ++ encodeIdentifier c.id

def PartKind.code : PartKind → UInt8
  | .balanced => 1 | .partitionId => 2 | .messagesKey => 3

/-- `Partitioning::to_bytes` -/
def encodePartitioning (p : Partitioning) : Bytes := [p.kind.code] ++ u8 p.value.length ++ p.value

def PollingKind.code : PollingKind → UInt8
  | .offset => 1 | .timestamp => 2 | .first => 3 | .last => 4 | .next => 5

/-- `PollingStrategy::to_bytes` -/
def encodeStrategy (s : PollingStrategy) : Bytes := [s.kind.code] ++ le64 s.value

/-- `put_u32_le(x.unwrap_or(0))` -/
def encodeOptId (o : Option Nat) : Bytes := le32 (o.getD 0)

/-! ## sdk/src/models/header.rs -/

def HeaderKind.code : HeaderKind → UInt8
  | .raw => 1 | .string => 2 | .bool => 3 | .int8 => 4 | .int16 => 5 | .int32 => 6 | .int64 => 7
  | .int128 => 8 | .uint8 => 9 | .uint16 => 10 | .uint32 => 11 | .uint64 => 12 | .uint128 => 13
  | .float32 => 14 | .float64 => 15

def encodeHeader (h : Header) : Bytes :=
  le32 h.key.length ++ h.key ++ [h.kind.code] ++ le32 h.value.length ++ h.value

/-- `HashMap<HeaderKey, HeaderValue>::to_bytes` (entries in the map's iteration order) -/
def encodeHeaders : List Header → Bytes
  | [] => []
  | h :: hs => encodeHeader h ++ encodeHeaders hs

/-! ## sdk/src/messages/send_messages.rs -/

/-- `Message::to_bytes`: id, headers length, headers, payload length, payload -/
def encodeMessage (m : Message) : Bytes :=
  le128 m.id ++ le32 (encodeHeaders m.headers).length ++ encodeHeaders m.headers ++
  le32 m.payload.length ++ m.payload

def encodeMessages : List Message → Bytes
  | [] => []
  | m :: ms => encodeMessage m ++ encodeMessages ms

def encodeSendMessages (c : SendMessages) : Bytes :=
  encodeIdentifier c.stream ++ encodeIdentifier c.topic ++ encodePartitioning c.partitioning ++
  encodeMessages c.messages

def encodePollMessages (c : PollMessages) : Bytes :=
  encodeConsumer c.consumer ++ encodeIdentifier c.stream ++ encodeIdentifier c.topic ++
  encodeOptId c.partition ++ encodeStrategy c.strategy ++ le32 c.count ++ [boolByte c.autoCommit]

def encodeFlushUnsavedBuffer (c : FlushUnsavedBuffer) : Bytes :=
  encodeIdentifier c.stream ++ encodeIdentifier c.topic ++ le32 c.partition ++ [boolByte c.fsync]

/-! ## sdk/src/consumer_offsets -/

def encodeConsumerOffsetRef (c : ConsumerOffsetRef) : Bytes :=
  encodeConsumer c.consumer ++ encodeIdentifier c.stream ++ encodeIdentifier c.topic ++
  encodeOptId c.partition

def encodeStoreConsumerOffset (c : StoreConsumerOffset) : Bytes :=
  encodeConsumer c.consumer ++ encodeIdentifier c.stream ++ encodeIdentifier c.topic ++
  encodeOptId c.partition ++ le64 c.offset

/-! ## sdk/src/streams, topics, partitions, consumer_groups -/

def encodeCreateStream (c : CreateStream) : Bytes := encodeOptId c.id ++ encodeStr8 c.name

def encodeUpdateStream (c : UpdateStream) : Bytes := encodeIdentifier c.stream ++ encodeStr8 c.name

def encodeTopicRef (c : TopicRef) : Bytes := encodeIdentifier c.stream ++ encodeIdentifier c.topic

def Compression.code : Compression → UInt8
  | .uncompressed => 1 | .gzip => 2

/-- `u64::from(IggyExpiry)` -/
def Expiry.toNat : Expiry → Nat
  | .serverDefault => 0
  | .expireMicros n => n
  | .neverExpire => 2 ^ 64 - 1

/-- `u64::from(MaxTopicSize)` -/
def MaxTopicSize.toNat : MaxTopicSize → Nat
  | .serverDefault => 0
  | .custom n => n
  | .unlimited => 2 ^ 64 - 1

def encodeOptRf (o : Option Nat) : Bytes := u8 (o.getD 0)

def encodeCreateTopic (c : CreateTopic) : Bytes :=
  encodeIdentifier c.stream ++ encodeOptId c.id ++ le32 c.partitions ++ [c.compression.code] ++
  le64 c.expiry.toNat ++ le64 c.maxSize.toNat ++ encodeOptRf c.replication ++ encodeStr8 c.name

def encodeUpdateTopic (c : UpdateTopic) : Bytes :=
  encodeIdentifier c.stream ++ encodeIdentifier c.topic ++ [c.compression.code] ++
  le64 c.expiry.toNat ++ le64 c.maxSize.toNat ++ encodeOptRf c.replication ++ encodeStr8 c.name

def encodePartitions (c : Partitions) : Bytes :=
  encodeIdentifier c.stream ++ encodeIdentifier c.topic ++ le32 c.count

def encodeCreateConsumerGroup (c : CreateConsumerGroup) : Bytes :=
  encodeIdentifier c.stream ++ encodeIdentifier c.topic ++ encodeOptId c.id ++ encodeStr8 c.name

def encodeGroupRef (c : GroupRef) : Bytes :=
  encodeIdentifier c.stream ++ encodeIdentifier c.topic ++ encodeIdentifier c.group

/-! ## sdk/src/models/permissions.rs, users, personal_access_tokens -/

def encodeFlags (fs : List Bool) : Bytes := fs.map boolByte

/-- topic entries, each followed by the "one more follows" byte -/
def encodeTopicPerms : List TopicPerm → Bytes
  | [] => []
  | [t] => le32 t.id ++ encodeFlags t.flags ++ [0]
  | t :: t' :: ts => le32 t.id ++ encodeFlags t.flags ++ [1] ++ encodeTopicPerms (t' :: ts)

/-- one stream entry without its continuation byte; an empty topic map is written as absent -/
def encodeStreamPerm (s : StreamPerm) : Bytes :=
  le32 s.id ++ encodeFlags s.flags ++
  (if s.topics = [] then [0] else [1] ++ encodeTopicPerms s.topics)

def encodeStreamPerms : List StreamPerm → Bytes
  | [] => []
  | [s] => encodeStreamPerm s ++ [0]
  | s :: s' :: ss => encodeStreamPerm s ++ [1] ++ encodeStreamPerms (s' :: ss)

/-- `Permissions::to_bytes`; an empty stream map is written as absent (fix ed23352) -/
def encodePermissions (p : Permissions) : Bytes :=
  encodeFlags p.global ++ (if p.streams = [] then [0] else [1] ++ encodeStreamPerms p.streams)

def UserStatus.code : UserStatus → UInt8
  | .active => 1 | .inactive => 2

/-- presence byte, `u32` length, permissions -/
def encodeOptPerm : Option Permissions → Bytes
  | none => [0]
  | some p => [1] ++ le32 (encodePermissions p).length ++ encodePermissions p

def encodeCreateUser (c : CreateUser) : Bytes :=
  encodeStr8 c.username ++ encodeStr8 c.password ++ [c.status.code] ++ encodeOptPerm c.permissions

def encodeUpdateUser (c : UpdateUser) : Bytes :=
  encodeIdentifier c.user ++
  (match c.username with | none => [0] | some n => [1] ++ encodeStr8 n) ++
  (match c.status with | none => [0] | some s => [1, s.code])

def encodeUpdatePermissions (c : UpdatePermissions) : Bytes :=
  encodeIdentifier c.user ++ encodeOptPerm c.permissions

def encodeChangePassword (c : ChangePassword) : Bytes :=
  encodeIdentifier c.user ++ encodeStr8 c.current ++ encodeStr8 c.new

def encodeOptMeta : Option Bytes → Bytes
  | none => le32 0
  | some s => le32 s.length ++ s

def encodeLoginUser (c : LoginUser) : Bytes :=
  encodeStr8 c.username ++ encodeStr8 c.password ++ encodeOptMeta c.version ++ encodeOptMeta c.context

def encodeCreatePat (c : CreatePat) : Bytes := encodeStr8 c.name ++ le64 c.expiry.toNat

/-! ## sdk/src/system -/

def encodeGetSnapshot (c : GetSnapshot) : Bytes :=
  u8 c.compression ++ u8 c.types.length ++ c.types.map UInt8.ofNat

end Iggy.Codec
