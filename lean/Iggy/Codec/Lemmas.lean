/-
C13 codec model: helper lemmas and the round-trip / length proofs, re-exported as the property theorems
in `Iggy/Props/C13.lean`.
-/
import Iggy.Codec.Frame
import Iggy.Codec.Storage
import Iggy.Codec.Journal
namespace Iggy.Codec

/-! ## little-endian integers and the primitive readers -/

theorem leBytes_length (k n : Nat) : (leBytes k n).length = k := by
  induction k generalizing n with
  | zero => rfl
  | succ k ih => simp [leBytes, ih]

@[simp] theorem le16_length (n : Nat) : (le16 n).length = 2 := leBytes_length 2 n
@[simp] theorem le32_length (n : Nat) : (le32 n).length = 4 := leBytes_length 4 n
@[simp] theorem le64_length (n : Nat) : (le64 n).length = 8 := leBytes_length 8 n
@[simp] theorem le128_length (n : Nat) : (le128 n).length = 16 := leBytes_length 16 n
@[simp] theorem u8_length (n : Nat) : (u8 n).length = 1 := rfl

theorem toNat_ofNat_mod (n : Nat) : (UInt8.ofNat (n % 256)).toNat = n % 256 :=
  UInt8.toNat_ofNat_of_lt' (Nat.mod_lt _ (by decide))

theorem u8_toNat {n : Nat} (h : n < 256) : (UInt8.ofNat n).toNat = n := UInt8.toNat_ofNat_of_lt' h

theorem leVal_leBytes (k n : Nat) : leVal (leBytes k n) = n % 256 ^ k := by
  induction k generalizing n with
  | zero => simp [leBytes, leVal, Nat.mod_one]
  | succ k ih =>
    simp only [leBytes, leVal, ih, toNat_ofNat_mod]
    rw [Nat.pow_succ, Nat.mul_comm (256 ^ k) 256, Nat.mod_mul]

theorem leVal_leBytes_of_lt {k n : Nat} (h : n < 256 ^ k) : leVal (leBytes k n) = n := by
  rw [leVal_leBytes, Nat.mod_eq_of_lt h]

@[simp] theorem takeN_append (a rest : Bytes) : takeN a.length (a ++ rest) = some (a, rest) := by
  simp [takeN]

theorem takeN_append' {n : Nat} (a rest : Bytes) (h : a.length = n) :
    takeN n (a ++ rest) = some (a, rest) := by
  subst h; simp

theorem takeN_self (a : Bytes) : takeN a.length a = some (a, []) := by
  simpa using takeN_append a []

theorem readLE_append {k n : Nat} (rest : Bytes) (h : n < 256 ^ k) :
    readLE k (leBytes k n ++ rest) = some (n, rest) := by
  simp [readLE, takeN_append' _ _ (leBytes_length k n), leVal_leBytes_of_lt h]

theorem readLE4 {n : Nat} (rest : Bytes) (h : n < 2 ^ 32) :
    readLE 4 (le32 n ++ rest) = some (n, rest) := readLE_append rest (by simpa using h)
theorem readLE8 {n : Nat} (rest : Bytes) (h : n < 2 ^ 64) :
    readLE 8 (le64 n ++ rest) = some (n, rest) := readLE_append rest (by simpa using h)
theorem readLE16 {n : Nat} (rest : Bytes) (h : n < 2 ^ 128) :
    readLE 16 (le128 n ++ rest) = some (n, rest) := readLE_append rest (by simpa using h)

@[simp] theorem readU8_cons (b : UInt8) (r : Bytes) : readU8 (b :: r) = some (b.toNat, r) := rfl

theorem readU8_u8 {n : Nat} (rest : Bytes) (h : n < 256) : readU8 (u8 n ++ rest) = some (n, rest) := by
  simp [u8, u8_toNat h]

@[simp] theorem boolByte_eq_one (b : Bool) : ((boolByte b).toNat == 1) = b := by
  cases b <;> rfl

/-! ## strings with a one-byte length -/

@[simp] theorem encodeStr8_length (s : Bytes) : (encodeStr8 s).length = 1 + s.length := by
  simp [encodeStr8]

theorem str8_roundtrip (s rest : Bytes) (hl : s.length < 256) (hu : validUtf8 s = true) :
    decodeStr8 (encodeStr8 s ++ rest) = some (s, rest) := by
  simp [decodeStr8, encodeStr8, u8, u8_toNat hl, hu]

theorem str8_roundtrip_name {min max : Nat} (s rest : Bytes) (h : NameOk min max s) (hm : max ≤ 255) :
    decodeStr8 (encodeStr8 s ++ rest) = some (s, rest) :=
  str8_roundtrip s rest (by have := h.2.1; omega) h.2.2

/-! ## identifiers -/

theorem encodeIdentifier_length (i : Identifier) :
    (encodeIdentifier i).length = match i with | .numeric _ => 6 | .named s => 2 + s.length := by
  cases i <;> simp [encodeIdentifier] <;> omega

/-- `min_length_ok` for `Identifier::from_bytes` (guard: 3) -/
theorem identifier_min_length (i : Identifier) (h : i.Valid) :
    IDENTIFIER_MIN_LEN ≤ (encodeIdentifier i).length := by
  cases i with
  | numeric n => simp [encodeIdentifier, IDENTIFIER_MIN_LEN]
  | named s => simp [Identifier.Valid] at h; simp [encodeIdentifier, IDENTIFIER_MIN_LEN]; omega

theorem identifier_roundtrip (i : Identifier) (rest : Bytes) (h : i.Valid) :
    decodeIdentifier (encodeIdentifier i ++ rest) = some (i, rest) := by
  cases i with
  | numeric n =>
    simp only [Identifier.Valid] at h
    simp [decodeIdentifier, encodeIdentifier, IDENTIFIER_MIN_LEN, IdKind.ofCode, le32, leBytes_length,
      takeN_append' _ _ (leBytes_length 4 n), leVal_leBytes_of_lt (k := 4) (by simpa using h)]
    omega
  | named s =>
    simp only [Identifier.Valid] at h
    have h256 : s.length < 256 := by omega
    have hne : s ≠ [] := by intro h0; simp [h0] at h
    simp [decodeIdentifier, encodeIdentifier, IDENTIFIER_MIN_LEN, IdKind.ofCode, u8, u8_toNat h256, hne]
    omega

/-! ## consumer, partitioning, polling strategy, optional ids -/

theorem consumerBody_roundtrip (c : Consumer) (rest : Bytes) (h : c.Valid) :
    decodeConsumerBody (encodeConsumer c ++ rest) = some (c, rest) := by
  obtain ⟨kind, id⟩ := c
  simp only [Consumer.Valid] at h
  cases kind <;>
    simp [decodeConsumerBody, encodeConsumer, ConsumerKind.code, ConsumerKind.ofCode,
      identifier_roundtrip _ _ h]

theorem consumer_min_length (c : Consumer) (h : c.Valid) :
    CONSUMER_MIN_LEN ≤ (encodeConsumer c).length := by
  have := identifier_min_length c.id h
  simp [encodeConsumer, CONSUMER_MIN_LEN, IDENTIFIER_MIN_LEN] at *
  omega

theorem consumer_roundtrip (c : Consumer) (rest : Bytes) (h : c.Valid) :
    decodeConsumer (encodeConsumer c ++ rest) = some (c, rest) := by
  have hg := consumer_min_length c h
  have : ¬ (encodeConsumer c ++ rest).length < CONSUMER_MIN_LEN := by
    simp [List.length_append]; omega
  simp only [decodeConsumer, this, if_false]
  exact consumerBody_roundtrip c rest h

theorem partitioning_length (p : Partitioning) : (encodePartitioning p).length = 2 + p.value.length := by
  simp [encodePartitioning]; omega

/-- `Partitioning::from_bytes` refuses a buffer of fewer than 3 bytes, and the balanced partitioning is 2
bytes long: it only decodes when something follows (a message always does inside `SendMessages`). -/
theorem partitioning_roundtrip (p : Partitioning) (rest : Bytes) (h : p.Valid)
    (hrest : p.kind = .balanced → p.value = [] → rest ≠ []) :
    decodePartitioning (encodePartitioning p ++ rest) = some (p, rest) := by
  obtain ⟨kind, value⟩ := p
  simp only [Partitioning.Valid] at h
  have h256 : value.length < 256 := by omega
  have hg : ¬ (encodePartitioning ⟨kind, value⟩ ++ rest).length < PARTITIONING_MIN_LEN := by
    simp only [List.length_append, partitioning_length, PARTITIONING_MIN_LEN]
    cases hv : value with
    | nil =>
      cases hk : kind with
      | balanced =>
        have := hrest hk hv
        cases rest with
        | nil => exact absurd rfl this
        | cons => simp; omega
      | partitionId => have := h.2 (by simp [hk]); simp [hv] at this
      | messagesKey => have := h.2 (by simp [hk]); simp [hv] at this
    | cons => simp; omega
  simp only [decodePartitioning, hg, if_false]
  cases kind <;>
    simp [encodePartitioning, PartKind.code, PartKind.ofCode, u8, u8_toNat h256]

theorem strategyBody_roundtrip (s : PollingStrategy) (rest : Bytes) (h : s.Valid) :
    decodeStrategyBody (encodeStrategy s ++ rest) = some (s, rest) := by
  obtain ⟨kind, value⟩ := s
  simp only [PollingStrategy.Valid] at h
  cases kind <;>
    simp [decodeStrategyBody, encodeStrategy, PollingKind.code, PollingKind.ofCode, readLE8 _ h]

theorem strategy_roundtrip (s : PollingStrategy) (h : s.Valid) :
    decodeStrategy (encodeStrategy s) = some s := by
  have hb := strategyBody_roundtrip s [] h
  simp only [List.append_nil] at hb
  have hl : (encodeStrategy s).length = 9 := by simp [encodeStrategy]
  simp [decodeStrategy, hb, hl]

theorem optId_roundtrip (o : Option Nat) (rest : Bytes) (h : OptId.Valid o) :
    decodeOptId (encodeOptId o ++ rest) = some (o, rest) := by
  cases o with
  | none => simp [decodeOptId, encodeOptId, readLE4 rest (n := 0) (by decide)]
  | some n =>
    simp only [OptId.Valid] at h
    have : n ≠ 0 := by omega
    simp [decodeOptId, encodeOptId, readLE4 rest h.2, this]

@[simp] theorem encodeOptId_length (o : Option Nat) : (encodeOptId o).length = 4 := by
  simp [encodeOptId]

/-! ## commands made of identifiers, integers and names -/

/-- discharges `¬ (enc ++ rest).length < N` from `N ≤ enc.length` -/
theorem guard_ok {enc rest : Bytes} {n : Nat} (h : n ≤ enc.length) : ¬ (enc ++ rest).length < n := by
  simp [List.length_append]; omega

theorem pollMessages_min_length (c : PollMessages) (h : c.Valid) :
    POLL_MESSAGES_MIN_LEN ≤ (encodePollMessages c).length := by
  obtain ⟨hc, hs, ht, _, _, _⟩ := h
  have h1 := consumer_min_length _ hc
  have h2 := identifier_min_length _ hs
  have h3 := identifier_min_length _ ht
  simp [encodePollMessages, POLL_MESSAGES_MIN_LEN, CONSUMER_MIN_LEN, IDENTIFIER_MIN_LEN,
    encodeStrategy] at *
  omega

theorem pollMessages_roundtrip (c : PollMessages) (rest : Bytes) (h : c.Valid) :
    decodePollMessages (encodePollMessages c ++ rest) = some c := by
  have hg := guard_ok (rest := rest) (pollMessages_min_length c h)
  obtain ⟨hc, hs, ht, hp, hst, hcnt⟩ := h
  simp only [decodePollMessages, hg, if_false]
  simp [encodePollMessages, List.append_assoc, consumerBody_roundtrip _ _ hc,
    identifier_roundtrip _ _ hs, identifier_roundtrip _ _ ht, optId_roundtrip _ _ hp,
    strategyBody_roundtrip _ _ hst, readLE4 _ hcnt]

theorem flushUnsavedBuffer_roundtrip (c : FlushUnsavedBuffer) (rest : Bytes) (h : c.Valid) :
    decodeFlushUnsavedBuffer (encodeFlushUnsavedBuffer c ++ rest) = some c := by
  obtain ⟨hs, ht, hp⟩ := h
  simp [decodeFlushUnsavedBuffer, encodeFlushUnsavedBuffer, List.append_assoc,
    identifier_roundtrip _ _ hs, identifier_roundtrip _ _ ht, readLE4 _ hp]

theorem consumerOffsetRef_min_length (c : ConsumerOffsetRef) (h : c.Valid) :
    CONSUMER_OFFSET_MIN_LEN ≤ (encodeConsumerOffsetRef c).length := by
  obtain ⟨hc, hs, ht, _⟩ := h
  have h1 := consumer_min_length _ hc
  have h2 := identifier_min_length _ hs
  have h3 := identifier_min_length _ ht
  simp [encodeConsumerOffsetRef, CONSUMER_OFFSET_MIN_LEN, CONSUMER_MIN_LEN, IDENTIFIER_MIN_LEN] at *
  omega

theorem consumerOffsetRef_roundtrip (c : ConsumerOffsetRef) (rest : Bytes) (h : c.Valid) :
    decodeConsumerOffsetRef (encodeConsumerOffsetRef c ++ rest) = some c := by
  have hg := guard_ok (rest := rest) (consumerOffsetRef_min_length c h)
  obtain ⟨hc, hs, ht, hp⟩ := h
  simp only [decodeConsumerOffsetRef, hg, if_false]
  simp [encodeConsumerOffsetRef, List.append_assoc, consumerBody_roundtrip _ _ hc,
    identifier_roundtrip _ _ hs, identifier_roundtrip _ _ ht, optId_roundtrip _ _ hp]

theorem storeConsumerOffset_min_length (c : StoreConsumerOffset) (h : c.Valid) :
    STORE_CONSUMER_OFFSET_MIN_LEN ≤ (encodeStoreConsumerOffset c).length := by
  obtain ⟨hc, hs, ht, _, _⟩ := h
  have h1 := consumer_min_length _ hc
  have h2 := identifier_min_length _ hs
  have h3 := identifier_min_length _ ht
  simp [encodeStoreConsumerOffset, STORE_CONSUMER_OFFSET_MIN_LEN, CONSUMER_MIN_LEN,
    IDENTIFIER_MIN_LEN] at *
  omega

theorem storeConsumerOffset_roundtrip (c : StoreConsumerOffset) (rest : Bytes) (h : c.Valid) :
    decodeStoreConsumerOffset (encodeStoreConsumerOffset c ++ rest) = some c := by
  have hg := guard_ok (rest := rest) (storeConsumerOffset_min_length c h)
  obtain ⟨hc, hs, ht, hp, ho⟩ := h
  simp only [decodeStoreConsumerOffset, hg, if_false]
  simp [encodeStoreConsumerOffset, List.append_assoc, consumerBody_roundtrip _ _ hc,
    identifier_roundtrip _ _ hs, identifier_roundtrip _ _ ht, optId_roundtrip _ _ hp, readLE8 _ ho]

theorem createStream_min_length (c : CreateStream) (h : c.Valid) :
    CREATE_STREAM_MIN_LEN ≤ (encodeCreateStream c).length := by
  obtain ⟨_, hn, _, _⟩ := h
  simp [encodeCreateStream, CREATE_STREAM_MIN_LEN] at *
  omega

theorem createStream_roundtrip (c : CreateStream) (rest : Bytes) (h : c.Valid) :
    decodeCreateStream (encodeCreateStream c ++ rest) = some c := by
  have hg := guard_ok (rest := rest) (createStream_min_length c h)
  obtain ⟨hi, hn⟩ := h
  simp only [decodeCreateStream, hg, if_false]
  simp [encodeCreateStream, List.append_assoc, optId_roundtrip _ _ hi,
    str8_roundtrip_name _ _ hn (Nat.le_refl _)]

theorem updateStream_min_length (c : UpdateStream) (h : c.Valid) :
    UPDATE_STREAM_MIN_LEN ≤ (encodeUpdateStream c).length := by
  obtain ⟨hs, hn, _, _⟩ := h
  have h1 := identifier_min_length _ hs
  simp [encodeUpdateStream, UPDATE_STREAM_MIN_LEN, IDENTIFIER_MIN_LEN] at *
  omega

theorem updateStream_roundtrip (c : UpdateStream) (rest : Bytes) (h : c.Valid) :
    decodeUpdateStream (encodeUpdateStream c ++ rest) = some c := by
  have hg := guard_ok (rest := rest) (updateStream_min_length c h)
  obtain ⟨hs, hn⟩ := h
  simp only [decodeUpdateStream, hg, if_false]
  simp [encodeUpdateStream, List.append_assoc, identifier_roundtrip _ _ hs,
    str8_roundtrip_name _ _ hn (Nat.le_refl _)]

theorem singleId_min_length (i : Identifier) (h : i.Valid) :
    SINGLE_ID_MIN_LEN ≤ (encodeIdentifier i).length := identifier_min_length i h

theorem singleId_roundtrip (i : Identifier) (rest : Bytes) (h : i.Valid) :
    decodeSingleId (encodeIdentifier i ++ rest) = some i := by
  have hg := guard_ok (rest := rest) (singleId_min_length i h)
  simp only [decodeSingleId, hg, if_false, identifier_roundtrip _ _ h]

theorem topicRef_min_length (c : TopicRef) (h : c.Valid) :
    TOPIC_REF_MIN_LEN ≤ (encodeTopicRef c).length := by
  obtain ⟨hs, ht⟩ := h
  have h1 := identifier_min_length _ hs
  have h2 := identifier_min_length _ ht
  simp [encodeTopicRef, TOPIC_REF_MIN_LEN, IDENTIFIER_MIN_LEN] at *
  omega

theorem topicRef_roundtrip (c : TopicRef) (rest : Bytes) (h : c.Valid) :
    decodeTopicRef (encodeTopicRef c ++ rest) = some c := by
  have hg := guard_ok (rest := rest) (topicRef_min_length c h)
  obtain ⟨hs, ht⟩ := h
  simp only [decodeTopicRef, hg, if_false]
  simp [encodeTopicRef, List.append_assoc, identifier_roundtrip _ _ hs, identifier_roundtrip _ _ ht]

theorem partitions_min_length (c : Partitions) (h : c.Valid) :
    PARTITIONS_MIN_LEN ≤ (encodePartitions c).length := by
  obtain ⟨hs, ht, _⟩ := h
  have h1 := identifier_min_length _ hs
  have h2 := identifier_min_length _ ht
  simp [encodePartitions, PARTITIONS_MIN_LEN, IDENTIFIER_MIN_LEN] at *
  omega

theorem partitions_roundtrip (c : Partitions) (rest : Bytes) (h : c.Valid) :
    decodePartitions (encodePartitions c ++ rest) = some c := by
  have hg := guard_ok (rest := rest) (partitions_min_length c h)
  obtain ⟨hs, ht, h1, h2⟩ := h
  have hc : c.count < 2 ^ 32 := by simp [MAX_PARTITIONS_COUNT] at h2; omega
  simp only [decodePartitions, hg, if_false]
  simp [encodePartitions, List.append_assoc, identifier_roundtrip _ _ hs, identifier_roundtrip _ _ ht,
    readLE4 _ hc]

theorem createConsumerGroup_min_length (c : CreateConsumerGroup) (h : c.Valid) :
    CREATE_CONSUMER_GROUP_MIN_LEN ≤ (encodeCreateConsumerGroup c).length := by
  obtain ⟨hs, ht, _, _⟩ := h
  have h1 := identifier_min_length _ hs
  have h2 := identifier_min_length _ ht
  simp [encodeCreateConsumerGroup, CREATE_CONSUMER_GROUP_MIN_LEN, IDENTIFIER_MIN_LEN] at *
  omega

theorem createConsumerGroup_roundtrip (c : CreateConsumerGroup) (rest : Bytes) (h : c.Valid) :
    decodeCreateConsumerGroup (encodeCreateConsumerGroup c ++ rest) = some c := by
  have hg := guard_ok (rest := rest) (createConsumerGroup_min_length c h)
  obtain ⟨hs, ht, hi, hn⟩ := h
  simp only [decodeCreateConsumerGroup, hg, if_false]
  simp [encodeCreateConsumerGroup, List.append_assoc, identifier_roundtrip _ _ hs,
    identifier_roundtrip _ _ ht, optId_roundtrip _ _ hi, str8_roundtrip_name _ _ hn (Nat.le_refl _)]

theorem groupRef_min_length (c : GroupRef) (h : c.Valid) :
    GROUP_REF_MIN_LEN ≤ (encodeGroupRef c).length := by
  obtain ⟨hs, ht, hgr⟩ := h
  have h1 := identifier_min_length _ hs
  have h2 := identifier_min_length _ ht
  have h3 := identifier_min_length _ hgr
  simp [encodeGroupRef, GROUP_REF_MIN_LEN, IDENTIFIER_MIN_LEN] at *
  omega

theorem groupRef_roundtrip (c : GroupRef) (rest : Bytes) (h : c.Valid) :
    decodeGroupRef (encodeGroupRef c ++ rest) = some c := by
  have hg := guard_ok (rest := rest) (groupRef_min_length c h)
  obtain ⟨hs, ht, hgr⟩ := h
  simp only [decodeGroupRef, hg, if_false]
  simp [encodeGroupRef, List.append_assoc, identifier_roundtrip _ _ hs, identifier_roundtrip _ _ ht,
    identifier_roundtrip _ _ hgr]

/-! ## topics -/

theorem expiry_lt (e : Expiry) (h : e.Valid) : e.toNat < 2 ^ 64 := by
  cases e with
  | expireMicros n => simp only [Expiry.Valid] at h; simp only [Expiry.toNat]; omega
  | serverDefault => simp [Expiry.toNat]
  | neverExpire => simp [Expiry.toNat]

theorem expiry_roundtrip (e : Expiry) (h : e.Valid) : Expiry.ofNat e.toNat = e := by
  cases e with
  | expireMicros n =>
    simp only [Expiry.Valid] at h
    have h1 : n ≠ 2 ^ 64 - 1 := by omega
    have h2 : n ≠ 0 := by omega
    simp [Expiry.toNat, Expiry.ofNat, h1, h2]
  | serverDefault => simp [Expiry.toNat, Expiry.ofNat]
  | neverExpire => simp [Expiry.toNat, Expiry.ofNat]

theorem maxTopicSize_lt (e : MaxTopicSize) (h : e.Valid) : e.toNat < 2 ^ 64 := by
  cases e with
  | custom n => simp only [MaxTopicSize.Valid] at h; simp only [MaxTopicSize.toNat]; omega
  | serverDefault => simp [MaxTopicSize.toNat]
  | unlimited => simp [MaxTopicSize.toNat]

theorem maxTopicSize_roundtrip (e : MaxTopicSize) (h : e.Valid) : MaxTopicSize.ofNat e.toNat = e := by
  cases e with
  | custom n =>
    simp only [MaxTopicSize.Valid] at h
    have h1 : n ≠ 2 ^ 64 - 1 := by omega
    have h2 : n ≠ 0 := by omega
    simp [MaxTopicSize.toNat, MaxTopicSize.ofNat, h1, h2]
  | serverDefault => simp [MaxTopicSize.toNat, MaxTopicSize.ofNat]
  | unlimited => simp [MaxTopicSize.toNat, MaxTopicSize.ofNat]

theorem optRf_roundtrip (o : Option Nat) (rest : Bytes) (h : OptRf.Valid o) :
    decodeOptRf (encodeOptRf o ++ rest) = some (o, rest) := by
  cases o with
  | none => simp [decodeOptRf, encodeOptRf, u8]
  | some n =>
    simp only [OptRf.Valid] at h
    have : n ≠ 0 := by omega
    simp [decodeOptRf, encodeOptRf, u8, u8_toNat h.2, this]

@[simp] theorem encodeOptRf_length (o : Option Nat) : (encodeOptRf o).length = 1 := by
  simp [encodeOptRf]

theorem compression_roundtrip (c : Compression) : Compression.ofCode c.code.toNat = some c := by
  cases c <;> rfl

theorem createTopic_min_length (c : CreateTopic) (h : c.Valid) :
    CREATE_TOPIC_MIN_LEN ≤ (encodeCreateTopic c).length := by
  obtain ⟨hs, _⟩ := h
  have h1 := identifier_min_length _ hs
  simp [encodeCreateTopic, CREATE_TOPIC_MIN_LEN, IDENTIFIER_MIN_LEN] at *
  omega

theorem createTopic_roundtrip (c : CreateTopic) (rest : Bytes) (h : c.Valid) :
    decodeCreateTopic (encodeCreateTopic c ++ rest) = some c := by
  have hg := guard_ok (rest := rest) (createTopic_min_length c h)
  obtain ⟨hs, hi, hp, he, hm, hr, hn⟩ := h
  have hp' : c.partitions < 2 ^ 32 := by simp [MAX_PARTITIONS_COUNT] at hp; omega
  simp only [decodeCreateTopic, hg, if_false]
  simp [encodeCreateTopic, List.append_assoc, identifier_roundtrip _ _ hs, optId_roundtrip _ _ hi,
    readLE4 _ hp', compression_roundtrip, readLE8 _ (expiry_lt _ he), readLE8 _ (maxTopicSize_lt _ hm),
    optRf_roundtrip _ _ hr, str8_roundtrip_name _ _ hn (Nat.le_refl _), expiry_roundtrip _ he,
    maxTopicSize_roundtrip _ hm]

theorem updateTopic_min_length (c : UpdateTopic) (h : c.Valid) :
    UPDATE_TOPIC_MIN_LEN ≤ (encodeUpdateTopic c).length := by
  obtain ⟨hs, ht, _, _, _, hn, _, _⟩ := h
  have h1 := identifier_min_length _ hs
  have h2 := identifier_min_length _ ht
  simp [encodeUpdateTopic, UPDATE_TOPIC_MIN_LEN, IDENTIFIER_MIN_LEN] at *
  omega

theorem updateTopic_roundtrip (c : UpdateTopic) (rest : Bytes) (h : c.Valid) :
    decodeUpdateTopic (encodeUpdateTopic c ++ rest) = some c := by
  have hg := guard_ok (rest := rest) (updateTopic_min_length c h)
  obtain ⟨hs, ht, he, hm, hr, hn⟩ := h
  simp only [decodeUpdateTopic, hg, if_false]
  simp [encodeUpdateTopic, List.append_assoc, identifier_roundtrip _ _ hs, identifier_roundtrip _ _ ht,
    compression_roundtrip, readLE8 _ (expiry_lt _ he), readLE8 _ (maxTopicSize_lt _ hm),
    optRf_roundtrip _ _ hr, str8_roundtrip_name _ _ hn (Nat.le_refl _), expiry_roundtrip _ he,
    maxTopicSize_roundtrip _ hm]

/-! ## message headers -/

theorem headerKind_roundtrip (k : HeaderKind) : HeaderKind.ofCode k.code.toNat = some k := by
  cases k <;> rfl

theorem encodeHeader_length (h : Header) : (encodeHeader h).length = h.size := by
  simp [encodeHeader, Header.size]; omega

theorem encodeHeaders_length (hs : List Header) : (encodeHeaders hs).length = headersSize hs := by
  induction hs with
  | nil => rfl
  | cons h hs ih => simp [encodeHeaders, headersSize, encodeHeader_length, ih] at *

theorem headersSize_ge (hs : List Header) : hs.length ≤ headersSize hs := by
  induction hs with
  | nil => simp [headersSize]
  | cons h hs ih => simp [headersSize, Header.size] at *; omega

theorem header_roundtrip (h : Header) (rest : Bytes) (hv : h.Valid) :
    decodeHeader (encodeHeader h ++ rest) = some (h, rest) := by
  obtain ⟨⟨hk1, hk2, hku⟩, hv1, hv2, _⟩ := hv
  have a1 : h.key.length < 2 ^ 32 := by omega
  have a2 : h.value.length < 2 ^ 32 := by omega
  have a3 : h.key ≠ [] := by intro h0; simp [h0] at hk1
  have a4 : h.value ≠ [] := by intro h0; simp [h0] at hv1
  simp [decodeHeader, encodeHeader, List.append_assoc, readLE4 _ a1, readLE4 _ a2, a3, a4, hku,
    headerKind_roundtrip, hk2, hv2]

theorem insertHeader_new (acc : List Header) (h : Header) (hn : h.key ∉ acc.map (·.key)) :
    insertHeader acc h = acc ++ [h] := by
  have : acc.any (fun x => x.key == h.key) = false := by
    rw [List.any_eq_false]
    intro x hx hk
    exact hn (by simp only [List.mem_map]; exact ⟨x, hx, by simpa using hk⟩)
  simp [insertHeader, this]

theorem decodeHeadersAux_roundtrip (hs acc : List Header) (fuel : Nat) (hf : hs.length ≤ fuel)
    (hv : ∀ h ∈ hs, h.Valid) (hd : ((acc ++ hs).map (·.key)).Nodup) :
    decodeHeadersAux fuel (encodeHeaders hs) acc = some (acc ++ hs) := by
  induction hs generalizing acc fuel with
  | nil => cases fuel <;> simp [decodeHeadersAux, encodeHeaders]
  | cons h hs ih =>
    cases fuel with
    | zero => simp at hf
    | succ fuel =>
      have hne : (encodeHeaders (h :: hs)).isEmpty = false := by
        have := encodeHeaders_length (h :: hs)
        have := headersSize_ge (h :: hs)
        cases hh : encodeHeaders (h :: hs) with
        | nil => simp [hh] at *; omega
        | cons => rfl
      have hnew : h.key ∉ acc.map (·.key) := by
        simp only [List.map_append, List.map_cons] at hd
        have := (List.nodup_append.1 hd).2.2
        intro hm
        exact this _ hm _ (List.mem_cons_self) rfl
      rw [decodeHeadersAux, hne]
      simp only [encodeHeaders, Bool.false_eq_true, if_false, header_roundtrip _ _ (hv h (List.mem_cons_self)),
        insertHeader_new _ _ hnew]
      rw [ih (acc ++ [h]) fuel (by simp at hf; omega) (fun x hx => hv x (List.mem_cons_of_mem _ hx))
        (by simpa using hd)]
      simp

theorem headers_roundtrip (hs : List Header) (h : HeadersValid hs) :
    decodeHeaders (encodeHeaders hs) = some hs := by
  have := decodeHeadersAux_roundtrip hs [] (encodeHeaders hs).length
    (by rw [encodeHeaders_length]; exact headersSize_ge hs) h.1 (by simpa [keysDistinct] using h.2)
  simpa [decodeHeaders] using this

/-! ## messages -/

/-- the message the decoder returns: id 0 replaced by the fresh one (N2) -/
def Message.withId (fresh : Nat) (m : Message) : Message :=
  { m with id := if m.id = 0 then fresh else m.id }

theorem encodeMessage_length (m : Message) :
    (encodeMessage m).length = 16 + 4 + headersSize m.headers + 4 + m.payload.length := by
  simp [encodeMessage, encodeHeaders_length]; omega

/-- `min_length_ok` for `Message::from_bytes` (guard: 24) -/
theorem message_min_length (m : Message) : MESSAGE_MIN_LEN ≤ (encodeMessage m).length := by
  rw [encodeMessage_length]; simp [MESSAGE_MIN_LEN]; omega

theorem message_roundtrip (fresh : Nat) (m : Message) (rest : Bytes) (h : m.Valid) :
    decodeMessage fresh (encodeMessage m ++ rest) = some (m.withId fresh, rest) := by
  have hg := guard_ok (rest := rest) (message_min_length m)
  obtain ⟨hid, hhv, hhs, hp1, hp2⟩ := h
  have hlen : (encodeHeaders m.headers).length < 2 ^ 32 := by rw [encodeHeaders_length]; exact hhs
  have hpne : m.payload.length ≠ 0 := by omega
  have hdrop : List.drop (16 + 4 + headersSize m.headers + 4 + m.payload.length)
      (encodeMessage m ++ rest) = rest := List.drop_left' (encodeMessage_length m)
  have hhd : (if (encodeHeaders m.headers).length > 0 then decodeHeaders (encodeHeaders m.headers)
      else some []) = some m.headers := by
    cases hh : m.headers with
    | nil => simp [encodeHeaders]
    | cons x xs =>
      have := headers_roundtrip m.headers hhv
      rw [hh] at this
      have hpos : (encodeHeaders (x :: xs)).length > 0 := by
        rw [encodeHeaders_length]; have := headersSize_ge (x :: xs); simp at this; omega
      simp [hpos, this]
  simp only [decodeMessage, hg, if_false]
  rw [show encodeMessage m ++ rest = le128 m.id ++ (le32 (encodeHeaders m.headers).length ++
      (encodeHeaders m.headers ++ (le32 m.payload.length ++ (m.payload ++ rest)))) by
    simp [encodeMessage, List.append_assoc]] at *
  simp [readLE16 _ hid, readLE4 _ hlen, hhd, readLE4 _ hp2, hpne, hdrop, Message.withId]

theorem encodeMessages_length_ge24 (ms : List Message) :
    24 * ms.length ≤ (encodeMessages ms).length := by
  induction ms with
  | nil => simp [encodeMessages]
  | cons m ms ih =>
    have := message_min_length m
    simp [encodeMessages, MESSAGE_MIN_LEN] at *; omega

theorem encodeMessages_length_ge (ms : List Message) : ms.length ≤ (encodeMessages ms).length := by
  induction ms with
  | nil => simp [encodeMessages]
  | cons m ms ih =>
    have := message_min_length m
    simp [encodeMessages, MESSAGE_MIN_LEN] at *; omega

theorem messages_roundtrip (fresh : Nat) (ms : List Message) (fuel : Nat) (hf : ms.length ≤ fuel)
    (hv : ∀ m ∈ ms, m.Valid) :
    decodeMessagesAux fresh fuel (encodeMessages ms) = some (ms.map (Message.withId fresh)) := by
  induction ms generalizing fuel with
  | nil => cases fuel <;> simp [decodeMessagesAux, encodeMessages]
  | cons m ms ih =>
    cases fuel with
    | zero => simp at hf
    | succ fuel =>
      have hne : (encodeMessages (m :: ms)).isEmpty = false := by
        have := encodeMessages_length_ge (m :: ms)
        cases hh : encodeMessages (m :: ms) with
        | nil => simp [hh] at this
        | cons => rfl
      rw [decodeMessagesAux, hne]
      simp only [encodeMessages, Bool.false_eq_true, if_false,
        message_roundtrip fresh m _ (hv m (List.mem_cons_self))]
      rw [ih fuel (by simp at hf; omega) (fun x hx => hv x (List.mem_cons_of_mem _ hx))]
      simp

def SendMessages.withIds (fresh : Nat) (c : SendMessages) : SendMessages :=
  { c with messages := c.messages.map (Message.withId fresh) }

/-- `min_length_ok` for `SendMessages::from_bytes` (guard: 11) -/
theorem sendMessages_min_length (c : SendMessages) (h : c.Valid) :
    SEND_MESSAGES_MIN_LEN ≤ (encodeSendMessages c).length := by
  obtain ⟨hs, ht, _, hne, _⟩ := h
  have h1 := identifier_min_length _ hs
  have h2 := identifier_min_length _ ht
  have h3 := encodeMessages_length_ge24 c.messages
  have h4 : 1 ≤ c.messages.length := by
    cases hm : c.messages with
    | nil => exact absurd hm hne
    | cons => simp
  simp [encodeSendMessages, SEND_MESSAGES_MIN_LEN, IDENTIFIER_MIN_LEN, partitioning_length] at *
  omega

theorem sendMessages_roundtrip (fresh : Nat) (c : SendMessages) (h : c.Valid) :
    decodeSendMessages fresh (encodeSendMessages c) = some (c.withIds fresh) := by
  have hg : ¬ (encodeSendMessages c).length < SEND_MESSAGES_MIN_LEN := by
    have := sendMessages_min_length c h; omega
  obtain ⟨hs, ht, hp, hne, hv, _, _⟩ := h
  have hrest : c.partitioning.kind = .balanced → c.partitioning.value = [] →
      encodeMessages c.messages ≠ [] := by
    intro _ _ h0
    have := encodeMessages_length_ge c.messages
    rw [h0] at this
    cases hm : c.messages with
    | nil => exact hne hm
    | cons => simp [hm] at this
  simp only [decodeSendMessages, hg, if_false]
  simp [encodeSendMessages, List.append_assoc, identifier_roundtrip _ _ hs, identifier_roundtrip _ _ ht,
    partitioning_roundtrip _ _ hp hrest,
    messages_roundtrip fresh c.messages _ (encodeMessages_length_ge c.messages) hv,
    SendMessages.withIds]

/-! ## permissions -/

@[simp] theorem boolByte_beq_one (b : Bool) : (boolByte b == 1) = b := by cases b <;> rfl

@[simp] theorem encodeFlags_length (fs : List Bool) : (encodeFlags fs).length = fs.length := by
  simp [encodeFlags]

theorem map_beq_boolByte (fs : List Bool) : (fs.map boolByte).map (fun x => x == 1) = fs := by
  induction fs with
  | nil => rfl
  | cons b bs ih => simp [ih]

theorem flags_roundtrip {n : Nat} (fs : List Bool) (rest : Bytes) (h : fs.length = n) :
    decodeFlags n (encodeFlags fs ++ rest) = some (fs, rest) := by
  unfold decodeFlags
  rw [takeN_append' (encodeFlags fs) rest (by simpa using h)]
  simp only [encodeFlags, map_beq_boolByte]

theorem insertTopicPerm_new (acc : List TopicPerm) (t : TopicPerm) (hn : t.id ∉ acc.map (·.id)) :
    insertTopicPerm acc t = acc ++ [t] := by
  have : acc.any (fun x => x.id == t.id) = false := by
    rw [List.any_eq_false]
    intro x hx hk
    exact hn (by simp only [List.mem_map]; exact ⟨x, hx, by simpa using hk⟩)
  simp [insertTopicPerm, this]

theorem insertStreamPerm_new (acc : List StreamPerm) (t : StreamPerm) (hn : t.id ∉ acc.map (·.id)) :
    insertStreamPerm acc t = acc ++ [t] := by
  have : acc.any (fun x => x.id == t.id) = false := by
    rw [List.any_eq_false]
    intro x hx hk
    exact hn (by simp only [List.mem_map]; exact ⟨x, hx, by simpa using hk⟩)
  simp [insertStreamPerm, this]

theorem encodeTopicPerms_length (ts : List TopicPerm) (hv : ∀ t ∈ ts, t.Valid) :
    (encodeTopicPerms ts).length = 9 * ts.length := by
  induction ts with
  | nil => rfl
  | cons t ts ih =>
    have ht := (hv t (List.mem_cons_self)).2
    have ih' := ih (fun x hx => hv x (List.mem_cons_of_mem _ hx))
    cases ts with
    | nil => simp [encodeTopicPerms, ht]
    | cons t' ts' => simp [encodeTopicPerms, ht] at *; omega

theorem nodup_head_notin {α β : Type} [DecidableEq β] (f : α → β) (acc : List α) (x : α) (xs : List α)
    (hd : ((acc ++ x :: xs).map f).Nodup) : f x ∉ acc.map f := by
  simp only [List.map_append, List.map_cons] at hd
  have := (List.nodup_append.1 hd).2.2
  intro hm
  exact this _ hm _ (List.mem_cons_self) rfl

theorem topicPerms_roundtrip (ts acc : List TopicPerm) (fuel : Nat) (rest : Bytes) (hne : ts ≠ [])
    (hf : ts.length ≤ fuel) (hv : ∀ t ∈ ts, t.Valid) (hd : ((acc ++ ts).map (·.id)).Nodup) :
    decodeTopicPerms fuel (encodeTopicPerms ts ++ rest) acc = some (acc ++ ts, rest) := by
  induction ts generalizing acc fuel with
  | nil => exact absurd rfl hne
  | cons t ts ih =>
    cases fuel with
    | zero => simp at hf
    | succ fuel =>
      obtain ⟨hid, hfl⟩ := hv t (List.mem_cons_self)
      have hnew := nodup_head_notin (·.id) acc t ts hd
      cases ts with
      | nil =>
        simp [decodeTopicPerms, encodeTopicPerms, List.append_assoc, readLE4 _ hid,
          flags_roundtrip _ _ hfl, insertTopicPerm_new _ _ hnew]
      | cons t' ts' =>
        have := ih (acc ++ [t]) fuel (by simp) (by simp at hf ⊢; omega)
          (fun x hx => hv x (List.mem_cons_of_mem _ hx)) (by simpa using hd)
        simp [decodeTopicPerms, encodeTopicPerms, List.append_assoc, readLE4 _ hid,
          flags_roundtrip _ _ hfl, insertTopicPerm_new _ _ hnew] at this ⊢
        exact this

theorem encodeStreamPerm_length (s : StreamPerm) (hv : s.Valid) :
    (encodeStreamPerm s).length + 1 = s.size := by
  obtain ⟨_, hfl, htv, _⟩ := hv
  by_cases ht : s.topics = []
  · simp [encodeStreamPerm, StreamPerm.size, ht, hfl]
  · simp [encodeStreamPerm, StreamPerm.size, ht, hfl, encodeTopicPerms_length _ htv]; omega

theorem streamPerm_roundtrip (s : StreamPerm) (rest : Bytes) (hv : s.Valid) :
    decodeStreamPerm (encodeStreamPerm s ++ rest) = some (s, rest) := by
  obtain ⟨hid, hfl, htv, htd⟩ := hv
  by_cases ht : s.topics = []
  · obtain ⟨id, flags, topics⟩ := s
    simp only at ht hid hfl
    subst ht
    simp [decodeStreamPerm, encodeStreamPerm, List.append_assoc, readLE4 _ hid, flags_roundtrip _ _ hfl]
  · have hlen : s.topics.length ≤ (encodeTopicPerms s.topics).length + rest.length := by
      simp [encodeTopicPerms_length _ htv]; omega
    simp [decodeStreamPerm, encodeStreamPerm, List.append_assoc, readLE4 _ hid, flags_roundtrip _ _ hfl, ht,
      topicPerms_roundtrip s.topics [] _ rest ht hlen htv (by simpa using htd)]

theorem encodeStreamPerms_length (ss : List StreamPerm) (hv : ∀ s ∈ ss, s.Valid) :
    (encodeStreamPerms ss).length = (ss.map StreamPerm.size).sum := by
  induction ss with
  | nil => rfl
  | cons s ss ih =>
    have hs := encodeStreamPerm_length s (hv s (List.mem_cons_self))
    have ih' := ih (fun x hx => hv x (List.mem_cons_of_mem _ hx))
    cases ss with
    | nil => simp [encodeStreamPerms]; omega
    | cons s' ss' => simp [encodeStreamPerms] at *; omega

theorem streamPerm_size_pos (s : StreamPerm) : 1 ≤ s.size := by simp [StreamPerm.size]

theorem sum_sizes_ge (ss : List StreamPerm) : ss.length ≤ (ss.map StreamPerm.size).sum := by
  induction ss with
  | nil => simp
  | cons s ss ih => have := streamPerm_size_pos s; simp; omega

theorem streamPerms_roundtrip (ss acc : List StreamPerm) (fuel : Nat) (rest : Bytes) (hne : ss ≠ [])
    (hf : ss.length ≤ fuel) (hv : ∀ s ∈ ss, s.Valid) (hd : ((acc ++ ss).map (·.id)).Nodup) :
    decodeStreamPerms fuel (encodeStreamPerms ss ++ rest) acc = some (acc ++ ss, rest) := by
  induction ss generalizing acc fuel with
  | nil => exact absurd rfl hne
  | cons s ss ih =>
    cases fuel with
    | zero => simp at hf
    | succ fuel =>
      have hsv := hv s (List.mem_cons_self)
      have hnew := nodup_head_notin (·.id) acc s ss hd
      cases ss with
      | nil =>
        simp [decodeStreamPerms, encodeStreamPerms, List.append_assoc, streamPerm_roundtrip _ _ hsv,
          insertStreamPerm_new _ _ hnew]
      | cons s' ss' =>
        have := ih (acc ++ [s]) fuel (by simp) (by simp at hf ⊢; omega)
          (fun x hx => hv x (List.mem_cons_of_mem _ hx)) (by simpa using hd)
        simp [decodeStreamPerms, encodeStreamPerms, List.append_assoc, streamPerm_roundtrip _ _ hsv,
          insertStreamPerm_new _ _ hnew] at this ⊢
        exact this

theorem encodePermissions_length (p : Permissions) (hv : p.Valid) :
    (encodePermissions p).length = p.size := by
  obtain ⟨hg, hsv, _⟩ := hv
  by_cases hs : p.streams = []
  · simp [encodePermissions, Permissions.size, hs, hg]
  · simp [encodePermissions, Permissions.size, hs, hg, encodeStreamPerms_length _ hsv]; omega

/-- `Permissions::from_bytes` ignores what follows the record -/
theorem permissions_roundtrip (p : Permissions) (rest : Bytes) (hv : p.Valid) :
    decodePermissions (encodePermissions p ++ rest) = some p := by
  obtain ⟨hg, hsv, hsd⟩ := hv
  by_cases hs : p.streams = []
  · obtain ⟨g, streams⟩ := p
    simp only at hs hg
    subst hs
    simp [decodePermissions, encodePermissions, List.append_assoc, flags_roundtrip _ _ hg]
  · have hlen : p.streams.length ≤ (encodeStreamPerms p.streams).length + rest.length := by
      have := sum_sizes_ge p.streams
      rw [encodeStreamPerms_length _ hsv]; omega
    simp [decodePermissions, encodePermissions, List.append_assoc, flags_roundtrip _ _ hg, hs,
      streamPerms_roundtrip p.streams [] _ rest hs hlen hsv (by simpa using hsd)]

theorem permissions_roundtrip' (p : Permissions) (hv : p.Valid) :
    decodePermissions (encodePermissions p) = some p := by
  simpa using permissions_roundtrip p [] hv

theorem optPerm_roundtrip (o : Option Permissions) (rest : Bytes) (h : OptPerm.Valid o) :
    decodeOptPerm (encodeOptPerm o ++ rest) = some (o, rest) := by
  cases o with
  | none => simp [decodeOptPerm, encodeOptPerm]
  | some p =>
    obtain ⟨hv, hsz⟩ := h
    have hlen : (encodePermissions p).length < 2 ^ 32 := by rw [encodePermissions_length p hv]; exact hsz
    simp [decodeOptPerm, encodeOptPerm, List.append_assoc, readLE4 _ hlen, permissions_roundtrip' p hv]

theorem encodeOptPerm_length_ge (o : Option Permissions) : 1 ≤ (encodeOptPerm o).length := by
  cases o <;> simp [encodeOptPerm]

/-! ## users -/

theorem userStatus_roundtrip (s : UserStatus) : UserStatus.ofCode s.code.toNat = some s := by
  cases s <;> rfl

theorem createUser_min_length (c : CreateUser) (h : c.Valid) :
    CREATE_USER_MIN_LEN ≤ (encodeCreateUser c).length := by
  obtain ⟨⟨hu, _, _⟩, ⟨hp, _, _⟩, _⟩ := h
  have := encodeOptPerm_length_ge c.permissions
  simp [encodeCreateUser, CREATE_USER_MIN_LEN, MIN_USERNAME_LENGTH, MIN_PASSWORD_LENGTH] at *
  omega

theorem createUser_roundtrip (c : CreateUser) (rest : Bytes) (h : c.Valid) :
    decodeCreateUser (encodeCreateUser c ++ rest) = some c := by
  have hg := guard_ok (rest := rest) (createUser_min_length c h)
  obtain ⟨hu, hp, hperm⟩ := h
  simp only [decodeCreateUser, hg, if_false]
  simp [encodeCreateUser, List.append_assoc,
    str8_roundtrip_name _ _ hu (by decide : MAX_USERNAME_LENGTH ≤ 255),
    str8_roundtrip_name _ _ hp (by decide : MAX_PASSWORD_LENGTH ≤ 255), userStatus_roundtrip,
    optPerm_roundtrip _ _ hperm]

theorem updateUser_min_length (c : UpdateUser) (h : c.Valid) :
    UPDATE_USER_MIN_LEN ≤ (encodeUpdateUser c).length := by
  obtain ⟨hu, _⟩ := h
  have h1 := identifier_min_length _ hu
  simp only [encodeUpdateUser, UPDATE_USER_MIN_LEN, IDENTIFIER_MIN_LEN, List.length_append] at *
  cases c.username <;> cases c.status <;> simp <;> omega

theorem updateUser_roundtrip (c : UpdateUser) (rest : Bytes) (h : c.Valid) :
    decodeUpdateUser (encodeUpdateUser c ++ rest) = some c := by
  have hg := guard_ok (rest := rest) (updateUser_min_length c h)
  obtain ⟨user, username, status⟩ := c
  obtain ⟨hu, hn⟩ := h
  simp only [decodeUpdateUser, hg, if_false]
  cases username with
  | none =>
    cases status with
    | none => simp [encodeUpdateUser, List.append_assoc, identifier_roundtrip _ _ hu]
    | some s =>
      simp [encodeUpdateUser, List.append_assoc, identifier_roundtrip _ _ hu, userStatus_roundtrip]
  | some n =>
    simp only at hn
    have hs := fun r => str8_roundtrip_name n r hn (by decide : MAX_USERNAME_LENGTH ≤ 255)
    cases status with
    | none => simp [encodeUpdateUser, List.append_assoc, identifier_roundtrip _ _ hu, hs]
    | some s =>
      simp [encodeUpdateUser, List.append_assoc, identifier_roundtrip _ _ hu, hs, userStatus_roundtrip]

theorem updatePermissions_min_length (c : UpdatePermissions) (h : c.Valid) :
    UPDATE_PERMISSIONS_MIN_LEN ≤ (encodeUpdatePermissions c).length := by
  obtain ⟨hu, _⟩ := h
  have h1 := identifier_min_length _ hu
  have := encodeOptPerm_length_ge c.permissions
  simp [encodeUpdatePermissions, UPDATE_PERMISSIONS_MIN_LEN, IDENTIFIER_MIN_LEN] at *
  omega

theorem updatePermissions_roundtrip (c : UpdatePermissions) (rest : Bytes) (h : c.Valid) :
    decodeUpdatePermissions (encodeUpdatePermissions c ++ rest) = some c := by
  have hg := guard_ok (rest := rest) (updatePermissions_min_length c h)
  obtain ⟨hu, hp⟩ := h
  simp only [decodeUpdatePermissions, hg, if_false]
  simp [encodeUpdatePermissions, List.append_assoc, identifier_roundtrip _ _ hu, optPerm_roundtrip _ _ hp]

theorem changePassword_min_length (c : ChangePassword) (h : c.Valid) :
    CHANGE_PASSWORD_MIN_LEN ≤ (encodeChangePassword c).length := by
  obtain ⟨hu, ⟨h1, _⟩, ⟨h2, _⟩⟩ := h
  have := identifier_min_length _ hu
  simp [encodeChangePassword, CHANGE_PASSWORD_MIN_LEN, IDENTIFIER_MIN_LEN, MIN_PASSWORD_LENGTH] at *
  omega

theorem changePassword_roundtrip (c : ChangePassword) (rest : Bytes) (h : c.Valid) :
    decodeChangePassword (encodeChangePassword c ++ rest) = some c := by
  have hg := guard_ok (rest := rest) (changePassword_min_length c h)
  obtain ⟨hu, h1, h2⟩ := h
  simp only [decodeChangePassword, hg, if_false]
  simp [encodeChangePassword, List.append_assoc, identifier_roundtrip _ _ hu,
    str8_roundtrip_name _ _ h1 (by decide : MAX_PASSWORD_LENGTH ≤ 255),
    str8_roundtrip_name _ _ h2 (by decide : MAX_PASSWORD_LENGTH ≤ 255)]

theorem optMeta_roundtrip (o : Option Bytes) (rest : Bytes) (h : OptMeta.Valid o) :
    decodeOptMeta (encodeOptMeta o ++ rest) = some (o, rest) := by
  cases o with
  | none => simp [decodeOptMeta, encodeOptMeta, readLE4 rest (n := 0) (by decide)]
  | some s =>
    obtain ⟨h1, h2, h3⟩ := h
    have : s ≠ [] := by intro h0; simp [h0] at h1
    simp [decodeOptMeta, encodeOptMeta, List.append_assoc, readLE4 _ h2, this, h3]

theorem encodeOptMeta_length_ge (o : Option Bytes) : 4 ≤ (encodeOptMeta o).length := by
  cases o <;> simp [encodeOptMeta]

theorem loginUser_min_length (c : LoginUser) (_h : c.Valid) :
    LOGIN_USER_MIN_LEN ≤ (encodeLoginUser c).length := by
  have := encodeOptMeta_length_ge c.version
  simp [encodeLoginUser, LOGIN_USER_MIN_LEN] at *
  omega

theorem loginUser_roundtrip (c : LoginUser) (rest : Bytes) (h : c.Valid) :
    decodeLoginUser (encodeLoginUser c ++ rest) = some c := by
  have hg := guard_ok (rest := rest) (loginUser_min_length c h)
  obtain ⟨hu, hp, hv, hc⟩ := h
  simp only [decodeLoginUser, hg, if_false]
  simp [encodeLoginUser, List.append_assoc,
    str8_roundtrip_name _ _ hu (by decide : MAX_USERNAME_LENGTH ≤ 255),
    str8_roundtrip_name _ _ hp (by decide : MAX_PASSWORD_LENGTH ≤ 255),
    optMeta_roundtrip _ _ hv, optMeta_roundtrip _ _ hc]

/-! ## personal access tokens -/

theorem createPat_min_length (c : CreatePat) (h : c.Valid) :
    CREATE_PAT_MIN_LEN ≤ (encodeCreatePat c).length := by
  obtain ⟨⟨h1, _⟩, _⟩ := h
  simp [encodeCreatePat, CREATE_PAT_MIN_LEN, MIN_PAT_NAME_LENGTH] at *
  omega

theorem createPat_roundtrip (c : CreatePat) (rest : Bytes) (h : c.Valid) :
    decodeCreatePat (encodeCreatePat c ++ rest) = some c := by
  have hg := guard_ok (rest := rest) (createPat_min_length c h)
  obtain ⟨hn, he⟩ := h
  simp only [decodeCreatePat, hg, if_false]
  simp [encodeCreatePat, List.append_assoc,
    str8_roundtrip_name _ _ hn (by decide : MAX_PAT_NAME_LENGTH ≤ 255), readLE8 _ (expiry_lt _ he),
    expiry_roundtrip _ he]

/-- guard 4 of `DeletePersonalAccessToken::from_bytes`: fine for a string of at least 3 bytes -/
theorem patString_min_length (s : Bytes) (h : 3 ≤ s.length) :
    PAT_NAME_MIN_LEN ≤ (encodeStr8 s).length := by
  simp [PAT_NAME_MIN_LEN]; omega

theorem patString_roundtrip {max : Nat} (s rest : Bytes) (h : NameOk 3 max s) (hm : max ≤ 255) :
    decodePatString (encodeStr8 s ++ rest) = some s := by
  have hg := guard_ok (rest := rest) (patString_min_length s h.1)
  simp only [decodePatString, hg, if_false, str8_roundtrip_name _ _ h hm]

/-- guard 2 of `LoginWithPersonalAccessToken::from_bytes`: fine for every non-empty token -/
theorem loginPat_min_length (s : Bytes) (h : 1 ≤ s.length) :
    LOGIN_PAT_MIN_LEN ≤ (encodeStr8 s).length := by
  simp [LOGIN_PAT_MIN_LEN]; omega

theorem loginPat_roundtrip {max : Nat} (s rest : Bytes) (h : NameOk 1 max s) (hm : max ≤ 255) :
    decodeLoginPat (encodeStr8 s ++ rest) = some s := by
  have hg := guard_ok (rest := rest) (loginPat_min_length s h.1)
  simp only [decodeLoginPat, hg, if_false, str8_roundtrip_name _ _ h hm]

/-! ## system -/

theorem getClient_roundtrip (id : Nat) (h : id < 2 ^ 32) : decodeGetClient (le32 id) = some id := by
  simp [decodeGetClient, le32, leVal_leBytes_of_lt (k := 4) (by simpa using h), leBytes_length]

theorem snapshotTypes_roundtrip (ts : List Nat) (rest : Bytes)
    (h : ∀ t ∈ ts, snapshotTypeCode t = true) :
    decodeSnapshotTypes ts.length (ts.map UInt8.ofNat ++ rest) = some ts := by
  induction ts with
  | nil => simp [decodeSnapshotTypes]
  | cons t ts ih =>
    have ht := h t (List.mem_cons_self)
    have hlt : t < 256 := by
      simp [snapshotTypeCode] at ht; omega
    have ih' := ih (fun x hx => h x (List.mem_cons_of_mem _ hx))
    have hok : SnapshotType.okCode t = true := by simpa [SnapshotType.okCode, snapshotTypeCode] using ht
    simp [decodeSnapshotTypes, u8_toNat hlt, hok, ih']

theorem getSnapshot_roundtrip (c : GetSnapshot) (rest : Bytes) (h : c.Valid) :
    decodeGetSnapshot (encodeGetSnapshot c ++ rest) = some c := by
  obtain ⟨hc, ht, hl, _⟩ := h
  have hc256 : c.compression < 256 := by simp [snapshotCompressionCode] at hc; omega
  have hok : SnapshotCompression.okCode c.compression = true := by
    simpa [SnapshotCompression.okCode, snapshotCompressionCode] using hc
  have hl256 : c.types.length < 256 := by omega
  simp [decodeGetSnapshot, encodeGetSnapshot, u8, u8_toNat hc256, u8_toNat hl256, hok,
    snapshotTypes_roundtrip _ _ ht]

/-! ## the command code table, `ServerCommand`, frames -/

theorem kind_roundtrip (k : CommandKind) : CommandKind.ofCode k.code = some k := by cases k <;> rfl

theorem code_lt (k : CommandKind) : k.code < 2 ^ 32 := by cases k <;> decide

theorem code_injective (a b : CommandKind) (h : a.code = b.code) : a = b := by
  have := kind_roundtrip a
  rw [h, kind_roundtrip b] at this
  exact (Option.some.inj this).symm

theorem mem_all (k : CommandKind) : k ∈ CommandKind.all := by cases k <;> decide

theorem payload_roundtrip (fresh : Nat) (c : Command) (h : c.Valid) :
    decodePayload fresh c.kind (encodePayload c) = some (c.withIds fresh) := by
  cases c with
  | ping | getStats | getMe | getClients | getUsers | logoutUser | getPersonalAccessTokens | getStreams =>
    simp [decodePayload, encodePayload, Command.kind, Command.withIds, decodeEmpty]
  | getClient id =>
    have e := getClient_roundtrip id h.2
    simp [decodePayload, encodePayload, Command.kind, Command.withIds, e]
  | getUser u | deleteUser u | getStream u | deleteStream u | purgeStream u | getTopics u =>
    have e := singleId_roundtrip u [] h
    simp only [List.append_nil] at e
    simp [decodePayload, encodePayload, Command.kind, Command.withIds, e]
  | createUser c =>
    have e := createUser_roundtrip c [] h
    simp only [List.append_nil] at e
    simp [decodePayload, encodePayload, Command.kind, Command.withIds, e]
  | updateUser c =>
    have e := updateUser_roundtrip c [] h
    simp only [List.append_nil] at e
    simp [decodePayload, encodePayload, Command.kind, Command.withIds, e]
  | updatePermissions c =>
    have e := updatePermissions_roundtrip c [] h
    simp only [List.append_nil] at e
    simp [decodePayload, encodePayload, Command.kind, Command.withIds, e]
  | changePassword c =>
    have e := changePassword_roundtrip c [] h
    simp only [List.append_nil] at e
    simp [decodePayload, encodePayload, Command.kind, Command.withIds, e]
  | loginUser c =>
    have e := loginUser_roundtrip c [] h
    simp only [List.append_nil] at e
    simp [decodePayload, encodePayload, Command.kind, Command.withIds, e]
  | createPersonalAccessToken c =>
    have e := createPat_roundtrip c [] h
    simp only [List.append_nil] at e
    simp [decodePayload, encodePayload, Command.kind, Command.withIds, e]
  | deletePersonalAccessToken n =>
    have e := patString_roundtrip n [] h (by decide : MAX_PAT_NAME_LENGTH ≤ 255)
    simp only [List.append_nil] at e
    simp [decodePayload, encodePayload, Command.kind, Command.withIds, e]
  | loginWithPersonalAccessToken t =>
    have e := loginPat_roundtrip t [] h (by decide : MAX_PAT_LENGTH ≤ 255)
    simp only [List.append_nil] at e
    simp [decodePayload, encodePayload, Command.kind, Command.withIds, e]
  | sendMessages c =>
    have e := sendMessages_roundtrip fresh c h
    simp [decodePayload, encodePayload, Command.kind, Command.withIds, e, SendMessages.withIds,
      Message.withId]
  | pollMessages c =>
    have e := pollMessages_roundtrip c [] h
    simp only [List.append_nil] at e
    simp [decodePayload, encodePayload, Command.kind, Command.withIds, e]
  | flushUnsavedBuffer c =>
    have e := flushUnsavedBuffer_roundtrip c [] h
    simp only [List.append_nil] at e
    simp [decodePayload, encodePayload, Command.kind, Command.withIds, e]
  | getConsumerOffset c | deleteConsumerOffset c =>
    have e := consumerOffsetRef_roundtrip c [] h
    simp only [List.append_nil] at e
    simp [decodePayload, encodePayload, Command.kind, Command.withIds, e]
  | storeConsumerOffset c =>
    have e := storeConsumerOffset_roundtrip c [] h
    simp only [List.append_nil] at e
    simp [decodePayload, encodePayload, Command.kind, Command.withIds, e]
  | createStream c =>
    have e := createStream_roundtrip c [] h
    simp only [List.append_nil] at e
    simp [decodePayload, encodePayload, Command.kind, Command.withIds, e]
  | updateStream c =>
    have e := updateStream_roundtrip c [] h
    simp only [List.append_nil] at e
    simp [decodePayload, encodePayload, Command.kind, Command.withIds, e]
  | getTopic c | deleteTopic c | purgeTopic c | getConsumerGroups c =>
    have e := topicRef_roundtrip c [] h
    simp only [List.append_nil] at e
    simp [decodePayload, encodePayload, Command.kind, Command.withIds, e]
  | createTopic c =>
    have e := createTopic_roundtrip c [] h
    simp only [List.append_nil] at e
    simp [decodePayload, encodePayload, Command.kind, Command.withIds, e]
  | updateTopic c =>
    have e := updateTopic_roundtrip c [] h
    simp only [List.append_nil] at e
    simp [decodePayload, encodePayload, Command.kind, Command.withIds, e]
  | createPartitions c | deletePartitions c =>
    have e := partitions_roundtrip c [] h
    simp only [List.append_nil] at e
    simp [decodePayload, encodePayload, Command.kind, Command.withIds, e]
  | getConsumerGroup c | deleteConsumerGroup c | joinConsumerGroup c | leaveConsumerGroup c =>
    have e := groupRef_roundtrip c [] h
    simp only [List.append_nil] at e
    simp [decodePayload, encodePayload, Command.kind, Command.withIds, e]
  | createConsumerGroup c =>
    have e := createConsumerGroup_roundtrip c [] h
    simp only [List.append_nil] at e
    simp [decodePayload, encodePayload, Command.kind, Command.withIds, e]
  | getSnapshotFile c =>
    have e := getSnapshot_roundtrip c [] h
    simp only [List.append_nil] at e
    simp [decodePayload, encodePayload, Command.kind, Command.withIds, e]

/-- the minimum-length guard of every payload decoder accepts every valid encoding -/
theorem payload_min_length (c : Command) (h : c.Valid) :
    c.kind.minLen ≤ (encodePayload c).length := by
  cases c with
  | ping | getStats | getMe | getClients | getUsers | logoutUser | getPersonalAccessTokens | getStreams
  | getClient _ | flushUnsavedBuffer _ | getSnapshotFile _ =>
    simp [Command.kind, CommandKind.minLen]
  | getUser u | deleteUser u | getStream u | deleteStream u | purgeStream u | getTopics u =>
    exact singleId_min_length u h
  | createUser c => exact createUser_min_length c h
  | updateUser c => exact updateUser_min_length c h
  | updatePermissions c => exact updatePermissions_min_length c h
  | changePassword c => exact changePassword_min_length c h
  | loginUser c => exact loginUser_min_length c h
  | createPersonalAccessToken c => exact createPat_min_length c h
  | deletePersonalAccessToken n => exact patString_min_length n h.1
  | loginWithPersonalAccessToken t => exact loginPat_min_length t h.1
  | sendMessages c => exact sendMessages_min_length c h
  | pollMessages c => exact pollMessages_min_length c h
  | getConsumerOffset c | deleteConsumerOffset c => exact consumerOffsetRef_min_length c h
  | storeConsumerOffset c => exact storeConsumerOffset_min_length c h
  | createStream c => exact createStream_min_length c h
  | updateStream c => exact updateStream_min_length c h
  | getTopic c | deleteTopic c | purgeTopic c | getConsumerGroups c => exact topicRef_min_length c h
  | createTopic c => exact createTopic_min_length c h
  | updateTopic c => exact updateTopic_min_length c h
  | createPartitions c | deletePartitions c => exact partitions_min_length c h
  | getConsumerGroup c | deleteConsumerGroup c | joinConsumerGroup c | leaveConsumerGroup c =>
    exact groupRef_min_length c h
  | createConsumerGroup c => exact createConsumerGroup_min_length c h

theorem command_roundtrip (fresh : Nat) (c : Command) (h : c.Valid) :
    decodeCommand fresh (encodeCommand c) = some (c.withIds fresh) := by
  simp [decodeCommand, encodeCommand, readLE4 _ (code_lt c.kind), kind_roundtrip,
    payload_roundtrip fresh c h]

theorem frame_roundtrip (fresh : Nat) (c : Command) (rest : Bytes) (h : c.Valid)
    (hl : (encodeCommand c).length < 2 ^ 32) :
    decodeFrame fresh (encodeFrame c ++ rest) = some (c.withIds fresh, rest) := by
  simp [decodeFrame, encodeFrame, List.append_assoc, readLE4 _ hl, command_roundtrip fresh c h]

theorem response_roundtrip (r : Response) (rest : Bytes) (h : r.Valid) :
    decodeResponse (encodeResponse r ++ rest) = some (r, rest) := by
  obtain ⟨h1, h2⟩ := h
  simp [decodeResponse, encodeResponse, List.append_assoc, readLE4 _ h1, readLE4 _ h2]

/-! ## storage -/

theorem messageState_roundtrip (s : MessageState) : MessageState.ofCode s.code.toNat = some s := by
  cases s <;> rfl

theorem encodeRetainedBody_length (m : RetainedMessage) : (encodeRetainedBody m).length = m.size := by
  simp [encodeRetainedBody, RetainedMessage.size]; omega

/-- `try_from_bytes` gets exactly one record: everything after the headers is the payload -/
theorem retainedBody_roundtrip (m : RetainedMessage) (h : m.Valid) :
    decodeRetainedBody (encodeRetainedBody m) = some m := by
  obtain ⟨ho, ht, hi, hc, hh, _⟩ := h
  simp [decodeRetainedBody, encodeRetainedBody, List.append_assoc, readLE8 _ ho, readLE8 _ ht,
    readLE16 _ hi, readLE4 _ hc, readLE4 _ hh, messageState_roundtrip]

theorem retained_roundtrip (m : RetainedMessage) (rest : Bytes) (h : m.Valid) :
    decodeRetained (encodeRetained m ++ rest) = some (m, rest) := by
  have hsz : m.size < 2 ^ 32 := h.2.2.2.2.2
  simp [decodeRetained, encodeRetained, List.append_assoc, readLE4 _ hsz,
    takeN_append' _ _ (encodeRetainedBody_length m), retainedBody_roundtrip m h]

theorem encodeRetained_length (m : RetainedMessage) : (encodeRetained m).length = 4 + m.size := by
  simp [encodeRetained, encodeRetainedBody_length]

theorem encodeRetainedAll_length_ge (ms : List RetainedMessage) :
    ms.length ≤ (encodeRetainedAll ms).length := by
  induction ms with
  | nil => simp [encodeRetainedAll]
  | cons m ms ih => simp [encodeRetainedAll, encodeRetained_length] at *; omega

theorem retainedAll_roundtrip (ms : List RetainedMessage) (fuel : Nat) (hf : ms.length ≤ fuel)
    (hv : ∀ m ∈ ms, m.Valid) :
    decodeRetainedAll fuel (encodeRetainedAll ms) = some ms := by
  induction ms generalizing fuel with
  | nil => cases fuel <;> simp [decodeRetainedAll, encodeRetainedAll]
  | cons m ms ih =>
    cases fuel with
    | zero => simp at hf
    | succ fuel =>
      have hne : (encodeRetainedAll (m :: ms)).isEmpty = false := by
        have := encodeRetainedAll_length_ge (m :: ms)
        cases hh : encodeRetainedAll (m :: ms) with
        | nil => simp [hh] at this
        | cons => rfl
      rw [decodeRetainedAll, hne]
      simp only [encodeRetainedAll, Bool.false_eq_true, if_false,
        retained_roundtrip m _ (hv m (List.mem_cons_self))]
      rw [ih fuel (by simp at hf; omega) (fun x hx => hv x (List.mem_cons_of_mem _ hx))]

theorem batchHeader_roundtrip (h : BatchHeader) (rest : Bytes) (hv : h.Valid) :
    decodeBatchHeader (encodeBatchHeader h ++ rest) = some (h, rest) := by
  obtain ⟨h1, h2, h3, h4⟩ := hv
  simp [decodeBatchHeader, encodeBatchHeader, List.append_assoc, readLE8 _ h1, readLE4 _ h2,
    readLE4 _ h3, readLE8 _ h4]

theorem encodeBatchHeader_length (h : BatchHeader) :
    (encodeBatchHeader h).length = RETAINED_BATCH_HEADER_LEN := by
  simp [encodeBatchHeader, RETAINED_BATCH_HEADER_LEN]

/-- a batch whose header carries the length of its body reads back as the same header and records -/
theorem batch_roundtrip (h : BatchHeader) (ms : List RetainedMessage) (rest : Bytes) (hv : h.Valid)
    (hms : ∀ m ∈ ms, m.Valid) (hlen : h.length = (encodeRetainedAll ms).length) :
    decodeBatch (encodeBatch h ms ++ rest) = some (h, ms, rest) := by
  simp [decodeBatch, encodeBatch, List.append_assoc, batchHeader_roundtrip _ _ hv, hlen,
    retainedAll_roundtrip ms _ (encodeRetainedAll_length_ge ms) hms]

theorem index_roundtrip (i : IndexRecord) (rest : Bytes) (h : i.Valid) :
    decodeIndex (encodeIndex i ++ rest) = some (i, rest) := by
  obtain ⟨h1, h2, h3⟩ := h
  simp [decodeIndex, encodeIndex, List.append_assoc, readLE4 _ h1, readLE4 _ h2, readLE8 _ h3]

theorem encodeIndex_length (i : IndexRecord) : (encodeIndex i).length = INDEX_SIZE := by
  simp [encodeIndex, INDEX_SIZE]

theorem readLE_length {k n : Nat} {bs r : Bytes} (h : readLE k bs = some (n, r)) :
    bs.length = k + r.length := by
  simp only [readLE, takeN] at h
  by_cases hk : k ≤ bs.length
  · simp [hk] at h; obtain ⟨_, rfl⟩ := h; simp; omega
  · simp [hk] at h

theorem decodeIndex_short (bs : Bytes) (h : bs.length < INDEX_SIZE) : decodeIndex bs = none := by
  simp only [INDEX_SIZE] at h
  cases hd : decodeIndex bs with
  | none => rfl
  | some p =>
    exfalso
    simp only [decodeIndex, Option.bind_eq_bind, Option.bind_eq_some_iff] at hd
    obtain ⟨⟨o, r1⟩, h1, ⟨q, r2⟩, h2, ⟨t, r3⟩, h3, _⟩ := hd
    dsimp only at h2 h3
    have := readLE_length h1
    have := readLE_length h2
    have := readLE_length h3
    omega

/-- the index file reads back as written; a trailing partial record (a torn write) is ignored -/
theorem indexes_roundtrip (is : List IndexRecord) (junk : Bytes) (fuel : Nat) (hf : is.length ≤ fuel)
    (hv : ∀ i ∈ is, i.Valid) (hj : junk.length < INDEX_SIZE) :
    decodeIndexes fuel (encodeIndexes is ++ junk) = is := by
  induction is generalizing fuel with
  | nil =>
    cases fuel with
    | zero => rfl
    | succ fuel => simp [decodeIndexes, encodeIndexes, decodeIndex_short junk hj]
  | cons i is ih =>
    cases fuel with
    | zero => simp at hf
    | succ fuel =>
      simp [decodeIndexes, encodeIndexes, List.append_assoc, index_roundtrip _ _ (hv i (List.mem_cons_self)),
        ih fuel (by simp at hf; omega) (fun x hx => hv x (List.mem_cons_of_mem _ hx))]

/-! ## journal -/

theorem stateEntry_roundtrip (e : StateEntry) (h : e.Valid) :
    decodeStateEntry (encodeStateEntry e) = some e := by
  obtain ⟨h1, h2, h3, h4, h5, h6, h7, h8, h9⟩ := h
  simp [decodeStateEntry, encodeStateEntry, List.append_assoc, readLE8 _ h1, readLE8 _ h2, readLE4 _ h3,
    readLE4 _ h4, readLE8 _ h5, readLE8 _ h6, readLE4 _ h7, readLE4 _ h8, readLE4 _ h9]

theorem withIds_of_journaled (fresh : Nat) (c : Command) (h : c.kind.journaled = true) :
    c.withIds fresh = c := by
  cases c <;> first | rfl | simp [Command.kind, CommandKind.journaled] at h

theorem patWithHash_roundtrip (c : CreatePat) (hash rest : Bytes) (hc : c.Valid)
    (hl : hash.length < 2 ^ 32) (hu : validUtf8 hash = true) :
    decodePatWithHash (encodePatWithHash c hash ++ rest) = some (.createPatWithHash c hash) := by
  have hcl : (encodeCreatePat c).length < 2 ^ 32 := by
    have := hc.1.2.1
    simp [encodeCreatePat, MAX_PAT_NAME_LENGTH] at *; omega
  have e := createPat_roundtrip c [] hc
  simp only [List.append_nil] at e
  simp [decodePatWithHash, encodePatWithHash, List.append_assoc, readLE4 _ hcl, e, readLE4 _ hl, hu]

theorem encodePatWithHash_length (c : CreatePat) (hash : Bytes) :
    (encodePatWithHash c hash).length = 4 + (1 + c.name.length + 8) + 4 + hash.length := by
  simp [encodePatWithHash, encodeCreatePat]; omega

theorem entryCommand_roundtrip (e : EntryCommand) (rest : Bytes) (h : e.Valid) :
    decodeEntryCommand (encodeEntryCommand e ++ rest) = some e := by
  cases e with
  | cmd c =>
    obtain ⟨hv, hj, hl⟩ := h
    have hne : c.kind ≠ .createPersonalAccessToken := by
      intro h0; rw [h0] at hj; simp [CommandKind.journaled] at hj
    simp [decodeEntryCommand, encodeEntryCommand, List.append_assoc, readLE4 _ (code_lt c.kind),
      readLE4 _ hl, kind_roundtrip, hne, hj, payload_roundtrip 0 c hv, withIds_of_journaled 0 c hj]
  | createPatWithHash c hash =>
    obtain ⟨hc, hl', hu⟩ := h
    have hl : hash.length < 2 ^ 32 := by omega
    have hlen : (encodePatWithHash c hash).length < 2 ^ 32 := by
      have := hc.1.2.1
      rw [encodePatWithHash_length]; simp [MAX_PAT_NAME_LENGTH] at this; omega
    have e := patWithHash_roundtrip c hash [] hc hl hu
    simp only [List.append_nil] at e
    simp [decodeEntryCommand, encodeEntryCommand, List.append_assoc,
      readLE4 _ (code_lt .createPersonalAccessToken), readLE4 _ hlen, kind_roundtrip, e]

end Iggy.Codec
