/-
C13: canonical descriptions of the modelled values, character for character the format of the harness
(`harness/src/codec_desc.rs`, where the grammar is written down). Used by the judge only.
-/
import Iggy.Codec.Frame
import Iggy.Codec.Storage
import Iggy.Codec.Journal
namespace Iggy.Codec.Desc
open Iggy.Codec

def hexDigit (n : Nat) : Char :=
  if n < 10 then Char.ofNat (48 + n) else Char.ofNat (87 + n)

def hex (bs : Bytes) : String :=
  bs.foldl (fun s b => (s.push (hexDigit (b.toNat / 16))).push (hexDigit (b.toNat % 16))) ""

def bit (b : Bool) : String := if b then "1" else "0"

def bits (fs : List Bool) : String := String.join (fs.map bit)

def join (sep : String) (xs : List String) : String := sep.intercalate xs

def bytesLe : Bytes → Bytes → Bool
  | [], _ => true
  | _ :: _, [] => false
  | a :: as, b :: bs => if a < b then true else if b < a then false else bytesLe as bs

def ident : Identifier → String
  | .numeric n => s!"num:{n}"
  | .named s => s!"str:{hex s}"

def consumer (c : Consumer) : String :=
  match c.kind with
  | .consumer => s!"c:{ident c.id}"
  | .group => s!"g:{ident c.id}"

def partitioning (p : Partitioning) : String :=
  let k := match p.kind with
    | .balanced => "bal" | .partitionId => "pid" | .messagesKey => "key"
  s!"{k}:{hex p.value}"

def strategy (s : PollingStrategy) : String :=
  let k := match s.kind with
    | .offset => "offset" | .timestamp => "timestamp" | .first => "first" | .last => "last"
    | .next => "next"
  s!"{k}:{s.value}"

def optNat : Option Nat → String
  | none => "-"
  | some n => toString n

def optStr : Option Bytes → String
  | none => "-"
  | some s => s!"s:{hex s}"

def headers (hs : List Header) : String :=
  match hs with
  | [] => "-"
  | _ =>
    let sorted := hs.mergeSort (fun a b => bytesLe a.key b.key)
    "[" ++ join "," (sorted.map fun h => s!"{hex h.key}={h.kind.code.toNat}:{hex h.value}") ++ "]"

def message (m : Message) : String :=
  "{id=" ++ toString m.id ++ ";h=" ++ headers m.headers ++ ";p=" ++ hex m.payload ++ "}"

def expiry : Expiry → String
  | .serverDefault => "default"
  | .neverExpire => "never"
  | .expireMicros n => s!"ns:{n * 1000}"

def maxSize : MaxTopicSize → String
  | .serverDefault => "default"
  | .unlimited => "unlimited"
  | .custom n => s!"custom:{n}"

def compression : Compression → String
  | .uncompressed => "none" | .gzip => "gzip"

def status : UserStatus → String
  | .active => "active" | .inactive => "inactive"

def topicPerms (ts : List TopicPerm) : String :=
  match ts with
  | [] => "-"
  | _ =>
    let sorted := ts.mergeSort (fun a b => a.id ≤ b.id)
    "(" ++ join "/" (sorted.map fun t => s!"{t.id}:{bits t.flags}") ++ ")"

def streamPerms (ss : List StreamPerm) : String :=
  match ss with
  | [] => "-"
  | _ =>
    let sorted := ss.mergeSort (fun a b => a.id ≤ b.id)
    "[" ++ join "," (sorted.map fun s => s!"{s.id}:{bits s.flags}:{topicPerms s.topics}") ++ "]"

def permissions : Option Permissions → String
  | none => "-"
  | some p => "{g=" ++ bits p.global ++ ";s=" ++ streamPerms p.streams ++ "}"

def st (s t : Identifier) : String := s!"stream={ident s};topic={ident t}"
def stg (s t g : Identifier) : String := s!"stream={ident s};topic={ident t};group={ident g}"

def createStreamBody (c : CreateStream) : String := s!"id={optNat c.id};name={hex c.name}"
def updateStreamBody (c : UpdateStream) : String := s!"stream={ident c.stream};name={hex c.name}"

def createTopicBody (c : CreateTopic) : String :=
  s!"stream={ident c.stream};id={optNat c.id};partitions={c.partitions};" ++
  s!"compression={compression c.compression};expiry={expiry c.expiry};maxsize={maxSize c.maxSize};" ++
  s!"rf={optNat c.replication};name={hex c.name}"

def updateTopicBody (c : UpdateTopic) : String :=
  s!"stream={ident c.stream};topic={ident c.topic};" ++
  s!"compression={compression c.compression};expiry={expiry c.expiry};maxsize={maxSize c.maxSize};" ++
  s!"rf={optNat c.replication};name={hex c.name}"

def createGroupBody (c : CreateConsumerGroup) : String :=
  s!"{st c.stream c.topic};id={optNat c.id};name={hex c.name}"

def createUserBody (c : CreateUser) : String :=
  s!"user={hex c.username};pass={hex c.password};status={status c.status};" ++
  s!"perms={permissions c.permissions}"

def updateUserBody (c : UpdateUser) : String :=
  let s := match c.status with
    | none => "-" | some s => status s
  s!"user={ident c.user};name={optStr c.username};status={s}"

def updatePermissionsBody (c : UpdatePermissions) : String :=
  s!"user={ident c.user};perms={permissions c.permissions}"

def changePasswordBody (c : ChangePassword) : String :=
  s!"user={ident c.user};cur={hex c.current};new={hex c.new}"

def createPatBody (c : CreatePat) : String := s!"name={hex c.name};expiry={expiry c.expiry}"

def offsetRef (c : ConsumerOffsetRef) : String :=
  s!"consumer={consumer c.consumer};{st c.stream c.topic};partition={optNat c.partition}"

def kindName : CommandKind → String
  | .ping => "Ping" | .getStats => "GetStats" | .getMe => "GetMe" | .getClient => "GetClient"
  | .getClients => "GetClients" | .getUser => "GetUser" | .getUsers => "GetUsers"
  | .createUser => "CreateUser" | .deleteUser => "DeleteUser" | .updateUser => "UpdateUser"
  | .updatePermissions => "UpdatePermissions" | .changePassword => "ChangePassword"
  | .loginUser => "LoginUser" | .logoutUser => "LogoutUser"
  | .getPersonalAccessTokens => "GetPersonalAccessTokens"
  | .createPersonalAccessToken => "CreatePersonalAccessToken"
  | .deletePersonalAccessToken => "DeletePersonalAccessToken"
  | .loginWithPersonalAccessToken => "LoginWithPersonalAccessToken"
  | .sendMessages => "SendMessages" | .pollMessages => "PollMessages"
  | .flushUnsavedBuffer => "FlushUnsavedBuffer" | .getConsumerOffset => "GetConsumerOffset"
  | .storeConsumerOffset => "StoreConsumerOffset" | .deleteConsumerOffset => "DeleteConsumerOffset"
  | .getStream => "GetStream" | .getStreams => "GetStreams" | .createStream => "CreateStream"
  | .deleteStream => "DeleteStream" | .updateStream => "UpdateStream" | .purgeStream => "PurgeStream"
  | .getTopic => "GetTopic" | .getTopics => "GetTopics" | .createTopic => "CreateTopic"
  | .deleteTopic => "DeleteTopic" | .updateTopic => "UpdateTopic" | .purgeTopic => "PurgeTopic"
  | .createPartitions => "CreatePartitions" | .deletePartitions => "DeletePartitions"
  | .getConsumerGroup => "GetConsumerGroup" | .getConsumerGroups => "GetConsumerGroups"
  | .createConsumerGroup => "CreateConsumerGroup" | .deleteConsumerGroup => "DeleteConsumerGroup"
  | .joinConsumerGroup => "JoinConsumerGroup" | .leaveConsumerGroup => "LeaveConsumerGroup"
  | .getSnapshotFile => "GetSnapshotFile"

def commandBody : Command → String
  | .ping | .getStats | .getMe | .getClients | .getUsers | .logoutUser | .getPersonalAccessTokens
  | .getStreams => ""
  | .getClient id => s!"id={id}"
  | .getUser u | .deleteUser u => s!"user={ident u}"
  | .createUser c => createUserBody c
  | .updateUser c => updateUserBody c
  | .updatePermissions c => updatePermissionsBody c
  | .changePassword c => changePasswordBody c
  | .loginUser c =>
    s!"user={hex c.username};pass={hex c.password};version={optStr c.version};" ++
    s!"context={optStr c.context}"
  | .createPersonalAccessToken c => createPatBody c
  | .deletePersonalAccessToken n => s!"name={hex n}"
  | .loginWithPersonalAccessToken t => s!"token={hex t}"
  | .sendMessages c =>
    s!"{st c.stream c.topic};part={partitioning c.partitioning};msgs=[" ++
    join "," (c.messages.map message) ++ "]"
  | .pollMessages c =>
    s!"consumer={consumer c.consumer};{st c.stream c.topic};partition={optNat c.partition};" ++
    s!"strategy={strategy c.strategy};count={c.count};auto={bit c.autoCommit}"
  | .flushUnsavedBuffer c => s!"{st c.stream c.topic};partition={c.partition};fsync={bit c.fsync}"
  | .getConsumerOffset c | .deleteConsumerOffset c => offsetRef c
  | .storeConsumerOffset c =>
    s!"consumer={consumer c.consumer};{st c.stream c.topic};partition={optNat c.partition};" ++
    s!"offset={c.offset}"
  | .getStream s | .deleteStream s | .purgeStream s | .getTopics s => s!"stream={ident s}"
  | .createStream c => createStreamBody c
  | .updateStream c => updateStreamBody c
  | .getTopic c | .deleteTopic c | .purgeTopic c | .getConsumerGroups c => st c.stream c.topic
  | .createTopic c => createTopicBody c
  | .updateTopic c => updateTopicBody c
  | .createPartitions c | .deletePartitions c => s!"{st c.stream c.topic};count={c.count}"
  | .getConsumerGroup c | .deleteConsumerGroup c | .joinConsumerGroup c | .leaveConsumerGroup c =>
    stg c.stream c.topic c.group
  | .createConsumerGroup c => createGroupBody c
  | .getSnapshotFile c =>
    s!"compression={c.compression};types=[" ++ join "," (c.types.map toString) ++ "]"

def command (c : Command) : String := kindName c.kind ++ "{" ++ commandBody c ++ "}"

def retained (m : RetainedMessage) : String :=
  let h := match m.headers with
    | [] => "-" | hs => hex hs
  "RetainedMessage{" ++
  s!"offset={m.offset};state={m.state.code.toNat};ts={m.timestamp};id={m.id};" ++
  s!"checksum={m.checksum};h={h};p={hex m.payload}" ++ "}"

def batch (h : BatchHeader) (ms : List RetainedMessage) : String :=
  "RetainedBatch{" ++
  s!"base={h.baseOffset};len={h.length};delta={h.lastOffsetDelta};maxts={h.maxTimestamp};msgs=[" ++
  join "," (ms.map retained) ++ "]}"

def stateEntry (e : StateEntry) : String :=
  "StateEntry{" ++
  s!"index={e.index};term={e.term};leader={e.leader};version={e.version};flags={e.flags};" ++
  s!"ts={e.timestamp};user={e.user};checksum={e.checksum};context={hex e.context};" ++
  s!"command={hex e.command}" ++ "}"

def entryCommand : EntryCommand → String
  | .cmd c => "EntryCommand{" ++ command c ++ "}"
  | .createPatWithHash c hash =>
    "EntryCommand{CreatePersonalAccessTokenWithHash{" ++ createPatBody c ++ s!";hash={hex hash}" ++ "}}"

end Iggy.Codec.Desc
