/-
C13 codec model, DECODERS: each mirrors the `from_bytes` of its Rust source, including the minimum-length
guards (`if bytes.len() < N`) with the constants AS THEY ARE in the source, and the places where the Rust
code slices without a check (those panic: `none` here). Encoders are in `Iggy/Codec/Encode.lean`.
-/
import Iggy.Codec.Types
namespace Iggy.Codec

/-! ## sdk/src/identifier.rs -/

inductive IdKind where
  | numeric | string
deriving Repr, DecidableEq

def IdKind.ofCode : Nat → Option IdKind
  | 1 => some .numeric | 2 => some .string | _ => none

def IDENTIFIER_MIN_LEN : Nat := 3

/-- `Identifier::from_bytes` on the remaining buffer, then `validate()`; the rest starts `2 + length`
bytes further (`get_size_bytes`). -/
def decodeIdentifier (bs : Bytes) : Option (Identifier × Bytes) :=
  if bs.length < IDENTIFIER_MIN_LEN then none else do
  let (k, r1) ← readU8 bs
  let kind ← IdKind.ofCode k
  let (l, r2) ← readU8 r1
  let (v, r3) ← takeN l r2
  if l = 0 then none else
  match kind with
  | .numeric => if l ≠ 4 then none else some (.numeric (leVal v), r3)
  | .string => some (.named v, r3)

/-! ## sdk/src/consumer.rs -/

def ConsumerKind.ofCode : Nat → Option ConsumerKind
  | 1 => some .consumer | 2 => some .group | _ => none

/-- kind byte + identifier, as inlined by the commands that carry a consumer -/
def decodeConsumerBody (bs : Bytes) : Option (Consumer × Bytes) := do
  let (k, r1) ← readU8 bs
  let kind ← ConsumerKind.ofCode k
  let (id, r2) ← decodeIdentifier r1
  some (⟨kind, id⟩, r2)

def CONSUMER_MIN_LEN : Nat := 4

/-- `Consumer::from_bytes` -/
def decodeConsumer (bs : Bytes) : Option (Consumer × Bytes) :=
  if bs.length < CONSUMER_MIN_LEN then none else decodeConsumerBody bs

/-! ## sdk/src/messages/send_messages.rs: Partitioning -/

def PartKind.ofCode : Nat → Option PartKind
  | 1 => some .balanced | 2 => some .partitionId | 3 => some .messagesKey | _ => none

def PARTITIONING_MIN_LEN : Nat := 3

/-- `Partitioning::from_bytes` on the remaining buffer -/
def decodePartitioning (bs : Bytes) : Option (Partitioning × Bytes) :=
  if bs.length < PARTITIONING_MIN_LEN then none else do
  let (k, r1) ← readU8 bs
  let kind ← PartKind.ofCode k
  let (l, r2) ← readU8 r1
  let (v, r3) ← takeN l r2
  some (⟨kind, v⟩, r3)

/-! ## sdk/src/messages/poll_messages.rs: PollingStrategy -/

def PollingKind.ofCode : Nat → Option PollingKind
  | 1 => some .offset | 2 => some .timestamp | 3 => some .first | 4 => some .last | 5 => some .next
  | _ => none

/-- kind byte + u64, as inlined by `PollMessages::from_bytes` -/
def decodeStrategyBody (bs : Bytes) : Option (PollingStrategy × Bytes) := do
  let (k, r1) ← readU8 bs
  let kind ← PollingKind.ofCode k
  let (v, r2) ← readLE 8 r1
  some (⟨kind, v⟩, r2)

/-- `PollingStrategy::from_bytes`: exactly 9 bytes -/
def decodeStrategy (bs : Bytes) : Option PollingStrategy :=
  if bs.length ≠ 9 then none else
  match decodeStrategyBody bs with
  | some (s, _) => some s
  | none => none

/-- a `u32` read as `Option<u32>`: 0 is `None` -/
def decodeOptId (bs : Bytes) : Option (Option Nat × Bytes) := do
  let (n, r) ← readLE 4 bs
  some (if n = 0 then none else some n, r)

/-! ## sdk/src/models/header.rs -/

def HeaderKind.ofCode : Nat → Option HeaderKind
  | 1 => some .raw | 2 => some .string | 3 => some .bool | 4 => some .int8 | 5 => some .int16
  | 6 => some .int32 | 7 => some .int64 | 8 => some .int128 | 9 => some .uint8 | 10 => some .uint16
  | 11 => some .uint32 | 12 => some .uint64 | 13 => some .uint128 | 14 => some .float32
  | 15 => some .float64 | _ => none

/-- `HashMap::insert`: replace the value stored under an equal key, else add -/
def insertHeader (acc : List Header) (h : Header) : List Header :=
  if acc.any (fun x => x.key == h.key) then acc.map (fun x => if x.key == h.key then h else x)
  else acc ++ [h]

/-- one `key_length key kind value_length value` entry -/
def decodeHeader (bs : Bytes) : Option (Header × Bytes) := do
  let (klen, r1) ← readLE 4 bs
  if klen = 0 ∨ klen > 255 then none else
  let (key, r2) ← takeN klen r1
  if !validUtf8 key then none else
  let (kc, r3) ← readU8 r2
  let kind ← HeaderKind.ofCode kc
  let (vlen, r4) ← readLE 4 r3
  if vlen = 0 ∨ vlen > 255 then none else
  let (v, r5) ← takeN vlen r4
  some (⟨key, kind, v⟩, r5)

/-- the `while position < bytes.len()` loop (fuel: every entry consumes at least one byte) -/
def decodeHeadersAux : Nat → Bytes → List Header → Option (List Header)
  | 0, bs, acc => if bs.isEmpty then some acc else none
  | fuel + 1, bs, acc =>
    if bs.isEmpty then some acc else
    match decodeHeader bs with
    | none => none
    | some (h, rest) => decodeHeadersAux fuel rest (insertHeader acc h)

/-- `HashMap<HeaderKey, HeaderValue>::from_bytes` (consumes the whole buffer) -/
def decodeHeaders (bs : Bytes) : Option (List Header) := decodeHeadersAux bs.length bs []

/-! ## sdk/src/messages/send_messages.rs: Message, SendMessages -/

def MESSAGE_MIN_LEN : Nat := 24

/-- `Message::from_bytes` on the remaining buffer. `fresh` is the UUID drawn when the id is 0.
The rest starts `get_size_bytes()` further, which the Rust code recomputes from the DECODED map. -/
def decodeMessage (fresh : Nat) (bs : Bytes) : Option (Message × Bytes) :=
  if bs.length < MESSAGE_MIN_LEN then none else do
  let (id, r1) ← readLE 16 bs
  let (hlen, r2) ← readLE 4 r1
  let (hbytes, r3) ← takeN hlen r2
  let headers ← (if hlen > 0 then decodeHeaders hbytes else some [])
  let (plen, r4) ← readLE 4 r3
  if plen = 0 then none else
  let (payload, _) ← takeN plen r4
  let size := 16 + 4 + headersSize headers + 4 + payload.length
  some (⟨if id = 0 then fresh else id, headers, payload⟩, bs.drop size)

/-- the `while position < messages_payloads.len()` loop -/
def decodeMessagesAux (fresh : Nat) : Nat → Bytes → Option (List Message)
  | 0, bs => if bs.isEmpty then some [] else none
  | fuel + 1, bs =>
    if bs.isEmpty then some [] else
    match decodeMessage fresh bs with
    | none => none
    | some (m, rest) =>
      match decodeMessagesAux fresh fuel rest with
      | none => none
      | some ms => some (m :: ms)

def SEND_MESSAGES_MIN_LEN : Nat := 11

def decodeSendMessages (fresh : Nat) (bs : Bytes) : Option SendMessages :=
  if bs.length < SEND_MESSAGES_MIN_LEN then none else do
  let (stream, r1) ← decodeIdentifier bs
  let (topic, r2) ← decodeIdentifier r1
  let (part, r3) ← decodePartitioning r2
  let msgs ← decodeMessagesAux fresh r3.length r3
  some ⟨stream, topic, part, msgs⟩

def POLL_MESSAGES_MIN_LEN : Nat := 28

def decodePollMessages (bs : Bytes) : Option PollMessages :=
  if bs.length < POLL_MESSAGES_MIN_LEN then none else do
  let (consumer, r1) ← decodeConsumerBody bs
  let (stream, r2) ← decodeIdentifier r1
  let (topic, r3) ← decodeIdentifier r2
  let (partition, r4) ← decodeOptId r3
  let (strategy, r5) ← decodeStrategyBody r4
  let (count, r6) ← readLE 4 r5
  let (ac, _) ← readU8 r6
  some ⟨consumer, stream, topic, partition, strategy, count, ac == 1⟩

/-- `FlushUnsavedBuffer::from_bytes` has no length guard -/
def decodeFlushUnsavedBuffer (bs : Bytes) : Option FlushUnsavedBuffer := do
  let (stream, r1) ← decodeIdentifier bs
  let (topic, r2) ← decodeIdentifier r1
  let (partition, r3) ← readLE 4 r2
  let (f, _) ← readU8 r3
  some ⟨stream, topic, partition, f == 1⟩

/-! ## sdk/src/consumer_offsets -/

def CONSUMER_OFFSET_MIN_LEN : Nat := 14

/-- `GetConsumerOffset::from_bytes` / `DeleteConsumerOffset::from_bytes` -/
def decodeConsumerOffsetRef (bs : Bytes) : Option ConsumerOffsetRef :=
  if bs.length < CONSUMER_OFFSET_MIN_LEN then none else do
  let (consumer, r1) ← decodeConsumerBody bs
  let (stream, r2) ← decodeIdentifier r1
  let (topic, r3) ← decodeIdentifier r2
  let (partition, _) ← decodeOptId r3
  some ⟨consumer, stream, topic, partition⟩

def STORE_CONSUMER_OFFSET_MIN_LEN : Nat := 22

def decodeStoreConsumerOffset (bs : Bytes) : Option StoreConsumerOffset :=
  if bs.length < STORE_CONSUMER_OFFSET_MIN_LEN then none else do
  let (consumer, r1) ← decodeConsumerBody bs
  let (stream, r2) ← decodeIdentifier r1
  let (topic, r3) ← decodeIdentifier r2
  let (partition, r4) ← decodeOptId r3
  let (offset, _) ← readLE 8 r4
  some ⟨consumer, stream, topic, partition, offset⟩

/-! ## sdk/src/streams -/

def CREATE_STREAM_MIN_LEN : Nat := 6

def decodeCreateStream (bs : Bytes) : Option CreateStream :=
  if bs.length < CREATE_STREAM_MIN_LEN then none else do
  let (id, r1) ← decodeOptId bs
  let (name, _) ← decodeStr8 r1
  some ⟨id, name⟩

def UPDATE_STREAM_MIN_LEN : Nat := 5

def decodeUpdateStream (bs : Bytes) : Option UpdateStream :=
  if bs.length < UPDATE_STREAM_MIN_LEN then none else do
  let (stream, r1) ← decodeIdentifier bs
  let (name, _) ← decodeStr8 r1
  some ⟨stream, name⟩

def SINGLE_ID_MIN_LEN : Nat := 3

/-- Get/Delete/PurgeStream, GetTopics, Get/DeleteUser: one identifier -/
def decodeSingleId (bs : Bytes) : Option Identifier :=
  if bs.length < SINGLE_ID_MIN_LEN then none else
  match decodeIdentifier bs with
  | some (i, _) => some i
  | none => none

/-! ## sdk/src/topics, partitions, consumer_groups -/

def TOPIC_REF_MIN_LEN : Nat := 6

/-- Get/Delete/PurgeTopic, GetConsumerGroups -/
def decodeTopicRef (bs : Bytes) : Option TopicRef :=
  if bs.length < TOPIC_REF_MIN_LEN then none else do
  let (stream, r1) ← decodeIdentifier bs
  let (topic, _) ← decodeIdentifier r1
  some ⟨stream, topic⟩

def Compression.ofCode : Nat → Option Compression
  | 1 => some .uncompressed | 2 => some .gzip | _ => Option.none

/-- `IggyExpiry::from(u64)` -/
def Expiry.ofNat (n : Nat) : Expiry :=
  if n = 2 ^ 64 - 1 then .neverExpire else if n = 0 then .serverDefault else .expireMicros n

/-- `MaxTopicSize::from(u64)` -/
def MaxTopicSize.ofNat (n : Nat) : MaxTopicSize :=
  if n = 0 then .serverDefault else if n = 2 ^ 64 - 1 then .unlimited else .custom n

def decodeOptRf (bs : Bytes) : Option (Option Nat × Bytes) := do
  let (n, r) ← readU8 bs
  some (if n = 0 then none else some n, r)

def CREATE_TOPIC_MIN_LEN : Nat := 18

def decodeCreateTopic (bs : Bytes) : Option CreateTopic :=
  if bs.length < CREATE_TOPIC_MIN_LEN then none else do
  let (stream, r1) ← decodeIdentifier bs
  let (id, r2) ← decodeOptId r1
  let (partitions, r3) ← readLE 4 r2
  let (cc, r4) ← readU8 r3
  let compression ← Compression.ofCode cc
  let (expiry, r5) ← readLE 8 r4
  let (maxSize, r6) ← readLE 8 r5
  let (rf, r7) ← decodeOptRf r6
  let (name, _) ← decodeStr8 r7
  some ⟨stream, id, partitions, compression, Expiry.ofNat expiry, MaxTopicSize.ofNat maxSize, rf, name⟩

def UPDATE_TOPIC_MIN_LEN : Nat := 21

def decodeUpdateTopic (bs : Bytes) : Option UpdateTopic :=
  if bs.length < UPDATE_TOPIC_MIN_LEN then none else do
  let (stream, r1) ← decodeIdentifier bs
  let (topic, r2) ← decodeIdentifier r1
  let (cc, r4) ← readU8 r2
  let compression ← Compression.ofCode cc
  let (expiry, r5) ← readLE 8 r4
  let (maxSize, r6) ← readLE 8 r5
  let (rf, r7) ← decodeOptRf r6
  let (name, _) ← decodeStr8 r7
  some ⟨stream, topic, compression, Expiry.ofNat expiry, MaxTopicSize.ofNat maxSize, rf, name⟩

def PARTITIONS_MIN_LEN : Nat := 10

/-- Create/DeletePartitions -/
def decodePartitions (bs : Bytes) : Option Partitions :=
  if bs.length < PARTITIONS_MIN_LEN then none else do
  let (stream, r1) ← decodeIdentifier bs
  let (topic, r2) ← decodeIdentifier r1
  let (count, _) ← readLE 4 r2
  some ⟨stream, topic, count⟩

def CREATE_CONSUMER_GROUP_MIN_LEN : Nat := 10

def decodeCreateConsumerGroup (bs : Bytes) : Option CreateConsumerGroup :=
  if bs.length < CREATE_CONSUMER_GROUP_MIN_LEN then none else do
  let (stream, r1) ← decodeIdentifier bs
  let (topic, r2) ← decodeIdentifier r1
  let (id, r3) ← decodeOptId r2
  let (name, _) ← decodeStr8 r3
  some ⟨stream, topic, id, name⟩

def GROUP_REF_MIN_LEN : Nat := 9

/-- Get/Delete/Join/LeaveConsumerGroup -/
def decodeGroupRef (bs : Bytes) : Option GroupRef :=
  if bs.length < GROUP_REF_MIN_LEN then none else do
  let (stream, r1) ← decodeIdentifier bs
  let (topic, r2) ← decodeIdentifier r1
  let (group, _) ← decodeIdentifier r2
  some ⟨stream, topic, group⟩

/-! ## sdk/src/models/permissions.rs -/

/-- `n` flag bytes, each `get_u8() == 1` -/
def decodeFlags (n : Nat) (bs : Bytes) : Option (List Bool × Bytes) :=
  match takeN n bs with
  | some (a, r) => some (a.map (· == 1), r)
  | none => none

/-- `AHashMap::insert` -/
def insertTopicPerm (acc : List TopicPerm) (t : TopicPerm) : List TopicPerm :=
  if acc.any (fun x => x.id == t.id) then acc.map (fun x => if x.id == t.id then t else x)
  else acc ++ [t]

/-- the inner `loop { .. if get_u8() == 0 { break } }` (fuel: every entry consumes 9 bytes) -/
def decodeTopicPerms : Nat → Bytes → List TopicPerm → Option (List TopicPerm × Bytes)
  | 0, _, _ => none
  | fuel + 1, bs, acc => do
    let (id, r1) ← readLE 4 bs
    let (flags, r2) ← decodeFlags 4 r1
    let (more, r3) ← readU8 r2
    let acc' := insertTopicPerm acc ⟨id, flags⟩
    if more = 0 then some (acc', r3) else decodeTopicPerms fuel r3 acc'

def insertStreamPerm (acc : List StreamPerm) (s : StreamPerm) : List StreamPerm :=
  if acc.any (fun x => x.id == s.id) then acc.map (fun x => if x.id == s.id then s else x)
  else acc ++ [s]

/-- one stream entry without its continuation byte -/
def decodeStreamPerm (bs : Bytes) : Option (StreamPerm × Bytes) := do
  let (id, r1) ← readLE 4 bs
  let (flags, r2) ← decodeFlags 6 r1
  let (hasTopics, r3) ← readU8 r2
  if hasTopics = 1 then
    let (topics, r4) ← decodeTopicPerms r3.length r3 []
    some (⟨id, flags, topics⟩, r4)
  else some (⟨id, flags, []⟩, r3)

def decodeStreamPerms : Nat → Bytes → List StreamPerm → Option (List StreamPerm × Bytes)
  | 0, _, _ => none
  | fuel + 1, bs, acc => do
    let (s, r1) ← decodeStreamPerm bs
    let (more, r2) ← readU8 r1
    let acc' := insertStreamPerm acc s
    if more = 0 then some (acc', r2) else decodeStreamPerms fuel r2 acc'

/-- `Permissions::from_bytes` (no guard at all: every read is a `get_*` that panics on a short buffer) -/
def decodePermissions (bs : Bytes) : Option Permissions := do
  let (global, r1) ← decodeFlags 10 bs
  let (hasStreams, r2) ← readU8 r1
  if hasStreams = 1 then
    let (streams, _) ← decodeStreamPerms r2.length r2 []
    some ⟨global, streams⟩
  else some ⟨global, []⟩

/-! ## sdk/src/users -/

def UserStatus.ofCode : Nat → Option UserStatus
  | 1 => some .active | 2 => some .inactive | _ => none

/-- presence byte (> 1 refused), `u32` length, `Permissions::from_bytes(bytes.slice(pos..pos+len))` -/
def decodeOptPerm (bs : Bytes) : Option (Option Permissions × Bytes) := do
  let (has, r1) ← readU8 bs
  if has > 1 then none else
  if has = 1 then
    let (len, r2) ← readLE 4 r1
    let (pb, r3) ← takeN len r2
    let p ← decodePermissions pb
    some (some p, r3)
  else some (none, r1)

def CREATE_USER_MIN_LEN : Nat := 10

def decodeCreateUser (bs : Bytes) : Option CreateUser :=
  if bs.length < CREATE_USER_MIN_LEN then none else do
  let (username, r1) ← decodeStr8 bs
  let (password, r2) ← decodeStr8 r1
  let (sc, r3) ← readU8 r2
  let status ← UserStatus.ofCode sc
  let (perm, _) ← decodeOptPerm r3
  some ⟨username, password, status, perm⟩

def UPDATE_USER_MIN_LEN : Nat := 5

def decodeUpdateUser (bs : Bytes) : Option UpdateUser :=
  if bs.length < UPDATE_USER_MIN_LEN then none else do
  let (user, r1) ← decodeIdentifier bs
  let (hasName, r2) ← readU8 r1
  if hasName > 1 then none else
  let (username, r3) ← (if hasName = 1 then
      match decodeStr8 r2 with
      | some (n, r) => some (some n, r)
      | none => none
    else some (none, r2))
  let (hasStatus, r4) ← readU8 r3
  if hasStatus > 1 then none else
  if hasStatus = 1 then
    let (sc, _) ← readU8 r4
    let status ← UserStatus.ofCode sc
    some ⟨user, username, some status⟩
  else some ⟨user, username, none⟩

def UPDATE_PERMISSIONS_MIN_LEN : Nat := 4

def decodeUpdatePermissions (bs : Bytes) : Option UpdatePermissions :=
  if bs.length < UPDATE_PERMISSIONS_MIN_LEN then none else do
  let (user, r1) ← decodeIdentifier bs
  let (perm, _) ← decodeOptPerm r1
  some ⟨user, perm⟩

def CHANGE_PASSWORD_MIN_LEN : Nat := 9

def decodeChangePassword (bs : Bytes) : Option ChangePassword :=
  if bs.length < CHANGE_PASSWORD_MIN_LEN then none else do
  let (user, r1) ← decodeIdentifier bs
  let (cur, r2) ← decodeStr8 r1
  let (new, _) ← decodeStr8 r2
  some ⟨user, cur, new⟩

/-- `u32` length; 0 is `None`, else that many bytes of UTF-8 -/
def decodeOptMeta (bs : Bytes) : Option (Option Bytes × Bytes) := do
  let (len, r1) ← readLE 4 bs
  if len = 0 then some (none, r1) else
  let (s, r2) ← takeN len r1
  if validUtf8 s then some (some s, r2) else none

def LOGIN_USER_MIN_LEN : Nat := 4

def decodeLoginUser (bs : Bytes) : Option LoginUser :=
  if bs.length < LOGIN_USER_MIN_LEN then none else do
  let (username, r1) ← decodeStr8 bs
  let (password, r2) ← decodeStr8 r1
  let (version, r3) ← decodeOptMeta r2
  let (context, _) ← decodeOptMeta r3
  some ⟨username, password, version, context⟩

/-! ## sdk/src/personal_access_tokens -/

def CREATE_PAT_MIN_LEN : Nat := 12

def decodeCreatePat (bs : Bytes) : Option CreatePat :=
  if bs.length < CREATE_PAT_MIN_LEN then none else do
  let (name, r1) ← decodeStr8 bs
  let (expiry, _) ← readLE 8 r1
  some ⟨name, Expiry.ofNat expiry⟩

def PAT_NAME_MIN_LEN : Nat := 4

/-- `DeletePersonalAccessToken::from_bytes`: guard `bytes.len() < 4`, then one length-prefixed string
(`bytes[1..1 + len]` panics on a short buffer) -/
def decodePatString (bs : Bytes) : Option Bytes :=
  if bs.length < PAT_NAME_MIN_LEN then none else
  match decodeStr8 bs with
  | some (s, _) => some s
  | none => none

def LOGIN_PAT_MIN_LEN : Nat := 2

/-- `LoginWithPersonalAccessToken::from_bytes` (fix d573560): guard `bytes.len() < 2`, then
`bytes.len() < 1 + token_length` refused with `InvalidCommand` (`takeN` inside `decodeStr8`), then the
token as UTF-8 -/
def decodeLoginPat (bs : Bytes) : Option Bytes :=
  if bs.length < LOGIN_PAT_MIN_LEN then none else
  match decodeStr8 bs with
  | some (s, _) => some s
  | none => none

/-! ## sdk/src/system -/

/-- commands without payload: a non-empty payload is refused -/
def decodeEmpty (bs : Bytes) : Option Unit := if bs.isEmpty then some () else none

/-- `GetClient::from_bytes`: exactly 4 bytes -/
def decodeGetClient (bs : Bytes) : Option Nat :=
  if bs.length ≠ 4 then none else some (leVal bs)

def SnapshotCompression.okCode (n : Nat) : Bool := 1 ≤ n && n ≤ 6
def SnapshotType.okCode (n : Nat) : Bool := (1 ≤ n && n ≤ 6) || n == 100

def decodeSnapshotTypes : Nat → Bytes → Option (List Nat)
  | 0, _ => some []
  | n + 1, bs =>
    match readU8 bs with
    | none => none
    | some (t, r) =>
      if SnapshotType.okCode t then
        match decodeSnapshotTypes n r with
        | some ts => some (t :: ts)
        | none => none
      else none

def decodeGetSnapshot (bs : Bytes) : Option GetSnapshot := do
  let (c, r1) ← readU8 bs
  if !SnapshotCompression.okCode c then none else
  let (n, r2) ← readU8 r1
  let types ← decodeSnapshotTypes n r2
  some ⟨c, types⟩

end Iggy.Codec
