/-
C13 codec model, the journal encodings: `StateEntry::to_bytes` / `from_bytes` (server/src/state/entry.rs)
and `EntryCommand::to_bytes` / `from_bytes` (server/src/state/command.rs, models.rs). An entry command is
`code, u32 length, payload`; for 18 of the 19 journaled commands the payload is the SAME bytes the wire
command carries (the SDK's `to_bytes`), so the model reuses `Command`; `CreatePersonalAccessToken` is
journaled together with the token hash.
-/
import Iggy.Codec.Frame
namespace Iggy.Codec

structure StateEntry where
  index : Nat
  term : Nat
  leader : Nat
  version : Nat
  flags : Nat
  timestamp : Nat
  user : Nat
  checksum : Nat
  context : Bytes
  command : Bytes
deriving Repr, DecidableEq

def StateEntry.Valid (e : StateEntry) : Prop :=
  e.index < 2 ^ 64 ∧ e.term < 2 ^ 64 ∧ e.leader < 2 ^ 32 ∧ e.version < 2 ^ 32 ∧ e.flags < 2 ^ 64 ∧
  e.timestamp < 2 ^ 64 ∧ e.user < 2 ^ 32 ∧ e.checksum < 2 ^ 32 ∧ e.context.length < 2 ^ 32
instance StateEntry.decValid (e : StateEntry) : Decidable e.Valid := by
  unfold StateEntry.Valid; infer_instance

/-- `StateEntry::to_bytes` -/
def encodeStateEntry (e : StateEntry) : Bytes :=
  le64 e.index ++ le64 e.term ++ le32 e.leader ++ le32 e.version ++ le64 e.flags ++ le64 e.timestamp ++
  le32 e.user ++ le32 e.checksum ++ le32 e.context.length ++ e.context ++ e.command

/-- `StateEntry::from_bytes`: fixed slices (a short buffer panics), the command is whatever follows the context -/
def decodeStateEntry (bs : Bytes) : Option StateEntry := do
  let (index, r1) ← readLE 8 bs
  let (term, r2) ← readLE 8 r1
  let (leader, r3) ← readLE 4 r2
  let (version, r4) ← readLE 4 r3
  let (flags, r5) ← readLE 8 r4
  let (ts, r6) ← readLE 8 r5
  let (user, r7) ← readLE 4 r6
  let (checksum, r8) ← readLE 4 r7
  let (clen, r9) ← readLE 4 r8
  let (context, command) ← takeN clen r9
  some ⟨index, term, leader, version, flags, ts, user, checksum, context, command⟩

/-- the commands the journal records with their wire payload -/
def CommandKind.journaled : CommandKind → Bool
  | .createStream | .updateStream | .deleteStream | .purgeStream | .createTopic | .updateTopic
  | .deleteTopic | .purgeTopic | .createPartitions | .deletePartitions | .createConsumerGroup
  | .deleteConsumerGroup | .createUser | .updateUser | .deleteUser | .changePassword
  | .updatePermissions | .deletePersonalAccessToken => true
  | _ => false

inductive EntryCommand where
  | cmd (c : Command)
  | createPatWithHash (c : CreatePat) (hash : Bytes)
deriving Repr, DecidableEq

/-- `CreatePersonalAccessTokenWithHash::to_bytes` -/
def encodePatWithHash (c : CreatePat) (hash : Bytes) : Bytes :=
  le32 (encodeCreatePat c).length ++ encodeCreatePat c ++ le32 hash.length ++ hash

def EntryCommand.Valid : EntryCommand → Prop
  | .cmd c => c.Valid ∧ c.kind.journaled = true ∧ (encodePayload c).length < 2 ^ 32
  | .createPatWithHash c hash => c.Valid ∧ hash.length < 2 ^ 31 ∧ validUtf8 hash = true
instance EntryCommand.decValid (e : EntryCommand) : Decidable e.Valid := by
  cases e <;> unfold EntryCommand.Valid <;> infer_instance

/-- `EntryCommand::to_bytes`: code, length, payload -/
def encodeEntryCommand : EntryCommand → Bytes
  | .cmd c => le32 c.kind.code ++ le32 (encodePayload c).length ++ encodePayload c
  | .createPatWithHash c hash =>
    le32 CommandKind.createPersonalAccessToken.code ++ le32 (encodePatWithHash c hash).length ++
    encodePatWithHash c hash

/-- `CreatePersonalAccessTokenWithHash::from_bytes` -/
def decodePatWithHash (bs : Bytes) : Option EntryCommand := do
  let (clen, r1) ← readLE 4 bs
  let (cb, r2) ← takeN clen r1
  let c ← decodeCreatePat cb
  let (hlen, r3) ← readLE 4 r2
  let (hash, _) ← takeN hlen r3
  if validUtf8 hash then some (.createPatWithHash c hash) else none

/-- `EntryCommand::from_bytes`: `slice(0..4)`, `slice(4..8)`, `slice(8..8+length)`, dispatch on the code -/
def decodeEntryCommand (bs : Bytes) : Option EntryCommand := do
  let (code, r1) ← readLE 4 bs
  let (len, r2) ← readLE 4 r1
  let (payload, _) ← takeN len r2
  match CommandKind.ofCode code with
  | none => none
  | some k =>
    if k = .createPersonalAccessToken then decodePatWithHash payload
    else if k.journaled then (decodePayload 0 k payload).map .cmd
    else none

end Iggy.Codec
