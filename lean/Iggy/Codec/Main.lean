/-
`codecjudge`: reads harness lines on stdin.
  codecjudge            lines of `verif-harness codec`        -> prints every DIFF and a summary
                        (`invalid`: INVALID lines = values validate() refuses, on which the model's
                        `Valid` is false too; `invalid_unjudged`: INVALID lines whose value could not
                        be read back from the bytes; neither is a decode mismatch)
  codecjudge decode     lines `<kind> <hex>`                  -> `OK <desc>` | `NONE` | `SKIP` per line
-/
import Iggy.Codec.Driver
open Iggy.Codec.Driver

/-- the line without its end-of-line -/
def chomp (line : String) : String := ((line.splitOn "\n").headD "").replace "\r" ""

structure Tally where
  n : Nat := 0
  same : Nat := 0
  diff : Nat := 0
  skip : Nat := 0
  invalid : Nat := 0
  unjudged : Nat := 0

partial def judgeLoop (h : IO.FS.Stream) (t : Tally) : IO Tally := do
  let line ← h.getLine
  if line.isEmpty then return t
  let line := chomp line
  let v := checkLine line
  let t := { t with n := t.n + 1 }
  if v == "SAME" then judgeLoop h { t with same := t.same + 1 }
  else if v == "SKIP" then judgeLoop h { t with skip := t.skip + 1 }
  else if v == "INVALID" then judgeLoop h { t with invalid := t.invalid + 1 }
  else if v == "INVALID?" then judgeLoop h { t with unjudged := t.unjudged + 1 }
  else
    let kind := (line.splitOn " ").headD ""
    IO.println s!"{v.take 400} line={t.n} kind={kind}"
    judgeLoop h { t with diff := t.diff + 1 }

partial def decodeLoop (h : IO.FS.Stream) : IO Unit := do
  let line ← h.getLine
  if line.isEmpty then return ()
  IO.println (decodeLine (chomp line))
  decodeLoop h

def main (args : List String) : IO UInt32 := do
  let stdin ← IO.getStdin
  match args with
  | ["decode"] => decodeLoop stdin; return 0
  | _ =>
    let t ← judgeLoop stdin {}
    IO.println (s!"JUDGED total={t.n} same={t.same} diff={t.diff} skipped={t.skip} " ++
      s!"invalid={t.invalid} invalid_unjudged={t.unjudged}")
    return (if t.diff == 0 then 0 else 1)
