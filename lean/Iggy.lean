import Iggy.Log.Model
