import Iggy.Log.Model
import Iggy.Log.Spec
import Iggy.Sys.Model
import Iggy.Sys.Spec
import Iggy.Log.Abs
