/-
`judge journal`: replays a trace of the harness's `journal` mode on the journal model
(Iggy/Journal/Model.lean, with the executable CRC-32) and reports differences and violations of C11.
-/
import Iggy.Journal.Model
open Iggy.Journal

namespace Driver.Journal

def hexVal (c : Char) : Nat :=
  if '0' ≤ c ∧ c ≤ '9' then c.toNat - '0'.toNat
  else if 'a' ≤ c ∧ c ≤ 'f' then c.toNat - 'a'.toNat + 10
  else if 'A' ≤ c ∧ c ≤ 'F' then c.toNat - 'A'.toNat + 10 else 0

def hexDecode (s : String) : Bytes :=
  let rec go : List Char → Bytes
    | a :: b :: rest => UInt8.ofNat (hexVal a * 16 + hexVal b) :: go rest
    | _ => []
  go s.toList

structure St where
  fs : FState := {}
  orig : List Entry := []
  now : Nat := 0
  version : Nat := 0
  failIn : Nat := 0
  pendingConc : Option Nat := none
  line : Nat := 0
  corr : Nat := 0
  spec : Nat := 0
  loads : Nat := 0
  mutations : Nat := 0
  cov : List (String × Nat) := []

def bump (cov : List (String × Nat)) (k : String) (n : Nat := 1) : List (String × Nat) :=
  match cov.find? (fun e => e.1 == k) with
  | some _ => cov.map (fun e => if e.1 == k then (e.1, e.2 + n) else e)
  | none => cov ++ [(k, n)]

def errClass (name : String) : String :=
  if name == "invalid_number_encoding" || name == "cannot_read_file" then "short"
  else if name == "state_file_corrupted" then "corrupted"
  else if name == "invalid_state_entry_checksum" then "checksum"
  else "command"

def modelErrClass : Err → String
  | .short => "short" | .corrupted => "corrupted" | .badCommand => "command" | .badChecksum => "checksum"

def valid (_ : Bytes) : Bool := true

def showLoad (r : Except Err (List Entry)) : String :=
  match r with
  | .error e => "err " ++ modelErrClass e
  | .ok es => (s!"ok {es.length} " ++ ",".intercalate (es.map (fun e => toString e.index))).trimAsciiEnd.toString

def canonLoad (impl : String) : String :=
  match impl.splitOn " " with
  | ["err", name] => "err " ++ errClass name
  | _ => impl

def showVerdict : Verdict → String
  | .err => "E" | .prefix' n => s!"P{n}" | .different => "D"

/-- as harness/src/journal.rs has_huge_length -/
partial def hasHuge (b : Bytes) : Bool :=
  if b.length < 52 then false else
  let ctx := leVal ((b.drop 48).take 4)
  if ctx > 16777216 then true else
  let b2 := b.drop (52 + ctx)
  if b2.length < 8 then false else
  let cl := leVal ((b2.drop 4).take 4)
  if cl > 16777216 then true else
  hasHuge (b2.drop (8 + cl))

def setAt (b : Bytes) (i : Nat) (v : UInt8) : Bytes := b.take i ++ v :: b.drop (i + 1)

def sweepBytes (orig : List Entry) (base : Bytes) (full : Bool) : String × Nat :=
  let arr := base.toArray
  let lines := (List.range base.length).map (fun i =>
    let old := arr[i]!
    let vals : List UInt8 := if full then (List.range 256).map UInt8.ofNat
      else [old + 1, old ^^^ 0x80, 0x00, 0xFF]
    ",".intercalate (vals.map (fun v =>
      if v == old then "-" else
      let m := setAt base i v
      if hasHuge m then "H" else showVerdict (verdict crc32 valid orig m))))
  (";".intercalate lines, base.length * (if full then 255 else 4))

def sweepTrunc (orig : List Entry) (base : Bytes) : String :=
  ",".intercalate ((List.range base.length).map (fun k => showVerdict (verdict crc32 valid orig (base.take k))))

def stepLine (st : St) (raw : String) : St × List String :=
  let st := { st with line := st.line + 1 }
  let (opS, impl) := match raw.splitOn "\t" with
    | [a, b] => (a.trimAscii.toString, b.trimAscii.toString)
    | a :: _ => (a.trimAscii.toString, "")
    | [] => ("", "")
  let toks := (opS.splitOn " ").filter (· ≠ "")
  let it := impl.splitOn " "
  match toks with
  | ["clock", t] => ({ st with now := t.toNat?.getD 0 }, [])
  | ["version"] => ({ st with version := (it.getD 1 "").toNat?.getD 0 }, [])
  | ["new"] => ({ st with fs := {}, orig := [], failIn := 0, pendingConc := none }, [])
  | ["fail-in", n] => ({ st with failIn := n.toNat?.getD 0 }, [])
  | "apply" :: user :: _ =>
    let fail := st.failIn == 1
    let st := { st with failIn := st.failIn - 1, cov := bump st.cov (if fail then "apply-failed" else "apply") }
    if fail then
      let (fs', _) := st.fs.apply crc32 st.now 0 0 [] st.version true
      if it.headD "" == "err" then ({ st with fs := fs' }, [])
      else ({ st with fs := fs', corr := st.corr + 1 }, [s!"CORR-DIFF {st.line} kind=apply op={opS} model=err impl={impl}"])
    else
      match it with
      | ["ok", idx, cmdhex] =>
        let cmd := hexDecode cmdhex
        let code := leVal (cmd.take 4)
        let payload := cmd.drop 8
        let (fs', _) := st.fs.apply crc32 st.now (user.toNat?.getD 0) code payload st.version false
        let e : Entry := { index := fs'.currentIndex, term := 0, leader := 0, version := st.version, flags := 0,
                           ts := st.now, user := user.toNat?.getD 0, checksum := 0, ctx := [], code := code, payload := payload }
        let st' := { st with fs := fs', orig := st.orig ++ [e] }
        if idx.toNat? == some fs'.currentIndex then (st', [])
        else ({ st' with corr := st.corr + 1 }, [s!"CORR-DIFF {st.line} kind=apply op={opS} model=ok {fs'.currentIndex} impl={impl}"])
      | _ => ({ st with corr := st.corr + 1 }, [s!"CORR-DIFF {st.line} kind=apply op={opS} model=ok impl={impl}"])
  | ["concurrent", _] => ({ st with pendingConc := (it.getD 1 "").toNat?, cov := bump st.cov "concurrent" }, [])
  | ["dump"] =>
    let bytes := hexDecode (it.getD 1 "")
    match st.pendingConc with
    | some k =>
      -- order of concurrent applies is the scheduler's: re-synchronise the model from the file, after
      -- checking what C11 demands of it
      match load crc32 valid bytes with
      | .error e => ({ st with spec := st.spec + 1, pendingConc := none },
          [s!"SPEC-VIOL {st.line} class=journal-malformed after concurrent applies the journal does not load: {modelErrClass e}"])
      | .ok es =>
        let okPrefix := (es.take st.orig.length).map (fun e => (e.index, e.cmd)) == st.orig.map (fun e => (e.index, e.cmd))
        if es.length == st.orig.length + k && okPrefix then
          ({ st with orig := es, pendingConc := none,
                     fs := { currentIndex := es.length - 1, entriesCount := es.length, file := bytes } }, [])
        else ({ st with spec := st.spec + 1, pendingConc := none },
          [s!"SPEC-VIOL {st.line} class=journal-malformed after {k} concurrent applies: {es.length} entries, prefix kept={okPrefix}"])
    | none =>
      if bytes == st.fs.file then ({ st with cov := bump st.cov "dump-bytes-equal" }, [])
      else ({ st with corr := st.corr + 1 }, [s!"CORR-DIFF {st.line} kind=journal-bytes model file ({st.fs.file.length} bytes) differs from the real file ({bytes.length} bytes)"])
  | ["load"] | ["reopen"] =>
    let m := showLoad (load crc32 valid st.fs.file)
    let i := canonLoad impl
    let st := { st with loads := st.loads + 1 }
    let viol := if i.startsWith "ok" || i.startsWith "err" then [] else
      [s!"SPEC-VIOL {st.line} class=loader-crash impl={impl}"]
    let st := { st with spec := st.spec + viol.length }
    if m == i then (st, viol) else ({ st with corr := st.corr + 1 }, viol ++ [s!"CORR-DIFF {st.line} kind=load op={opS} model={m} impl={i}"])
  | ["verdict"] =>
    let m := showVerdict (verdict crc32 valid st.orig st.fs.file)
    let i := it.getD 1 ""
    let st := { st with mutations := st.mutations + 1, cov := bump st.cov ("entry-mutation-" ++ (m.take 1).toString) }
    let bad := if i == "D" || i == "X" then [s!"SPEC-VIOL {st.line} class=tamper-accepted a mutated journal was accepted as a different history (or crashed the loader): {i}"] else []
    let st := { st with spec := st.spec + bad.length }
    if m == i then (st, bad) else ({ st with corr := st.corr + 1 }, bad ++ [s!"CORR-DIFF {st.line} kind=verdict model={m} impl={i}"])
  | ["set", hex] => ({ st with fs := { st.fs with file := hexDecode hex } }, [])
  | ["set"] => ({ st with fs := { st.fs with file := [] } }, [])
  | ["sweep-bytes", mode] =>
    let (m, n) := sweepBytes st.orig st.fs.file (mode == "full")
    let i := it.getD 1 ""
    let st := { st with mutations := st.mutations + n, cov := bump st.cov "byte-mutations" n }
    let bad := (i.splitOn ";").zipIdx.filterMap (fun (l, pos) =>
      if (l.splitOn ",").any (fun v => v == "D" || v == "X") then some s!"SPEC-VIOL {st.line} class=tamper-accepted byte {pos}: {l}" else none)
    let st := { st with spec := st.spec + bad.length }
    if m == i then (st, bad.take 5) else
      let mis := ((m.splitOn ";").zip (i.splitOn ";")).zipIdx.filterMap (fun ((a, b), pos) =>
        if a == b then none else some s!"CORR-DIFF {st.line} kind=sweep byte {pos}: model={a} impl={b}")
      ({ st with corr := st.corr + mis.length }, bad.take 5 ++ mis.take 5)
  | ["sweep-trunc"] =>
    let m := sweepTrunc st.orig st.fs.file
    let i := it.getD 1 ""
    let st := { st with mutations := st.mutations + st.fs.file.length, cov := bump st.cov "truncations" st.fs.file.length }
    let bad := if (i.splitOn ",").any (fun v => v == "D" || v == "X") then
      [s!"SPEC-VIOL {st.line} class=tamper-accepted truncation: {i}"] else []
    let st := { st with spec := st.spec + bad.length }
    if m == i then (st, bad) else ({ st with corr := st.corr + 1 }, bad ++ [s!"CORR-DIFF {st.line} kind=sweep-trunc model={m} impl={i}"])
  | _ => (st, [])

partial def loop (h : IO.FS.Stream) (st : St) : IO St := do
  let line ← h.getLine
  if line.isEmpty then return st
  let l := (line.dropEndWhile (fun c => c == '\n' || c == '\r')).toString
  let (st', msgs) := stepLine st l
  for m in msgs do IO.println m
  loop h st'

def main : IO UInt32 := do
  let st ← loop (← IO.getStdin) {}
  IO.println ("COV " ++ " ".intercalate (st.cov.map (fun e => s!"{e.1}={e.2}")) ++ s!" loads={st.loads}")
  IO.println s!"DONE lines={st.line} modelled={st.line} corr={st.corr} spec={st.spec}"
  return 0

end Driver.Journal
