/-
`judge`: replays a trace of the `node` line protocol on the L1 model and on the L2 specification
and reports where the implementation differs from either.  No logic of its own beyond parsing
lines and printing canonical text (DESIGN.md §2.3).

usage: judge sys < trace     (trace lines: `<op>\t<impl result>`; first line `cfg …`)
-/
import Iggy.Sys.Model
import Iggy.Sys.Spec
import Iggy.Sys.Auth
import Iggy.Perm.Enum
import Iggy.Perm.Spec
import Driver.Journal
import Iggy.Sdk.Model
open Iggy Iggy.Log Iggy.Sys

namespace Driver

def kvs (toks : List String) : List (String × String) :=
  toks.filterMap (fun t => match t.splitOn "=" with
    | k :: v :: rest => some (k, "=".intercalate (v :: rest))     -- values may contain '=' (base64 keys)
    | _ => none)

def kvGet (l : List (String × String)) (k d : String) : String :=
  ((l.find? (fun e => e.1 == k)).map (·.2)).getD d

def dropS (s : String) (n : Nat) : String := (s.drop n).toString

def parseIdent (s : String) : Option Ident :=
  if s.startsWith "#" then (dropS s 1).toNat?.map Ident.num
  else if s.startsWith "@" then some (Ident.name (dropS s 1))
  else none

def optNat (s : String) : Option (Option Nat) :=
  if s == "-" then some none else s.toNat?.map some

/-- `c:#n`, `g:#n`, `c:@name=hash` -/
def parseConsumer (s : String) : Option Consumer :=
  let grp := s.startsWith "g:"
  let rest := dropS s 2
  if rest.startsWith "#" then (dropS rest 1).toNat?.map (fun n => { grp := grp, id := n })
  else match rest.splitOn "=" with
    | [_, h] => h.toNat?.map (fun n => { grp := grp, id := n })
    | _ => none

def parseKind (s : String) : Option PollKind :=
  if s.startsWith "offset:" then (dropS s 7).toNat?.map PollKind.offset
  else if s.startsWith "ts:" then (dropS s 3).toNat?.map PollKind.timestamp
  else if s == "first" then some .first
  else if s == "last" then some .last
  else if s == "next" then some .next
  else none

/-- `balanced`, `pid:n`, `key:hex=hash` -/
def parsePartitioning (s : String) : Option Partitioning :=
  if s == "balanced" then some .balanced
  else if s.startsWith "pid:" then (dropS s 4).toNat?.map Partitioning.pid
  else if s.startsWith "key:" then
    match (dropS s 4).splitOn "=" with
    | [_, h] => h.toNat?.map Partitioning.key
    | _ => none
  else none

/-- message size on disk: 4 (length) + 41 (fixed fields) + headers (15 bytes each) + payload -/
def msgSize (encOverhead psize nhdr : Nat) : Nat := 45 + psize + encOverhead + 15 * nhdr

/-- `id:psize:tag:nhdr,…` -/
def parseMsgs (enc : Nat) (s : String) : Option (List InMsg) :=
  if s == "-" then some [] else
  (s.splitOn ",").mapM (fun m => match m.splitOn ":" with
    | [id, psize, tag, nhdr] => do
      let id ← id.toNat?
      let psize ← psize.toNat?
      let tag ← tag.toNat?
      let nhdr ← nhdr.toNat?
      pure { id := id, size := msgSize enc psize nhdr, tag := tag * 16 + nhdr }
    | _ => none)

def parseExpiry (s : String) : Option ExpiryArg :=
  if s == "never" then some .never else if s == "default" then some .default
  else s.toNat?.map ExpiryArg.dur

def parseMax (s : String) : Option MaxArg :=
  if s == "unlimited" then some .unlimited else if s == "default" then some .default
  else s.toNat?.map MaxArg.custom

/-- `s/t/p=n,…` -/
def parseCacheLens (s : String) : List (PKey × Nat) :=
  (s.splitOn ",").filterMap (fun e => match e.splitOn "=" with
    | [k, n] => match k.splitOn "/" with
      | [a, b, c] => do
        let a ← a.toNat?; let b ← b.toNat?; let c ← c.toNat?; let n ← n.toNat?
        pure ((a, b, c), n)
      | _ => none
    | _ => none)

/-- member ids in the order the implementation lists them: `ok id:name:n:m m1=p+p,m2=p` -/
def parseMemberOrder (impl : List String) : List Nat :=
  -- the SDK lists members sorted by id; the order in which the server's hash map enumerates them (the
  -- order of the assignment `partition i -> member i mod m`) shows in the shares: the member that holds
  -- partition 1 comes first, the one that holds partition 2 second, …; members without a partition
  -- (more members than partitions) come last, their mutual order has no observable effect
  let ms : List (Nat × Nat) := ((impl.getD 2 "").splitOn ",").filterMap (fun e =>
    match e.splitOn "=" with
    | [id, ps] => id.toNat?.map (fun i => (i, ((ps.splitOn "+").filterMap String.toNat?).foldl min 1000000000))
    | [id] => id.toNat?.map (fun i => (i, 1000000000))
    | _ => none)
  let withP := ms.filter (·.2 < 1000000000)
  let sorted := withP.foldl (fun acc m => (acc.filter (·.2 < m.2)) ++ [m] ++ (acc.filter (·.2 ≥ m.2))) []
  (sorted ++ ms.filter (·.2 ≥ 1000000000)).map (·.1)

/-- `ok client=<id> …` -/
def parseClientId (impl : List String) : Option Nat :=
  match (impl.getD 1 "").splitOn "=" with
  | ["client", n] => n.toNat?
  | _ => none

/-- parse an op line; `impl` is the implementation's result line, used only for externally resolved
nondeterminism (cache lengths, client ids, hash-map order of group members). -/
def parseOp (enc : Nat) (toks : List String) (impl : List String) : Option Op :=
  match toks with
  | ["clock", t] => t.toNat?.map Op.clock
  | ["create-stream", _, id, name] => do pure (Op.createStream (← optNat id) name)
  | ["update-stream", _, s, name] => do pure (Op.updateStream (← parseIdent s) name)
  | ["delete-stream", _, s] => do pure (Op.deleteStream (← parseIdent s))
  | ["purge-stream", _, s] => do pure (Op.purgeStream (← parseIdent s))
  | ["create-topic", _, s, id, name, n, e, m, r] => do
      pure (Op.createTopic (← parseIdent s) (← optNat id) name (← n.toNat?) (← parseExpiry e)
        (← parseMax m) (← optNat r))
  | ["update-topic", _, s, t, name, e, m, r] => do
      pure (Op.updateTopic (← parseIdent s) (← parseIdent t) name (← parseExpiry e) (← parseMax m) (← optNat r))
  | ["delete-topic", _, s, t] => do pure (Op.deleteTopic (← parseIdent s) (← parseIdent t))
  | ["purge-topic", _, s, t] => do pure (Op.purgeTopic (← parseIdent s) (← parseIdent t))
  | ["create-parts", _, s, t, n] => do pure (Op.createParts (← parseIdent s) (← parseIdent t) (← n.toNat?))
  | ["delete-parts", _, s, t, n] => do pure (Op.deleteParts (← parseIdent s) (← parseIdent t) (← n.toNat?))
  | ["create-group", _, s, t, id, name] => do
      pure (Op.createGroup (← parseIdent s) (← parseIdent t) (← optNat id) name)
  | ["delete-group", _, s, t, g] => do pure (Op.deleteGroup (← parseIdent s) (← parseIdent t) (← parseIdent g))
  | ["join", c, s, t, g] => do pure (Op.join (← c.toNat?) (← parseIdent s) (← parseIdent t) (← parseIdent g))
  | ["leave", c, s, t, g] => do pure (Op.leave (← c.toNat?) (← parseIdent s) (← parseIdent t) (← parseIdent g))
  | ["group", _, s, t, g] => do
      pure (Op.groupInfo (← parseIdent s) (← parseIdent t) (← parseIdent g) (parseMemberOrder impl))
  | ["groups", _, s, t] => do pure (Op.groups (← parseIdent s) (← parseIdent t))
  | ["me", c] => do pure (Op.me (← c.toNat?) (← parseClientId impl))
  | ["close", c] => do pure (Op.close (← c.toNat?))
  | ["send", _, s, t, p, ms] => do
      pure (Op.send (← parseIdent s) (← parseIdent t) (← parsePartitioning p) (← parseMsgs enc ms))
  | ["poll", c, s, t, pid, cons, k, n, auto] => do
      pure (Op.poll (← c.toNat?) (← parseIdent s) (← parseIdent t) (← optNat pid) (← parseConsumer cons) (← parseKind k)
        (← n.toNat?) (auto == "1"))
  | ["flush", _, s, t, pid, _] => do pure (Op.flush (← parseIdent s) (← parseIdent t) (← pid.toNat?))
  | ["store-offset", c, s, t, pid, cons, o] => do
      pure (Op.storeOffset (← c.toNat?) (← parseIdent s) (← parseIdent t) (← optNat pid) (← parseConsumer cons) (← o.toNat?))
  | ["get-offset", c, s, t, pid, cons] => do
      pure (Op.getOffset (← c.toNat?) (← parseIdent s) (← parseIdent t) (← optNat pid) (← parseConsumer cons))
  | ["delete-offset", c, s, t, pid, cons] => do
      pure (Op.deleteOffset (← c.toNat?) (← parseIdent s) (← parseIdent t) (← optNat pid) (← parseConsumer cons))
  | ["save"] => some .save
  | ["maintain"] => some .maintain
  | ["restart"] => some (.restart (parseCacheLens (impl.getD 1 "")))
  | ["evict", s, t, pid, _] => do
      pure (Op.evict (← parseIdent s) (← parseIdent t) (← pid.toNat?) (← (impl.getD 1 "").toNat?))
  | ["topic", _, s, t] => do pure (Op.topicInfo (← parseIdent s) (← parseIdent t))
  | ["topics", _, s] => do pure (Op.topics (← parseIdent s))
  | ["stream", _, s] => do pure (Op.streamInfo (← parseIdent s))
  | ["streams", _] => some .streams
  | ["stats", _] => some .stats
  | _ => none

/-- `-` | `<10 bits>[/<sid>:<6 bits>[:<tid>=<4 bits>+…];…]` -/
def parsePerms (s : String) : Option (Option Perm.Permissions) :=
  if s == "-" then some none else
  let (g, streams) := match s.splitOn "/" with
    | [g] => (g, none)
    | g :: rest => (g, some ("/".intercalate rest))
    | [] => ("", none)
  let b := g.toList.map (· == '1')
  if b.length != 10 then none else
  let gp : Perm.GlobalPermissions :=
    ⟨b.getD 0 false, b.getD 1 false, b.getD 2 false, b.getD 3 false, b.getD 4 false, b.getD 5 false,
     b.getD 6 false, b.getD 7 false, b.getD 8 false, b.getD 9 false⟩
  let st : Option (List (Nat × Perm.StreamPermissions)) := streams.map (fun ss =>
    ((ss.splitOn ";").filter (· ≠ "")).filterMap (fun ent =>
      match ent.splitOn ":" with
      | sid :: bits :: rest =>
        let sb := bits.toList.map (· == '1')
        let topics : Option (List (Nat × Perm.TopicPermissions)) :=
          if rest.isEmpty then none else
          some (((":".intercalate rest).splitOn "+").filter (· ≠ "") |>.filterMap (fun te =>
            match te.splitOn "=" with
            | [tid, tb] =>
              let x := tb.toList.map (· == '1')
              tid.toNat?.map (fun k => (k, (⟨x.getD 0 false, x.getD 1 false, x.getD 2 false, x.getD 3 false⟩ : Perm.TopicPermissions)))
            | _ => none))
        sid.toNat?.map (fun k => (k, (⟨sb.getD 0 false, sb.getD 1 false, sb.getD 2 false, sb.getD 3 false,
          sb.getD 4 false, sb.getD 5 false, topics⟩ : Perm.StreamPermissions)))
      | _ => none))
  some (some { global := gp, streams := st })

/-- an op line → the request as the auth layer sees it -/
def parseAOp (enc : Nat) (toks : List String) (impl : List String) : Option AOp :=
  match toks with
  | ["ping", c] => c.toNat?.map AOp.ping
  | ["login", c, name, pw] => do pure (AOp.login (← c.toNat?) name pw)
  | ["login-pat", c, k] => do pure (AOp.loginPat (← c.toNat?) (← k.toNat?))
  | ["logout", c] => c.toNat?.map AOp.logout
  | ["create-user", c, name, pw, st, perms] => do
      pure (AOp.createUser (← c.toNat?) name pw (st == "active") (← parsePerms perms))
  | ["delete-user", c, u] => do pure (AOp.deleteUser (← c.toNat?) (← parseIdent u))
  | ["update-user", c, u, name, st] => do
      pure (AOp.updateUser (← c.toNat?) (← parseIdent u) (if name == "-" then none else some name)
        (if st == "active" then some true else if st == "inactive" then some false else none))
  | ["update-perms", c, u, perms] => do pure (AOp.updatePerms (← c.toNat?) (← parseIdent u) (← parsePerms perms))
  | ["change-pw", c, u, cur, new] => do pure (AOp.changePw (← c.toNat?) (← parseIdent u) cur new)
  | ["user", c, u] => do pure (AOp.userInfo (← c.toNat?) (← parseIdent u))
  | ["users", c] => c.toNat?.map AOp.users
  | ["create-pat", c, name, e] => do
      pure (AOp.createPat (← c.toNat?) name (if e == "never" then none else e.toNat?))
  | ["delete-pat", c, name] => do pure (AOp.deletePat (← c.toNat?) name)
  | ["pats", c] => c.toNat?.map AOp.pats
  | ["clean-pats"] => some .cleanPats
  | _ =>
    (parseOp enc toks impl).map (fun op =>
      let c := match toks with
        | _ :: c :: _ => c.toNat?.getD 0
        | _ => 0
      AOp.core c op)

/-! ## printing (same canonical text as the harness) -/

def showMsg (enc : Nat) (m : Msg) : String :=
  let nhdr := m.tag % 16
  s!"{m.off}:{m.id}:{m.ts}:{m.tag / 16}:{m.size - 45 - enc - 15 * nhdr}:{nhdr}"

def showOptNat (none' : String) : Option Nat → String
  | none => none'
  | some n => toString n

def showOut (enc : Nat) : Out → String
  | .ok => "ok"
  | .okId n => s!"ok {n}"
  | .err e => s!"err {e}"
  | .polled pid cur ms => (s!"ok {pid} {cur} " ++ ",".intercalate (ms.map (showMsg enc))).trimAsciiEnd.toString
  | .offset none => "ok none"
  | .offset (some (p, c, o)) => s!"ok {p} {c} {o}"
  | .topic id name n e m r msgs size parts =>
    (s!"ok {id}:{name}:{n}:{showOptNat "never" e}:{showOptNat "unlimited" m}:{r}:{msgs}:{size} " ++
      ",".intercalate (parts.map (fun p => s!"{p.id}:{p.cur}:{p.msgs}:{p.size}:{p.segs}"))).trimAsciiEnd.toString
  | .stats st t p sg m sz g => s!"ok streams={st} topics={t} partitions={p} segments={sg} messages={m} size={sz} groups={g}"
  | .group id name n members0 =>
    -- the SDK lists members sorted by id
    let members := members0.foldl (fun acc m => (acc.filter (·.1 < m.1)) ++ [m] ++ (acc.filter (·.1 ≥ m.1))) []
    (s!"ok {id}:{name}:{n}:{members.length} " ++ ",".intercalate (members.map (fun m =>
      s!"{m.1}=" ++ "+".intercalate (m.2.map toString)))).trimAsciiEnd.toString
  | .me cid groups =>
    s!"ok client={cid} groups=" ++ ",".intercalate (groups.map (fun k => s!"{k.1}/{k.2.1}/{k.2.2}"))
  | .text t => ("ok " ++ t).trimAsciiEnd.toString
  | .none' => "ok none"

/-- canonical form of an implementation result for comparison with the model's text -/
def canonImpl (toks : List String) (impl : String) : String :=
  match toks with
  | ["stats", _] =>
    -- the model does not know the number of connected clients: compare the first seven figures
    " ".intercalate ((impl.splitOn " ").take 8)
  | ["me", _] => " ".intercalate ((impl.splitOn " ").take 3)
  | ["user", _, _] =>
    -- `ok id:name:status:perms` → the model prints id:name:status
    (match impl.splitOn " " with
      | ["ok", x] => if x == "none" then impl else "ok " ++ ":".intercalate ((x.splitOn ":").take 3)
      | _ => impl)
  | ["group", _, _, _, _] =>
    -- members sorted by id (the SDK sorts the binary answer; the HTTP answer comes in the server's order)
    (match impl.splitOn " " with
      | ["ok", hd, ms] =>
        let es := (ms.splitOn ",").map (fun e => (((e.splitOn "=").headD "").toNat?.getD 0, e))
        let sorted := es.foldl (fun acc m => (acc.filter (·.1 < m.1)) ++ [m] ++ (acc.filter (·.1 ≥ m.1))) []
        s!"ok {hd} " ++ ",".intercalate (sorted.map (·.2))
      | _ => impl)
  | ["restart"] => if impl.startsWith "ok" then "ok" else impl     -- `ok <cache lengths>`; anything else: the server did not come back
  | "evict" :: _ => if impl.startsWith "ok" then "ok" else impl
  | _ => impl

/-- which component of an answer differs — lets a property's check select the correspondence
differences that concern it -/
def diffKind (toks : List String) (m i : String) : String :=
  let op := toks.headD ""
  if op == "poll" then
    let mt := m.splitOn " "
    let it := i.splitOn " "
    if mt.headD "" != "ok" || it.headD "" != "ok" then "poll-status"
    else if mt.getD 2 "" != it.getD 2 "" then "poll-cur"
    else if mt.getD 1 "" != it.getD 1 "" then "poll-partition"
    else
      let offs (x : String) : List String := (x.splitOn ",").map (fun e => (e.splitOn ":").headD "")
      if offs (mt.getD 3 "") != offs (it.getD 3 "") then "poll-offsets" else "poll-content"
  else if op == "topic" || op == "stats" || op == "streams" || op == "stream" then "figures"
  else if op == "get-offset" || op == "store-offset" || op == "delete-offset" then "offsets"
  else op

/-- one incarnation of a high-level consumer as the judge tracks it -/
structure SdkCons where
  conn : Nat
  si : Ident
  ti : Ident
  pid : Option Nat            -- `none`: consumer group
  consumer : Consumer
  cfg : Sdk.CCfg
  cons : Sdk.Cons
  /-- per partition: the last offset yielded by this incarnation -/
  last : List (Nat × Nat) := []
  /-- the last `cnext` ended in a stall: a poll request is (almost surely) in flight -/
  spinning : Bool := false

structure St where
  enc : Nat
  asys : ASys
  spec : SpecState
  line : Nat := 0
  corr : Nat := 0
  specViol : Nat := 0
  modelled : Nat := 0
  cov : List (String × Nat) := []
  /-- observations (op text ↦ implementation answer) made since the last state-changing operation -/
  snap : List (String × String) := []
  /-- a restart happened since the snapshot was started -/
  snapRestart : Bool := false
  /-- last `topic` answer of the implementation per (stream, topic): (topic size, per-partition (id, msgs, size)),
  valid until the next state-changing operation -/
  lastTopic : List ((Nat × Nat) × (Nat × List (Nat × Nat × Nat))) := []
  /-- server confirmation is no-wait: a batch becomes visible when the persister task has written it -/
  nowait : Bool := false
  /-- no-wait only: nothing is on its way to the log (set by `settle` / `release`, cleared by `send`, `hold`) -/
  settled : Bool := true
  held : Bool := false
  /-- concurrent stress (C12): acknowledged sends (begin, end, producer, seq, ids), the linearisation
  given so far, concurrent polls (begin, end, off, count, answer) -/
  xacks : List (Nat × Nat × Nat × Nat × List Nat) := []
  xlin : List (Nat × Nat × Nat × Nat) := []
  xpolls : List (Nat × Nat × Nat × Nat × String) := []
  /-- C08 rotation: per (stream, topic, group, client) the partitions served by its polls without a partition id
  since the last operation that was not such a poll (or a clock / send) -/
  rot : List ((Nat × Nat × Nat × Nat) × List Nat) := []
  /-- SDK high-level clients (C20): producers (id ↦ connection, configuration), consumers -/
  producers : List (Nat × Nat × Sdk.PCfg Ident Partitioning) := []
  consumers : List (Nat × SdkCons) := []
  /-- high-level clients on which a consumer was dropped while its poll request was in flight -/
  outOfStep : List Nat := []
  /-- connections that use the HTTP transport (`conn <c> http`) -/
  httpConns : List Nat := []
  /-- identities used by SDK consumers: (partition, consumer id) ↦ (highest offset yielded so far by any
  incarnation, some incarnation commits on polling) -/
  sdkIds : List ((PKey × Nat) × (Option Nat × Bool)) := []
  /-- line and segment count of the last `stats` answer (C16: compared with the files listed right after) -/
  lastStats : Option (Nat × Nat) := none

def St.relaxed (st : St) : Bool := st.nowait && !st.settled

def St.sys (st : St) : Sys := st.asys.sys

def bump (cov : List (String × Nat)) (k : String) : List (String × Nat) :=
  match cov.find? (fun e => e.1 == k) with
  | some _ => cov.map (fun e => if e.1 == k then (e.1, e.2 + 1) else e)
  | none => cov ++ [(k, 1)]

/-- which read tier(s) served a poll — coverage only -/
def pollBranch (p : Part) (off count : Nat) : String :=
  if (p.tryCache off (p.endOffset off count)).isSome then "cache"
  else match p.filterSegs off (p.endOffset off count) with
    | [] => "nosegs"
    | [s] => match s.acc with
      | some a => if a.msgs.isEmpty then "disk" else
          if a.base ≤ max off s.start then "buffer" else
          if off + (count - 1) < a.base then "disk" else "disk+buffer"
      | none => "disk"
    | _ => "multiseg"

def resolvePart (y : Sys) (si ti : Ident) (pid : Nat) : Option (PKey × Part) :=
  match y.findStream si with
  | .error _ => none
  | .ok s => match s.findTopic ti with
    | .error _ => none
    | .ok t => (find? t.parts pid).map (fun p => ((s.id, t.id, pid), p))

/-- spec oracle for one op, given the spec state *before* the op; returns (class, expected) when the
implementation's answer is not the specification's -/
def specCheck (st : St) (op : Op) (impl : String) : Option (String × String) :=
  match op with
  | .poll _ si ti (some pid0) c k count _ =>
    let pid : Option Nat := some pid0
    if count = 0 then none else
    match resolvePart st.sys si ti (pid.getD 1) with
    | none => none
    | some (key, _) =>
      match st.spec.get key with
      | none => some ("poll-no-spec-partition", "")
      | some sp =>
        let exp := showOut st.enc (.polled key.2.2 sp.cur (specPoll sp c k count))
        if exp == impl then none else
          some ((match k with
            | .offset _ => "poll-offset" | .timestamp _ => "poll-timestamp" | .first => "poll-first"
            | .last => "poll-last" | .next => "poll-next"), exp)
  | .poll cn si ti none c k count _ =>
    -- a group member polling without naming a partition: judge the content on the partition the
    -- implementation says it served, and that this partition is in the member's share (model state)
    if count = 0 || !c.grp then none else
    match (impl.splitOn " ") with
    | "ok" :: pidS :: _ =>
      match pidS.toNat? with
      | none => none
      | some 0 => none
      | some pid =>
        match resolvePart st.sys si ti pid with
        | none => some ("group-poll-share", s!"partition {pid} does not exist")
        | some (key, _) =>
          let inShare := match st.sys.findStream si with
            | .ok s => (match s.findTopic ti with
              | .ok t => (match find? t.groups c.id with
                | some g => (match g.members.find? (fun m => m.id = st.sys.clientOf cn) with
                  | some m => m.share.contains pid
                  | none => false)
                | none => false)
              | .error _ => false)
            | .error _ => false
          if !inShare then some ("group-poll-share", s!"partition {pid} is not in the member's share") else
          match st.spec.get key with
          | none => none
          | some sp =>
            let exp := showOut st.enc (.polled pid sp.cur (specPoll sp c k count))
            if exp == impl then none else some ("poll-next", exp)
    | _ => none
  | .getOffset _ si ti (some pid0) c =>
    let pid : Option Nat := some pid0
    match resolvePart st.sys si ti (pid.getD 1) with
    | none => none
    | some (key, _) =>
      match st.spec.get key with
      | none => some ("offset-no-spec-partition", "")
      | some sp =>
        let exp := showOut st.enc (.offset ((sp.getOffset c.grp c.id).map (fun o => (key.2.2, sp.cur, o))))
        if exp == impl then none else some ("get-offset", exp)
  | .storeOffset _ si ti (some pid0) c off =>
    let pid : Option Nat := some pid0
    match resolvePart st.sys si ti (pid.getD 1) with
    | none => none
    | some (key, _) =>
      match st.spec.get key with
      | none => none
      | some sp =>
        let exp := match sp.storeOffset c.grp c.id off with
          | .ok _ => "ok" | .error e => "err " ++ errOf e
        if exp == impl then none else some ("store-offset", exp)
  | _ => none

/-- Identity operations of the specification (flush, background save, cache eviction, restart) must not
change any observation: the implementation's own earlier answer to the same question is the oracle.
Returns the new snapshot state and a violation class if an observation changed. -/
def snapCheck (st : St) (toks : List String) (opS impl : String) : List (String × String) × Bool × Option String :=
  let op := toks.headD ""
  -- catalogue listings: sizes move by one batch header when a buffer is persisted and member counts
  -- fall to 0 when connections are lost, so the last field of every entity is masked
  let isCat := op == "streams" || op == "stream" || op == "topics" || op == "groups"
  let isPlain := op == "users" || op == "user" || op == "created"
  let maskLast (x : String) : String :=
    " ".intercalate ((x.splitOn " ").map (fun w => ",".intercalate ((w.splitOn ",").map (fun e =>
      let f := e.splitOn ":"
      if f.length > 2 then ":".intercalate (f.take (f.length - 1)) else e))))
  let impl := if isCat then maskLast impl else impl
  let isObs := (op == "poll" && toks.getLast? == some "0") || op == "get-offset" || isCat || isPlain
  let isIdentity := op == "flush" || op == "save" || op == "restart" || op == "evict" || op == "clock" ||
    op == "topic" || op == "stats" || op == "cacheinfo" || op == "ls" || (op.startsWith "scan") || op == "ping" ||
    op == "group" || op == "me" || op == "conn" || op == "pats" ||
    -- C13: a frame that is not a valid request leaves everything untouched
    op == "raw-open" || op == "raw-send" || op == "raw-refused" || op == "raw-close"
  if isObs then
    match st.snap.find? (fun e => e.1 == opS) with
    | some e =>
      if e.2 == impl then (st.snap, st.snapRestart, none)
      else (st.snap, st.snapRestart, some (if st.snapRestart then "obs-changed-restart" else "obs-changed"))
    | none => ((opS, impl) :: st.snap, st.snapRestart, none)
  else if op == "login" || op == "login-pat" || op == "logout" then
    -- who a connection is decides what it may see: its own earlier answers are no oracle any more
    -- (connections 0 and 77 are always root: the runner logs them in again after a restart)
    let c := toks.getD 1 ""
    let snap := if c == "0" || c == "77" then st.snap else st.snap.filter (fun e =>
      ((e.1.splitOn " ").filter (· ≠ "")).getD 1 "" != c)
    (snap, st.snapRestart, none)
  else if isIdentity then
    -- connections do not survive a restart: only the root connection (0) and the HTTP root connection (77),
    -- which the runner logs in again, can ask the same question afterwards
    let snap := if op == "restart" then st.snap.filter (fun e =>
        let c := ((e.1.splitOn " ").filter (· ≠ "")).getD 1 ""
        c == "0" || c == "77") else st.snap
    (snap, st.snapRestart || op == "restart", none)
  else ([], false, none)

/-- parse the implementation's `topic` answer: `ok id:name:n:exp:max:repl:msgs:size p1,p2…`, p = `id:cur:msgs:size:segs` -/
def parseTopicAnswer (impl : String) : Option (Nat × Nat × Nat × List (Nat × Nat × Nat)) :=
  match impl.splitOn " " with
  | "ok" :: hd :: rest =>
    match hd.splitOn ":" with
    | [id, _, _, _, _, _, msgs, size] => do
      let id ← id.toNat?; let msgs ← msgs.toNat?; let size ← size.toNat?
      let parts := ((rest.headD "").splitOn ",").filterMap (fun e => match e.splitOn ":" with
        | [pid, _, m, sz, _] => do pure ((← pid.toNat?), (← m.toNat?), (← sz.toNat?))
        | _ => none)
      pure (id, msgs, size, parts)
    | _ => none
  | _ => none

/-- C16 oracles on one `topic` answer: topic figures are the sums over its partitions, and each
partition's message count equals the number of messages the specification retains -/
def figuresCheck (st : St) (sid : Nat) (impl : String) : List String :=
  match parseTopicAnswer impl with
  | none => []
  | some (tid, msgs, size, parts) =>
    let sumM := (parts.map (fun e => e.2.1)).sum
    let sumS := (parts.map (fun e => e.2.2)).sum
    (if sumM != msgs || sumS != size then
      [s!"SPEC-VIOL {st.line} class=figures-sum topic={sid}/{tid} reported msgs={msgs} size={size} but partitions sum to msgs={sumM} size={sumS}"] else []) ++
    parts.filterMap (fun e =>
      match st.spec.get (sid, tid, e.1) with
      | none => none
      | some sp => if sp.msgs.length != e.2.1 then
          some s!"SPEC-VIOL {st.line} class=figures-count partition={sid}/{tid}/{e.1} reported msgs={e.2.1} retained={sp.msgs.length}"
        else none)

/-- `ls` answer → (path, size) list -/
def parseLs (impl : String) : List (String × Nat) :=
  ((impl.splitOn " ").drop 1).filterMap (fun e => match e.splitOn "=" with
    | [pth, n] => n.toNat?.map (fun k => (pth, k))
    | _ => none)

/-- C16: the size reported for a partition equals what is stored: bytes of the retained messages plus
one 24-byte header per stored batch (the number of stored batches is the index file size / 16) -/
def sizeVsFiles (st : St) (impl : String) : List String :=
  let files := parseLs impl
  (st.lastTopic.map (fun te =>
    let sid := te.1.1; let tid := te.1.2
    te.2.2.filterMap (fun pe =>
      let pfx := s!"streams/{sid}/topics/{tid}/partitions/{pe.1}/"
      let idxBytes := ((files.filter (fun f => f.1.startsWith pfx && f.1.endsWith ".index")).map (·.2)).sum
      match st.spec.get (sid, tid, pe.1) with
      | none => none
      | some sp =>
        let expect := sumSizes sp.msgs + 24 * (idxBytes / 16)
        if expect != pe.2.2 then
          some s!"SPEC-VIOL {st.line} class=figures-size partition={sid}/{tid}/{pe.1} reported size={pe.2.2} stored={expect} (retained message bytes {sumSizes sp.msgs} + 24 x {idxBytes / 16} stored batches)"
        else none))).flatten

/-- C15: the size gate, judged on the implementation's own last reported topic size -/
def gateCheck (st : St) (op : Op) (impl : String) : List String :=
  match op with
  | .send si ti _ msgs =>
    if msgs.isEmpty then [] else
    match st.sys.findStream si with
    | .error _ => []
    | .ok s => match s.findTopic ti with
      | .error _ => []
      | .ok t =>
        if t.parts.isEmpty then [] else
        match st.lastTopic.find? (fun e => e.1 = (s.id, t.id)) with
        | none => []
        | some e =>
          let refused := impl == "err topic_full"
          let must := match t.maxSize with
            | some m => decide (m ≤ e.2.1) && !st.sys.scfg.deleteOldest
            | none => false
          if refused != must then
            [s!"SPEC-VIOL {st.line} class=gate topic={s.id}/{t.id} size={e.2.1} limit={t.maxSize} delete_oldest={st.sys.scfg.deleteOldest} impl={impl}"]
          else []
  | _ => []

/-- C14: legality of what a maintenance pass removed, judged on the specification state: every
removed message is older than the topic's expiry — unless the topic has a size limit and
oldest-segment deletion is on (size clean-up, C15) -/
def retentionCheck (st : St) (effs : List Effect) : List String :=
  effs.filterMap (fun e => match e with
    | .dropped k n =>
      match st.spec.get k with
      | none => none
      | some sp =>
        let gone := sp.msgs.take n
        let expired := match sp.expiry with
          | some ex => gone.all (fun m => m.ts + ex ≤ st.sys.now)
          | none => false
        let sizeCleanup := st.sys.scfg.deleteOldest &&
          (match find? st.sys.streams k.1 with
            | some s => (match find? s.topics k.2.1 with | some t => t.maxSize.isSome | none => false)
            | none => false)
        if expired || sizeCleanup then none else
          some s!"SPEC-VIOL {st.line} class=retention-illegal partition={k.1}/{k.2.1}/{k.2.2} removed {n} messages not all expired"
    | _ => none)

/-- C08 oracles on the implementation's own `group` answer `ok id:name:n:m m1=p+p,m2=…`: with at least
one member every partition 1..n is in exactly one share, shares hold only existing partitions and
differ in size by at most one -/
def groupCheck (st : St) (impl : String) (topicParts : Option Nat := none) : List String :=
  match impl.splitOn " " with
  | "ok" :: hd :: rest =>
    match hd.splitOn ":" with
    | [_, _, n, m] =>
      match n.toNat?, m.toNat? with
      | some n0, some m =>
        -- the partitions a group divides are the topic's partitions (specification state), whatever count
        -- the group itself reports
        let n := topicParts.getD n0
        (if n0 != n then [s!"SPEC-VIOL {st.line} class=group-partitions the group reports {n0} partitions, the topic has {n}, impl={impl}"] else []) ++
        let shares : List (List Nat) := if m = 0 then [] else
          ((rest.headD "").splitOn ",").map (fun e => (((e.splitOn "=").getD 1 "").splitOn "+").filterMap (·.toNat?))
        if m = 0 then [] else
        let all := shares.flatten
        let cover := (List.range n).all (fun i => (all.filter (· == i + 1)).length == 1)
        let existing := all.all (fun p => 1 ≤ p && p ≤ n)
        let lens := shares.map List.length
        let balanced := lens.all (fun a => lens.all (fun b => a ≤ b + 1))
        -- every member is a client that is connected now (a member whose connection is gone would keep
        -- partitions nobody reads); client ids are known from the `me` answers
        (let ids := ((rest.headD "").splitOn ",").filterMap (fun e => ((e.splitOn "=").headD "").toNat?)
         let live := st.sys.clients.map (·.2)
         let zombies := ids.filter (fun i => !live.contains i)
         if m = 0 || zombies.isEmpty then [] else
           [s!"SPEC-VIOL {st.line} class=group-zombie-member members {zombies} are not connected clients, impl={impl}"]) ++
        (if (impl.splitOn "BADCOUNT").length > 1 then [s!"SPEC-VIOL {st.line} class=group-member-count a member's partitions_count is not the length of its partition list, impl={impl}"] else []) ++
        (if shares.length != m then [s!"SPEC-VIOL {st.line} class=group-members impl={impl}"] else []) ++
        (if !cover || !existing then [s!"SPEC-VIOL {st.line} class=group-cover every partition must be in exactly one share, impl={impl}"] else []) ++
        (if !balanced then [s!"SPEC-VIOL {st.line} class=group-balance shares differ by more than one, impl={impl}"] else [])
      | _, _ => []
    | _ => []
  | _ => []

/-- the documented capability a core operation needs (sdk/src/models/permissions.rs), at the resolved
stream / topic ids; `none` = not covered by the documented hierarchy -/
def opCap (y : Sys) (op : Op) : Option Perm.Cap :=
  let st (si : Ident) (k : Nat → Perm.Cap) : Option Perm.Cap :=
    match y.findStream si with | .ok s => some (k s.id) | .error _ => none
  let tp (si ti : Ident) (k : Nat → Nat → Perm.Cap) : Option Perm.Cap :=
    match y.findStream si with
    | .ok s => (match s.findTopic ti with | .ok t => some (k s.id t.id) | .error _ => none)
    | .error _ => none
  match op with
  | .createStream .. => some .createStream
  | .streams => some .listStreams
  | .streamInfo si => st si .readStream
  | .updateStream si _ | .deleteStream si | .purgeStream si => st si .manageStream
  | .createTopic si .. => st si .createTopic
  | .topics si => st si .listTopics
  | .topicInfo si ti | .groups si ti | .groupInfo si ti .. | .createGroup si ti .. | .deleteGroup si ti _
  | .join _ si ti _ | .leave _ si ti _ => tp si ti .readTopic
  | .updateTopic si ti .. | .deleteTopic si ti | .purgeTopic si ti | .createParts si ti _ | .deleteParts si ti _ =>
      tp si ti .manageTopic
  | .poll _ si ti .. | .getOffset _ si ti .. | .storeOffset _ si ti .. | .deleteOffset _ si ti .. => tp si ti .poll
  | .send si ti .. | .flush si ti _ => tp si ti .send
  | .stats => some .readServers
  | .me .. => some .readServers
  | _ => none

/-- C09 oracles, judged on the implementation's answer and the specification (`Perm.Grants`), not on
the model's guard: (A) a request on a connection that has not authenticated is refused (ping and the
login commands excepted); (B) a request that is performed is granted by the user's current
permissions under the documented hierarchy. "Refused" = an error, or the empty answer. -/
def authzCheck (st : St) (aop : AOp) (opS impl : String) : List String :=
  let performed := impl.startsWith "ok" && impl != "ok none"
  if !performed then [] else
  let a := st.asys
  -- C10: a login that succeeded was made with valid, current credentials of an active user
  let cred : List String := match aop with
    | .login _ name pw =>
      (match a.findUser (.name name) with
        | none => [s!"SPEC-VIOL {st.line} class=credential-invalid-accepted op={opS} no such user, impl={impl}"]
        | some u =>
          if u.pw ≠ pw then [s!"SPEC-VIOL {st.line} class=credential-invalid-accepted op={opS} wrong password, impl={impl}"]
          else if !u.active then [s!"SPEC-VIOL {st.line} class=credential-inactive-accepted op={opS} impl={impl}"] else [])
    | .loginPat _ k =>
      (match a.users.find? (fun e => e.2.tokens.any (fun tk => tk.idx = k)) with
        | none => [s!"SPEC-VIOL {st.line} class=credential-invalid-accepted op={opS} this token is not (or no longer) any user's token, impl={impl}"]
        | some e =>
          (match e.2.tokens.find? (fun tk => tk.idx = k) with
            | some tk =>
              if (match tk.expiry with | some x => decide (x ≤ a.sys.now) | none => false) then
                [s!"SPEC-VIOL {st.line} class=credential-expired-accepted op={opS} token {tk.name} expired at {tk.expiry.getD 0}, now {a.sys.now}, impl={impl}"]
              else if !e.2.active then [s!"SPEC-VIOL {st.line} class=credential-inactive-accepted op={opS} impl={impl}"] else []
            | none => []))
    | _ => []
  if !cred.isEmpty then cred else
  let conn : Option Nat := match aop with
    | .ping _ | .login .. | .loginPat .. | .cleanPats => none
    | .logout c | .createUser c .. | .deleteUser c _ | .updateUser c .. | .updatePerms c .. | .changePw c ..
    | .userInfo c _ | .users c | .createPat c .. | .deletePat c _ | .pats c => some c
    | .core c op => (match op with
        | .clock _ | .save | .maintain | .restart _ | .evict .. | .close _ => none
        | _ => some c)
  match conn with
  | none => []
  | some c =>
    let u := a.userOf c
    if u = 0 then [s!"SPEC-VIOL {st.line} class=unauthenticated-allowed op={opS} impl={impl}"] else
    let perms : Option Perm.Permissions := (find? a.users u).bind (·.perms)
    let cap : Option Perm.Cap := match aop with
      | .createUser .. | .deleteUser .. | .updateUser .. | .updatePerms .. => some .manageUsers
      | .users _ => some .readUsers
      | .userInfo _ ui => (match a.findUser ui with
          | some x => if x.id = u then none else some .readUsers
          | none => none)
      | .changePw _ ui .. => (match a.findUser ui with
          | some x => if x.id = u then none else some .manageUsers
          | none => none)
      | .core _ op => opCap a.sys op
      | _ => none
    match cap with
    | none => []
    | some cp =>
      if Perm.Grants perms cp then [] else
        [s!"SPEC-VIOL {st.line} class=unauthorized-allowed op={opS} user={u} needs={repr cp} impl={impl}"]

/-! ## SDK high-level clients (C20) -/

def St.apply (st : St) (aop : AOp) : St × Out :=
  let (a, out, effs) := stepA st.asys aop
  ({ st with asys := a, spec := applyEffects st.sys.cfg st.spec effs }, out)

def hlConn (h : Nat) : Nat := 1000 + h

def parseStrat (s : String) : Option Sdk.Strat :=
  if s == "next" then some .next else if s == "first" then some .first else if s == "last" then some .last
  else if s.startsWith "offset:" then (dropS s 7).toNat?.map Sdk.Strat.offset
  else if s.startsWith "ts:" then (dropS s 3).toNat?.map Sdk.Strat.timestamp
  else none

def parseMode (s : String) : Option (Sdk.Mode × Bool) :=
  if s == "disabled" then some (.disabled, false) else if s == "polling" then some (.polling, false)
  else if s == "each" then some (.each, false) else if s == "all" then some (.all, false)
  else if s.startsWith "nth:" then (dropS s 4).toNat?.map (fun n => (Sdk.Mode.nth n, false))
  else if s.startsWith "int:" then some (.disabled, true)
  else none

def stratKind : Sdk.Strat → PollKind
  | .next => .next | .first => .first | .last => .last | .offset k => .offset k | .timestamp t => .timestamp t

/-- the background task drains the store-offset channel (and, with an interval, stores the consumed offsets) -/
def sdkDeliver (st : St) (c : SdkCons) : St × SdkCons := Id.run do
  let mut st := st
  let mut cons := c.cons
  let items := cons.pending ++ (if c.cfg.interval then cons.consumed else [])
  cons := { cons with pending := [] }
  for (pid, off) in items do
    let (c1, send) := cons.storeReq pid off false
    cons := c1
    if send then
      let (st1, out) := st.apply (.core c.conn (.storeOffset c.conn c.si c.ti (some pid) c.consumer off))
      st := st1
      if out matches .ok then cons := cons.storeAck pid off
  return (st, { c with cons := cons })

/-- one message from the consumer's stream, in the eventual semantics (the background task has caught up
before every poll); `none` = stall: no message will ever come in this state -/
def sdkYield (st : St) (c : SdkCons) : Nat → St × SdkCons × Option Sdk.Yield
  | 0 => (st, c, none)
  | fuel + 1 =>
    match c.cons.pop c.cfg with
    | some (cons, y) => (st, { c with cons := cons }, some y)
    | none =>
      let (st, c) := sdkDeliver st c
      let (st, out) := st.apply (.core c.conn (.poll c.conn c.si c.ti c.pid c.consumer (stratKind c.cons.strat) c.cfg.batch c.cfg.polling))
      match out with
      | .polled pid cur msgs =>
        let (c1, r1, sync) := c.cons.onReply c.cfg ⟨pid, cur, msgs.map (fun m => ⟨m.off, m.id⟩)⟩
        let st := match sync with
          | some (p, o) => (st.apply (.core c.conn (.storeOffset c.conn c.si c.ti (some p) c.consumer o))).1
          | none => st
        let (c2, y) := c1.onPolled c.cfg r1
        match y with
        | some y => (st, { c with cons := c2 }, some y)
        | none => if sync.isSome then sdkYield st { c with cons := c2 } fuel else (st, { c with cons := c2 }, none)
      | _ => (st, c, none)

def showYield (y : Sdk.Yield) : String := s!"{y.pid}:{y.msg.off}:{y.msg.id}"

/-- `k` messages; the text the harness prints -/
def sdkNext (st : St) (c : SdkCons) : Nat → List String → St × SdkCons × String
  | 0, acc => (st, c, ("ok " ++ (if acc.isEmpty then "-" else ",".intercalate acc.reverse)))
  | k + 1, acc =>
    match sdkYield st c 4 with
    | (st, c, some y) => sdkNext st { c with last := (c.last.filter (·.1 ≠ y.pid)) ++ [(y.pid, y.msg.off)] } k (showYield y :: acc)
    | (st, c, none) => (st, c, ("ok " ++ (if acc.isEmpty then "-" else ",".intercalate acc.reverse) ++ " stall"))

/-- consumers and consumer groups with the same numeric id are different identities -/
def idKey (c : Consumer) : Nat := c.id + (if c.grp then 1000000 else 0)

/-- specification-level oracles on what a consumer yielded (independent of the consumer model): in
offset order without gaps or repeats per partition, genuine, and a stall only when nothing is left -/
def sdkOracle (st : St) (c : SdkCons) (impl : String) : List String := Id.run do
  let mut out : List String := []
  let toks := impl.splitOn " "
  if toks.headD "" != "ok" then return [s!"SPEC-VIOL {st.line} class=consumer-failed impl={impl}"]
  let ys := (if toks.getD 1 "-" == "-" then [] else (toks.getD 1 "").splitOn ",").filterMap (fun e =>
    match e.splitOn ":" with
    | [p, o, i] => do pure ((← p.toNat?), (← o.toNat?), (← i.toNat?))
    | _ => none)
  let mut last := c.last
  -- group members: the highest offset any member has yielded so far, per partition
  let mut ghi : List (Nat × Nat) := []
  for (p, o, i) in ys do
    let groupHi : Option Nat := match ghi.find? (·.1 == p) with
      | some (_, h) => some h
      | none => ((resolvePart st.sys c.si c.ti p).map (·.1)).bind (fun key =>
          ((st.sdkIds.find? (·.1 == (key, idKey c.consumer))).map (·.2)).bind (·.1))
    match last.find? (·.1 == p) with
    | some (_, l) =>
      -- `next` / `offset`: no gaps; `first` / `last` / `timestamp` ask for a fixed position again and again
      -- (a jump is what was asked for): strictly increasing.  A group member may lose a partition to another
      -- member and get it back later: for it "no gap" means nothing beyond what the GROUP has yielded is skipped
      let gapFree := match c.cons.strat with | .next => true | .offset _ => true | _ => false
      let bad := if !gapFree then o ≤ l
        else if c.consumer.grp then o ≤ l || (o > (max l (groupHi.getD l)) + 1 && !c.cfg.polling)
        else o != l + 1
      if !c.cfg.replay && bad then
        out := out ++ [s!"SPEC-VIOL {st.line} class=consumer-order partition={p} after={l} got={o} group-yielded-up-to={repr groupHi} impl={impl}"]
    | none => pure ()
    last := (last.filter (·.1 ≠ p)) ++ [(p, o)]
    ghi := (ghi.filter (·.1 ≠ p)) ++ [(p, max o (groupHi.getD 0))]
    let key : Option PKey := (resolvePart st.sys c.si c.ti p).map (·.1)
    match key.bind st.spec.get with
    | some sp =>
      if !(sp.msgs.any (fun m => m.off == o && m.id == i)) then
        out := out ++ [s!"SPEC-VIOL {st.line} class=consumer-not-genuine partition={p} offset={o} id={i}"]
    | none => out := out ++ [s!"SPEC-VIOL {st.line} class=consumer-not-genuine partition={p} (no such partition)"]
  return out

def setAssoc {α : Type} (l : List (Nat × α)) (k : Nat) (v : α) : List (Nat × α) :=
  (l.filter (·.1 ≠ k)) ++ [(k, v)]

def optPartitioning (s : String) : Option (Option Partitioning) :=
  if s == "-" then some none else (parsePartitioning s).map some

/-- the SDK operations of the line protocol; `none`: not one of them -/
def sdkLine (st : St) (toks : List String) (opS implS : String) : Option (St × List String) :=
  let viol (st : St) (msgs : List String) : St × List String :=
    ({ st with specViol := st.specViol + (msgs.filter (·.startsWith "SPEC-VIOL")).length,
               corr := st.corr + (msgs.filter (·.startsWith "CORR-DIFF")).length }, msgs)
  let cov (st : St) (k : String) : St := { st with cov := bump st.cov k, modelled := st.modelled + 1 }
  match toks with
  | ["hl", h] =>
    let conn := hlConn (h.toNat?.getD 0)
    let (st, _) := st.apply (.login conn "iggy" "iggy")
    let cid := ((implS.splitOn "client=").getD 1 "").toNat?
    let (st, _) := st.apply (.core conn (.me conn (cid.getD 0)))
    some (viol (cov st "op:hl") (if implS.startsWith "ok" then [] else [s!"SPEC-VIOL {st.line} class=hl-failed impl={implS}"]))
  | ["hl-close", h] =>
    let conn := hlConn (h.toNat?.getD 0)
    let (st, _) := st.apply (.core conn (.close conn))
    some (cov st "op:hl-close", [])
  | ["cwait", _] =>
    let st := st.consumers.foldl (fun st e =>
      let (st, c) := sdkDeliver st e.2
      { st with consumers := setAssoc st.consumers e.1 c }) st
    some (st, [])
  | ["producer", p, h, s, t, batch, interval, part] =>
    match parseIdent s, parseIdent t, optPartitioning part with
    | some si, some ti, some pt =>
      let h := h.toNat?.getD 0
      let cfg : Sdk.PCfg Ident Partitioning :=
        { stream := si, topic := ti, batch := batch.toNat?, interval := interval != "-", partitioning := pt, dflt := .balanced }
      let st := { st with producers := (st.producers.filter (·.1 ≠ p.toNat?.getD 0)) ++ [(p.toNat?.getD 0, h, cfg)] }
      let bad := !implS.startsWith "ok"
      let cls := if st.outOfStep.contains h then "sdk-connection-out-of-step" else "producer-init-failed"
      some (viol (cov st "op:producer") (if bad then [s!"SPEC-VIOL {st.line} class={cls} op={opS} impl={implS}"] else []))
    | _, _, _ => none
  | "psend" :: p :: kind :: rest =>
    match st.producers.find? (·.1 == p.toNat?.getD 0) with
    | none => none
    | some (_, h, cfg) =>
      let call : Option (Sdk.Call Ident Partitioning InMsg × Ident × Ident) := match kind, rest with
        | "send", [ms] => (parseMsgs st.enc ms).map (fun m => (.send m, cfg.stream, cfg.topic))
        | "one", [ms] => (parseMsgs st.enc ms).bind (fun m => m.head?.map (fun x => (.sendOne x, cfg.stream, cfg.topic)))
        | "part", [pt, ms] => do
          let pt ← optPartitioning pt
          let m ← parseMsgs st.enc ms
          pure (.sendWithPartitioning m pt, cfg.stream, cfg.topic)
        | "to", [s2, t2, pt, ms] => do
          let s2 ← parseIdent s2
          let t2 ← parseIdent t2
          let pt ← optPartitioning pt
          let m ← parseMsgs st.enc ms
          pure (.sendTo s2 t2 m pt, s2, t2)
        | _, _ => none
      match call with
      | none => none
      | some (call, as, at') =>
        let reqs := cfg.requests call
        let conn := hlConn h
        -- execute the requests in order; stop at the first error (`?` in the producer)
        let (st1, res, effs) := reqs.foldl (fun (acc : St × Option String × List Effect) r =>
          match acc with
          | (st, some e, effs) => (st, some e, effs)
          | (st, none, effs) =>
            let (a, out, e2) := stepA st.asys (.core conn (.send r.stream r.topic r.part r.msgs))
            let st := { st with asys := a, spec := applyEffects st.sys.cfg st.spec e2 }
            match out with
            | .ok => (st, none, effs ++ e2)
            | o => (st, some (showOut st.enc o), effs ++ e2)) (st, none, [])
        let mtxt := res.getD "ok"
        let st1 := cov st1 "op:psend"
        let st1 := { st1 with cov := bump st1.cov s!"psend:{kind}:requests={min reqs.length 4}" , lastTopic := [], snap := [] }
        let msgs1 := if mtxt == implS then [] else
          [s!"CORR-DIFF {st.line} kind=psend op={opS} model={mtxt} impl={implS}"]
        -- producer oracle: everything was appended to partitions of the addressed topic, nothing elsewhere
        let target : Option (Nat × Nat) := match st.sys.findStream as with
          | .ok s => (match s.findTopic at' with | .ok t => some (s.id, t.id) | .error _ => none)
          | .error _ => none
        let misplaced := effs.any (fun e => match e with
          | .appended k _ _ => some (k.1, k.2.1) ≠ target
          | _ => false)
        let nApp := (effs.map (fun e => match e with | .appended _ _ ms => ms.length | _ => 0)).sum
        let given := match call with
          | .send m => m.length | .sendOne _ => 1 | .sendWithPartitioning m _ => m.length | .sendTo _ _ m _ => m.length
        let msgs2 := if misplaced then [s!"SPEC-VIOL {st.line} class=producer-misaddressed op={opS}"] else []
        let msgs3 := if res.isNone && nApp != given && !st.sys.cfg.dedupOn then
          [s!"SPEC-VIOL {st.line} class=producer-lost-or-duplicated op={opS} given={given} appended={nApp}"] else []
        some (viol st1 (msgs1 ++ msgs2 ++ msgs3))
  | ["consumer", c, h, name, s, t, pidS, strat, batch, mode, replay] =>
    match parseIdent s, parseIdent t, parseStrat strat, parseMode mode, name.toNat?, batch.toNat? with
    | some si, some ti, some sg, some (md, iv), some cid, some b =>
      let h := h.toNat?.getD 0
      let conn := hlConn h
      let grp := pidS == "group"
      let consumer : Consumer := ⟨grp, cid⟩
      -- a group consumer creates the group if it is missing, and joins it
      let st := if grp then
          let exists' := match st.sys.findStream si with
            | .ok sx => (match sx.findTopic ti with | .ok tx => (find? tx.groups cid).isSome | .error _ => false)
            | .error _ => false
          let st := if exists' then st else (st.apply (.core conn (.createGroup si ti (some cid) name))).1
          (st.apply (.core conn (.join conn si ti (.num cid)))).1
        else st
      let sc : SdkCons := { conn := conn, si := si, ti := ti, pid := if grp then none else pidS.toNat?, consumer := consumer,
                            cfg := { batch := b, mode := md, interval := iv, replay := replay == "1" }, cons := Sdk.Cons.new sg }
      let st := { st with consumers := setAssoc st.consumers (c.toNat?.getD 0) sc, lastTopic := [], snap := [] }
      let st := match sc.pid.bind (fun p => (resolvePart st.sys si ti p).map (·.1)) with
        | some key =>
          let k := (key, idKey consumer)
          let old := (st.sdkIds.find? (·.1 == k)).map (·.2)
          { st with sdkIds := (st.sdkIds.filter (·.1 != k)) ++ [(k, ((old.bind (·.1)), (old.map (·.2)).getD false || sc.cfg.polling))] }
        | none => st
      let bad := !implS.startsWith "ok"
      let cls := if st.outOfStep.contains h then "sdk-connection-out-of-step" else "consumer-init-failed"
      some (viol (cov st "op:consumer") (if bad then [s!"SPEC-VIOL {st.line} class={cls} op={opS} impl={implS}"] else []))
    | _, _, _, _, _, _ => none
  | ["cnext", c, k, _] =>
    match st.consumers.find? (·.1 == c.toNat?.getD 0) with
    | none => none
    | some (ci, sc) =>
      let orc := sdkOracle st sc implS
      let stalled := implS.endsWith " stall"
      let st := (((implS.splitOn " ").getD 1 "-").splitOn ",").foldl (fun (st : St) e => match e.splitOn ":" with
        | [p, o, _] => (match p.toNat?, o.toNat? with
          | some p, some o => (match (resolvePart st.sys sc.si sc.ti p).map (·.1) with
            | some key =>
              let k := (key, idKey sc.consumer)
              let old := (st.sdkIds.find? (·.1 == k)).map (·.2)
              let hi := match old.bind (·.1) with | some h => max h o | none => o
              { st with sdkIds := (st.sdkIds.filter (·.1 != k)) ++ [(k, (some hi, (old.map (·.2)).getD false || sc.cfg.polling))] }
            | none => st)
          | _, _ => st)
        | _ => st) st
      let st0 := cov st "op:cnext"
      let st0 := { st0 with cov := bump st0.cov (if stalled then "cnext:stall" else "cnext:full"), lastTopic := [], snap := [] }
      if sc.pid.isSome then
        -- exact: the consumer model against the system model
        let (st1, sc1, mtxt) := sdkNext st0 sc (k.toNat?.getD 0) []
        let msgs1 := if mtxt == implS then [] else
          [s!"CORR-DIFF {st.line} kind=cnext op={opS} model={mtxt} impl={implS}"]
        -- liveness: a stall is legitimate only if nothing is left to deliver
        let left : Bool := match sc1.pid.bind (fun p => (resolvePart st1.sys sc1.si sc1.ti p).map (·.1)) |>.bind st1.spec.get with
          | some sp =>
            let from' : Nat := match sc1.last.head? with
              | some (_, l) => l + 1
              | none => (match sc1.cons.strat with
                | .offset k => k
                | _ => (match sp.getOffset sc1.consumer.grp sc1.consumer.id with | some o => o + 1 | none => 0))
            sp.msgs.any (fun m => m.off ≥ from')
          | none => false
        let resumable := match sc1.cons.strat with | .next => true | .offset _ => true | _ => false
        let msgs2 := if stalled && left && resumable && sc1.cfg.autoCommitEnabled then
          [s!"SPEC-VIOL {st.line} class=consumer-stalled-with-messages-left{if mtxt == implS then ":model-agrees" else ""} op={opS} mode={repr sc1.cfg.mode} batch={sc1.cfg.batch} impl={implS}"] else []
        let sc1 := { sc1 with spinning := stalled }
        some (viol { st1 with consumers := setAssoc st1.consumers ci sc1 } (orc ++ msgs1 ++ msgs2))
      else
        -- group member: judged by the oracles only; remember what was yielded.
        -- The first message this incarnation yields from a partition: nothing unyielded is skipped
        -- (unless the group commits on polling) and nothing below the stored offset is read again.
        let ys := ((implS.splitOn " ").getD 1 "-").splitOn ","
        let firsts := (ys.foldl (fun (acc : List (Nat × Nat) × List String) e => match e.splitOn ":" with
          | [p, o, _] => (match p.toNat?, o.toNat? with
            | some p, some o =>
              if (acc.1.any (·.1 == p)) then acc else
              let seen := (acc.1 ++ [(p, o)])
              (match (resolvePart st.sys sc.si sc.ti p).map (·.1) with
              | some key =>
                let info := (st.sdkIds.find? (·.1 == (key, idKey sc.consumer))).map (·.2)
                let hi := info.bind (·.1)
                let polling := (info.map (·.2)).getD false || sc.cfg.polling
                let storedOff := (st.spec.get key).bind (fun sp => sp.getOffset true sc.consumer.id)
                let skip := !polling && o > (match hi with | some h => h + 1 | none => (match storedOff with | some so => so + 1 | none => 0))
                let reread := match storedOff with | some so => o ≤ so && !(so == 0 && o == 0) | none => false
                (seen, acc.2 ++
                  (if skip then [s!"SPEC-VIOL {st.line} class=group-consumer-skipped partition={p} first={o} yielded-so-far={repr hi} stored={repr storedOff} op={opS}"] else []) ++
                  (if reread then [s!"SPEC-VIOL {st.line} class=group-consumer-reread partition={p} first={o} stored={repr storedOff} op={opS}"] else []))
              | none => (seen, acc.2))
            | _, _ => acc)
          | _ => acc) (sc.last, [])).2
        let orc := orc ++ firsts
        let last := ys.foldl (fun l e => match e.splitOn ":" with
          | [p, o, _] => (match p.toNat?, o.toNat? with
            | some p, some o => (l.filter (·.1 ≠ p)) ++ [(p, o)]
            | _, _ => l)
          | _ => l) sc.last
        let sc1 := { sc with last := last, spinning := stalled }
        some (viol { st0 with consumers := setAssoc st0.consumers ci sc1 } orc)
  | ["cstore", c, off, pidS] =>
    match st.consumers.find? (·.1 == c.toNat?.getD 0), off.toNat? with
    | some (ci, sc), some o =>
      let pid := (pidS.toNat?).getD sc.cons.curPart
      let (cons, send) := sc.cons.storeReq pid o sc.cfg.replay
      let (st1, out) := if send then st.apply (.core sc.conn (.storeOffset sc.conn sc.si sc.ti (some pid) sc.consumer o)) else (st, Out.ok)
      let cons := if send && (out matches .ok) then cons.storeAck pid o else cons
      let mtxt := showOut st.enc out
      let st1 := { (cov st1 "op:cstore") with consumers := setAssoc st1.consumers ci { sc with cons := cons }, lastTopic := [], snap := [] }
      some (viol st1 (if mtxt == implS then [] else [s!"CORR-DIFF {st.line} kind=cstore op={opS} model={mtxt} impl={implS}"]))
    | _, _ => none
  | ["get-offset", _, s, t, pidS, cons] =>
    -- the offset stored for an identity an SDK consumer uses: WHEN the client's background task and its
    -- polls store offsets is a matter of scheduling, so the stored value is judged by the property's
    -- bound (never beyond what was yielded / fetched) and then adopted by the model
    match parseIdent s, parseIdent t, pidS.toNat?, parseConsumer cons with
    | some si, some ti, some pid, some cn =>
      match (resolvePart st.sys si ti pid).map (·.1) with
      | none => none
      | some key =>
        match st.sdkIds.find? (·.1 == (key, idKey cn)) with
        | none => none
        | some (_, (hi, polling)) =>
          let it := implS.splitOn " "
          let implOff : Option Nat := if implS == "ok none" then none else (it.getD 3 "").toNat?
          let cur := ((st.spec.get key).map (·.cur)).getD 0
          let bound : Option Nat := if polling then some cur else hi
          let v := match implOff, bound with
            | some o, some b => if o > b then [s!"SPEC-VIOL {st.line} class=commit-beyond-yielded op={opS} bound={b} impl={implS}"] else []
            | some _, none => [s!"SPEC-VIOL {st.line} class=commit-beyond-yielded op={opS} bound=nothing-yielded impl={implS}"]
            | none, _ => []
          let st := match implOff with
            | some o => (st.apply (.core 0 (.storeOffset 0 si ti (some pid) cn o))).1
            | none => (st.apply (.core 0 (.deleteOffset 0 si ti (some pid) cn))).1
          some (viol (cov st "op:get-offset-sdk") v)
    | _, _, _, _ => none
  | ["x-group-complete", s, t, g] =>
    -- every message of every partition of the topic has been yielded by some member of the group
    match parseIdent s, parseIdent t, g.toNat? with
    | some si, some ti, some gid =>
      match st.sys.findStream si with
      | .error _ => none
      | .ok sx => match sx.findTopic ti with
        | .error _ => none
        | .ok tx =>
          -- (only meaningful when members of this group have consumed in this history)
          let v := if !(st.sdkIds.any (fun e => e.1.2 == gid + 1000000)) then [] else tx.parts.filterMap (fun (pid, _) =>
            let key : PKey := (sx.id, tx.id, pid)
            match st.spec.get key with
            | none => none
            | some sp =>
              if sp.msgs.isEmpty then none else
              let info := (st.sdkIds.find? (·.1 == (key, gid + 1000000))).map (·.2)
              let hi := info.bind (·.1)
              -- a group that commits on polling acknowledges what it fetched: what a dropped member had
              -- fetched and not yet yielded is skipped by design (at-most-once), so completeness is not required
              if (info.map (·.2)).getD false then none else
              if hi == some sp.cur then none else
                some s!"SPEC-VIOL {st.line} class=group-incomplete partition={pid} last-offset={sp.cur} yielded-up-to={repr hi}")
          some (viol (cov st "op:x-group-complete") v)
    | _, _, _ => none
  | ["cdrop", c] =>
    match st.consumers.find? (·.1 == c.toNat?.getD 0) with
    | none => some (st, [])
    | some (ci, sc) =>
      let (st1, sc1) := sdkDeliver st sc
      let st1 := { st1 with consumers := st1.consumers.filter (·.1 ≠ ci), lastTopic := [], snap := [],
                            outOfStep := if sc1.spinning then (sc1.conn - 1000) :: st1.outOfStep else st1.outOfStep }
      some (cov st1 "op:cdrop", [])
  | _ => none

/-- `ok pid cur a,b,c` against `ok pid cur a,b,c,d,…`: same partition and head, and the implementation's
messages are a prefix of the expected ones (no-wait: the rest is still on its way to the log) -/
def pollPrefixOk (exp impl : String) : Bool :=
  let et := exp.splitOn " "
  let it := impl.splitOn " "
  if et.headD "" != "ok" || it.headD "" != "ok" then exp == impl else
  let el := ((et.getD 3 "").splitOn ",").filter (· ≠ "")
  let il := ((it.getD 3 "").splitOn ",").filter (· ≠ "")
  et.getD 1 "" == it.getD 1 "" && et.getD 2 "" == it.getD 2 "" && il.isPrefixOf el

def idsOfSpec (ms : String) : List Nat :=
  (ms.splitOn ",").filterMap (fun m => ((m.splitOn ":").headD "").toNat?)

/-- C12 oracles for the concurrent polls of a stress run, judged against the final content `final` of the
partition (specification state after the linearisation has been replayed). -/
def stressJudge (st : St) (final : List Msg) : List String := Id.run do
  let mut out : List String := []
  let ackOfId (id : Nat) : Option (Nat × Nat × Nat × Nat × List Nat) := st.xacks.find? (fun a => a.2.2.2.2.contains id)
  -- every acknowledged batch is in the linearisation exactly once
  let linKeys := st.xlin.map (fun l => (l.2.2.1, l.2.2.2))
  let ackKeys := st.xacks.map (fun a => (a.2.2.1, a.2.2.2.1))
  if !(ackKeys.all linKeys.contains && linKeys.all ackKeys.contains && linKeys.length == ackKeys.length) then
    out := out ++ [s!"SPEC-VIOL {st.line} class=stress-linearisation-incomplete acks={ackKeys.length} lin={linKeys.length}"]
  -- every message of every acknowledged batch is stored exactly once, the batch on consecutive offsets
  for a in st.xacks do
    let ids := a.2.2.2.2
    let offs := ids.map (fun id => (final.filter (fun m => m.id == id)).map (·.off))
    if !(offs.all (fun l => l.length == 1)) then
      out := out ++ [s!"SPEC-VIOL {st.line} class=stress-lost-or-duplicated producer={a.2.2.1} seq={a.2.2.2.1} offsets={offs}"]
    else
      let fl := offs.flatten
      let ok := (fl.zip (fl.drop 1)).all (fun p => p.2 == p.1 + 1)
      if !ok then
        out := out ++ [s!"SPEC-VIOL {st.line} class=stress-batch-torn producer={a.2.2.1} seq={a.2.2.2.1} offsets={fl}"]
  for p in st.xpolls do
    let (b, e, off, count, ans) := p
    let at' := ans.splitOn " "
    if at'.headD "" != "ok" then
      out := out ++ [s!"SPEC-VIOL {st.line} class=stress-poll-error poll={off}+{count} impl={ans}"]
    else
      let ents := ((at'.getD 3 "").splitOn ",").filter (· ≠ "")
      let offs := ents.map (fun x => ((x.splitOn ":").headD "").toNat?.getD 0)
      -- genuine: each returned message is the accepted message at that offset
      let genuine := ents.all (fun x =>
        let o := ((x.splitOn ":").headD "").toNat?.getD 0
        match final.find? (fun m => m.off == o) with
        | some m => showMsg st.enc m == x
        | none => false)
      if !genuine then
        out := out ++ [s!"SPEC-VIOL {st.line} class=stress-poll-not-genuine poll={off}+{count} impl={ans}"]
      -- contiguous from the requested offset (or from the earliest retained one)
      let first := max off ((final.head?.map (·.off)).getD 0)
      let contiguous := (offs.zip (offs.drop 1)).all (fun q => q.2 == q.1 + 1) &&
        (offs.head?.map (· == first)).getD true && offs.length ≤ count
      if !contiguous then
        out := out ++ [s!"SPEC-VIOL {st.line} class=stress-poll-not-contiguous poll={off}+{count} impl={ans}"]
      -- nothing from the future: the batch of a returned message was sent before the poll was answered
      let future := ents.any (fun x =>
        let id := ((x.splitOn ":").getD 1 "").toNat?.getD 0
        match ackOfId id with
        | some a => e < a.1
        | none => false)
      if future then
        out := out ++ [s!"SPEC-VIOL {st.line} class=stress-poll-from-future poll={off}+{count} impl={ans}"]
      -- wait-confirmation: what was acknowledged before the poll was sent is in the answer
      if !st.nowait then
        let missing := st.xacks.any (fun a =>
          a.2.1 < b && a.2.2.2.2.any (fun id =>
            match final.find? (fun m => m.id == id) with
            | some m => off ≤ m.off && m.off < off + count && !offs.contains m.off
            | none => false))
        if missing then
          out := out ++ [s!"SPEC-VIOL {st.line} class=stress-ack-not-visible poll={off}+{count} begin={b} impl={ans}"]
  return out

def stepLine (st : St) (raw : String) : St × List String :=
  let st := { st with line := st.line + 1 }
  let (opS, implS) := match raw.splitOn "\t" with
    | [a, b] => (a, b.trimAscii.toString)
    | [a] => (a, "")
    | a :: rest => (a, ("\t".intercalate rest).trimAscii.toString)
    | [] => ("", "")
  let toks := (opS.trimAscii.toString.splitOn " ").filter (· ≠ "")
  -- x-lin <b> <e> <producer> <seq> <s> <t> <pid> <msgs>: the next batch of the linearisation of a stress
  -- run; it must respect real time (a send that was answered before another was issued comes first)
  -- and is then executed by the model as an ordinary send
  let (st, toks, linMsgs) : St × List String × List String :=
    if toks.headD "" == "x-lin" then
      let n (i : Nat) : Nat := (toks.getD i "").toNat?.getD 0
      let bad := st.xlin.any (fun l => l.1 > n 2) ||
                 st.xlin.any (fun l => l.2.2.1 == n 3 && l.2.2.2 ≥ n 4)
      let v := if bad then [s!"SPEC-VIOL {st.line} class=stress-order-not-real-time producer={n 3} seq={n 4} begin={n 1} end={n 2}"] else []
      ({ st with xlin := st.xlin ++ [(n 1, n 2, n 3, n 4)], specViol := st.specViol + v.length },
        ["send", "0", toks.getD 5 "", toks.getD 6 "", "pid:" ++ toks.getD 7 "", toks.getD 8 ""], v)
    else (st, toks, [])
  let (snap', snapR', snapV) := snapCheck st toks opS.trimAscii.toString implS
  let st := { st with snap := snap', snapRestart := snapR' }
  let msgs0 := linMsgs ++ match snapV with
    | none => []
    | some cls => [s!"SPEC-VIOL {st.line} class={cls} op={opS.trimAscii.toString} expected=(its own earlier answer) impl={implS}"]
  let st := { st with specViol := st.specViol + msgs0.length }
  if let some r := sdkLine st toks opS.trimAscii.toString implS then (r.1, msgs0 ++ r.2) else
  match parseAOp st.enc toks (implS.splitOn " ") with
  | none =>                                -- not modelled (connection handling, ls, scan, …)
    if toks.headD "" == "conn" then
      let c := (toks.getD 1 "").toNat?.getD 0
      let st := if toks.getD 2 "tcp" == "http" then { st with httpConns := c :: st.httpConns, cov := bump st.cov "op:conn-http" }
                else { st with httpConns := st.httpConns.filter (· ≠ c) }
      (st, msgs0)
    else if toks.headD "" == "ls" then
      let v := if st.relaxed then [] else sizeVsFiles st implS
      -- C16: the segment count reported by `stats` on the line before = the log files that exist
      let v := v ++ (match st.lastStats with
        | some (ln, n) =>
          let stored := ((parseLs implS).filter (fun f => f.1.startsWith "streams/" && f.1.endsWith ".log")).length
          if ln + 1 == st.line && !st.relaxed && stored != n then
            [s!"SPEC-VIOL {st.line} class=figures-segments reported segments={n} stored log files={stored}"]
          else []
        | none => [])
      ({ st with specViol := st.specViol + v.length }, msgs0 ++ v)
    else if toks.headD "" == "hold" then ({ st with held := true, settled := !st.nowait, cov := bump st.cov "op:hold" }, msgs0)
    else if toks.headD "" == "release" then ({ st with held := false, settled := true }, msgs0)
    else if toks.headD "" == "settle" then ({ st with settled := !st.held }, msgs0)
    else if toks.headD "" == "stress" then
      let st := { st with cov := bump st.cov "op:stress", xacks := [], xlin := [], xpolls := [] }
      if implS.startsWith "ok" then (st, msgs0)
      else ({ st with specViol := st.specViol + 1 }, msgs0 ++ [s!"SPEC-VIOL {st.line} class=stress-failed impl={implS}"])
    else if toks.headD "" == "x-ack" then
      -- x-ack <b> <e> <producer> <seq> <s> <t> <pid> <msgs>
      let n (i : Nat) : Nat := (toks.getD i "").toNat?.getD 0
      let st := { st with xacks := st.xacks ++ [(n 1, n 2, n 3, n 4, idsOfSpec (toks.getD 8 ""))], cov := bump st.cov "x:ack" }
      if implS == "ok" then (st, msgs0)
      else ({ st with specViol := st.specViol + 1 }, msgs0 ++ [s!"SPEC-VIOL {st.line} class=stress-send-error op={opS.trimAscii.toString} impl={implS}"])
    else if toks.headD "" == "x-poll" then
      -- x-poll <b> <e> <s> <t> <pid> <off> <count>
      let n (i : Nat) : Nat := (toks.getD i "").toNat?.getD 0
      let empty := ((implS.splitOn " ").getD 3 "") == ""
      ({ st with xpolls := st.xpolls ++ [(n 1, n 2, n 6, n 7, implS)],
                 cov := bump st.cov (if empty then "x:poll-empty" else "x:poll-nonempty") }, msgs0)
    else if toks.headD "" == "x-end" then
      -- x-end <s> <t> <pid>
      let key : Option PKey := do
        let si ← parseIdent (toks.getD 1 ""); let ti ← parseIdent (toks.getD 2 "")
        let pid ← (toks.getD 3 "").toNat?
        (resolvePart st.sys si ti pid).map (·.1)
      let final := match key.bind st.spec.get with
        | some sp => sp.msgs
        | none => []
      let v := stressJudge st final
      -- how concurrent was it: polls that overlapped a send in real time
      let overl := st.xpolls.filter (fun p => st.xacks.any (fun a => a.1 < p.2.1 && p.1 < a.2.1))
      let cov := (st.cov ++ [("x:polls-overlapping-a-send", overl.length)])
      ({ st with specViol := st.specViol + v.length, xacks := [], xlin := [], xpolls := [], cov := cov }, msgs0 ++ v)
    else if toks.headD "" == "raw-refused" then
      -- C13: the body of this frame is a mutated valid command that the codec model refuses, sent on an
      -- authenticated connection: the server must not answer with a success status
      let kind := (implS.splitOn " ").headD ""
      let okStatus := kind == "resp" && (implS.splitOn " ").getD 1 "" == "0"
      let st := { st with cov := bump st.cov ("refused:" ++ (if okStatus then "resp-ok" else if kind == "resp" then "resp-error" else kind)) }
      if okStatus then
        ({ st with specViol := st.specViol + 1 }, msgs0 ++ [s!"SPEC-VIOL {st.line} class=malformed-frame-accepted op={opS.trimAscii.toString} impl={implS}"])
      else if kind == "resp" || kind == "closed" || kind == "timeout" || kind == "panic" then (st, msgs0)
      else ({ st with specViol := st.specViol + 1 }, msgs0 ++ [s!"SPEC-VIOL {st.line} class=malformed-frame-effect impl={implS}"])
    else if toks.headD "" == "raw-send" then
      -- C13: a frame that is not a valid request is answered with an error status, a closed
      -- connection, or silence (the server is waiting for the rest of a declared length)
      let kind := (implS.splitOn " ").headD ""
      let st := { st with cov := bump st.cov ("raw:" ++ (if kind == "resp" then (if (implS.splitOn " ").getD 1 "" == "0" then "resp-ok" else "resp-error") else kind)) }
      -- a panic of the connection task closes that connection: allowed ("error or a closed connection")
      if kind == "resp" || kind == "closed" || kind == "timeout" || kind == "panic" then (st, msgs0)
      else ({ st with specViol := st.specViol + 1 }, msgs0 ++ [s!"SPEC-VIOL {st.line} class=malformed-frame-effect impl={implS}"])
    else if toks.headD "" == "restart-key" then
      -- C19: with another key (or encryption switched on/off) the journal cannot be read: the server
      -- must report that instead of starting with whatever it can make of the data
      let st := { st with cov := bump st.cov "op:restart-key" }
      if implS.startsWith "ready" then
        ({ st with specViol := st.specViol + 1 },
          msgs0 ++ [s!"SPEC-VIOL {st.line} class=wrong-key-accepted op={opS.trimAscii.toString} impl={implS}"])
      else (st, msgs0)
    else if (toks.headD "").startsWith "scan" then
      -- C10 / C19: a raw password, raw token, payload or journalled name must not be in any file
      let st := { st with cov := bump st.cov "op:scan" }
      if implS.startsWith "ok found" then
        ({ st with specViol := st.specViol + 1 },
          msgs0 ++ [s!"SPEC-VIOL {st.line} class=secret-in-clear op={opS.trimAscii.toString} impl={implS}"])
      else (st, msgs0)
    else (st, msgs0)
  | some aop0 =>
    -- HTTP sessions are stateless: a login does not first log out whoever the connection was (over TCP that
    -- step fails when that user has been deleted meanwhile); it just obtains a new token
    let st := if st.httpConns.contains ((toks.getD 1 "").toNat?.getD 1000000) &&
                 (toks.headD "" == "login" || toks.headD "" == "login-pat") then
        (let c := (toks.getD 1 "").toNat?.getD 1000000
         -- (a failed login keeps the token the client had: only the TCP-only failure is taken out)
         if st.asys.userOf c ≠ 0 ∧ (find? st.asys.users (st.asys.userOf c)).isNone then
           { st with asys := { st.asys with sessions := erase st.asys.sessions c } }
         else st)
      else st
    -- no-wait confirmation with batches still on their way to the log: a poll returns a prefix of the
    -- specification's answer; an auto-committing poll stores the offset of the last message it returned
    let relaxedPoll := st.relaxed && toks.headD "" == "poll"
    let (aop, follow) : AOp × Option AOp := match relaxedPoll, aop0 with
      | true, .core cn (.poll c si ti pid cons k count true) =>
        let lastOff : Option Nat := match implS.splitOn " " with
          | "ok" :: _ :: _ :: l :: _ => ((l.splitOn ",").getLast?.bind (fun e => ((e.splitOn ":").headD "").toNat?))
          | _ => none
        (.core cn (.poll c si ti pid cons k count false),
         lastOff.map (fun o => AOp.core cn (.storeOffset c si ti pid cons o)))
      | _, a => (a, none)
    let (asys', out, effs) := stepA st.asys aop
    let (asys', effs) := match follow with
      | some a2 => let r := stepA asys' a2; (r.1, effs ++ r.2.2)
      | none => (asys', effs)
    -- no-wait: a send, and a flush or save of what was buffered, hand the batch to the persister task; until
    -- the harness has settled a poll may see a prefix only (cache evicted, write still queued)
    let st := if st.nowait && ["send", "flush", "save"].contains (toks.headD "") then { st with settled := false } else st
    let st := if toks.headD "" == "stats" && implS.startsWith "ok" then
        match (implS.splitOn " ").findSome? (fun t => if t.startsWith "segments=" then (t.drop 9).toString.toNat? else none) with
        | some n => { st with lastStats := some (st.line, n) }
        | none => st
      else st
    -- the oracles below judge the data plane: they look at authorised core operations only
    let op : Op := match aop, out with
      | .core _ o, .err "unauthenticated" => (match o with | .clock t => .clock t | _ => .stats)
      | .core _ o, .err "unauthorized" => (match o with | .clock t => .clock t | _ => .stats)
      | .core _ o, _ => o
      | _, _ => .stats
    let mtxt := showOut st.enc out
    let itxt := canonImpl toks implS
    let cov := bump st.cov ("op:" ++ toks.headD "")
    let cov := match op with
      | .poll _ si ti pid _ (.offset o) count _ =>
        (match resolvePart st.sys si ti (pid.getD 1) with
          | some (_, p) => bump cov ("tier:" ++ pollBranch p o count)
          | none => cov)
      | _ => cov
    let cov := match out with
      | .err e => bump cov ("err:" ++ e)
      | _ => cov
    let cov := effs.foldl (fun c e => bump c ("br:" ++ (match e with
      | .created .. => "part-created" | .deleted .. => "part-deleted" | .appended .. => "appended"
      | .purged .. => "purged" | .dropped .. => "retention-dropped" | .restarted .. => "part-restarted"
      | .setExpiry .. => "expiry-set" | .offStored .. => "offset-stored" | .offDeleted .. => "offset-deleted"))) cov
    -- HTTP: an error travels as a status code (the SDK reports `http_response_error`), and a read of
    -- something that is not there or not permitted is a 404/403 where the binary protocol answers "none"
    let viaHttp := st.httpConns.contains ((toks.getD 1 "").toNat?.getD 1000000)
    let noData (x : String) : Bool := x.startsWith "err" || x == "ok none"
    -- an error over HTTP has no name: downstream oracles see the model's name for it
    let itxt := if viaHttp && mtxt.startsWith "err" && itxt.startsWith "err" then mtxt else itxt
    let httpSame := viaHttp && ((mtxt.startsWith "err" && itxt.startsWith "err") || (noData mtxt && noData itxt &&
      ["stream", "topic", "group", "user", "get-offset", "topics", "groups"].contains (toks.headD "")))
    let msgs1 := if mtxt == itxt || httpSame || (relaxedPoll && pollPrefixOk mtxt itxt) then [] else
      [s!"CORR-DIFF {st.line} kind={diffKind toks mtxt itxt} op={opS.trimAscii.toString} model={mtxt} impl={itxt}"]
    let extra : List String :=
      authzCheck st aop opS.trimAscii.toString itxt ++ gateCheck st op itxt ++ retentionCheck st effs ++
      (match op with
        | .topicInfo si _ => (match st.sys.findStream si with
            | .ok s => figuresCheck st s.id itxt
            | .error _ => [])
        | .groupInfo si ti .. =>
          let np : Option Nat := match st.sys.findStream si with
            | .ok s => (match s.findTopic ti with | .ok t => some t.parts.length | .error _ => none)
            | .error _ => none
          groupCheck st itxt np
        | _ => [])
    -- C08: a member's polls without a partition id visit each partition of its share in turn
    let (rot', rotMsgs) : List ((Nat × Nat × Nat × Nat) × List Nat) × List String :=
      match op with
      | .poll cn si ti none c _ _ _ =>
        if !c.grp then (st.rot, []) else
        (match (itxt.splitOn " "), st.sys.findStream si with
        | "ok" :: pidS :: _, .ok sx =>
          (match sx.findTopic ti, pidS.toNat? with
          | .ok tx, some pid =>
            if pid == 0 then (st.rot, []) else
            let client := st.sys.clientOf cn
            let key := (sx.id, tx.id, c.id, client)
            let share : List Nat := match find? tx.groups c.id with
              | some g => (match g.members.find? (fun m => m.id = client) with
                | some m => m.share
                | none => [])
              | none => []
            let served := ((st.rot.find? (·.1 == key)).map (·.2)).getD [] ++ [pid]
            let n := share.length
            let window := served.drop (served.length - n)
            let bad := n ≥ 2 && served.length ≥ n && !(share.all (fun p => window.contains p))
            ((st.rot.filter (·.1 != key)) ++ [(key, served)],
              if bad then [s!"SPEC-VIOL {st.line} class=group-rotation the member's last {n} polls were served from {window}, its share is {share} op={opS.trimAscii.toString}"] else [])
          | _, _ => (st.rot, []))
        | _, _ => (st.rot, []))
      | .clock _ | .send .. => (st.rot, [])
      | .poll .. => (st.rot, [])
      | _ => ([], [])
    let extra := extra ++ rotMsgs
    let isMut := !(toks.headD "" == "poll" && toks.getLast? == some "0") &&
      !(["topic", "stats", "get-offset", "clock", "streams", "stream", "topics", "groups", "group", "me"].contains (toks.headD ""))
    let lastTopic := if isMut then [] else st.lastTopic
    let lastTopic := match op with
      | .topicInfo si _ => (match st.sys.findStream si, parseTopicAnswer itxt with
          | .ok s, some (tid, _, size, parts) => ((s.id, tid), (size, parts)) :: lastTopic.filter (fun e => e.1 ≠ (s.id, tid))
          | _, _ => lastTopic)
      | _ => lastTopic
    let sv := match specCheck st op itxt with
      | some (cls, exp) =>
        if relaxedPoll && pollPrefixOk exp itxt then none
        else if viaHttp && noData exp && noData itxt then none
        else some (cls, exp)
      | none => none
    -- a restart on the files of a graceful shutdown must succeed
    let extra := extra ++ (if toks == ["restart"] && !implS.startsWith "ok" then
      [s!"SPEC-VIOL {st.line} class=obs-changed-restart-failed the server did not start again: {implS}"] else [])
    let msgs2 := match sv with
      | none => []
      | some (cls, exp) =>
        [s!"SPEC-VIOL {st.line} class={cls}{if mtxt == itxt then ":model-agrees" else ""} op={opS.trimAscii.toString} expected={exp} impl={itxt}"]
    ({ st with asys := asys', spec := applyEffects st.sys.cfg st.spec effs, cov := cov
               corr := st.corr + msgs1.length, specViol := st.specViol + msgs2.length + extra.length
               modelled := st.modelled + 1, lastTopic := lastTopic, rot := rot' },
      msgs0 ++ msgs1 ++ msgs2 ++ extra)

def parseCfg (line : String) : St :=
  let kv := kvs (line.splitOn " ")
  let n (k d : String) : Nat := (kvGet kv k d).toNat?.getD 0
  let optN (k : String) (noneWord : String) : Option Nat :=
    let v := kvGet kv k noneWord
    if v == noneWord then none else v.toNat?
  let cfg : Cfg := { reqToSave := n "save" "1000", segSize := n "seg" "1000000000",
                     cacheOn := kvGet kv "cache" "0" != "0", idxCacheOn := kvGet kv "idxcache" "1" == "1",
                     dedupOn := kvGet kv "dedup" "0" == "1" }
  let scfg : SCfg := { deleteOldest := kvGet kv "delete_oldest" "0" == "1",
                       defaultExpiry := optN "default_expiry" "never",
                       defaultMax := optN "default_max" "unlimited" }
  { enc := if kvGet kv "enc" "-" == "-" then 0 else 28, nowait := kvGet kv "confirm" "wait" == "nowait",
    asys := ASys.init (Sys.init cfg scfg (n "clock" "0")) (n "pat_max" "100"), spec := [] }

partial def loop (h : IO.FS.Stream) (st : St) : IO St := do
  let line ← h.getLine
  if line.isEmpty then return st
  let l := (line.dropEndWhile (fun c => c == '\n' || c == '\r')).toString
  if l.trimAscii.toString.isEmpty then loop h st else
  let (st', msgs) := stepLine st l
  for m in msgs do IO.println m
  loop h st'

/-! ## crash mode (C04): recovery from crash images

Input: the main trace, then for each crash image a block
`IMAGE <opLine> <eventNo> <kind> <relpath> <len> <torn>` · recovery lines `op\tresult` · `ENDIMAGE`.
`opLine` = the (1-based) trace line during which the file mutation happened. -/

structure ImageBlock where
  opLine : Nat
  header : String
  lines : List String

def splitImages (ls : List String) : List String × List ImageBlock :=
  let rec go (ls : List String) (main : List String) (cur : Option ImageBlock) (acc : List ImageBlock) :
      List String × List ImageBlock :=
    match ls with
    | [] => (main.reverse, acc.reverse)
    | l :: rest =>
      if l.startsWith "IMAGE " then
        let f := l.splitOn " "
        go rest main (some { opLine := (f.getD 1 "").toNat?.getD 0, header := l, lines := [] }) acc
      else if l.startsWith "ENDIMAGE" then
        match cur with
        | some b => go rest main none ({ b with lines := b.lines.reverse } :: acc)
        | none => go rest main none acc
      else match cur with
        | some b => go rest main (some { b with lines := l :: b.lines }) acc
        | none => go rest (l :: main) none acc
  go ls [] none []

/-- messages a recovery poll returned: `ok pid cur m1,m2…` → list of message texts -/
def pollMsgs (impl : String) : Option (Nat × List String) :=
  match impl.splitOn " " with
  | "ok" :: _ :: cur :: rest => some (cur.toNat?.getD 0, ((rest.headD "").splitOn ",").filter (· ≠ ""))
  | _ => none

def msgOff (m : String) : Nat := ((m.splitOn ":").headD "").toNat?.getD 0

/-- messages the L1 model holds on disk (log + index written) for a partition -/
def durableOf (y : Sys) (k : PKey) : List Msg :=
  match find? y.streams k.1 with
  | some s => (match find? s.topics k.2.1 with
    | some t => (match find? t.parts k.2.2 with
      | some p => ((p.segs.map (fun sg => batchesMsgs sg.log)).flatten)
      | none => [])
    | none => [])
  | none => []

/-- judge one crash image. `before` / `after`: judge states around the interrupted operation. -/
def judgeImage (before after : St) (b : ImageBlock) (dataOp : Bool) : List String :=
  let hdr := b.header
  let tornState := hdr.contains "state/log" && !(hdr.endsWith " full")
  match b.lines with
  | [] => [s!"SPEC-VIOL {b.opLine} class=crash-no-recovery {hdr}"]
  | first :: rest =>
    let ready := ((first.splitOn "\t").getD 1 "").trimAscii.toString
    if !ready.startsWith "ready" then
      -- a torn state-log tail may be *reported* (start-up refuses); anything else must start
      if tornState then [] else [s!"SPEC-VIOL {b.opLine} class=crash-init-failed {hdr} start-up answered: {ready}"]
    else
    -- recovery lines come in pairs per partition: poll-before-send, send, poll-after-send
    let parsed := rest.map (fun l => match l.splitOn "\t" with
      | [o, r] => (o.trimAscii.toString, r.trimAscii.toString)
      | o :: _ => (o.trimAscii.toString, "")
      | [] => ("", ""))
    let died := parsed.any (fun p => p.2 == "died" || p.2.startsWith "panic")
    (if died then [s!"SPEC-VIOL {b.opLine} class=crash-panic {hdr} the recovered server died or panicked"] else []) ++
    (parsed.zipIdx.filterMap (fun (p, i) =>
      let toks := (p.1.splitOn " ").filter (· ≠ "")
      match toks with
      | ["poll", _, s, t, pid, _, "offset:0", _, _] =>
        match parseIdent s, parseIdent t, pid.toNat? with
        | some si, some ti, some pidN =>
          match resolvePart after.sys si ti pidN, pollMsgs p.2 with
          | some (key, _), some (_, ms) =>
            let acc : List String := ((after.spec.get key).map (fun sp => sp.msgs.map (showMsg after.enc))).getD []
            let accB : List String := ((before.spec.get key).map (fun sp => sp.msgs.map (showMsg before.enc))).getD []
            let dur := (durableOf before.sys key).length
            -- is this the poll after the post-recovery send? (preceded by a send line)
            let afterSend := i > 0 && ((parsed.getD (i - 1) ("", "")).1.startsWith "send")
            if afterSend then
              -- R ++ [new]: the new message continues at the next offset
              let r := ms.dropLast
              let new := ms.getLast?.getD ""
              let expectOff := match r.getLast? with
                | some l => msgOff l + 1
                | none => msgOff new     -- nothing recovered: no constraint from R
              -- the id of the message that was sent after the recovery, and what the poll before it returned
              let sentId : String := (((((parsed.getD (i - 1) ("", "")).1.splitOn " ").filter (· ≠ "")).getLast?.getD "").splitOn ":").headD ""
              let newId : String := (new.splitOn ":").getD 1 ""
              let beforeSend : List String := match pollMsgs (parsed.getD (i - 2) ("", "")).2 with
                | some (_, l) => l
                | none => []
              if (parsed.getD (i - 1) ("", "")).2 != "ok" then none
              else if ms.isEmpty || newId != sentId then some s!"SPEC-VIOL {b.opLine} class=crash-send-lost {hdr} partition={key.1}/{key.2.1}/{key.2.2} the message sent after recovery (id {sentId}) is not the last message served: {ms.map msgOff}"
              else if i ≥ 2 && r != beforeSend then some s!"SPEC-VIOL {b.opLine} class=crash-send-changed-log {hdr} partition={key.1}/{key.2.1}/{key.2.2} before the send {beforeSend.map msgOff}, after it {ms.map msgOff}"
              else if msgOff new != expectOff || (r.map msgOff).any (· == msgOff new) then
                some s!"SPEC-VIOL {b.opLine} class=crash-offset-reuse {hdr} partition={key.1}/{key.2.1}/{key.2.2} after recovery the next message got offset {msgOff new}, recovered={r.map msgOff}"
              else none
            else if !dataOp then none
            else
              -- R must be a gap-free prefix of what was accepted, containing everything durable
              let isPrefixOf (a bb : List String) : Bool := a.length ≤ bb.length && a == bb.take a.length
              if !(isPrefixOf ms acc || isPrefixOf ms accB) then
                some s!"SPEC-VIOL {b.opLine} class=crash-not-prefix {hdr} partition={key.1}/{key.2.1}/{key.2.2} recovered={ms.map msgOff} accepted={acc.map msgOff}"
              else if ms.length < dur then
                some s!"SPEC-VIOL {b.opLine} class=crash-lost-durable {hdr} partition={key.1}/{key.2.1}/{key.2.2} recovered {ms.length} messages, {dur} had been written (log and index) before the crash"
              else none
          | _, _ => none
        | _, _, _ => none
      | _ => none))

def crashMain : IO UInt32 := do
  let stdin ← IO.getStdin
  let first ← stdin.getLine
  let st0 := parseCfg ((first.splitOn "\t").headD "")
  let mut all : List String := []
  let mut line ← stdin.getLine
  while !line.isEmpty do
    all := (line.dropEndWhile (fun c => c == '\n' || c == '\r')).toString :: all
    line ← stdin.getLine
  let (main, images) := splitImages all.reverse
  let mut st := st0
  let mut viol := 0
  let mut judged := 0
  for l in main do
    if l.trimAscii.toString.isEmpty then continue
    let before := st
    let (st', msgs) := stepLine st l
    st := st'
    for m in msgs do IO.println m
    let opName := ((l.splitOn "\t").headD "").trimAscii.toString.splitOn " " |>.headD ""
    let dataOp := opName == "send" || opName == "flush" || opName == "save" || opName == "poll" ||
      opName == "store-offset" || opName == "delete-offset"
    for b in images do
      if b.opLine == st.line then
        judged := judged + 1
        for m in judgeImage before st b dataOp do
          viol := viol + 1
          IO.println m
  IO.println ("COV " ++ " ".intercalate (st.cov.map (fun e => s!"{e.1}={e.2}")) ++ s!" images={judged}")
  IO.println s!"DONE lines={st.line} modelled={st.modelled} corr={st.corr} spec={st.specViol + viol}"
  return 0

def main (args : List String) : IO UInt32 := do
  let stdin ← IO.getStdin
  match args with
  | ["sys"] =>
    let first ← stdin.getLine
    let st0 := parseCfg ((first.splitOn "\t").headD "")
    let st ← loop stdin st0
    IO.println ("COV " ++ " ".intercalate (st.cov.map (fun e => s!"{e.1}={e.2}")))
    IO.println s!"DONE lines={st.line} modelled={st.modelled} corr={st.corr} spec={st.specViol}"
    return 0
  | ["journal"] => Driver.Journal.main
  | ["crash"] => crashMain
  | ["permsound", a, b] =>
    -- search the enumerated space for an input on which a generated rule violates the specification
    let a := a.toNat?.getD 0
    let b := b.toNat?.getD 0
    let mut i := a
    let mut bad := 0
    while i < b do
      let u := Perm.unsoundAt i
      if !u.isEmpty then
        bad := bad + 1
        if bad ≤ 20 then IO.println s!"UNSOUND idx={i} rules={u}"
      i := i + 1
    IO.println s!"DONE checked={b - a} unsound={bad}"
    return 0
  | ["permsound", a, b, ks, kt] =>
    let a := a.toNat?.getD 0
    let b := b.toNat?.getD 0
    let ks := ks.toNat?.getD Perm.S
    let kt := kt.toNat?.getD Perm.T
    let mut i := a
    let mut bad := 0
    while i < b do
      let u := Perm.unsoundAtKeys i ks kt
      if !u.isEmpty then
        bad := bad + 1
        if bad ≤ 20 then IO.println s!"UNSOUND idx={i} rules={u} record-about-stream={ks} topic={kt}"
      i := i + 1
    IO.println s!"DONE checked={b - a} unsound={bad}"
    return 0
  | ["perm", a, b, variant] =>
    -- exhaustive table of the generated permission rules (C09), same line format as `harness perm`
    let a := a.toNat?.getD 0
    let b := b.toNat?.getD 0
    let (ks, kt, ku) :=
      if variant == "other-stream" then (Perm.S + 1, Perm.T, Perm.U)
      else if variant == "other-topic" then (Perm.S, Perm.T + 1, Perm.U)
      else if variant == "other-user" then (Perm.S, Perm.T, Perm.U + 1)
      else (Perm.S, Perm.T, Perm.U)
    let out ← IO.getStdout
    out.putStrLn ("rules " ++ ",".intercalate Perm.publicRules)
    let mut i := a
    while i < b do
      out.putStrLn (Perm.evalLine i ks kt ku)
      i := i + 1
    return 0
  | _ =>
    IO.eprintln "usage: judge sys < trace | judge perm <from> <to> <variant>"
    return 2

end Driver

def main (args : List String) : IO UInt32 := Driver.main args
